(** The oracles of Corr/C03.v and Corr/C19.v are written independently of the model's step
    functions; these lemmas tie their vocabulary to the abstract specification the theorems of
    Props/C03.v and Props/C19.v are stated with, so that the theorems speak about exactly what
    the oracles compute. *)
From Coq Require Import List ZArith NArith Bool Lia.
From BV Require Import Model.Engine Proofs.Engine Corr.EngineCase Corr.C03 Corr.C19.
Import ListNotations.
Local Open Scope N_scope.

(** C03 oracle: link conditions as a list of [lstat] = the model's link table *)
Lemma stat_at_links : forall ls e, stat_at (map stat_of_link ls) e = lstat_of ls e.
Proof.
  intros ls e. unfold stat_at, lstat_of, nthN. rewrite nth_error_map.
  destruct (nth_error ls (N.to_nat e)) as [[| | |]|]; reflexivity.
Qed.

Lemma open_at_links : forall ls e, open_at (map stat_of_link ls) e = link_open ls e.
Proof. intros. unfold open_at, link_open. rewrite stat_at_links. reflexivity. Qed.

Lemma o_sent_spec : forall R (ex : R -> N) ls rs, o_sent ex (map stat_of_link ls) rs = spec_sent ex ls rs.
Proof. intros. unfold o_sent, spec_sent. apply filter_ext. intros r. apply open_at_links. Qed.

Lemma o_errs_spec : forall R (ex : R -> N) ls rs, o_errs ex (map stat_of_link ls) rs = spec_errs ex ls rs.
Proof.
  intros. unfold o_errs, spec_errs.
  rewrite (filter_ext (fun r => negb (open_at (map stat_of_link ls) (ex r))) (fun r => negb (link_open ls (ex r)))).
  - apply map_ext. intros r. rewrite stat_at_links. reflexivity.
  - intros r. rewrite open_at_links. reflexivity.
Qed.

(** C19 oracle: scope predicate and expected request lists = the model's *)
Lemma in_scope_filter_match : forall f i x, in_scope f i x = filter_match f i x.
Proof.
  intros [|l|l|l] i x; cbn [in_scope filter_match]; try reflexivity.
  unfold memNN. induction l as [|[a b] t IH]; [reflexivity|]. cbn. rewrite IH.
  rewrite (N.eqb_sym a), (N.eqb_sym b). reflexivity.
Qed.

Lemma flat_map_filter : forall A B (p : A -> bool) (g : A -> list B) l,
  flat_map g (filter p l) = flat_map (fun x => if p x then g x else []) l.
Proof.
  induction l as [|x t IH]; [reflexivity|]. cbn. destruct (p x); cbn; rewrite IH; reflexivity.
Qed.

Lemma inst_requests_flat : forall m : omap,
  filter_map to_request_cancel (map snd m) =
  flat_map (fun co => match o_st (snd co) with
                      | OIF => [mkCReq (o_key (snd co)) None]
                      | OOpen mt => [mkCReq (o_key (snd co)) (Some (m_oid mt))]
                      | CIF _ => []
                      end) m.
Proof.
  induction m as [|[c o] t IH]; [reflexivity|]. cbn [map snd filter_map flat_map].
  unfold to_request_cancel at 1. destruct (o_st o); cbn; rewrite IH; reflexivity.
Qed.

Lemma expected_cancels_model : forall f is_, expected_cancels f is_ = cancel_requests f is_.
Proof.
  intros. unfold expected_cancels, cancel_requests, filtered. rewrite flat_map_filter.
  apply flat_map_ext. intros [i x]. cbn [fst snd]. rewrite in_scope_filter_match.
  destruct (filter_match f i x); [|reflexivity]. symmetry. apply inst_requests_flat.
Qed.

Lemma filter_map_flat : forall A B (g : A -> option B) l,
  filter_map g l = flat_map (fun x => match g x with Some y => [y] | None => [] end) l.
Proof. induction l as [|x t IH]; [reflexivity|]. cbn. destruct (g x); cbn; rewrite IH; reflexivity. Qed.

Lemma expected_closes_model : forall strat base f s,
  expected_closes strat base f (insts s) = snd (default_close strat (fun i => base + i) s f).
Proof.
  intros. unfold expected_closes, default_close, filtered. cbn [snd].
  rewrite filter_map_flat, flat_map_filter. apply flat_map_ext. intros [i x]. cbn [fst snd].
  rewrite in_scope_filter_match. destruct (filter_match f i x); [|reflexivity].
  destruct (i_pos x) as [p|]; [|reflexivity]. destruct (i_price x) as [pr|]; [|reflexivity].
  cbn. unfold close_order, opposite, flip_side. destruct (p_side p); reflexivity.
Qed.

(** the oracle's pointwise marks are the model's [marked] (same definition, imported) and the
    model's recordings realise them: Proofs/Engine.v [record_marked]. *)
