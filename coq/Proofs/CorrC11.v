(** C11: the oracle of Corr/C11.v is no stricter than the model: on every well-formed case on
    which the model reproduces the observation ([corr_b]), the oracle accepts ([prop_b]).
    Together with the theorems of Proofs/Index.v this ties the executable oracle to the
    Prop-level statements: whatever the model produces satisfies the oracle. *)
From BV Require Import Base.Common Model.Index Model.ExecMap Proofs.Index Proofs.ExecMap Corr.C11.
From Coq Require Import Permutation.

(* ------------------------------------------------------------------------------------------ *)
(** * boolean equalities *)

Notation eqb_sound eqb := (forall a b, eqb a b = true -> a = b) (only parsing).
Notation eqb_refl eqb := (forall a, eqb a a = true) (only parsing).

Lemma N_sound : eqb_sound N.eqb. Proof. intros a b. apply N.eqb_eq. Qed.
Lemma N_refl : eqb_refl N.eqb. Proof. intros a. apply N.eqb_refl. Qed.

Lemma list_eqb_sound {A} (eqb : A -> A -> bool) : eqb_sound eqb -> eqb_sound (list_eqb eqb).
Proof.
  intros H. induction a as [|x t IH]; intros [|y t2]; cbn; try discriminate; [reflexivity|].
  intros E. apply andb_true_iff in E. destruct E as [E1 E2]. f_equal; [now apply H|now apply IH].
Qed.
Lemma list_eqb_refl {A} (eqb : A -> A -> bool) : eqb_refl eqb -> eqb_refl (list_eqb eqb).
Proof. intros H. induction a as [|x t IH]; cbn; [reflexivity|]. now rewrite H, IH. Qed.

Lemma option_eqb_sound {A} (eqb : A -> A -> bool) : eqb_sound eqb -> eqb_sound (option_eqb eqb).
Proof. intros H [a|] [b|]; cbn; try discriminate; [|reflexivity]. intros E. f_equal. now apply H. Qed.
Lemma option_eqb_refl {A} (eqb : A -> A -> bool) : eqb_refl eqb -> eqb_refl (option_eqb eqb).
Proof. intros H [a|]; cbn; [apply H|reflexivity]. Qed.

Lemma pair_eqb_sound {A B} (ea : A -> A -> bool) (eb : B -> B -> bool) :
  eqb_sound ea -> eqb_sound eb -> eqb_sound (pair_eqb ea eb).
Proof.
  intros Ha Hb [a1 b1] [a2 b2]. unfold pair_eqb. cbn. intros E. apply andb_true_iff in E.
  destruct E as [E1 E2]. f_equal; [now apply Ha|now apply Hb].
Qed.
Lemma pair_eqb_refl {A B} (ea : A -> A -> bool) (eb : B -> B -> bool) :
  eqb_refl ea -> eqb_refl eb -> eqb_refl (pair_eqb ea eb).
Proof. intros Ha Hb [a b]. unfold pair_eqb. cbn. now rewrite Ha, Hb. Qed.

Lemma kind_eqb_sound {AK} (eq : AK -> AK -> bool) : eqb_sound eq -> eqb_sound (kind_eqb eq).
Proof.
  intros H [|s|s|s] [|t|t|t]; cbn; try discriminate; try reflexivity; intros E; f_equal; now apply H.
Qed.
Lemma kind_eqb_refl {AK} (eq : AK -> AK -> bool) : eqb_refl eq -> eqb_refl (kind_eqb eq).
Proof. intros H [|s|s|s]; cbn; try reflexivity; apply H. Qed.
Lemma qunit_eqb_sound {AK} (eq : AK -> AK -> bool) : eqb_sound eq -> eqb_sound (qunit_eqb eq).
Proof.
  intros H [s| |] [t| |]; cbn; try discriminate; try reflexivity. intros E; f_equal; now apply H.
Qed.
Lemma qunit_eqb_refl {AK} (eq : AK -> AK -> bool) : eqb_refl eq -> eqb_refl (qunit_eqb eq).
Proof. intros H [s| |]; cbn; try reflexivity; apply H. Qed.

Lemma instr_eqb_sound {EK AK} (ee : EK -> EK -> bool) (ea : AK -> AK -> bool) :
  eqb_sound ee -> eqb_sound ea -> eqb_sound (instr_eqb ee ea).
Proof.
  intros He Ha [e1 ni1 ne1 b1 q1 k1 s1 t1] [e2 ni2 ne2 b2 q2 k2 s2 t2]. unfold instr_eqb. cbn.
  rewrite !andb_true_iff. intros [[[[[[[H1 H2] H3] H4] H5] H6] H7] H8].
  apply He in H1. apply N.eqb_eq in H2, H3, H8. apply Ha in H4, H5.
  apply (kind_eqb_sound ea Ha) in H6. apply (option_eqb_sound _ (qunit_eqb_sound ea Ha)) in H7.
  now subst.
Qed.
Lemma instr_eqb_refl {EK AK} (ee : EK -> EK -> bool) (ea : AK -> AK -> bool) :
  eqb_refl ee -> eqb_refl ea -> eqb_refl (instr_eqb ee ea).
Proof.
  intros He Ha [e ni ne b q k s t]. unfold instr_eqb. cbn.
  rewrite He, !N.eqb_refl, !Ha, (kind_eqb_refl ea Ha), (option_eqb_refl _ (qunit_eqb_refl ea Ha)).
  reflexivity.
Qed.

Lemma NN_sound : eqb_sound NN_eqb. Proof. apply pair_eqb_sound; apply N_sound. Qed.
Lemma NN_refl : eqb_refl NN_eqb. Proof. apply pair_eqb_refl; apply N_refl. Qed.
Lemma asset_sound : eqb_sound asset_eqb. Proof. apply pair_eqb_sound; apply N_sound. Qed.
Lemma asset_refl : eqb_refl asset_eqb. Proof. apply pair_eqb_refl; apply N_refl. Qed.
Lemma akey_sound : eqb_sound akey_eqb. Proof. apply pair_eqb_sound; [apply N_sound|apply asset_sound]. Qed.
Lemma akey_refl : eqb_refl akey_eqb. Proof. apply pair_eqb_refl; [apply N_refl|apply asset_refl]. Qed.
Lemma xinstr_sound : eqb_sound xinstr_eqb. Proof. apply instr_eqb_sound; [apply NN_sound|apply N_sound]. Qed.
Lemma xinstr_refl : eqb_refl xinstr_eqb. Proof. apply instr_eqb_refl; [apply NN_refl|apply N_refl]. Qed.
Lemma ninstr_sound : eqb_sound ninstr_eqb. Proof. apply instr_eqb_sound; [apply N_sound|apply asset_sound]. Qed.
Lemma ninstr_refl : eqb_refl ninstr_eqb. Proof. apply instr_eqb_refl; [apply N_refl|apply asset_refl]. Qed.

Lemma indexed_sound : eqb_sound indexed_eqb.
Proof.
  intros [e1 a1 i1] [e2 a2 i2]. unfold indexed_eqb. cbn. rewrite !andb_true_iff. intros [[H1 H2] H3].
  apply (list_eqb_sound _ NN_sound) in H1.
  apply (list_eqb_sound _ (pair_eqb_sound _ _ N_sound akey_sound)) in H2.
  apply (list_eqb_sound _ (pair_eqb_sound _ _ N_sound xinstr_sound)) in H3. now subst.
Qed.
Lemma indexed_refl : eqb_refl indexed_eqb.
Proof.
  intros [e a i]. unfold indexed_eqb. cbn.
  rewrite (list_eqb_refl _ NN_refl), (list_eqb_refl _ (pair_eqb_refl _ _ N_refl akey_refl)),
    (list_eqb_refl _ (pair_eqb_refl _ _ N_refl xinstr_refl)). reflexivity.
Qed.

Lemma oN_sound : eqb_sound oN_eqb. Proof. apply option_eqb_sound, N_sound. Qed.
Lemma oN_refl : eqb_refl oN_eqb. Proof. apply option_eqb_refl, N_refl. Qed.

(* ------------------------------------------------------------------------------------------ *)
(** * membership, duplicates, counting *)

Lemma memb_of_In {A} (eqb : A -> A -> bool) : eqb_refl eqb -> forall x l, In x l -> memb eqb x l = true.
Proof. intros H x l Hin. unfold memb. apply existsb_exists. exists x. split; [assumption|apply H]. Qed.
Lemma In_of_memb {A} (eqb : A -> A -> bool) : eqb_sound eqb -> forall x l, memb eqb x l = true -> In x l.
Proof.
  intros H x l E. unfold memb in E. apply existsb_exists in E. destruct E as [y [Hy Ey]].
  now rewrite (H _ _ Ey).
Qed.
Lemma not_memb {A} (eqb : A -> A -> bool) : eqb_sound eqb -> forall x l, ~ In x l -> negb (memb eqb x l) = true.
Proof.
  intros H x l Hn. destruct (memb eqb x l) eqn:E; [|reflexivity]. exfalso. apply Hn. eapply In_of_memb; eassumption.
Qed.

Lemma nodupb_of_NoDup {A} (eqb : A -> A -> bool) : eqb_sound eqb -> forall l, NoDup l -> nodupb eqb l = true.
Proof.
  intros H l Hn. induction Hn as [|x t Hx Ht IH]; cbn; [reflexivity|]. rewrite IH, andb_true_r.
  exact (not_memb eqb H x t Hx).
Qed.

Lemma dense_from_enum {V} : forall (l : list V) n, dense_from n (enum_from n l) = true.
Proof. induction l as [|a t IH]; intros n; cbn; [reflexivity|]. now rewrite N.eqb_refl, IH. Qed.

Lemma filter_none {A} (p : A -> bool) : forall l, (forall c, In c l -> p c = false) -> filter p l = [].
Proof.
  induction l as [|c t IH]; intros H; [reflexivity|]. cbn. rewrite (H c (or_introl eq_refl)).
  apply IH. intros d Hd. apply H. now right.
Qed.

Lemma count_unique {A} (p : A -> bool) : forall (l : list A) i a,
  nth_error l i = Some a -> p a = true ->
  (forall j b, nth_error l j = Some b -> p b = true -> j = i) -> countb p l = 1%nat.
Proof.
  unfold countb. induction l as [|b t IH]; intros i a Hi Hp Hu; [destruct i; discriminate|].
  cbn [filter]. destruct i as [|i]; cbn in Hi.
  - injection Hi as ->. rewrite Hp. cbn. f_equal.
    rewrite filter_none; [reflexivity|]. intros c Hc. destruct (p c) eqn:Ec; [|reflexivity].
    destruct (In_nth_error _ _ Hc) as [j Hj]. specialize (Hu (S j) c Hj Ec). discriminate.
  - destruct (p b) eqn:Eb; [specialize (Hu 0%nat b eq_refl Eb); discriminate|].
    apply (IH i a Hi Hp). intros j c Hj Hc. specialize (Hu (S j) c Hj Hc). now injection Hu.
Qed.

(* ------------------------------------------------------------------------------------------ *)
(** * lookups on arbitrary keyed lists *)

Lemma find_key_some {V} (p : V -> bool) : forall (l : list (N * V)) k,
  find_key p l = Some k -> exists v, In (k, v) l /\ p v = true.
Proof.
  intros l k H. unfold find_key in H. destruct (find (fun kv => p (snd kv)) l) as [[k' v]|] eqn:E; [|discriminate].
  cbn in H. injection H as ->. apply find_some in E. destruct E as [Hin Hp]. exists v. auto.
Qed.
Lemma find_key_none {V} (p : V -> bool) : forall (l : list (N * V)),
  find_key p l = None -> forall kv, In kv l -> p (snd kv) = false.
Proof.
  intros l H kv Hin. unfold find_key in H. destruct (find (fun kv => p (snd kv)) l) eqn:E; [discriminate|].
  exact (find_none _ _ E kv Hin).
Qed.
Lemma find_value_some {V} : forall (l : list (N * V)) k v, find_value k l = Some v -> In (k, v) l.
Proof.
  intros l k v H. unfold find_value in H.
  destruct (find (fun kv => N.eqb (fst kv) k) l) as [[k' v']|] eqn:E; [|discriminate].
  cbn in H. injection H as ->. apply find_some in E. destruct E as [Hin Hk]. cbn in Hk.
  apply N.eqb_eq in Hk. now subst.
Qed.
Lemma find_value_none {V} : forall (l : list (N * V)) k, find_value k l = None -> ~ In k (map fst l).
Proof.
  intros l k H Hin. unfold find_value in H.
  destruct (find (fun kv => N.eqb (fst kv) k) l) eqn:E; [discriminate|].
  apply in_map_iff in Hin. destruct Hin as [kv [Ek Hkv]]. pose proof (find_none _ _ E kv Hkv) as F.
  cbn in F. rewrite Ek, N.eqb_refl in F. discriminate.
Qed.
Lemma find_value_nodup {V} : forall (l : list (N * V)) k v,
  NoDup (map fst l) -> In (k, v) l -> find_value k l = Some v.
Proof.
  induction l as [|[k' v'] t IH]; intros k v Hn Hin; [destruct Hin|].
  unfold find_value. cbn [find fst]. cbn in Hn. inversion Hn as [|? ? Hx Ht]; subst.
  destruct (N.eqb_spec k' k) as [E|E].
  - subst k'. destruct Hin as [H|H]; [cbn; congruence|].
    exfalso. apply Hx. apply in_map_iff. exists (k, v). auto.
  - destruct Hin as [H|H]; [congruence|]. now apply IH.
Qed.

Lemma find_pos_spec {V} : forall (l : list (N * V)) k n p,
  find_pos k l n = Some p ->
  exists i kv, p = (n + N.of_nat i)%N /\ nth_error l i = Some kv /\ fst kv = k.
Proof.
  induction l as [|kv t IH]; intros k n p; cbn [find_pos]; [discriminate|].
  destruct (N.eqb_spec (fst kv) k) as [E|E].
  - intros H. injection H as <-. exists 0%nat, kv. repeat split; [lia|assumption].
  - intros H. destruct (IH _ _ _ H) as [i [kv' [Hp [Hi Hk]]]]. exists (S i), kv'. repeat split; [lia|assumption..].
Qed.
Lemma find_pos_none {V} : forall (l : list (N * V)) k n, find_pos k l n = None -> ~ In k (map fst l).
Proof.
  induction l as [|kv t IH]; intros k n; cbn [find_pos]; [intros _ []|].
  destruct (N.eqb_spec (fst kv) k) as [E|E]; [discriminate|]. intros H [Hin|Hin]; [contradiction|].
  exact (IH _ _ H Hin).
Qed.
Lemma find_pos_in {V} : forall (l : list (N * V)) k n, In k (map fst l) -> exists p, find_pos k l n = Some p.
Proof.
  intros l k n Hin. destruct (find_pos k l n) eqn:E; [eexists; reflexivity|].
  exfalso. exact (find_pos_none _ _ _ E Hin).
Qed.

(* ------------------------------------------------------------------------------------------ *)
(** * the builder satisfies the dense / unique / complete oracle *)

Lemma insert_perm {A K} (key : A -> K) (ltb : K -> K -> bool) : forall x l,
  Permutation (insert key ltb x l) (x :: l).
Proof.
  intros x. induction l as [|a t IH]; cbn [insert]; [reflexivity|].
  destruct (ltb (key a) (key x)); [|reflexivity].
  apply Permutation_trans with (a :: x :: t); [now apply perm_skip|apply perm_swap].
Qed.
Lemma sort_perm {A K} (key : A -> K) (ltb : K -> K -> bool) : forall l, Permutation (sort key ltb l) l.
Proof.
  induction l as [|a t IH]; cbn; [constructor|]. fold (sort key ltb t).
  apply Permutation_trans with (a :: sort key ltb t); [apply insert_perm|now apply perm_skip].
Qed.

Lemma ref_assets_eq : forall d, ref_assets d = assets_of d.
Proof.
  intros [r [e ni ne b q k s tl]]. unfold ref_assets, assets_of. cbn.
  destruct k; destruct s as [[a| |]|]; reflexivity.
Qed.

Lemma dense_unique_ok_of_build : forall l x, build l = Some x -> dense_unique_ok l x = true.
Proof.
  intros l x Hb.
  destruct (dense_unique l x Hb) as [[D1 [N1 C1]] [[D2 [N2 C2]] [D3 [Len [Nr [Sr [Sin Hnth]]]]]]].
  destruct (build_inv l x Hb) as [He [Ha [rs [Hi HF]]]].
  unfold dense_unique_ok. rewrite !andb_true_iff. repeat split.
  - rewrite He. apply dense_from_enum.
  - rewrite Ha. apply dense_from_enum.
  - rewrite Hi. apply dense_from_enum.
  - exact (nodupb_of_NoDup N.eqb N_sound _ N1).
  - exact (nodupb_of_NoDup akey_eqb akey_sound _ N2).
  - apply forallb_forall. intros d Hd. apply (memb_of_In N.eqb N_refl). apply C1.
    now apply in_collect_exchanges.
  - apply forallb_forall. intros e Hin. apply C1 in Hin. unfold collect_exchanges in Hin.
    apply in_map_iff in Hin. destruct Hin as [d [E Hd]]. apply existsb_exists. exists d.
    split; [assumption|]. rewrite E. apply N.eqb_refl.
  - apply forallb_forall. intros d Hd. apply forallb_forall. intros a Hin.
    apply (memb_of_In akey_eqb akey_refl). apply C2. unfold collect_assets. apply in_flat_map.
    exists d. split; [assumption|]. now rewrite <- ref_assets_eq.
  - apply forallb_forall. intros a Hin. apply C2 in Hin. unfold collect_assets in Hin.
    apply in_flat_map in Hin. destruct Hin as [d [Hd Hin]]. apply existsb_exists. exists d.
    split; [assumption|]. apply (memb_of_In akey_eqb akey_refl). now rewrite ref_assets_eq.
  - apply Nat.eqb_eq. rewrite Len, <- (map_length d_rank (sources l)).
    apply Permutation_length. apply NoDup_Permutation; [assumption|apply NoDup_nodup|].
    intros r. rewrite nodup_In. apply Sr.
  - apply forallb_forall. intros kv Hin. destruct (In_nth_error _ _ Hin) as [i Hi'].
    destruct (build_instrument_nth_r l x i kv Hb Hi') as [d [Hd [_ HR]]].
    apply remap_fields in HR. destruct HR as [F1 [F2 [F3 F4]]].
    apply existsb_exists. exists d. split; [apply Sin; eapply nth_error_In; eassumption|].
    now rewrite F1, F2, F3, F4, !N.eqb_refl.
Qed.

(* ------------------------------------------------------------------------------------------ *)
(** * probes *)

Lemma ex_probes_ok_of : forall l x p, build l = Some x ->
  forallb (fun q => oN_eqb (find_exchange_index (x_exchanges x) (fst q)) (snd q)) (p_ex_idx p) = true ->
  forallb (fun q => oN_eqb (find_exchange (x_exchanges x) (fst q)) (snd q)) (p_ex p) = true ->
  ex_probes_ok x p = true.
Proof.
  intros l x p Hb H1 H2. rewrite forallb_forall in H1, H2.
  unfold ex_probes_ok. apply andb_true_iff. split; apply forallb_forall; intros q Hq.
  - pose proof (oN_sound _ _ (H1 q Hq)) as E. destruct (snd q) as [k|] eqn:Es.
    + apply andb_true_iff. split.
      * destruct (find_key_some _ _ _ E) as [v [Hin Hv]]. apply N.eqb_eq in Hv. subst v.
        now apply (memb_of_In NN_eqb NN_refl).
      * apply forallb_forall. intros q' Hq'. destruct (N.eqb_spec (fst q') k) as [Ek|Ek]; [|reflexivity].
        cbn [negb orb]. rewrite <- (oN_sound _ _ (H2 q' Hq')), Ek.
        rewrite (proj2 (find_inverse_exchange l x k (fst q) Hb) E). apply oN_refl.
    + apply (not_memb N.eqb N_sound). intros Hin. apply in_map_iff in Hin. destruct Hin as [kv [Ek Hkv]].
      pose proof (find_key_none _ _ E kv Hkv) as F. cbn in F. rewrite Ek, N.eqb_refl in F. discriminate.
  - pose proof (oN_sound _ _ (H2 q Hq)) as E. destruct (snd q) as [e|] eqn:Es.
    + apply andb_true_iff. split.
      * apply (memb_of_In NN_eqb NN_refl). now apply find_value_some.
      * apply forallb_forall. intros q' Hq'. destruct (N.eqb_spec (fst q') e) as [Ee|Ee]; [|reflexivity].
        cbn [negb orb]. rewrite <- (oN_sound _ _ (H1 q' Hq')), Ee.
        rewrite (proj1 (find_inverse_exchange l x (fst q) e Hb) E). apply oN_refl.
    + apply (not_memb N.eqb N_sound). now apply find_value_none.
Qed.

Lemma is_some_true {A} : forall o : option A, is_some o = true <-> exists a, o = Some a.
Proof. intros [a|]; cbn; split; try discriminate; eauto. intros [a H]; discriminate. Qed.

Lemma as_probes_ok_of : forall l x p, build l = Some x -> assets_wf l ->
  forallb (fun q => oN_eqb (find_asset_index (x_assets x) (fst (fst q)) (snd (fst q))) (snd q)) (p_as_idx p) = true ->
  forallb (fun q => oN_eqb (find_pos (fst q) (x_assets x) 0) (snd q) &&
                    negb (xorb (match find_asset (x_assets x) (fst q) with Some _ => true | None => false end)
                               (match snd q with Some _ => true | None => false end))) (p_as p) = true ->
  as_probes_ok x p = true.
Proof.
  intros l x p Hb Hwf H1 H2. rewrite forallb_forall in H1, H2.
  pose proof (build_indexed_wf l x Hb) as [_ [_ [Hua _]]].
  unfold as_probes_ok. apply andb_true_iff. split; apply forallb_forall; intros q Hq.
  - pose proof (oN_sound _ _ (H1 q Hq)) as E. cbv zeta. destruct (snd q) as [k|] eqn:Es.
    + destruct (find_key_some _ _ _ E) as [[e' [ni' ne']] [Hin Hv]]. cbn in Hv.
      apply andb_true_iff in Hv. destruct Hv as [V1 V2]. apply N.eqb_eq in V1, V2.
      apply andb_true_iff. split.
      * apply existsb_exists. exists (k, (e', (ni', ne'))). split; [assumption|]. cbn.
        now rewrite V1, V2, !N.eqb_refl.
      * apply forallb_forall. intros q' Hq'. destruct (N.eqb_spec (fst q') k) as [Ek|Ek]; [|reflexivity].
        cbn [negb orb]. specialize (H2 q' Hq'). apply andb_true_iff in H2. destruct H2 as [H2 _].
        apply oN_sound in H2. rewrite <- H2, Ek. apply is_some_true. apply find_pos_in.
        apply in_map_iff. exists (k, (e', (ni', ne'))). auto.
    + destruct (existsb _ (x_assets x)) eqn:Ex; [|reflexivity]. exfalso.
      apply existsb_exists in Ex. destruct Ex as [kv [Hkv Pkv]].
      pose proof (find_key_none _ _ E kv Hkv) as F. cbn in F. congruence.
  - pose proof (H2 q Hq) as E. apply andb_true_iff in E. destruct E as [E _]. apply oN_sound in E.
    destruct (snd q) as [pos|] eqn:Es.
    + destruct (find_pos_spec _ _ _ _ E) as [i [kv [Hp [Hi Hk]]]]. unfold nthN.
      replace (N.to_nat pos) with i by lia. rewrite Hi. apply andb_true_iff. split; [now apply N.eqb_eq|].
      apply forallb_forall. intros q' Hq'.
      destruct (NN_eqb (fst q') (fst (snd kv), fst (snd (snd kv)))) eqn:En; [|reflexivity].
      cbn [negb orb]. apply NN_sound in En. rewrite <- (oN_sound _ _ (H1 q' Hq')), En. cbn [fst snd].
      destruct kv as [k' [e' [ni' ne']]]. cbn [fst snd] in *. subst k'.
      rewrite (proj2 (find_inverse_asset l x (fst q) e' ni' Hb Hwf)); [apply oN_refl|].
      exists ne'. unfold find_asset. apply find_value_nodup; [assumption|]. eapply nth_error_In; eassumption.
    + apply (not_memb N.eqb N_sound). eapply find_pos_none; eassumption.
Qed.

Lemma in_probes_ok_of : forall l x p, build l = Some x -> inames_ex_wf l ->
  forallb (fun q => oN_eqb (find_instrument_index (x_instruments x) (fst (fst q)) (snd (fst q))) (snd q)) (p_in_idx p) = true ->
  forallb (fun q => oN_eqb (find_pos (fst q) (x_instruments x) 0) (snd q) &&
                    negb (xorb (match find_instrument (x_instruments x) (fst q) with Some _ => true | None => false end)
                               (match snd q with Some _ => true | None => false end))) (p_in p) = true ->
  in_probes_ok x p = true.
Proof.
  intros l x p Hb Hwf H1 H2. rewrite forallb_forall in H1, H2.
  pose proof (build_indexed_wf l x Hb) as [_ [_ [_ Hui]]].
  unfold in_probes_ok. apply andb_true_iff. split; apply forallb_forall; intros q Hq.
  - pose proof (oN_sound _ _ (H1 q Hq)) as E. cbv zeta. destruct (snd q) as [k|] eqn:Es.
    + destruct (find_key_some _ _ _ E) as [r [Hin Hv]]. cbn in Hv.
      apply andb_true_iff in Hv. destruct Hv as [V1 V2].
      apply andb_true_iff. split.
      * apply existsb_exists. exists (k, r). split; [assumption|]. cbn.
        now rewrite V1, V2, N.eqb_refl.
      * apply forallb_forall. intros q' Hq'. destruct (N.eqb_spec (fst q') k) as [Ek|Ek]; [|reflexivity].
        cbn [negb orb]. specialize (H2 q' Hq'). apply andb_true_iff in H2. destruct H2 as [H2 _].
        apply oN_sound in H2. rewrite <- H2, Ek. apply is_some_true. apply find_pos_in.
        apply in_map_iff. exists (k, r). auto.
    + destruct (existsb _ (x_instruments x)) eqn:Ex; [|reflexivity]. exfalso.
      apply existsb_exists in Ex. destruct Ex as [kv [Hkv Pkv]].
      pose proof (find_key_none _ _ E kv Hkv) as F. cbn in F. congruence.
  - pose proof (H2 q Hq) as E. apply andb_true_iff in E. destruct E as [E _]. apply oN_sound in E.
    destruct (snd q) as [pos|] eqn:Es.
    + destruct (find_pos_spec _ _ _ _ E) as [i [kv [Hp [Hi Hk]]]]. unfold nthN.
      replace (N.to_nat pos) with i by lia. rewrite Hi. apply andb_true_iff. split; [now apply N.eqb_eq|].
      apply forallb_forall. intros q' Hq'.
      destruct (NN_eqb (fst q') (snd (i_ex (snd kv)), i_ni (snd kv))) eqn:En; [|reflexivity].
      cbn [negb orb]. apply NN_sound in En. rewrite <- (oN_sound _ _ (H1 q' Hq')), En. cbn [fst snd].
      destruct kv as [k' r]. cbn [fst snd] in *. subst k'.
      rewrite (proj2 (find_inverse_instrument l x (fst q) (snd (i_ex r)) (i_ni r) Hb Hwf)); [apply oN_refl|].
      exists r. split; [|auto]. unfold find_instrument. apply find_value_nodup; [assumption|].
      eapply nth_error_In; eassumption.
    + apply (not_memb N.eqb N_sound). eapply find_pos_none; eassumption.
Qed.

(* ------------------------------------------------------------------------------------------ *)
(** * tables *)

Lemma Neqb_imp : forall a b, N.eqb a b = true -> a = b.
Proof. intros a b. apply N.eqb_eq. Qed.

Lemma links_aligned : forall l x added, build l = Some x ->
  connectivity_states x = map (fun kv : N * N => (snd kv, tt)) (x_exchanges x) /\
  tx_map x added = map (fun kv : N * N => (snd kv, existsb (N.eqb (snd kv)) added)) (x_exchanges x).
Proof.
  intros l x added Hb. destruct (build_inv l x Hb) as [He _]. split.
  - unfold connectivity_states. apply im_collect_nodup; [exact Neqb_imp|].
    rewrite map_map. cbn [fst]. rewrite He, map_snd_enum. apply EXS_nodup.
  - unfold tx_map. apply im_collect_nodup; [exact Neqb_imp|].
    rewrite map_map. cbn [fst]. rewrite He, map_snd_enum. apply EXS_nodup.
Qed.

Lemma istates_aligned : forall l x, build l = Some x -> inames_wf l ->
  instrument_states x =
    map (fun kv : N * instr (N * N) N =>
           (i_ni (snd kv), (fst kv, map_exchange_key (fst (i_ex (snd kv))) (snd kv))))
        (x_instruments x).
Proof.
  intros l x Hb Hwi. destruct (build_inv l x Hb) as [He [Ha [rs [Hi HF]]]].
  unfold instrument_states. apply im_collect_nodup; [exact Neqb_imp|].
  rewrite map_map. cbn [fst]. rewrite Hi.
  rewrite (map_snd_enum_f (fun r : instr (N * N) N => i_ni r)).
  rewrite <- (Forall2_map_eq _ (fun d => i_ni (d_ins d)) (fun r : instr (N * N) N => i_ni r) _ _ HF).
  - apply (NoDup_map_transfer _ d_rank); [apply sources_nodup|].
    intros a b Ha' Hb' E. apply Hwi; [now apply sources_in..|assumption].
  - intros d r HR. apply remap_fields in HR. symmetry. apply HR.
Qed.

Lemma astates_aligned : forall l x, build l = Some x -> assets_wf l ->
  asset_states x =
    map (fun kv : N * akey => ((fst (snd kv), fst (snd (snd kv))), snd (snd kv))) (x_assets x).
Proof.
  intros l x Hb Hwa. destruct (build_inv l x Hb) as [He [Ha _]].
  unfold asset_states. apply im_collect_nodup.
  - intros a b H. apply (pair_eqb_spec N.eqb N.eqb Neqb_spec Neqb_spec). exact H.
  - rewrite map_map. cbn [fst]. rewrite Ha.
    rewrite (map_snd_enum_f (fun v : akey => (fst v, fst (snd v)))).
    apply (NoDup_map_transfer _ (fun v : akey => v)); [rewrite map_id; apply ASS_nodup|].
    intros a b Ha' Hb' E. injection E as E1 E2.
    apply Hwa; [now apply ASS_in..|assumption|assumption].
Qed.

Lemma bool_sound : forall a b, Bool.eqb a b = true -> a = b.
Proof. intros a b. apply eqb_prop. Qed.
Lemma bool_refl : forall a, Bool.eqb a a = true.
Proof. intros []; reflexivity. Qed.

Lemma links_ok_of : forall l x t, build l = Some x ->
  list_eqb N.eqb (map fst (connectivity_states x)) (t_conn t) = true ->
  list_eqb (pair_eqb N.eqb Bool.eqb) (tx_map x (t_added t)) (t_tx t) = true ->
  forallb (fun q => Bool.eqb (tx_find (tx_map x (t_added t)) (fst q)) (snd q)) (t_txfind t) = true ->
  links_ok x t = true.
Proof.
  intros l x t Hb C1 C2 C3. destruct (links_aligned l x (t_added t) Hb) as [A1 A2].
  apply (list_eqb_sound _ N_sound) in C1.
  apply (list_eqb_sound _ (pair_eqb_sound _ _ N_sound bool_sound)) in C2.
  rewrite forallb_forall in C3. rewrite A1 in C1. rewrite A2 in C2, C3. rewrite map_map in C1. cbn [fst] in C1.
  unfold links_ok. rewrite !andb_true_iff. repeat split.
  - rewrite <- C1. apply (list_eqb_refl _ N_refl).
  - rewrite <- C2. unfold memb. apply (list_eqb_refl _ (pair_eqb_refl _ _ N_refl bool_refl)).
  - apply forallb_forall. intros q Hq. rewrite <- (bool_sound _ _ (C3 q Hq)).
    unfold tx_find, nthN. rewrite nth_error_map.
    destruct (nth_error (x_exchanges x) (N.to_nat (fst q))) as [kv|]; cbn; [|reflexivity].
    unfold memb. destruct (existsb (N.eqb (snd kv)) (t_added t)); reflexivity.
Qed.

Lemma istates_ok_of : forall l x t, build l = Some x -> inames_wf l ->
  list_eqb (pair_eqb N.eqb (pair_eqb N.eqb (instr_eqb N.eqb N.eqb))) (instrument_states x) (t_istates t) = true ->
  istates_ok x t = true.
Proof.
  intros l x t Hb Hw C. unfold istates_ok. rewrite <- (istates_aligned l x Hb Hw). exact C.
Qed.
Lemma astates_ok_of : forall l x t, build l = Some x -> assets_wf l ->
  list_eqb (pair_eqb NN_eqb asset_eqb) (asset_states x) (t_astates t) = true ->
  astates_ok x t = true.
Proof.
  intros l x t Hb Hw C. unfold astates_ok. rewrite <- (astates_aligned l x Hb Hw). exact C.
Qed.

(* ------------------------------------------------------------------------------------------ *)
(** * references *)

(** the harness derives the rank from the definition: equal definitions have equal ranks *)
Definition rank_determined_b (l : list def) : bool :=
  forall2b (fun d d' => implb (ninstr_eqb (d_ins d) (d_ins d')) (N.eqb (d_rank d) (d_rank d'))) l.

Lemma rank_determined_sound : forall l, rank_determined_b l = true ->
  forall d d', In d l -> In d' l -> d_ins d = d_ins d' -> d_rank d = d_rank d'.
Proof.
  intros l H d d' Hd Hd' E. pose proof (forall2b_spec _ _ H d d' Hd Hd') as P. cbn beta in P.
  rewrite E, ninstr_refl in P. cbn in P. now apply N.eqb_eq.
Qed.

Lemma refs_ok_of : forall l x, build l = Some x -> assets_wf l -> faithful l ->
  rank_determined_b l = true -> refs_ok l x = true.
Proof.
  intros l x Hb Hwa Hf Hr. unfold refs_ok. apply andb_true_iff. split; apply forallb_forall.
  - intros d Hd. apply Nat.eqb_eq.
    pose proof (sources_complete l d Hf Hd) as Hs. destruct (In_nth_error _ _ Hs) as [i Hi].
    destruct (refs_resolve l x i d Hb Hwa Hi) as [r [Hn Hres]].
    apply (count_unique _ _ i (N.of_nat i, r) Hn).
    + cbn [snd]. rewrite Hres. apply (option_eqb_refl _ ninstr_refl).
    + intros j b Hj Pb. apply (option_eqb_sound _ ninstr_sound) in Pb.
      destruct (build_instrument_nth_r l x j b Hb Hj) as [d' [Hd' _]].
      destruct (refs_resolve l x j d' Hb Hwa Hd') as [r' [Hn' Hres']].
      rewrite Hj in Hn'. injection Hn' as ->. cbn [snd] in Pb. rewrite Hres' in Pb. injection Pb as E.
      eapply sources_same_rank_pos; [exact Hd'|exact Hi|].
      apply (rank_determined_sound l Hr); [eapply sources_in, nth_error_In; eassumption|assumption|assumption].
  - intros kv Hin. destruct (In_nth_error _ _ Hin) as [j Hj].
    destruct (build_instrument_nth_r l x j kv Hb Hj) as [d' [Hd' _]].
    destruct (refs_resolve l x j d' Hb Hwa Hd') as [r' [Hn' Hres']].
    rewrite Hj in Hn'. injection Hn' as ->. cbn [snd]. rewrite Hres'.
    apply existsb_exists. exists d'. split; [eapply sources_in, nth_error_In; eassumption|apply ninstr_refl].
Qed.

(* ------------------------------------------------------------------------------------------ *)
(** * insertion orders *)

Definition positions (defs : list def) : list N := map fst (enum_from 0 defs).
Definition is_perm_b (defs : list def) (perm : list N) : bool :=
  list_eqb N.eqb (sort (fun i : N => i) N.ltb perm) (positions defs).

Lemma apply_positions_gen : forall (suf pre : list def),
  flat_map (fun i => match nthN (pre ++ suf) i with Some d => [d] | None => [] end)
           (map fst (enum_from (N.of_nat (length pre)) suf)) = suf.
Proof.
  induction suf as [|a t IH]; intros pre; [reflexivity|].
  cbn [enum_from map fst flat_map]. unfold nthN at 1. rewrite Nat2N.id.
  rewrite nth_error_app2 by lia. rewrite Nat.sub_diag. cbn [nth_error app]. f_equal.
  specialize (IH (pre ++ [a])). rewrite <- app_assoc in IH. cbn [app] in IH.
  rewrite app_length in IH. cbn [length] in IH.
  replace (N.of_nat (length pre + 1)) with (N.succ (N.of_nat (length pre))) in IH by lia. exact IH.
Qed.
Lemma apply_positions : forall defs, apply_perm (positions defs) defs = defs.
Proof. intros defs. exact (apply_positions_gen defs []). Qed.

Lemma apply_perm_perm : forall defs perm, is_perm_b defs perm = true ->
  Permutation defs (apply_perm perm defs).
Proof.
  intros defs perm H. unfold is_perm_b in H. apply (list_eqb_sound _ N_sound) in H.
  assert (P : Permutation perm (positions defs)).
  { rewrite <- H. apply Permutation_sym. apply sort_perm. }
  rewrite <- (apply_positions defs) at 1. unfold apply_perm. apply Permutation_sym.
  now apply Permutation_flat_map.
Qed.

Lemma all_equal_nodup {A} (eqb : A -> A -> bool) : (forall a, eqb a a = true) ->
  forall (l : list A) r, (forall y, In y l -> y = r) -> nodupb eqb l = true -> (length l <= 1)%nat.
Proof.
  intros Hr [|a [|b t]] r Hall Hn; cbn; try lia. exfalso.
  assert (a = b) by (rewrite (Hall a), (Hall b); cbn; auto). subst b.
  cbn in Hn. rewrite Hr in Hn. discriminate.
Qed.

(* ------------------------------------------------------------------------------------------ *)
(** * the name -> index table of a filtered (index, name) list *)

Lemma name_of_find_value : forall (own : list (N * N)) k, name_of own k = find_value k own.
Proof. reflexivity. Qed.

Lemma name_of_in : forall (F : list (N * N)) k n, name_of F k = Some n -> In (k, n) F.
Proof. intros F k n H. rewrite name_of_find_value in H. now apply find_value_some. Qed.
Lemma name_of_nodup : forall (F : list (N * N)) k n, NoDup (map fst F) -> In (k, n) F -> name_of F k = Some n.
Proof. intros F k n Hn Hin. rewrite name_of_find_value. now apply find_value_nodup. Qed.
Lemma name_of_none : forall (F : list (N * N)) k, name_of F k = None -> forall n, ~ In (k, n) F.
Proof.
  intros F k H n Hin. rewrite name_of_find_value in H. apply find_value_none in H. apply H.
  apply in_map_iff. exists (k, n). auto.
Qed.

Lemma index_of_in : forall (F : list (N * N)) k n, index_of F n = Some k -> In (k, n) F.
Proof.
  intros F k n H. unfold index_of in H.
  destruct (find (fun kn => N.eqb (snd kn) n) F) as [[k' n']|] eqn:E; [|discriminate].
  cbn in H. injection H as ->. apply find_some in E. destruct E as [Hin Hk]. cbn in Hk.
  apply N.eqb_eq in Hk. now subst.
Qed.
Lemma index_of_nodup : forall (F : list (N * N)) k n, NoDup (map snd F) -> In (k, n) F -> index_of F n = Some k.
Proof. intros F k n Hn Hin. unfold index_of. now rewrite (find_snd_unique _ _ _ Hn Hin). Qed.
Lemma index_of_none : forall (F : list (N * N)) n, index_of F n = None -> ~ In n (map snd F).
Proof.
  intros F n H Hin. unfold index_of in H.
  destruct (find (fun kn => N.eqb (snd kn) n) F) eqn:E; [discriminate|].
  apply in_map_iff in Hin. destruct Hin as [kv [Ek Hkv]]. pose proof (find_none _ _ E kv Hkv) as P.
  cbn in P. rewrite Ek, N.eqb_refl in P. discriminate.
Qed.

Lemma G1 : forall F k n, name_of_index (names_of F) k = Some n ->
  In (k, n) F /\ index_of_name (names_of F) n = Some k.
Proof.
  intros F k n H. apply name_of_index_some in H. split; [now apply names_of_in|].
  apply index_of_name_unique; [apply names_of_keys|assumption].
Qed.
Lemma G2 : forall F k n, NoDup (map fst F) -> index_of_name (names_of F) n = Some k ->
  In (k, n) F /\ name_of_index (names_of F) k = Some n.
Proof.
  intros F k n Hkeys H. apply index_of_name_some in H. pose proof (names_of_in _ _ _ H) as Hf.
  split; [assumption|]. unfold name_of_index.
  destruct (find (fun nv => N.eqb (snd nv) k) (names_of F)) as [[n' k']|] eqn:E.
  - apply find_some in E. destruct E as [Hin Hk]. cbn in Hk. apply N.eqb_eq in Hk. subst k'.
    pose proof (names_of_in _ _ _ Hin) as Hf'. cbn. f_equal.
    pose proof (find_fst_unique _ _ _ Hkeys Hf) as F1.
    pose proof (find_fst_unique _ _ _ Hkeys Hf') as F2. congruence.
  - exfalso. pose proof (find_none _ _ E _ H) as P. cbn in P. now rewrite N.eqb_refl in P.
Qed.
Lemma G3 : forall F k n, NoDup (map fst F) -> NoDup (map snd F) -> In (k, n) F ->
  name_of_index (names_of F) k = Some n.
Proof.
  intros F k n H1 H2 Hin. rewrite (names_of_id F H1 H2). apply name_of_index_unique.
  - now rewrite map_snd_swap.
  - apply in_map_iff. exists (k, n). auto.
Qed.
Lemma G4 : forall F n, NoDup (map fst F) -> In n (map snd F) -> exists k, index_of_name (names_of F) n = Some k.
Proof.
  intros F n Hk Hin. unfold names_of.
  rewrite (im_collect_nodup N.eqb (fun a b => proj1 (N.eqb_eq a b)) F Hk).
  assert (Hkey : In n (map fst (im_collect N.eqb (map swap_pair F)))).
  { apply (proj2 (proj2 (im_collect_facts _))). now rewrite map_fst_swap. }
  unfold index_of_name.
  destruct (find (fun nv => N.eqb (fst nv) n) (im_collect N.eqb (map swap_pair F))) as [[n' k]|] eqn:E.
  - exists k. reflexivity.
  - exfalso. apply in_map_iff in Hkey. destruct Hkey as [nv [En Hnv]].
    pose proof (find_none _ _ E nv Hnv) as P. cbn in P. rewrite En, N.eqb_refl in P. discriminate.
Qed.

Lemma names_ok_of : forall (hyp : bool) F by_index by_name,
  NoDup (map fst F) -> (hyp = true -> NoDup (map snd F)) ->
  (forall q, In q by_index -> snd q = name_of_index (names_of F) (fst q)) ->
  (forall q, In q by_name -> snd q = index_of_name (names_of F) (fst q)) ->
  names_ok hyp F by_index by_name = true.
Proof.
  intros hyp F bi bn Hk Hs H1 H2. unfold names_ok. apply andb_true_iff. split; apply forallb_forall; intros q Hq.
  - pose proof (H1 q Hq) as E. destruct (snd q) as [n|] eqn:Es.
    + symmetry in E. destruct (G1 F _ _ E) as [Hin Hix]. apply andb_true_iff. split.
      * rewrite (name_of_nodup F _ _ Hk Hin). apply oN_refl.
      * apply forallb_forall. intros q' Hq'. destruct (N.eqb_spec (fst q') n) as [En|En]; [|reflexivity].
        cbn [negb orb]. rewrite (H2 q' Hq'), En, Hix. apply oN_refl.
    + destruct (name_of F (fst q)) as [n|] eqn:En; [|reflexivity].
      destruct hyp; [|reflexivity]. exfalso. apply name_of_in in En.
      rewrite (G3 F _ _ Hk (Hs eq_refl) En) in E. discriminate.
  - pose proof (H2 q Hq) as E. destruct (snd q) as [k|] eqn:Es.
    + symmetry in E. destruct (G2 F _ _ Hk E) as [Hin Hnm]. apply andb_true_iff. split.
      * rewrite (name_of_nodup F _ _ Hk Hin). apply oN_refl.
      * apply forallb_forall. intros q' Hq'. destruct (N.eqb_spec (fst q') k) as [Ek|Ek]; [|reflexivity].
        cbn [negb orb]. rewrite (H1 q' Hq'), Ek, Hnm. apply oN_refl.
    + apply (not_memb N.eqb N_sound). intros Hin. destruct (G4 F _ Hk Hin) as [k Hk']. congruence.
Qed.

(* ------------------------------------------------------------------------------------------ *)
(** * execution-link tables *)

Lemma xmap_ok_of : forall x e m o, indexed_wf x -> gen_map x e = Some m ->
  xmap_corr m o = true -> xmap_ok x e o = true.
Proof.
  intros x e m o Hwf Hg Hc. unfold xmap_corr in Hc. rewrite !andb_true_iff in Hc.
  destruct Hc as [[[C1 C2] C3] C4]. rewrite forallb_forall in C1, C2, C3, C4.
  destruct (gen_map_inv x e m Hg) as [ek [_ [_ [Ma [Mi _]]]]].
  pose proof Hwf as [_ [_ [Hua Hui]]].
  pose proof (filter_assets_keys x e Hua) as Ka. pose proof (filter_instruments_keys x e Hui) as Ki.
  unfold xmap_ok. cbv zeta. apply andb_true_iff. split.
  - apply (names_ok_of _ (filter_assets x e)); [exact Ka| | |].
    + intros Hh. destruct (names_distinct_b_sound x e Hwf Hh) as [Hd _]. now apply filter_assets_names.
    + intros q Hq. rewrite <- (oN_sound _ _ (C1 q Hq)). unfold find_asset_name. now rewrite Ma.
    + intros q Hq. rewrite <- (oN_sound _ _ (C2 q Hq)). unfold find_asset_ix. now rewrite Ma.
  - apply (names_ok_of _ (filter_instruments x e)); [exact Ki| | |].
    + intros Hh. destruct (names_distinct_b_sound x e Hwf Hh) as [_ Hd]. now apply filter_instruments_names.
    + intros q Hq. rewrite <- (oN_sound _ _ (C3 q Hq)). unfold find_instrument_name. now rewrite Mi.
    + intros q Hq. rewrite <- (oN_sound _ _ (C4 q Hq)). unfold find_instrument_ix. now rewrite Mi.
Qed.

(* ------------------------------------------------------------------------------------------ *)
(** * the link theorem *)

(** well-formed cases: what the harness guarantees by construction.  CIdx: the definition key is
    faithful both ways.  CPerm: at least one order was tried, [distinct] is non-empty, lists
    pairwise different results, and every listed order is a permutation of the positions. *)
Definition wf_case (c : case) : bool :=
  match c with
  | CIdx defs _ _ _ _ => faithful_b defs && rank_determined_b defs
  | CPerm defs tried distinct =>
      faithful_b defs && negb (N.eqb tried 0) && negb (Nat.eqb (length distinct) 0) &&
      forallb (fun pr => is_perm_b defs (fst pr)) distinct &&
      nodupb (option_eqb indexed_eqb) (map snd distinct)
  | CXMap defs _ _ => faithful_b defs
  end.

Theorem oracle_sound : forall c, wf_case c = true -> corr_b c = true -> prop_b c = true.
Proof.
  intros [defs built base pr tb|defs tried distinct|defs built maps] Hwf Hc.
  - cbn [wf_case] in Hwf. apply andb_true_iff in Hwf. destruct Hwf as [Hfb Hrd].
    pose proof (faithful_b_sound defs Hfb) as Hf.
    destruct (build_total defs) as [x Hb].
    cbn [corr_b] in Hc. rewrite Hb in Hc. cbv iota in Hc. rewrite !andb_true_iff in Hc.
    destruct Hc as [[HA HB] [HP HT]].
    destruct built as [x'|]; [|discriminate HA]. cbn in HA. apply indexed_sound in HA. subst x'.
    rewrite <- (order_independent defs (canon defs) Hf (Permutation_sym (sort_perm _ _ defs))), Hb in HB.
    destruct base as [x'|]; [|discriminate HB]. cbn in HB. apply indexed_sound in HB. subst x'.
    destruct tb as [t|]; [|discriminate HT].
    unfold probes_corr in HP. rewrite !andb_true_iff in HP.
    destruct HP as [[[[[P1 P2] P3] P4] P5] P6].
    unfold tables_corr in HT. rewrite !andb_true_iff in HT.
    destruct HT as [[[[T1 T2] T3] T4] T5].
    cbn [prop_b]. rewrite !andb_true_iff. repeat split.
    + now apply dense_unique_ok_of_build.
    + cbn. apply indexed_refl.
    + now apply (ex_probes_ok_of defs).
    + now apply (links_ok_of defs).
    + destruct (assets_wf_b defs) eqn:Ea; [|reflexivity].
      pose proof (assets_wf_b_sound defs Ea) as Hwa. rewrite !andb_true_iff. repeat split.
      * now apply refs_ok_of.
      * now apply (as_probes_ok_of defs).
      * now apply (astates_ok_of defs).
    + destruct (inames_ex_wf_b defs) eqn:Ei; [|reflexivity].
      apply (in_probes_ok_of defs); [assumption|now apply inames_ex_wf_b_sound|assumption..].
    + destruct (inames_wf_b defs) eqn:Ei; [|reflexivity].
      apply (istates_ok_of defs); [assumption|now apply inames_wf_b_sound|assumption].
  - cbn [wf_case] in Hwf. rewrite !andb_true_iff in Hwf.
    destruct Hwf as [[[[Hfb Ht] Hne] Hperm] Hnd].
    pose proof (faithful_b_sound defs Hfb) as Hf.
    destruct (build_total defs) as [x Hb].
    cbn [corr_b] in Hc. rewrite forallb_forall in Hc, Hperm.
    assert (Hall : forall y, In y (map snd distinct) -> y = Some x).
    { intros y Hy. apply in_map_iff in Hy. destruct Hy as [pr [<- Hpr]].
      pose proof (Hc pr Hpr) as E. apply (option_eqb_sound _ indexed_sound) in E.
      rewrite <- E, <- Hb. symmetry. apply order_independent; [assumption|].
      apply apply_perm_perm. now apply Hperm. }
    pose proof (all_equal_nodup _ (option_eqb_refl _ indexed_refl) _ _ Hall Hnd) as Hlen.
    rewrite map_length in Hlen. cbn [prop_b].
    destruct distinct as [|[p r] [|b t]]; [discriminate Hne| |cbn in Hlen; lia].
    rewrite (Hall r (or_introl eq_refl)). exact Ht.
  - destruct (build_total defs) as [x Hb]. pose proof (build_indexed_wf defs x Hb) as Hx.
    cbn [corr_b] in Hc. rewrite Hb in Hc. cbv iota in Hc. apply andb_true_iff in Hc. destruct Hc as [HA HM].
    destruct built as [x'|]; [|discriminate HA]. cbn in HA. apply indexed_sound in HA. subst x'.
    rewrite forallb_forall in HM. cbn [prop_b]. apply forallb_forall. intros em Hem. specialize (HM em Hem).
    destruct (gen_map x (fst em)) as [m|] eqn:Hg; destruct (snd em) as [o|]; try discriminate.
    + apply andb_true_iff. split; [|now apply (xmap_ok_of x (fst em) m)].
      apply (memb_of_In N.eqb N_refl).
      destruct (in_dec N.eq_dec (fst em) (map snd (x_exchanges x))) as [Hin|Hn]; [assumption|].
      apply (proj1 (gen_map_exchange x (fst em) Hx)) in Hn. congruence.
    + apply (not_memb N.eqb N_sound). now apply (proj1 (gen_map_exchange x (fst em) Hx)).
Qed.
