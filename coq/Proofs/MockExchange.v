(** C08 — lemmas about the simulated-exchange model. *)
From Coq Require Import Sorted.
From BV Require Import Base.Common Model.MockExchange.

Local Open Scope Qc_scope.

(* ---- comparisons ------------------------------------------------------------------------------- *)

Lemma Qc_leb_le : forall x y : Qc, Qc_leb x y = true <-> x <= y.
Proof. intros x y. unfold Qc_leb, Qcle. apply Qle_bool_iff. Qed.

Lemma Qc_leb_gt : forall x y : Qc, Qc_leb x y = false <-> y < x.
Proof.
  intros x y. split; intro H.
  - apply Qcnot_le_lt. intro L. apply Qc_leb_le in L. congruence.
  - destruct (Qc_leb x y) eqn:E; [|reflexivity]. apply Qc_leb_le in E.
    exfalso. exact (Qclt_not_le _ _ H E).
Qed.

Lemma Qc_eqb_eq : forall x y : Qc, Qc_eqb x y = true <-> x = y.
Proof.
  intros x y. unfold Qc_eqb. rewrite Qeq_bool_iff. split.
  - apply Qc_is_canon.
  - intros ->. reflexivity.
Qed.

Lemma Qc_eqb_refl : forall x : Qc, Qc_eqb x x = true.
Proof. intro x. apply Qc_eqb_eq. reflexivity. Qed.

Lemma sub_nonneg_iff : forall x y : Qc, 0 <= x - y <-> y <= x.
Proof. intros x y. unfold Qcminus. symmetry. apply Qcle_minus_iff. Qed.

Lemma qabs_nonneg : forall x : Qc, 0 <= x -> qabs x = x.
Proof. intros x H. unfold qabs. apply Qc_leb_le in H. rewrite H. reflexivity. Qed.

Lemma qabs_ge0 : forall x : Qc, 0 <= qabs x.
Proof.
  intro x. unfold qabs. destruct (Qc_leb 0 x) eqn:E.
  - apply Qc_leb_le. exact E.
  - apply Qc_leb_gt in E. apply Qclt_le_weak in E.
    apply Qcopp_le_compat in E. replace (- 0) with 0 in E by ring. exact E.
Qed.

Lemma Qcmult_le_0_compat : forall a b : Qc, 0 <= a -> 0 <= b -> 0 <= a * b.
Proof.
  intros a b Ha Hb. replace 0 with (0 * b) by ring. apply Qcmult_le_compat_r; assumption.
Qed.

(** the code's [value + value * fee] is the property's [value x (1 + fee)] *)
Lemma required_spec_need : forall f req, required f req = spec_need f req.
Proof.
  intros f req. unfold required, order_fees, order_value, spec_need.
  destruct (r_side req); ring.
Qed.

(** both sides report the same quote fee: percentage x price x quantity *)
Lemma fees_quote_spec : forall f req, fees_quote f req = spec_fees f req.
Proof.
  intros f req. unfold fees_quote, order_fees, order_value, spec_fees.
  destruct (r_side req); ring.
Qed.

(* ---- association lists -------------------------------------------------------------------------- *)

Lemma lookup_In : forall (A : Type) (l : list (N * A)) k v, lookup l k = Some v -> In (k, v) l.
Proof.
  induction l as [|[k' v'] t IH]; intros k v H; cbn in H; [discriminate|].
  destruct (N.eqb_spec k' k) as [E|E].
  - inversion H; subst. left. reflexivity.
  - right. apply IH. exact H.
Qed.

Lemma lookup_set_same : forall l k v v0, lookup l k = Some v0 -> lookup (set_bal l k v) k = Some v.
Proof.
  induction l as [|[k' v'] t IH]; intros k v v0 H; cbn in *; [discriminate|].
  destruct (N.eqb_spec k' k) as [E|E]; cbn.
  - subst. rewrite N.eqb_refl. reflexivity.
  - destruct (N.eqb_spec k' k) as [E'|_]; [contradiction|]. eapply IH. exact H.
Qed.

Lemma lookup_set_other : forall l k v x, x <> k -> lookup (set_bal l k v) x = lookup l x.
Proof.
  induction l as [|[k' v'] t IH]; intros k v x H; cbn; [reflexivity|].
  destruct (N.eqb_spec k' k) as [E|E]; cbn.
  - subst. destruct (N.eqb_spec k x) as [E'|_]; [congruence|reflexivity].
  - destruct (N.eqb_spec k' x); [reflexivity|]. apply IH. exact H.
Qed.

Lemma set_bal_keys : forall l k v, map fst (set_bal l k v) = map fst l.
Proof.
  induction l as [|[k' v'] t IH]; intros k v; cbn; [reflexivity|].
  destruct (N.eqb k' k); cbn; [reflexivity|]. f_equal. apply IH.
Qed.

Lemma In_set_bal : forall l k v x y, In (x, y) (set_bal l k v) -> In (x, y) l \/ y = v.
Proof.
  induction l as [|[k' v'] t IH]; intros k v x y H; cbn in *; [contradiction|].
  destruct (N.eqb k' k); cbn in H.
  - destruct H as [H|H]; [inversion H; right; reflexivity|left; right; exact H].
  - destruct H as [H|H]; [left; left; exact H|].
    destruct (IH _ _ _ _ H) as [H'|H']; [left; right; exact H'|right; exact H'].
Qed.

Lemma lookup_map_vals : forall (g : bal -> bal) l k,
  lookup (map (fun kb : N * bal => (fst kb, g (snd kb))) l) k = option_map g (lookup l k).
Proof.
  induction l as [|[k' v'] t IH]; intro k; cbn; [reflexivity|].
  destruct (N.eqb k' k); [reflexivity|apply IH].
Qed.

(* ---- one order ---------------------------------------------------------------------------------- *)

Definition debited (st : state) (a : N) (nb : Qc) : state :=
  mkState (set_bal (s_bals st) a (mkBal nb nb (s_now st))) (N.succ (s_seq st)) (s_now st)
          (s_trades st) (s_open st) (s_canc st).

Definition fill_of (cfg : config) (st : state) (req : request) : trade :=
  mkTrade (s_seq st) (s_seq st) (r_instr req) (r_strategy req) (s_now st) (r_side req)
          (r_price req) (r_qty req) (spec_fees (c_fee cfg) req).

(** every way [open_order] can end *)
Inductive open_case (cfg : config) (st : state) (req : request) : outcome -> Prop :=
| OC_kind : r_kind req = Limit -> open_case cfg st req (ODone st (RErr EKind) None)
| OC_instr : r_kind req = Market -> lookup (c_instruments cfg) (r_instr req) = None ->
    open_case cfg st req (ODone st (RErr (EInstr (r_instr req))) None)
| OC_nobal : forall a, spec_spent cfg req = Some a -> lookup (s_bals st) a = None ->
    open_case cfg st req OPanicNoBalance
| OC_totalfree : forall a b, spec_spent cfg req = Some a -> lookup (s_bals st) a = Some b ->
    b_total b <> b_free b -> open_case cfg st req OPanicTotalFree
| OC_funds : forall a b, spec_spent cfg req = Some a -> lookup (s_bals st) a = Some b ->
    b_total b = b_free b -> b_free b < spec_need (c_fee cfg) req ->
    open_case cfg st req (ODone st (RErr (EFunds a)) None)
| OC_accept : forall a b, spec_spent cfg req = Some a -> lookup (s_bals st) a = Some b ->
    b_total b = b_free b -> spec_need (c_fee cfg) req <= b_free b ->
    let nb := b_free b - spec_need (c_fee cfg) req in
    open_case cfg st req
      (ODone (debited st a nb) (ROpen (s_seq st) (s_now st) (r_qty req))
             (Some (mkNotif a (mkBal nb nb (s_now st)) (fill_of cfg st req)))).

Lemma open_order_case : forall cfg st req, open_case cfg st req (open_order cfg st req).
Proof.
  intros cfg st req. unfold open_order.
  destruct (r_kind req) eqn:K; [|apply OC_kind; exact K].
  destruct (lookup (c_instruments cfg) (r_instr req)) as [u|] eqn:I; [|apply OC_instr; assumption].
  assert (S : spec_spent cfg req = Some (spent_asset u (r_side req))).
  { unfold spec_spent. rewrite K, I. reflexivity. }
  cbv zeta.
  destruct (lookup (s_bals st) (spent_asset u (r_side req))) as [b|] eqn:B;
    [|eapply OC_nobal; eassumption].
  destruct (Qc_eqb (b_total b) (b_free b)) eqn:TF; cbn [negb].
  - apply Qc_eqb_eq in TF.
    rewrite required_spec_need, fees_quote_spec.
    destruct (Qc_leb 0 (b_free b - spec_need (c_fee cfg) req)) eqn:L.
    + apply Qc_leb_le in L. apply (proj1 (sub_nonneg_iff _ _)) in L.
      exact (OC_accept cfg st req _ b S B TF L).
    + apply Qc_leb_gt in L. eapply OC_funds; try eassumption.
      apply Qcnot_le_lt. intro Hle. apply (proj2 (sub_nonneg_iff _ _)) in Hle.
      exact (Qclt_not_le _ _ L Hle).
  - eapply OC_totalfree; try eassumption. intro E. apply Qc_eqb_eq in E. congruence.
Qed.

(** [wf_state] in Prop form *)
Lemma wf_state_spec : forall cfg st, wf_state cfg st = true ->
  (forall i u, lookup (c_instruments cfg) i = Some u ->
     (exists b, lookup (s_bals st) (fst u) = Some b) /\ (exists b, lookup (s_bals st) (snd u) = Some b))
  /\ (forall a b, lookup (s_bals st) a = Some b -> b_total b = b_free b).
Proof.
  intros cfg st H. unfold wf_state in H. apply andb_true_iff in H. destruct H as [H1 H2].
  rewrite forallb_forall in H1, H2. split.
  - intros i u L. apply lookup_In in L. specialize (H1 _ L). cbn in H1.
    destruct (lookup (s_bals st) (fst u)); [|discriminate].
    destruct (lookup (s_bals st) (snd u)); [|discriminate].
    split; eexists; reflexivity.
  - intros a b L. apply lookup_In in L. specialize (H2 _ L). cbn in H2.
    apply Qc_eqb_eq. exact H2.
Qed.

Lemma spec_spent_inv : forall cfg req a, spec_spent cfg req = Some a ->
  r_kind req = Market /\ exists u, lookup (c_instruments cfg) (r_instr req) = Some u /\
  a = spent_asset u (r_side req).
Proof.
  intros cfg req a H. unfold spec_spent in H. destruct (r_kind req); [|discriminate].
  split; [reflexivity|].
  destruct (lookup (c_instruments cfg) (r_instr req)) as [u|]; [|discriminate].
  exists u. cbn in H. inversion H. split; reflexivity.
Qed.

Lemma spent_has_balance : forall cfg st req a, wf_state cfg st = true ->
  spec_spent cfg req = Some a -> exists b, lookup (s_bals st) a = Some b /\ b_total b = b_free b.
Proof.
  intros cfg st req a W S. destruct (wf_state_spec _ _ W) as [W1 W2].
  destruct (spec_spent_inv _ _ _ S) as [_ [u [L ->]]].
  destruct (W1 _ _ L) as [[b1 B1] [b2 B2]].
  destruct (r_side req); cbn.
  - exists b2. split; [exact B2|exact (W2 _ _ B2)].
  - exists b1. split; [exact B1|exact (W2 _ _ B1)].
Qed.

(** under the guard the code cannot panic *)
Lemma no_panic : forall cfg st req, wf_state cfg st = true ->
  exists st' res n, open_order cfg st req = ODone st' res n.
Proof.
  intros cfg st req W. destruct (open_order_case cfg st req);
    try (do 3 eexists; reflexivity).
  - destruct (spent_has_balance _ _ _ _ W H) as [b [B _]]. congruence.
  - destruct (spent_has_balance _ _ _ _ W H) as [b' [B T]]. congruence.
Qed.

(** exactly when it panics *)
Lemma panic_iff : forall cfg st req,
  (open_order cfg st req = OPanicNoBalance <->
     exists a, spec_spent cfg req = Some a /\ lookup (s_bals st) a = None) /\
  (open_order cfg st req = OPanicTotalFree <->
     exists a b, spec_spent cfg req = Some a /\ lookup (s_bals st) a = Some b /\ b_total b <> b_free b).
Proof.
  intros cfg st req. split; (split; [intro E|intro E]).
  - destruct (open_order_case cfg st req); try discriminate. eauto.
  - destruct E as [a [S B]].
    destruct (open_order_case cfg st req); try reflexivity; try congruence;
      try (apply spec_spent_inv in S; destruct S as [K [u [L _]]]; congruence).
  - destruct (open_order_case cfg st req); try discriminate. eauto.
  - destruct E as [a [b [S [B T]]]].
    destruct (open_order_case cfg st req); try reflexivity; try congruence;
      try (apply spec_spent_inv in S; destruct S as [K [u [L _]]]; congruence).
Qed.

Lemma accept_iff_funds : forall cfg st req, wf_state cfg st = true ->
  exists st' res n, open_order cfg st req = ODone st' res n /\
    (accepted res = true <->
       exists a b, spec_spent cfg req = Some a /\ lookup (s_bals st) a = Some b /\
                   spec_need (c_fee cfg) req <= b_free b).
Proof.
  intros cfg st req W.
  destruct (open_order_case cfg st req).
  - do 3 eexists. split; [reflexivity|]. cbn. split; [discriminate|].
    intros [a [b [S _]]]. apply spec_spent_inv in S. destruct S as [K _]. congruence.
  - do 3 eexists. split; [reflexivity|]. cbn. split; [discriminate|].
    intros [a [b [S _]]]. apply spec_spent_inv in S. destruct S as [_ [u [L _]]]. congruence.
  - destruct (spent_has_balance _ _ _ _ W H) as [b [B _]]. congruence.
  - destruct (spent_has_balance _ _ _ _ W H) as [b' [B T]]. congruence.
  - do 3 eexists. split; [reflexivity|]. cbn. split; [discriminate|].
    intros [a' [b' [S [B L]]]]. exfalso.
    assert (a' = a) by congruence. subst a'. assert (b' = b) by congruence. subst b'.
    exact (Qclt_not_le _ _ H2 L).
  - do 3 eexists. split; [reflexivity|]. cbn. split; [|reflexivity].
    intros _. exists a, b. auto.
Qed.

Lemma debit_exact : forall cfg st req st' id t filled n,
  open_order cfg st req = ODone st' (ROpen id t filled) n ->
  exists a b, spec_spent cfg req = Some a /\ lookup (s_bals st) a = Some b /\
    let nb := b_free b - spec_need (c_fee cfg) req in
    lookup (s_bals st') a = Some (mkBal nb nb (s_now st)) /\
    (forall x, x <> a -> lookup (s_bals st') x = lookup (s_bals st) x) /\
    map fst (s_bals st') = map fst (s_bals st) /\
    s_seq st' = N.succ (s_seq st) /\ s_now st' = s_now st /\ s_trades st' = s_trades st /\
    s_open st' = s_open st /\ s_canc st' = s_canc st.
Proof.
  intros cfg st req st' id t filled n E.
  destruct (open_order_case cfg st req); try discriminate.
  inversion E; subst. exists a, b. split; [assumption|]. split; [assumption|]. cbn.
  split; [eapply lookup_set_same; eassumption|].
  split; [intros x Hx; apply lookup_set_other; exact Hx|].
  split; [apply set_bal_keys|]. repeat split; reflexivity.
Qed.

Lemma reject_frame : forall cfg st req st' e n,
  open_order cfg st req = ODone st' (RErr e) n ->
  st' = st /\ n = None /\
  ((e = EKind /\ r_kind req = Limit) \/
   (e = EInstr (r_instr req) /\ r_kind req = Market /\ lookup (c_instruments cfg) (r_instr req) = None) \/
   (exists a b, e = EFunds a /\ spec_spent cfg req = Some a /\ lookup (s_bals st) a = Some b /\
                b_free b < spec_need (c_fee cfg) req)).
Proof.
  intros cfg st req st' e n E.
  destruct (open_order_case cfg st req); try discriminate; inversion E; subst.
  - repeat split; auto.
  - repeat split; auto.
  - repeat split; auto. right; right. exists a, b. auto.
Qed.

Lemma accepted_notif : forall cfg st req st' res n,
  open_order cfg st req = ODone st' res (Some n) ->
  exists a b, spec_spent cfg req = Some a /\ lookup (s_bals st) a = Some b /\
    spec_need (c_fee cfg) req <= b_free b /\
    let nb := b_free b - spec_need (c_fee cfg) req in
    res = ROpen (s_seq st) (s_now st) (r_qty req) /\
    n = mkNotif a (mkBal nb nb (s_now st)) (fill_of cfg st req) /\
    st' = debited st a nb.
Proof.
  intros cfg st req st' res n E.
  destruct (open_order_case cfg st req); try discriminate.
  inversion E; subst. exists a, b. cbn. repeat split; auto.
Qed.

Lemma notif_iff_accepted : forall cfg st req st' res n,
  open_order cfg st req = ODone st' res n -> (accepted res = true <-> n <> None).
Proof.
  intros cfg st req st' res n E.
  destruct (open_order_case cfg st req); try discriminate; inversion E; subst; cbn;
    split; congruence.
Qed.

(* ---- invariants over histories ----------------------------------------------------------------- *)

Definition Nonneg (st : state) : Prop :=
  forall a b, lookup (s_bals st) a = Some b -> 0 <= b_free b /\ 0 <= b_total b.

Lemma nonneg_state_Nonneg : forall st, nonneg_state st = true -> Nonneg st.
Proof.
  intros st H a b L. unfold nonneg_state in H. rewrite forallb_forall in H.
  apply lookup_In in L. specialize (H _ L). cbn in H. apply andb_true_iff in H.
  destruct H as [H1 H2]. split; apply Qc_leb_le; assumption.
Qed.

Lemma step_open_nonneg : forall cfg st req, Nonneg st -> Nonneg (step_open cfg st req).
Proof.
  intros cfg st req H. unfold step_open.
  destruct (open_order_case cfg st req); try exact H.
  intros x y L. cbn in L.
  destruct (N.eq_dec x a) as [->|Hx].
  - erewrite lookup_set_same in L by eassumption. inversion L; subst. cbn.
    assert (0 <= nb) by (apply (proj2 (sub_nonneg_iff _ _)); assumption). split; assumption.
  - rewrite lookup_set_other in L by exact Hx. exact (H _ _ L).
Qed.

Lemma account_set_time_lookup : forall st t a,
  lookup (s_bals (account_set_time st t)) a =
  option_map (fun b => mkBal (b_total b) (b_free b) t) (lookup (s_bals st) a).
Proof.
  intros st t a. cbn.
  exact (lookup_map_vals (fun b => mkBal (b_total b) (b_free b) t) (s_bals st) a).
Qed.

Lemma dstep_nonneg : forall cfg st op, Nonneg st -> Nonneg (dstep cfg st op).
Proof.
  intros cfg st op H. destruct op; cbn.
  - exact H.
  - intros a b L. rewrite account_set_time_lookup in L.
    destruct (lookup (s_bals st) a) as [b0|] eqn:B; [|discriminate]. cbn in L.
    inversion L; subst. cbn. exact (H _ _ B).
  - apply step_open_nonneg. exact H.
Qed.

Lemma nonneg_inv : forall cfg ops st, Nonneg st -> Nonneg (fold_left (dstep cfg) ops st).
Proof.
  intros cfg ops. induction ops as [|op t IH]; intros st H; cbn; [exact H|].
  apply IH. apply dstep_nonneg. exact H.
Qed.

Lemma nonneg_orders : forall cfg reqs st, Nonneg st -> Nonneg (fold_left (step_open cfg) reqs st).
Proof.
  intros cfg reqs. induction reqs as [|r t IH]; intros st H; cbn; [exact H|].
  apply IH. apply step_open_nonneg. exact H.
Qed.

Lemma tick_lookup : forall cfg st t a,
  lookup (s_bals (tick cfg st t)) a =
  option_map (fun b => mkBal (b_total b) (b_free b) (t + Z.of_N (c_latency cfg / 2))%Z)
             (lookup (s_bals st) a).
Proof. intros. unfold tick. rewrite account_set_time_lookup. reflexivity. Qed.

Lemma tick_nonneg : forall cfg st t, Nonneg st -> Nonneg (tick cfg st t).
Proof.
  intros cfg st t H a b L. rewrite tick_lookup in L.
  destruct (lookup (s_bals st) a) as [b0|] eqn:B; [|discriminate]. cbn in L.
  inversion L; subst. cbn. exact (H _ _ B).
Qed.

Lemma run_cons : forall cfg ost rq t,
  run cfg ost (rq :: t) =
  (let '(ost1, resp, evs) := run_request cfg ost rq in
   let '(ost2, out) := run cfg ost1 t in (ost2, (resp, evs) :: out)).
Proof. reflexivity. Qed.

Lemma run_dead : forall cfg rqs, fst (run cfg None rqs) = None.
Proof.
  intros cfg rqs. induction rqs as [|rq t IH]; [reflexivity|].
  rewrite run_cons. cbn [run_request]. destruct (run cfg None t) as [o2 out2]. exact IH.
Qed.

Lemma run_request_nonneg : forall cfg st rq st' resp evs,
  Nonneg st -> run_request cfg (Some st) rq = (Some st', resp, evs) -> Nonneg st'.
Proof.
  intros cfg st rq st' resp evs H E. cbn in E.
  pose proof (tick_nonneg cfg st (rq_time rq) H) as H1.
  destruct (rq_kind rq); try (inversion E; subst; exact H1).
  pose proof (step_open_nonneg cfg _ r H1) as H2. unfold step_open in H2.
  destruct (open_order cfg (tick cfg st (rq_time rq)) r) as [| |st2 res [n|]];
    try discriminate; inversion E; subst; exact H2.
Qed.

Lemma run_nonneg : forall cfg rqs st st' out,
  Nonneg st -> run cfg (Some st) rqs = (Some st', out) -> Nonneg st'.
Proof.
  intros cfg rqs. induction rqs as [|rq t IH]; intros st st' out H E.
  - cbn in E. inversion E; subst. exact H.
  - rewrite run_cons in E.
    destruct (run_request cfg (Some st) rq) as [[ost1 resp] evs] eqn:R.
    destruct (run cfg ost1 t) as [ost2 out'] eqn:R'. inversion E; subst.
    destruct ost1 as [st1|].
    + eapply IH; [|exact R']. eapply run_request_nonneg; eassumption.
    + pose proof (run_dead cfg t) as D. rewrite R' in D. discriminate.
Qed.

(** the guard is an invariant *)
Lemma forallb_set_bal : forall (p : N * bal -> bool) l k v,
  forallb p l = true -> (forall k', p (k', v) = true) -> forallb p (set_bal l k v) = true.
Proof.
  induction l as [|[k' v'] t IH]; intros k v H Hv; cbn in *; [reflexivity|].
  apply andb_true_iff in H. destruct H as [H1 H2].
  destruct (N.eqb k' k); cbn.
  - rewrite Hv, H2. reflexivity.
  - rewrite H1. cbn. apply IH; assumption.
Qed.

Lemma wf_state_keys : forall cfg st st',
  (forall a, lookup (s_bals st) a <> None -> lookup (s_bals st') a <> None) ->
  forallb (fun kb => bal_ok (snd kb)) (s_bals st') = true ->
  wf_state cfg st = true -> wf_state cfg st' = true.
Proof.
  intros cfg st st' K B W. unfold wf_state in *. apply andb_true_iff in W. destruct W as [W1 _].
  apply andb_true_iff. split; [|exact B].
  rewrite forallb_forall in *. intros iu Hin. specialize (W1 _ Hin). cbn in *.
  destruct (lookup (s_bals st) (fst (snd iu))) eqn:E1; [|discriminate].
  destruct (lookup (s_bals st) (snd (snd iu))) eqn:E2; [|discriminate].
  assert (N1 : lookup (s_bals st') (fst (snd iu)) <> None) by (apply K; congruence).
  assert (N2 : lookup (s_bals st') (snd (snd iu)) <> None) by (apply K; congruence).
  destruct (lookup (s_bals st') (fst (snd iu))); [|congruence].
  destruct (lookup (s_bals st') (snd (snd iu))); [|congruence]. reflexivity.
Qed.

Lemma step_open_wf : forall cfg st req, wf_state cfg st = true -> wf_state cfg (step_open cfg st req) = true.
Proof.
  intros cfg st req W. unfold step_open.
  destruct (open_order_case cfg st req); try exact W.
  eapply wf_state_keys; [| |exact W]; cbn.
  - intros x Hx. destruct (N.eq_dec x a) as [->|Hn].
    + erewrite lookup_set_same by eassumption. discriminate.
    + rewrite lookup_set_other by exact Hn. exact Hx.
  - unfold wf_state in W. apply andb_true_iff in W. destruct W as [_ W2].
    apply forallb_set_bal; [exact W2|]. intro k'. cbn. unfold bal_ok. cbn. apply Qc_eqb_refl.
Qed.

Lemma account_set_time_wf : forall cfg st t, wf_state cfg st = true -> wf_state cfg (account_set_time st t) = true.
Proof.
  intros cfg st t W. eapply wf_state_keys; [| |exact W].
  - intros a Ha. rewrite account_set_time_lookup. destruct (lookup (s_bals st) a); [discriminate|congruence].
  - unfold wf_state in W. apply andb_true_iff in W. destruct W as [_ W2]. cbn.
    rewrite forallb_forall in *. intros kb Hin. apply in_map_iff in Hin.
    destruct Hin as [kb0 [<- Hin0]]. cbn. exact (W2 _ Hin0).
Qed.

Lemma dstep_wf : forall cfg st op, wf_state cfg st = true -> wf_state cfg (dstep cfg st op) = true.
Proof.
  intros cfg st op W. destruct op; cbn.
  - exact W.
  - apply account_set_time_wf. exact W.
  - apply step_open_wf. exact W.
Qed.

Lemma wf_inv : forall cfg ops st, wf_state cfg st = true -> wf_state cfg (fold_left (dstep cfg) ops st) = true.
Proof.
  intros cfg ops. induction ops as [|op t IH]; intros st W; cbn; [exact W|].
  apply IH. apply dstep_wf. exact W.
Qed.

Lemma tick_wf : forall cfg st t, wf_state cfg st = true -> wf_state cfg (tick cfg st t) = true.
Proof. intros. unfold tick. apply account_set_time_wf. exact H. Qed.

(** with the guard the exchange task never dies *)
Lemma run_request_alive : forall cfg st rq, wf_state cfg st = true ->
  exists st' resp evs, run_request cfg (Some st) rq = (Some st', resp, evs) /\ wf_state cfg st' = true.
Proof.
  intros cfg st rq W. cbn. pose proof (tick_wf cfg st (rq_time rq) W) as W1.
  destruct (rq_kind rq); try (do 3 eexists; split; [reflexivity|exact W1]).
  destruct (no_panic cfg _ r W1) as [st2 [res [n E]]].
  pose proof (step_open_wf cfg _ r W1) as W2. unfold step_open in W2.
  rewrite E in *. destruct n; do 3 eexists; (split; [reflexivity|exact W2]).
Qed.

Lemma run_alive : forall cfg rqs st, wf_state cfg st = true ->
  exists st' out, run cfg (Some st) rqs = (Some st', out) /\ wf_state cfg st' = true.
Proof.
  intros cfg rqs. induction rqs as [|rq t IH]; intros st W.
  - do 2 eexists. split; [reflexivity|exact W].
  - destruct (run_request_alive cfg st rq W) as [st1 [resp [evs [E W1]]]].
    rewrite run_cons, E. destruct (IH st1 W1) as [st2 [out [E2 W2]]]. rewrite E2.
    do 2 eexists. split; [reflexivity|exact W2].
Qed.

(* ---- order / trade ids ---------------------------------------------------------------------------- *)

Lemma In_seqN : forall n s x, In x (seqN s n) -> (s <= x)%N.
Proof.
  induction n as [|n IH]; intros s x H; cbn in H; [contradiction|].
  destruct H as [<-|H]; [reflexivity|]. specialize (IH _ _ H). lia.
Qed.

Lemma seqN_sorted : forall n s, StronglySorted N.lt (seqN s n).
Proof.
  induction n as [|n IH]; intro s; cbn; constructor.
  - apply IH.
  - apply Forall_forall. intros x H. apply In_seqN in H. lia.
Qed.

Lemma seqN_NoDup : forall n s, NoDup (seqN s n).
Proof.
  induction n as [|n IH]; intro s; cbn; constructor.
  - intro H. apply In_seqN in H. lia.
  - apply IH.
Qed.

Lemma trace_cons : forall cfg st r t,
  trace cfg st (r :: t) =
  match open_order cfg st r with
  | ODone st' res n => (res, n) :: trace cfg st' t
  | _ => trace cfg st t
  end.
Proof. reflexivity. Qed.

Lemma trace_ids : forall cfg reqs st,
  accepted_ids (trace cfg st reqs) = seqN (s_seq st) (length (accepted_ids (trace cfg st reqs))) /\
  s_seq (fold_left (step_open cfg) reqs st) =
    (s_seq st + N.of_nat (length (accepted_ids (trace cfg st reqs))))%N.
Proof.
  intros cfg reqs. induction reqs as [|r t IH]; intro st.
  - cbn. split; [reflexivity|lia].
  - rewrite trace_cons. cbn [fold_left]. unfold step_open at 2.
    pose proof (open_order_case cfg st r) as C.
    destruct (open_order cfg st r) as [| |st' res n] eqn:O; try apply IH.
    inversion C; subst; try (apply IH).
    destruct (IH (debited st a nb)) as [IH1 IH2]. cbn [s_seq debited] in IH1, IH2.
    unfold accepted_ids in *. cbn [flat_map fst app length seqN]. split.
    + f_equal. exact IH1.
    + rewrite IH2. lia.
Qed.

Definition ids_agree (rn : result * option notif) : Prop :=
  match rn with
  | (ROpen id _ _, Some n) => t_id (n_trade n) = id /\ t_order (n_trade n) = id
  | (RErr _, None) => True
  | _ => False
  end.

Lemma trace_ids_agree : forall cfg reqs st, Forall ids_agree (trace cfg st reqs).
Proof.
  intros cfg reqs. induction reqs as [|r t IH]; intro st; [constructor|].
  rewrite trace_cons. pose proof (open_order_case cfg st r) as C.
  destruct (open_order cfg st r) as [| |st' res n] eqn:O; try apply IH.
  constructor; [|apply IH]. inversion C; subst; cbn; auto.
Qed.

Lemma ids_fresh : forall cfg reqs st,
  let ids := accepted_ids (trace cfg st reqs) in
  ids = seqN (s_seq st) (length ids) /\ StronglySorted N.lt ids /\ NoDup ids /\
  Forall ids_agree (trace cfg st reqs) /\
  s_seq (fold_left (step_open cfg) reqs st) = (s_seq st + N.of_nat (length ids))%N.
Proof.
  intros cfg reqs st ids. destruct (trace_ids cfg reqs st) as [H1 H2]. fold ids in H1, H2.
  split; [exact H1|]. split; [rewrite H1; apply seqN_sorted|].
  split; [rewrite H1; apply seqN_NoDup|]. split; [apply trace_ids_agree|exact H2].
Qed.

(* ---- refinement to the ledger specification ------------------------------------------------------ *)

Lemma spec_step_ext : forall cfg l1 l2 req, (forall a, l1 a = l2 a) ->
  spec_accepts cfg l1 req = spec_accepts cfg l2 req /\
  forall a, spec_step cfg l1 req a = spec_step cfg l2 req a.
Proof.
  intros cfg l1 l2 req H.
  assert (A : spec_accepts cfg l1 req = spec_accepts cfg l2 req).
  { unfold spec_accepts. destruct (spec_spent cfg req); [rewrite H|]; reflexivity. }
  split; [exact A|]. intro a. unfold spec_step. rewrite A.
  destruct (spec_accepts cfg l2 req); [|apply H].
  destruct (spec_spent cfg req); [|apply H]. unfold ledger_debit. rewrite H. reflexivity.
Qed.

Lemma step_refines : forall cfg st req, wf_state cfg st = true ->
  exists st' res n, open_order cfg st req = ODone st' res n /\
    accepted res = spec_accepts cfg (abs_ledger st) req /\
    forall a, abs_ledger st' a = spec_step cfg (abs_ledger st) req a.
Proof.
  intros cfg st req W.
  destruct (open_order_case cfg st req).
  - do 3 eexists. split; [reflexivity|]. unfold spec_step, spec_accepts, spec_spent. rewrite H.
    split; reflexivity.
  - do 3 eexists. split; [reflexivity|]. unfold spec_step, spec_accepts, spec_spent. rewrite H, H0.
    split; reflexivity.
  - destruct (spent_has_balance _ _ _ _ W H) as [b [B _]]. congruence.
  - destruct (spent_has_balance _ _ _ _ W H) as [b' [B T]]. congruence.
  - do 3 eexists. split; [reflexivity|].
    assert (A : spec_accepts cfg (abs_ledger st) req = false).
    { unfold spec_accepts, abs_ledger. rewrite H, H0. cbn. apply Qc_leb_gt. exact H2. }
    unfold spec_step. rewrite A. split; reflexivity.
  - do 3 eexists. split; [reflexivity|].
    assert (A : spec_accepts cfg (abs_ledger st) req = true).
    { unfold spec_accepts, abs_ledger. rewrite H, H0. cbn. apply Qc_leb_le. exact H2. }
    unfold spec_step. rewrite A, H. split; [reflexivity|].
    intro x. unfold ledger_debit, abs_ledger. cbn.
    destruct (N.eqb_spec x a) as [->|Hx].
    + erewrite lookup_set_same by eassumption. rewrite H0. reflexivity.
    + rewrite lookup_set_other by exact Hx. reflexivity.
Qed.

Fixpoint spec_decisions (cfg : config) (led : ledger) (reqs : list request) : list bool :=
  match reqs with
  | [] => []
  | r :: t => spec_accepts cfg led r :: spec_decisions cfg (spec_step cfg led r) t
  end.

Lemma spec_run_ext : forall cfg reqs l1 l2, (forall a, l1 a = l2 a) ->
  spec_decisions cfg l1 reqs = spec_decisions cfg l2 reqs /\
  forall a, fold_left (spec_step cfg) reqs l1 a = fold_left (spec_step cfg) reqs l2 a.
Proof.
  intros cfg reqs. induction reqs as [|r t IH]; intros l1 l2 H; cbn.
  - split; [reflexivity|exact H].
  - destruct (spec_step_ext cfg l1 l2 r H) as [A S]. destruct (IH _ _ S) as [D F].
    split; [rewrite A, D; reflexivity|exact F].
Qed.

Lemma run_refines : forall cfg reqs st, wf_state cfg st = true ->
  map (fun rn => accepted (fst rn)) (trace cfg st reqs) = spec_decisions cfg (abs_ledger st) reqs /\
  forall a, abs_ledger (fold_left (step_open cfg) reqs st) a =
            fold_left (spec_step cfg) reqs (abs_ledger st) a.
Proof.
  intros cfg reqs. induction reqs as [|r t IH]; intros st W; cbn.
  - split; reflexivity.
  - destruct (step_refines cfg st r W) as [st' [res [n [E [A S]]]]].
    pose proof (step_open_wf cfg st r W) as W'. unfold step_open in *. rewrite E in *.
    destruct (IH st' W') as [D F].
    destruct (spec_run_ext cfg t _ _ S) as [D' F']. cbn. split.
    + rewrite A, D, D'. reflexivity.
    + intro a. rewrite F, F'. reflexivity.
Qed.

(** closed form of the specification: a balance is the initial one minus what the accepted
    orders spending that asset needed *)
Lemma ledger_sum : forall cfg reqs led a,
  fold_left (spec_step cfg) reqs led a =
  option_map (fun v => v - spec_debits cfg led reqs a) (led a).
Proof.
  intros cfg reqs. induction reqs as [|r t IH]; intros led a; cbn.
  - destruct (led a); cbn; [f_equal; ring|reflexivity].
  - rewrite IH. unfold spec_step at 2.
    destruct (spec_accepts cfg led r) eqn:A.
    + destruct (spec_spent cfg r) as [x|] eqn:S.
      * unfold ledger_debit. destruct (N.eqb_spec a x) as [->|Hx].
        -- destruct (led x); cbn; [f_equal; ring|reflexivity].
        -- destruct (led a); cbn; [f_equal; ring|reflexivity].
      * destruct (led a); cbn; [f_equal; ring|reflexivity].
    + destruct (led a); cbn; [f_equal; ring|reflexivity].
Qed.

Lemma spec_debits_nonneg : forall cfg reqs led a,
  0 <= c_fee cfg -> Forall (fun r => 0 <= r_price r) reqs -> 0 <= spec_debits cfg led reqs a.
Proof.
  intros cfg reqs. induction reqs as [|r t IH]; intros led a F P; cbn.
  - apply Qcle_refl.
  - inversion P; subst.
    assert (N0 : 0 <= spec_need (c_fee cfg) r).
    { unfold spec_need. pose proof (qabs_ge0 (r_qty r)) as Q.
      assert (0 <= 1 + c_fee cfg).
      { replace 0 with (0 + 0) by ring. apply Qcplus_le_compat; [discriminate|exact F]. }
      destruct (r_side r).
      - apply Qcmult_le_0_compat; [apply Qcmult_le_0_compat|]; assumption.
      - apply Qcmult_le_0_compat; assumption. }
    replace 0 with (0 + 0) by ring. apply Qcplus_le_compat; [|apply IH; assumption].
    destruct (spec_accepts cfg led r); [|apply Qcle_refl].
    destruct (spec_spent cfg r); [|apply Qcle_refl].
    destruct (N.eqb a n); [exact N0|apply Qcle_refl].
Qed.

(* ---- the request loop: responses, notifications, queries ------------------------------------------ *)


(** one request: an accepted order is announced by exactly [balance; trade], its trade is
    appended to the account's trade list; anything else announces nothing and records nothing *)
Lemma run_request_spec : forall cfg st rq ost' resp evs,
  run_request cfg (Some st) rq = (ost', resp, evs) ->
  let st1 := tick cfg st (rq_time rq) in
  (resp_accepted resp = true /\
     exists req n st2, rq_kind rq = KOpen req /\
       open_order cfg st1 req = ODone st2 (ROpen (s_seq st1) (s_now st1) (r_qty req)) (Some n) /\
       resp = POpen (ROpen (s_seq st1) (s_now st1) (r_qty req)) /\
       evs = [EvBalance (n_asset n) (n_bal n); EvTrade (n_trade n)] /\
       ost' = Some (ack_trade st2 (n_trade n)) /\ s_trades st2 = s_trades st)
  \/ (resp_accepted resp = false /\ evs = [] /\
      (ost' = None \/ exists st2, ost' = Some st2 /\ s_trades st2 = s_trades st /\
                        (forall a, abs_ledger st2 a = abs_ledger st a) /\ s_seq st2 = s_seq st)).
Proof.
  intros cfg st rq ost' resp evs E st1. cbn in E. fold st1 in E.
  assert (T : s_trades st1 = s_trades st /\ (forall a, abs_ledger st1 a = abs_ledger st a) /\ s_seq st1 = s_seq st).
  { split; [reflexivity|]. split; [|reflexivity]. intro a. unfold abs_ledger, st1. rewrite tick_lookup.
    destruct (lookup (s_bals st) a); reflexivity. }
  destruct (rq_kind rq) eqn:K;
    try (inversion E; subst; right; split; [reflexivity|]; split; [reflexivity|];
         right; exists st1; split; [reflexivity|exact T]).
  destruct (open_order cfg st1 r) as [| |st2 res n] eqn:O.
  - inversion E; subst. right. repeat split; auto.
  - inversion E; subst. right. repeat split; auto.
  - destruct n as [n|].
    + inversion E; subst. destruct (accepted_notif _ _ _ _ _ _ O) as [a [b [_ [_ [_ [R [Hn Hst]]]]]]].
      cbn in R. subst res. left. split; [reflexivity|]. exists r, n, st2.
      repeat split; auto. rewrite Hst. reflexivity.
    + inversion E; subst.
      assert (A : accepted res = false).
      { destruct (accepted res) eqn:A; [|reflexivity].
        apply (notif_iff_accepted _ _ _ _ _ _ O) in A. congruence. }
      right. split; [exact A|]. split; [reflexivity|]. right. exists st2. split; [reflexivity|].
      destruct res as [? ? ?|e]; [discriminate|].
      destruct (reject_frame _ _ _ _ _ _ O) as [-> _]. exact T.
Qed.

Lemma run_length : forall cfg rqs ost, length (snd (run cfg ost rqs)) = length rqs.
Proof.
  intros cfg rqs. induction rqs as [|rq t IH]; intro ost; [reflexivity|].
  rewrite run_cons.
  destruct (run_request cfg ost rq) as [[ost1 resp] evs]. specialize (IH ost1).
  destruct (run cfg ost1 t) as [ost2 out]. cbn in *. f_equal. exact IH.
Qed.

Lemma run_request_dead : forall cfg rq, run_request cfg None rq = (None, POffline, []).
Proof. reflexivity. Qed.

(** over a whole run: one response per request; per accepted order exactly one balance and one
    trade notification, none otherwise; the trade list grows by exactly the announced fills *)
Lemma run_notifications : forall cfg rqs ost ost' out,
  run cfg ost rqs = (ost', out) ->
  length out = length rqs /\
  length (filter is_ev_balance (flat_map snd out)) = length (filter resp_accepted (map fst out)) /\
  length (filter is_ev_trade (flat_map snd out)) = length (filter resp_accepted (map fst out)) /\
  Forall (fun re => if resp_accepted (fst re)
                    then exists a b t, snd re = [EvBalance a b; EvTrade t]
                    else snd re = []) out /\
  (forall st st', ost = Some st -> ost' = Some st' ->
     s_trades st' = s_trades st ++ ev_trades (flat_map snd out)).
Proof.
  intros cfg rqs. induction rqs as [|rq t IH]; intros ost ost' out E.
  - cbn in E. inversion E; subst. cbn. repeat split; auto.
    intros st st' H1 H2. rewrite H1 in H2. inversion H2; subst. rewrite app_nil_r. reflexivity.
  - rewrite run_cons in E.
    destruct (run_request cfg ost rq) as [[ost1 resp] evs] eqn:R.
    destruct (run cfg ost1 t) as [ost2 out'] eqn:R'. inversion E; subst. clear E.
    destruct (IH _ _ _ R') as [L [B [T [F Tr]]]]. cbn [length map flat_map fst snd].
    destruct ost as [st|].
    + destruct (run_request_spec _ _ _ _ _ _ R) as [[A [req [n [st2 [K [O [Rs [Ev [Os S2]]]]]]]]]|[A [Ev Os]]].
      * subst evs. cbn [app filter is_ev_balance is_ev_trade]. rewrite A.
        cbn [length]. repeat split; try congruence.
        -- constructor; [|exact F]. cbn. rewrite A. eauto.
        -- intros st0 st' H1 H2. inversion H1; subst st0. subst ost1.
           rewrite (Tr _ _ eq_refl H2). cbn [ack_trade s_trades]. rewrite S2, <- app_assoc. reflexivity.
      * subst evs. cbn [app filter]. rewrite A. repeat split; try congruence.
        -- constructor; [|exact F]. cbn. rewrite A. reflexivity.
        -- intros st0 st' H1 H2. inversion H1; subst st0.
           destruct Os as [->|[st2 [-> [S2 _]]]].
           ++ exfalso. pose proof (run_dead cfg t) as D. rewrite R' in D. cbn in D. congruence.
           ++ rewrite (Tr _ _ eq_refl H2), S2. reflexivity.
    + cbn in R. inversion R; subst. cbn. repeat split; try congruence;
        try (constructor; [reflexivity|exact F]); try (intros st st' H1; discriminate).
Qed.

(** queries answer from the current account: amounts as in the ledger, trades as recorded *)
Lemma query_spec : forall cfg st t,
  let st1 := tick cfg st t in
  run_request cfg (Some st) (mkRq t KSnapshot) = (Some st1, PSnapshot (s_bals st1) (s_open st1) (s_canc st1), []) /\
  run_request cfg (Some st) (mkRq t KBalances) = (Some st1, PBalances (s_bals st1), []) /\
  (forall since, run_request cfg (Some st) (mkRq t (KTrades since)) =
     (Some st1, PTrades (filter (fun x => Z.leb since (t_time x)) (s_trades st)), [])) /\
  (forall a, option_map b_free (lookup (s_bals st1) a) = abs_ledger st a) /\
  (forall a, option_map b_total (lookup (s_bals st1) a) = option_map b_total (lookup (s_bals st) a)) /\
  map fst (s_bals st1) = map fst (s_bals st).
Proof.
  intros cfg st t st1. repeat split.
  - intro a. unfold st1, abs_ledger. rewrite tick_lookup. destruct (lookup (s_bals st) a); reflexivity.
  - intro a. unfold st1. rewrite tick_lookup. destruct (lookup (s_bals st) a); reflexivity.
  - unfold st1. cbn. rewrite map_map. cbn. reflexivity.
Qed.

(** the request loop refines the ledger specification *)
Lemma run_loop_refines : forall cfg rqs st, wf_state cfg st = true ->
  exists st' out, run cfg (Some st) rqs = (Some st', out) /\
    map resp_accepted (filter (fun p => match p with POpen _ => true | _ => false end) (map fst out))
      = spec_decisions cfg (abs_ledger st) (opens_of rqs) /\
    forall a, abs_ledger st' a = fold_left (spec_step cfg) (opens_of rqs) (abs_ledger st) a.
Proof.
  intros cfg rqs. induction rqs as [|rq t IH]; intros st W.
  - exists st, []. cbn. repeat split.
  - pose proof (tick_wf cfg st (rq_time rq) W) as W1.
    assert (T : forall a, abs_ledger (tick cfg st (rq_time rq)) a = abs_ledger st a).
    { intro a. unfold abs_ledger. rewrite tick_lookup. destruct (lookup (s_bals st) a); reflexivity. }
    cbn [run]. cbn [run_request]. unfold opens_of. cbn [flat_map]. fold (opens_of t).
    destruct (rq_kind rq) eqn:K;
      try (destruct (IH _ W1) as [st' [out [E [D F]]]]; rewrite E; do 2 eexists;
           split; [reflexivity|]; cbn [map fst filter app];
           destruct (spec_run_ext cfg (opens_of t) _ _ T) as [D' F'];
           split; [rewrite D, D'; reflexivity|intro a; rewrite F, F'; reflexivity]).
    destruct (step_refines cfg _ r W1) as [st2 [res [n [O [A S]]]]].
    pose proof (step_open_wf cfg _ r W1) as W2. unfold step_open in W2. rewrite O in *.
    assert (S' : forall a, abs_ledger st2 a = spec_step cfg (abs_ledger st) r a).
    { intro a. rewrite S. apply (spec_step_ext cfg _ _ r T). }
    assert (A' : accepted res = spec_accepts cfg (abs_ledger st) r).
    { rewrite A. apply (spec_step_ext cfg _ _ r T). }
    destruct n as [n|].
    + assert (W3 : wf_state cfg (ack_trade st2 (n_trade n)) = true) by exact W2.
      destruct (IH _ W3) as [st' [out [E [D F]]]]. rewrite E. do 2 eexists. split; [reflexivity|].
      cbn [map fst filter app spec_decisions fold_left resp_accepted].
      assert (S'' : forall a, abs_ledger (ack_trade st2 (n_trade n)) a = spec_step cfg (abs_ledger st) r a)
        by exact S'.
      destruct (spec_run_ext cfg (opens_of t) _ _ S'') as [D' F'].
      split; [rewrite A', D, D'; reflexivity|intro a; rewrite F, F'; reflexivity].
    + destruct (IH _ W2) as [st' [out [E [D F]]]]. rewrite E. do 2 eexists. split; [reflexivity|].
      cbn [map fst filter app spec_decisions fold_left resp_accepted].
      destruct (spec_run_ext cfg (opens_of t) _ _ S') as [D' F'].
      split; [rewrite A', D, D'; reflexivity|intro a; rewrite F, F'; reflexivity].
Qed.

(** notifications, state and processing do not depend on whether clients wait for their
    responses: only what each client sees of its own response does *)
Lemma run_b_independent : forall cfg brqs ost,
  fst (run_b cfg ost brqs) = fst (run cfg ost (map fst brqs)) /\
  map snd (snd (run_b cfg ost brqs)) = map snd (snd (run cfg ost (map fst brqs))) /\
  map fst (snd (run_b cfg ost brqs)) =
    map (fun x : (rrequest * bool) * (rresp * list event) => mask (snd (fst x)) (fst (snd x)))
        (combine brqs (snd (run cfg ost (map fst brqs)))).
Proof.
  intros cfg brqs. induction brqs as [|[rq aw] t IH]; intro ost.
  - cbn. repeat split.
  - cbn [map fst run_b]. rewrite run_cons.
    destruct (run_request cfg ost rq) as [[ost1 resp] evs].
    specialize (IH ost1).
    destruct (run_b cfg ost1 t) as [ob outb]. destruct (run cfg ost1 (map fst t)) as [o2 out].
    cbn [fst snd map combine] in *. destruct IH as [I1 [I2 I3]].
    split; [exact I1|]. split; [f_equal; exact I2|f_equal; exact I3].
Qed.

(** the configured instrument kinds (contract size, settlement asset) influence nothing *)
Lemma kinds_irrelevant : forall cfg ks,
  (forall st req, open_order (with_kinds cfg ks) st req = open_order cfg st req) /\
  (forall ost rq, run_request (with_kinds cfg ks) ost rq = run_request cfg ost rq) /\
  (forall rqs ost, run (with_kinds cfg ks) ost rqs = run cfg ost rqs) /\
  (forall req, spec_spent (with_kinds cfg ks) req = spec_spent cfg req) /\
  (forall led req, spec_accepts (with_kinds cfg ks) led req = spec_accepts cfg led req).
Proof.
  intros cfg ks.
  assert (RR : forall ost rq, run_request (with_kinds cfg ks) ost rq = run_request cfg ost rq)
    by reflexivity.
  split; [reflexivity|]. split; [exact RR|]. split; [|split; reflexivity].
  induction rqs as [|rq t IH]; intro ost; [reflexivity|].
  rewrite !run_cons, RR. destruct (run_request cfg ost rq) as [[o1 r] e]. rewrite IH. reflexivity.
Qed.

(** whether anybody is subscribed to the account stream changes nothing but who hears the
    notifications: state (balances, ids, stored trades) and responses are those of [run] *)
Lemma run_s_independent : forall cfg srqs ost,
  fst (run_s cfg ost srqs) = fst (run cfg ost (map fst srqs)) /\
  map fst (snd (run_s cfg ost srqs)) = map fst (snd (run cfg ost (map fst srqs))) /\
  map snd (snd (run_s cfg ost srqs)) =
    map (fun x : (rrequest * bool) * (rresp * list event) =>
           if snd (fst x) then snd (snd x) else [])
        (combine srqs (snd (run cfg ost (map fst srqs)))).
Proof.
  intros cfg srqs. induction srqs as [|[rq sub] t IH]; intro ost.
  - cbn. repeat split.
  - cbn [map fst run_s]. rewrite run_cons.
    destruct (run_request cfg ost rq) as [[ost1 resp] evs].
    specialize (IH ost1).
    destruct (run_s cfg ost1 t) as [ob outb]. destruct (run cfg ost1 (map fst t)) as [o2 out].
    cbn [fst snd map combine] in *. destruct IH as [I1 [I2 I3]].
    split; [exact I1|]. split; [f_equal; exact I2|f_equal; exact I3].
Qed.
