(** Link theorem for C02: the correspondence oracle is no stricter than the model.
    [wf_case c = true -> corr_b c = true -> prop_b c = true]: whenever the implementation's
    observed behaviour agrees with the Gallina model (within the correspondence tolerances), the
    property oracle accepts it. Together with the C02 theorems about the model this is what makes
    "model = implementation on this case" imply "the property holds on this case". *)
From Coq Require Import Lia Lqa Setoid Qcanon Qcabs Qabs.
From BV Require Import Base.Common Model.Position Proofs.Position Corr.PosObs Corr.C02.
Local Close Scope Qc_scope.
Local Open Scope Q_scope.

(* ---- tolerance comparison as linear inequalities ------------------------------------------------ *)

Lemma Qabs'_Qabs x : Qabs' x == Qabs x.
Proof.
  unfold Qabs'. destruct (Qle_bool 0 x) eqn:E.
  - apply Qle_bool_iff in E. symmetry. apply Qabs_pos. exact E.
  - assert (H : ~ 0 <= x) by (intros H; apply Qle_bool_iff in H; congruence).
    symmetry. apply Qabs_neg. lra.
Qed.

Lemma near_iff tol x y : near tol x y = true <-> - tol <= x - y <= tol.
Proof.
  unfold near. rewrite Qle_bool_iff, Qabs'_Qabs. apply Qabs_Qle_condition.
Qed.

Lemma exact_iff x y : exact x y = true <-> x == y.
Proof. unfold exact. apply Qeq_bool_iff. Qed.

Lemma near_nonneg tol x y : near tol x y = true -> 0 <= tol.
Proof. intros H. apply near_iff in H. lra. Qed.

Lemma Qabs'_nonneg x : 0 <= Qabs' x.
Proof. rewrite Qabs'_Qabs. apply Qabs_nonneg. Qed.

(** |q*a - q*b| <= |q| * t when |a - b| <= t *)
Lemma scale_bound q a b t : - t <= a - b <= t ->
  - (Qabs' q * t) <= q * a - q * b <= Qabs' q * t.
Proof.
  intros H. rewrite Qabs'_Qabs.
  assert (E : q * a - q * b == q * (a - b)) by ring. rewrite E.
  apply Qabs_Qle_condition. rewrite Qabs_Qmult.
  apply Qmult_le_compat_nonneg.
  - split; [apply Qabs_nonneg|apply Qle_refl].
  - split; [apply Qabs_nonneg|apply Qabs_Qle_condition; exact H].
Qed.

(* ---- Qc values seen as Q ---------------------------------------------------------------------------- *)

Lemma this_Q2Qc q : this (Q2Qc q) == q.
Proof. cbn [this Q2Qc]. apply Qred_correct. Qed.

Lemma this_inv (x : Qc) : this (/ x)%Qc == / this x.
Proof. unfold Qcinv. cbn [this Q2Qc]. apply Qred_correct. Qed.
Lemma this_div (x y : Qc) : this (x / y)%Qc == this x / this y.
Proof. unfold Qcdiv. rewrite this_mult, this_inv. reflexivity. Qed.
Lemma this_0 : this (Q2Qc 0) == 0. Proof. reflexivity. Qed.

Lemma this_abs (x : Qc) : this (Qcabs x) == Qabs (this x).
Proof. reflexivity. Qed.

Lemma Qclt_this (x y : Qc) : (x < y)%Qc <-> this x < this y.
Proof. reflexivity. Qed.
Lemma Qcle_this (x y : Qc) : (x <= y)%Qc <-> this x <= this y.
Proof. reflexivity. Qed.

Lemma Qle_bool_false x y : Qle_bool x y = false <-> y < x.
Proof.
  split.
  - intros E. destruct (Qlt_le_dec y x) as [H|H]; [exact H|]. apply Qle_bool_iff in H. congruence.
  - intros H. destruct (Qle_bool x y) eqn:E; [|reflexivity]. apply Qle_bool_iff in E. lra.
Qed.

(* ---- boolean helpers ---------------------------------------------------------------------------------- *)

Lemma N_list_eqb_eq (a b : list N) : N_list_eqb a b = true <-> a = b.
Proof.
  unfold N_list_eqb. revert b. induction a as [|x a IH]; intros [|y b]; cbn [list_eqb];
    try (split; [discriminate|discriminate]); try (split; reflexivity).
  rewrite andb_true_iff, N.eqb_eq, IH. split; [intros [-> ->]; reflexivity|intros H; inversion H; auto].
Qed.

Lemma side_eqb_sym a b : side_eqb a b = side_eqb b a.
Proof. destruct a, b; reflexivity. Qed.

Lemma eqb_of_iff (a b : bool) : (a = true <-> b = true) -> Bool.eqb a b = true.
Proof. destruct a, b; cbn; intros [H1 H2]; auto; try (symmetry; auto). Qed.

Ltac split_andb H :=
  repeat match type of H with
  | (_ && _ = true) => let H' := fresh H in apply andb_prop in H; destruct H as [H H']
  end.

(* ---- the fills, seen from both sides ------------------------------------------------------------------ *)

Definition ovalid (i : N) (f : ofill) : Prop := of_inst f = i /\ 0 < of_qty f.

Lemma ovalid_valid i f : ovalid i f -> valid_fill i (fill_of f).
Proof.
  intros [Hi Hq]. split; [exact Hi|]. apply Qclt_this. cbn [fill_of f_qty].
  rewrite (this_Q2Qc (of_qty f)). exact Hq.
Qed.

Lemma this_sq_fill f : this (sq_fill (fill_of f)) == osq f.
Proof.
  unfold sq_fill, osq. cbn [fill_of f_side f_qty]. destruct (of_side f).
  - apply this_Q2Qc.
  - rewrite this_opp, this_Q2Qc. reflexivity.
Qed.

Lemma this_cashflow f : this (cashflow (fill_of f)) == ocashflow f.
Proof.
  unfold cashflow, ocashflow. cbn [fill_of f_side f_qty f_price f_fee]. destruct (of_side f).
  - rewrite this_minus, this_opp, this_mult, !this_Q2Qc. reflexivity.
  - rewrite this_minus, this_mult, !this_Q2Qc. reflexivity.
Qed.

Lemma this_fee f : this (f_fee (fill_of f)) == of_fee f.
Proof. cbn [fill_of f_fee]. apply this_Q2Qc. Qed.

Lemma Qc_of_this_eq (x y : Qc) : this x == this y -> x = y.
Proof. apply Qc_is_canon. Qed.

(* ---- crossing tests on Q and on Qc ------------------------------------------------------------------- *)

Lemma qcrosses_iff n s (a b : Qc) : n == this a -> s == this b ->
  (qcrosses n s = true <-> crosses a b).
Proof.
  intros Hn Hs. unfold qcrosses, crosses.
  rewrite orb_true_iff, !andb_true_iff, !negb_true_iff, !Qle_bool_false, !Qle_bool_iff.
  rewrite !Qclt_this, !Qcle_this, !this_plus. change (this (Q2Qc 0)) with 0.
  rewrite Hn, Hs. reflexivity.
Qed.

Lemma qcrosses_strictly_iff n s (a b : Qc) : n == this a -> s == this b ->
  (qcrosses_strictly n s = true <-> crosses_strictly a b).
Proof.
  intros Hn Hs. unfold qcrosses_strictly, crosses_strictly.
  rewrite orb_true_iff, !andb_true_iff, !negb_true_iff, !Qle_bool_false.
  rewrite !Qclt_this, !this_plus. change (this (Q2Qc 0)) with 0.
  rewrite Hn, Hs. reflexivity.
Qed.

Lemma qn_add a b : qn (a + b) == qn a + qn b.
Proof. unfold qn. rewrite N2Z.inj_add, inject_Z_plus. reflexivity. Qed.

(* ---- what agreement with the model means, field by field --------------------------------------------- *)

Lemma pos_matches_facts t m p : pos_matches t m p = true ->
  p_inst m = op_inst p /\ p_side m = op_side p /\
  (- t_price t <= this (p_avg m) - op_avg p <= t_price t) /\
  this (p_qty m) == op_qty p /\
  (- t_pnl t <= this (p_pnl_r m) - op_pnl_r p <= t_pnl t) /\
  (- t_fee t <= this (p_fin m) - op_fin p <= t_fee t) /\
  (- t_fee t <= this (p_fout m) - op_fout p <= t_fee t) /\
  p_trades m = op_trades p.
Proof.
  unfold pos_matches. intros H. split_andb H.
  apply N.eqb_eq in H. apply side_eqb_true in H10. apply near_iff in H9. apply exact_iff in H8.
  apply near_iff in H5. apply near_iff in H4. apply near_iff in H3. apply N_list_eqb_eq in H0.
  repeat split; tauto || assumption.
Qed.

Lemma exit_matches_facts t m x : exit_matches t m x = true ->
  x_inst m = ox_inst x /\ x_side m = ox_side x /\
  (- t_pnl t <= this (x_pnl_r m) - ox_pnl_r x <= t_pnl t) /\
  (- t_fee t <= this (x_fin m) - ox_fin x <= t_fee t) /\
  (- t_fee t <= this (x_fout m) - ox_fout x <= t_fee t) /\
  x_trades m = ox_trades x.
Proof.
  unfold exit_matches. intros H. split_andb H.
  apply N.eqb_eq in H. apply side_eqb_true in H8. apply near_iff in H5. apply near_iff in H4.
  apply near_iff in H3. apply N_list_eqb_eq in H0.
  repeat split; tauto || assumption.
Qed.

(** the closed record is that of the position that was open *)
Lemma exit_fields i p g c' x : p_inst p = i -> valid_fill i g ->
  pm_update (Some p) g = (c', Some x) ->
  x_side x = p_side p /\ x_inst x = p_inst p /\ x_trades x = (p_trades p ++ [f_id g])%list.
Proof.
  intros Hi Hv. destruct (arm_cases i p g Hi Hv) as [[Hs Ha]|[[Hs [Hlt Ha]]|[[Hs [Hlt Ha]]|[Hs [Hlt Ha]]]]];
    unfold pm_update, pos_update; rewrite Ha; intros E; inversion E; subst; auto.
Qed.

(* ---- the seven checks of [step_ok], one lemma each ---------------------------------------------------- *)

Lemma this_sq_pos m p : p_side m = op_side p -> this (p_qty m) == op_qty p ->
  osq_pos (Some p) == this (sq_pos m).
Proof.
  intros Hs Hq. unfold osq_pos, sq_pos. rewrite <- Hs. destruct (p_side m).
  - symmetry. exact Hq.
  - rewrite this_opp, Hq. reflexivity.
Qed.

Lemma osq_pos_model t c' cur : omatch (pos_matches t) c' cur = true ->
  osq_pos cur == this (sq_pm c').
Proof.
  destruct c' as [m|], cur as [p|]; cbn [omatch]; try discriminate; [|reflexivity].
  intros H. apply pos_matches_facts in H. destruct H as [_ [Hs [_ [Hq _]]]].
  cbn [sq_pm]. apply this_sq_pos; assumption.
Qed.

Lemma chk_size_ok t i n' c' cur :
  n' == this (sq_pm c') -> good i c' -> omatch (pos_matches t) c' cur = true ->
  chk_size n' cur = true.
Proof.
  intros Hn Hg Hm. pose proof (osq_pos_model t c' cur Hm) as Hsq.
  destruct c' as [m|], cur as [p|]; cbn [omatch] in Hm; try discriminate; cbn [chk_size].
  - apply pos_matches_facts in Hm. destruct Hm as [_ [_ [_ [Hq _]]]].
    apply andb_true_intro. split.
    + apply exact_iff. rewrite Hsq, Hn. reflexivity.
    + apply negb_true_iff, Qle_bool_false. rewrite <- Hq.
      destruct Hg as [_ [Hpos _]]. apply Qclt_this in Hpos. exact Hpos.
  - apply exact_iff. rewrite Hn. reflexivity.
Qed.

Lemma omatch_some_iff {A B} (f : A -> B -> bool) x y : omatch f x y = true ->
  (x <> None <-> y <> None).
Proof. destruct x, y; cbn; try discriminate; intros _; split; congruence. Qed.

Lemma chk_exit_iff_ok t i n s c g ox ex :
  good i c -> valid_fill i g -> n == this (sq_pm c) -> s == this (sq_fill g) ->
  ox = snd (pm_update c g) -> omatch (exit_matches t) ox ex = true ->
  chk_exit_iff n s ex = true.
Proof.
  intros Hg Hv Hn Hs -> Hm. unfold chk_exit_iff. apply eqb_of_iff.
  rewrite (qcrosses_iff n s _ _ Hn Hs), <- (step_exit_iff i c g Hg Hv).
  apply omatch_some_iff in Hm. destruct ex; split; intros H; try discriminate; try reflexivity.
  - apply Hm. discriminate.
  - exfalso. apply Hm in H. congruence.
Qed.

Lemma opened_ok_of t f rem g' p :
  0 <= t_fee t ->
  f_side g' = of_side f -> f_inst g' = of_inst f -> f_id g' = of_id f ->
  this (f_price g') == of_price f ->
  this (f_qty g') == rem -> 0 < rem ->
  this (f_fee g') == of_fee f * (rem / of_qty f) ->
  pos_matches t (pos_of_fill g') p = true ->
  opened_ok t f rem p = true.
Proof.
  intros Ht Hs Hi Hid Hp Hq Hpos Hfee Hm. apply pos_matches_facts in Hm.
  unfold pos_of_fill in Hm. cbn [p_inst p_side p_avg p_qty p_pnl_r p_fin p_fout p_trades] in Hm.
  destruct Hm as [Mi [Ms [Mavg [Mq [Mpnl [Mfin [Mfout Mtr]]]]]]].
  unfold opened_ok. set (fee := of_fee f * (rem / of_qty f)) in *.
  repeat (apply andb_true_intro; split).
  - rewrite <- Ms, Hs. destruct (of_side f); reflexivity.
  - apply near_iff. lra.
  - apply exact_iff. rewrite <- Mq, this_abs, Hq. apply Qabs_pos. lra.
  - apply near_iff. change (this (Q2Qc 0)) with 0 in Mfout. lra.
  - apply near_iff. rewrite this_opp in Mpnl. lra.
  - apply N_list_eqb_eq. rewrite <- Mtr, Hid. reflexivity.
  - apply N.eqb_eq. rewrite <- Mi, Hi. reflexivity.
Qed.

Lemma Qabs'_wd x y : x == y -> Qabs' x == Qabs' y.
Proof. intros H. rewrite !Qabs'_Qabs, H. reflexivity. Qed.

Global Instance Qabs'_proper : Morphisms.Proper (Qeq ==> Qeq) Qabs'.
Proof. intros x y H. apply Qabs'_wd, H. Qed.

Lemma chk_opened_ok t i n s c f cur :
  0 <= t_fee t ->
  good i c -> ovalid i f -> n == this (sq_pm c) -> s == this (sq_fill (fill_of f)) ->
  omatch (pos_matches t) (fst (pm_update c (fill_of f))) cur = true ->
  chk_opened t n s f cur = true.
Proof.
  intros Ht Hg Hf Hn Hs Hm. pose proof (ovalid_valid i f Hf) as Hv. destruct Hf as [Hfi Hfq].
  unfold chk_opened. destruct (qcrosses_strictly n s) eqn:Ecs.
  - (* flip: the remainder opens the opposite position *)
    apply (qcrosses_strictly_iff n s _ _ Hn Hs) in Ecs.
    rewrite (step_flip i c _ Hg Hv Ecs) in Hm.
    destruct cur as [p|]; cbn [omatch] in Hm; [|discriminate].
    set (r := Qcabs (sq_pm c + sq_fill (fill_of f))%Qc) in *.
    assert (Hr : this r == Qabs' (n + s)).
    { unfold r. rewrite this_abs, this_plus, <- Hn, <- Hs, Qabs'_Qabs. reflexivity. }
    assert (Hrpos : 0 < Qabs' (n + s)).
    { rewrite Qabs'_Qabs. destruct Ecs as [[A B]|[A B]].
      - assert (B' : this (sq_pm c + sq_fill (fill_of f))%Qc < 0) by exact B.
        rewrite this_plus, <- Hn, <- Hs in B'. rewrite Qabs_neg; lra.
      - assert (B' : 0 < this (sq_pm c + sq_fill (fill_of f))%Qc) by exact B.
        rewrite this_plus, <- Hn, <- Hs in B'. rewrite Qabs_pos; lra. }
    apply (opened_ok_of t f _ (remainder_fill (fill_of f) r) p Ht); try reflexivity;
      cbn [remainder_fill fill_of f_price f_qty f_fee]; try exact Hm; try exact Hr; try exact Hrpos.
    + apply this_Q2Qc.
    + rewrite this_mult, this_div, !this_Q2Qc, Hr. reflexivity.
  - destruct (exact n 0) eqn:E0; [|reflexivity].
    (* no position: the fill itself opens one *)
    apply exact_iff in E0. assert (Hc : c = None).
    { destruct c as [m|]; [|reflexivity]. exfalso. destruct Hg as [_ [Hq _]].
      assert (Hq' : 0 < this (p_qty m)) by exact Hq.
      rewrite E0 in Hn. cbn [sq_pm] in Hn. unfold sq_pos in Hn.
      destruct (p_side m); [|rewrite this_opp in Hn]; lra. }
    subst c. cbn [pm_update fst] in Hm.
    destruct cur as [p|]; cbn [omatch] in Hm; [|discriminate].
    apply (opened_ok_of t f _ (fill_of f) p Ht); try reflexivity;
      cbn [fill_of f_price f_qty f_fee]; try exact Hm; try exact Hfq; try apply this_Q2Qc.
    rewrite this_Q2Qc. field. lra.
Qed.

Lemma chk_exit_fields_ok t i c g prev ex :
  good i c -> valid_fill i g ->
  omatch (pos_matches t) c prev = true ->
  omatch (exit_matches t) (snd (pm_update c g)) ex = true ->
  chk_exit_fields prev ex = true.
Proof.
  intros Hg Hv Hp Hx. destruct ex as [x|]; [|reflexivity].
  destruct (snd (pm_update c g)) as [mx|] eqn:Ex; cbn [omatch] in Hx; [|discriminate].
  destruct c as [pm|]; [|discriminate Ex].
  destruct prev as [q|]; cbn [omatch] in Hp; [|discriminate].
  destruct Hg as [Hi _].
  destruct (exit_fields i pm g (fst (pm_update (Some pm) g)) mx Hi Hv) as [Es [Ei _]].
  { rewrite <- Ex. apply surjective_pairing. }
  apply pos_matches_facts in Hp. destruct Hp as [Pi [Ps _]].
  apply exit_matches_facts in Hx. destruct Hx as [Xi [Xs _]].
  cbn [chk_exit_fields]. apply andb_true_intro. split.
  - apply side_eqb_true. congruence.
  - apply N.eqb_eq. congruence.
Qed.

Lemma chk_ids_ok t i c f prev ex cur :
  good i c -> valid_fill i (fill_of f) ->
  omatch (pos_matches t) c prev = true ->
  omatch (pos_matches t) (fst (pm_update c (fill_of f))) cur = true ->
  omatch (exit_matches t) (snd (pm_update c (fill_of f))) ex = true ->
  chk_ids (of_id f) prev ex cur = true.
Proof.
  intros Hg Hv Hp Hc Hx. pose proof (step_trades i c (fill_of f) Hg Hv) as T. cbv zeta in T.
  change (f_id (fill_of f)) with (of_id f) in T.
  set (r := pm_update c (fill_of f)) in *.
  destruct c as [pm|].
  - destruct prev as [q|]; cbn [omatch] in Hp; [|discriminate].
    apply pos_matches_facts in Hp. destruct Hp as [_ [_ [_ [_ [_ [_ [_ Ptr]]]]]]].
    destruct (snd r) as [mx|] eqn:Ex.
    + destruct ex as [x|]; cbn [omatch] in Hx; [|discriminate].
      apply exit_matches_facts in Hx. destruct Hx as [_ [_ [_ [_ [_ Xtr]]]]].
      destruct T as [T1 T2].
      destruct (fst r) as [m|] eqn:Ec; destruct cur as [p|]; cbn [omatch] in Hc; try discriminate;
        cbn [chk_ids].
      * apply pos_matches_facts in Hc. destruct Hc as [_ [_ [_ [_ [_ [_ [_ Ctr]]]]]]].
        destruct T2 as [T2|T2]; [discriminate|]. cbn [trades_pm] in T2.
        apply andb_true_intro. split; apply N_list_eqb_eq; congruence.
      * apply N_list_eqb_eq. congruence.
    + destruct ex as [x|]; cbn [omatch] in Hx; [discriminate|].
      destruct (fst r) as [m|] eqn:Ec; destruct cur as [p|]; cbn [omatch] in Hc; try discriminate;
        cbn [chk_ids].
      * apply pos_matches_facts in Hc. destruct Hc as [_ [_ [_ [_ [_ [_ [_ Ctr]]]]]]].
        cbn [trades_pm] in T. apply N_list_eqb_eq. congruence.
      * exfalso. cbn [trades_pm] in T. exact (app_cons_not_nil _ _ _ T).
  - destruct prev as [q|]; cbn [omatch] in Hp; [discriminate|].
    destruct T as [T1 T2]. rewrite T1 in Hx.
    destruct ex as [x|]; cbn [omatch] in Hx; [discriminate|].
    destruct (fst r) as [m|] eqn:Ec; destruct cur as [p|]; cbn [omatch] in Hc; try discriminate;
      cbn [chk_ids].
    apply pos_matches_facts in Hc. destruct Hc as [_ [_ [_ [_ [_ [_ [_ Ctr]]]]]]].
    cbn [trades_pm] in T2. apply N_list_eqb_eq. congruence.
Qed.

(* ---- observed amounts against the model's, with their tolerances ------------------------------------- *)

Lemma qn_0 : qn 0 == 0. Proof. reflexivity. Qed.
Lemma qn_1 : qn 1 == 1. Proof. reflexivity. Qed.

Lemma ox_pnl_bound t ox ex : 0 <= t_pnl t -> omatch (exit_matches t) ox ex = true ->
  - (qn (ox_cnt ex) * t_pnl t) <= ox_pnl ex - this (pnlx ox) <= qn (ox_cnt ex) * t_pnl t.
Proof.
  intros Ht H. destruct ox as [mx|], ex as [x|]; cbn [omatch] in H; try discriminate;
    cbn [ox_cnt ox_pnl pnlx].
  - apply exit_matches_facts in H. destruct H as [_ [_ [Hp _]]]. rewrite qn_1. lra.
  - rewrite qn_0. change (this (Q2Qc 0)) with 0. lra.
Qed.

Lemma ox_fees_bound t ox ex : 0 <= t_fee t -> omatch (exit_matches t) ox ex = true ->
  - (2 * qn (ox_cnt ex) * t_fee t) <= ox_fees ex - this (feesx ox) <= 2 * qn (ox_cnt ex) * t_fee t.
Proof.
  intros Ht H. destruct ox as [mx|], ex as [x|]; cbn [omatch] in H; try discriminate;
    cbn [ox_cnt ox_fees feesx].
  - apply exit_matches_facts in H. destruct H as [_ [_ [_ [Hi [Ho _]]]]].
    rewrite qn_1, this_plus. lra.
  - rewrite qn_0. change (this (Q2Qc 0)) with 0. lra.
Qed.

Lemma op_bounds t c' cur : 0 <= t_pnl t -> 0 <= t_price t -> 0 <= t_fee t ->
  omatch (pos_matches t) c' cur = true ->
  (- t_pnl t <= op_pnl cur - this (pnlr_pm c') <= t_pnl t) /\
  (- t_price t <= op_avg' cur - this (avg_pm c') <= t_price t) /\
  (- (2 * t_fee t) <= op_fees cur - this (fees_pm c') <= 2 * t_fee t).
Proof.
  intros T1 T2 T3 H. destruct c' as [m|], cur as [p|]; cbn [omatch] in H; try discriminate;
    cbn [op_pnl op_avg' op_fees pnlr_pm avg_pm fees_pm].
  - apply pos_matches_facts in H. destruct H as [_ [_ [Ha [_ [Hp [Hi [Ho _]]]]]]].
    rewrite this_plus. repeat split; lra.
  - change (this (Q2Qc 0)) with 0. repeat split; lra.
Qed.

Lemma chk_cash_ok t k cnt X MX dX MdX P MP Sq A MA cash' cur :
  - (qn k * t_pnl t) <= X - MX <= qn k * t_pnl t ->
  - (qn cnt * t_pnl t) <= dX - MdX <= qn cnt * t_pnl t ->
  - t_pnl t <= P - MP <= t_pnl t ->
  - t_price t <= A - MA <= t_price t ->
  op_pnl cur == P -> op_avg' cur == A -> osq_pos cur == Sq ->
  MX + MdX + (MP - Sq * MA) == cash' ->
  chk_cash t (k + cnt) (X + dX) cash' cur = true.
Proof.
  intros HX HdX HP HA EP EA ES Hid. unfold chk_cash. apply near_iff.
  rewrite EP, EA, (Qabs'_wd _ _ ES), ES, qn_add.
  pose proof (scale_bound Sq A MA (t_price t) HA) as Hs.
  set (u := Qabs' Sq * t_price t) in *. set (sa := Sq * A) in *. set (sm := Sq * MA) in *.
  assert (E : (qn k + qn cnt + 1) * t_pnl t == qn k * t_pnl t + qn cnt * t_pnl t + t_pnl t) by ring.
  rewrite E. set (a1 := qn k * t_pnl t) in *. set (a2 := qn cnt * t_pnl t) in *.
  lra.
Qed.

Lemma chk_fees_ok t k cnt X MX dX MdX F MF fees' cur :
  - (2 * qn k * t_fee t) <= X - MX <= 2 * qn k * t_fee t ->
  - (2 * qn cnt * t_fee t) <= dX - MdX <= 2 * qn cnt * t_fee t ->
  - (2 * t_fee t) <= F - MF <= 2 * t_fee t ->
  op_fees cur == F ->
  MX + MdX + MF == fees' ->
  chk_fees t (k + cnt) (X + dX) fees' cur = true.
Proof.
  intros HX HdX HF EF Hid. unfold chk_fees. apply near_iff. rewrite EF, qn_add.
  assert (E : (2 * (qn k + qn cnt) + 2) * t_fee t == 2 * qn k * t_fee t + 2 * qn cnt * t_fee t + 2 * t_fee t) by ring.
  rewrite E. set (a1 := 2 * qn k * t_fee t) in *. set (a2 := 2 * qn cnt * t_fee t) in *.
  lra.
Qed.

(* ---- the running totals of the oracle against the model's history ------------------------------------- *)

Record R (t : tols) (a : acc) (c : pm) (xs : list exited) (fs : list fill) : Prop := {
  R_net : a_net a == this (net fs);
  R_cash : a_cash a == this (cash fs);
  R_fees : a_fees a == this (total_fees fs);
  R_xpnl : - (qn (a_nexits a) * t_pnl t) <= a_xpnl a - this (sum_x_pnl xs) <= qn (a_nexits a) * t_pnl t;
  R_xfees : - (2 * qn (a_nexits a) * t_fee t) <= a_xfees a - this (sum_x_fees xs)
            <= 2 * qn (a_nexits a) * t_fee t;
  R_cnt : a_nexits a = N.of_nat (length xs);
  R_prev : omatch (pos_matches t) c (a_prev a) = true }.

Lemma cnt_olist t ox ex : omatch (exit_matches t) ox ex = true ->
  ox_cnt ex = N.of_nat (length (olist ox)).
Proof. destruct ox, ex; cbn; try discriminate; reflexivity. Qed.

Lemma step_link t i a c xs fs f o :
  0 <= t_pnl t -> 0 <= t_price t -> 0 <= t_fee t ->
  Forall (valid_fill i) fs -> prun fs = (c, xs) -> R t a c xs fs -> ovalid i f ->
  omatch (pos_matches t) (fst (pm_update c (fill_of f))) (os_cur o) = true ->
  omatch (exit_matches t) (snd (pm_update c (fill_of f))) (os_exit o) = true ->
  step_ok t a f o = true /\
  R t (acc_next a f o) (fst (pm_update c (fill_of f)))
    (xs ++ olist (snd (pm_update c (fill_of f)))) (fs ++ [fill_of f]).
Proof.
  intros T1 T2 T3 Hv Hrun [Rn Rc Rf Rxp Rxf Rcnt Rprev] Hf Hc Hx.
  pose proof (ovalid_valid i f Hf) as Hvg. set (g := fill_of f) in *.
  pose proof (run_invariant i fs Hv) as inv. rewrite Hrun in inv.
  destruct inv as [G Nn _ _ _]. cbn [fst snd] in G, Nn.
  assert (Hv2 : Forall (valid_fill i) (fs ++ [g])).
  { apply Forall_app. split; [exact Hv|]. constructor; [exact Hvg|constructor]. }
  pose proof (run_invariant i (fs ++ [g]) Hv2) as inv2.
  rewrite prun_snoc, Hrun in inv2. unfold pstep in inv2. cbn [fst snd] in inv2.
  set (c' := fst (pm_update c g)) in *. set (ox := snd (pm_update c g)) in *.
  destruct inv2 as [G2 Nn2 C2 F2 _]. cbn [fst snd] in G2, Nn2, C2, F2.
  (* the net quantity before and after *)
  assert (Hn : a_net a == this (sq_pm c)) by (rewrite Nn; exact Rn).
  assert (Hs : osq f == this (sq_fill g)) by (symmetry; apply this_sq_fill).
  assert (Hn' : a_net a + osq f == this (sq_pm c')).
  { rewrite Nn2, net_snoc, this_plus, <- Rn, <- Hs. reflexivity. }
  (* the conservation identities of the model, in Q *)
  assert (Icash : this (sum_x_pnl xs) + this (pnlx ox) +
                  (this (pnlr_pm c') - this (sq_pm c') * this (avg_pm c')) ==
                  a_cash a + ocashflow f).
  { pose proof (this_cashflow f) as Ecf. fold g in Ecf.
    assert (E1 : this (cash (fs ++ [g])) == a_cash a + ocashflow f).
    { rewrite cash_snoc, this_plus, Rc, Ecf. reflexivity. }
    rewrite <- E1, <- C2, sum_x_pnl_snoc. unfold phi.
    rewrite !this_plus, this_minus, this_mult. reflexivity. }
  assert (Ifees : this (sum_x_fees xs) + this (feesx ox) + this (fees_pm c') == a_fees a + of_fee f).
  { pose proof (this_fee f) as Eff. fold g in Eff.
    assert (E1 : this (total_fees (fs ++ [g])) == a_fees a + of_fee f).
    { rewrite total_fees_snoc, this_plus, Rf, Eff. reflexivity. }
    rewrite <- E1, <- F2, sum_x_fees_snoc. rewrite !this_plus. reflexivity. }
  destruct (op_bounds t c' (os_cur o) T1 T2 T3 Hc) as [Bp [Ba Bf]].
  pose proof (ox_pnl_bound t ox (os_exit o) T1 Hx) as Bxp.
  pose proof (ox_fees_bound t ox (os_exit o) T3 Hx) as Bxf.
  pose proof (osq_pos_model t c' (os_cur o) Hc) as Hsq.
  split.
  - unfold step_ok. repeat (apply andb_true_intro; split).
    + exact (chk_size_ok t i _ c' _ Hn' G2 Hc).
    + exact (chk_exit_iff_ok t i _ _ c g ox _ G Hvg Hn Hs eq_refl Hx).
    + exact (chk_opened_ok t i _ _ c f _ T3 G Hf Hn Hs Hc).
    + exact (chk_exit_fields_ok t i c g _ _ G Hvg Rprev Hx).
    + eapply chk_cash_ok;
        [exact Rxp|exact Bxp|exact Bp|exact Ba|reflexivity|reflexivity|exact Hsq|exact Icash].
    + eapply chk_fees_ok; [exact Rxf|exact Bxf|exact Bf|reflexivity|exact Ifees].
    + exact (chk_ids_ok t i c f _ _ _ G Hvg Rprev Hc Hx).
  - unfold acc_next. constructor;
      cbn [a_net a_cash a_fees a_xpnl a_xfees a_nexits a_prev].
    + rewrite Qred_correct, net_snoc, this_plus, <- Rn, <- Hs. reflexivity.
    + pose proof (this_cashflow f) as Ecf. fold g in Ecf.
      rewrite Qred_correct, cash_snoc, this_plus, <- Rc, Ecf. reflexivity.
    + pose proof (this_fee f) as Eff. fold g in Eff.
      rewrite Qred_correct, total_fees_snoc, this_plus, <- Rf, Eff. reflexivity.
    + rewrite Qred_correct, sum_x_pnl_snoc, this_plus, qn_add.
      assert (E : (qn (a_nexits a) + qn (ox_cnt (os_exit o))) * t_pnl t ==
                  qn (a_nexits a) * t_pnl t + qn (ox_cnt (os_exit o)) * t_pnl t) by ring.
      rewrite E. set (a1 := qn (a_nexits a) * t_pnl t) in *.
      set (a2 := qn (ox_cnt (os_exit o)) * t_pnl t) in *. lra.
    + rewrite Qred_correct, sum_x_fees_snoc, this_plus, qn_add.
      assert (E : 2 * (qn (a_nexits a) + qn (ox_cnt (os_exit o))) * t_fee t ==
                  2 * qn (a_nexits a) * t_fee t + 2 * qn (ox_cnt (os_exit o)) * t_fee t) by ring.
      rewrite E. set (a1 := 2 * qn (a_nexits a) * t_fee t) in *.
      set (a2 := 2 * qn (ox_cnt (os_exit o)) * t_fee t) in *. lra.
    + rewrite app_length, Nat2N.inj_add, <- Rcnt, (cnt_olist t ox _ Hx). reflexivity.
    + exact Hc.
Qed.

(* ---- whole histories ------------------------------------------------------------------------------------- *)

Lemma run_link t i : 0 <= t_pnl t -> 0 <= t_price t -> 0 <= t_fee t ->
  forall ofs os a c xs fs,
  Forall (valid_fill i) fs -> prun fs = (c, xs) -> R t a c xs fs ->
  Forall (ovalid i) ofs -> corr_run t c ofs os = true ->
  fst (prop_run t a ofs os) = true /\
  exists c' xs', prun (fs ++ map fill_of ofs) = (c', xs') /\
                 R t (snd (prop_run t a ofs os)) c' xs' (fs ++ map fill_of ofs).
Proof.
  intros T1 T2 T3. induction ofs as [|f ofs IH]; intros os a c xs fs Hv Hrun HR Hof Hcorr.
  - destruct os as [|o os]; [|discriminate Hcorr]. cbn [prop_run fst snd map]. split; [reflexivity|].
    exists c, xs. rewrite app_nil_r. split; assumption.
  - destruct os as [|o os]; [discriminate Hcorr|]. cbn [corr_run] in Hcorr.
    apply andb_prop in Hcorr. destruct Hcorr as [Hcorr Hrest].
    apply andb_prop in Hcorr. destruct Hcorr as [Hc Hx].
    inversion Hof as [|? ? Hf Hof']; subst.
    destruct (step_link t i a c xs fs f o T1 T2 T3 Hv Hrun HR Hf Hc Hx) as [Hok HR'].
    cbn [prop_run]. rewrite Hok.
    assert (Hv2 : Forall (valid_fill i) (fs ++ [fill_of f])).
    { apply Forall_app. split; [exact Hv|]. constructor; [apply ovalid_valid; exact Hf|constructor]. }
    assert (Hrun2 : prun (fs ++ [fill_of f]) =
                    (fst (pm_update c (fill_of f)), xs ++ olist (snd (pm_update c (fill_of f))))%list).
    { rewrite prun_snoc, Hrun. reflexivity. }
    destruct (IH os _ _ _ _ Hv2 Hrun2 HR' Hof' Hrest) as [Hp [c' [xs' [Hrun' HR'']]]].
    split; [exact Hp|]. exists c', xs'. cbn [map].
    replace (fs ++ fill_of f :: map fill_of ofs)%list with ((fs ++ [fill_of f]) ++ map fill_of ofs)%list
      by (rewrite <- app_assoc; reflexivity).
    split; assumption.
Qed.

Lemma fold_sum_nonneg {A} (g : A -> Q) l : (forall x, 0 <= g x) ->
  0 <= fold_right (fun f a => g f + a) 0 l.
Proof.
  intros Hg. induction l as [|x l IH]; cbn [fold_right]; [lra|]. specialize (Hg x). lra.
Qed.

Lemma Qmaxq_nonneg a b : 0 <= b -> 0 <= Qmaxq a b.
Proof.
  intros Hb. unfold Qmaxq. destruct (Qle_bool a b) eqn:E; [exact Hb|].
  apply Qle_bool_false in E. lra.
Qed.

Lemma rel20_pos : 0 < rel20. Proof. reflexivity. Qed.
Lemma abs24_pos : 0 < abs24. Proof. reflexivity. Qed.

Lemma tols_of_nonneg fs : 0 <= t_pnl (tols_of fs) /\ 0 <= t_price (tols_of fs) /\ 0 <= t_fee (tols_of fs).
Proof.
  unfold tols_of. cbn [t_pnl t_price t_fee]. rewrite !Qred_correct.
  pose proof rel20_pos as R20. pose proof abs24_pos as A24.
  repeat split.
  - assert (H : 0 <= fold_right (fun f a => Qabs' (of_price f) * Qabs' (of_qty f) + Qabs' (of_fee f) + a) 0 fs).
    { apply (fold_sum_nonneg (fun f => Qabs' (of_price f) * Qabs' (of_qty f) + Qabs' (of_fee f))).
      intros x. pose proof (Qabs'_nonneg (of_price x)). pose proof (Qabs'_nonneg (of_qty x)).
      pose proof (Qabs'_nonneg (of_fee x)).
      assert (0 <= Qabs' (of_price x) * Qabs' (of_qty x)) by (apply Qmult_le_0_compat; assumption). lra. }
    set (n := fold_right _ 0 fs) in *. assert (0 <= n * rel20) by (apply Qmult_le_0_compat; lra). lra.
  - assert (H : 0 <= fold_right (fun f a => Qmaxq (Qabs' (of_price f)) a) 0 fs).
    { induction fs as [|x l IH]; cbn [fold_right]; [lra|]. apply Qmaxq_nonneg. exact IH. }
    set (p := fold_right _ 0 fs) in *. assert (0 <= p * rel20) by (apply Qmult_le_0_compat; lra).
    set (qmin := fold_right _ 1 fs). destruct (Qle_bool qmin 0) eqn:E; [lra|].
    apply Qle_bool_false in E.
    assert (0 <= abs24 / qmin).
    { unfold Qdiv. apply Qmult_le_0_compat; [lra|]. apply Qinv_le_0_compat. lra. }
    lra.
  - assert (H : 0 <= fold_right (fun f a => Qabs' (of_fee f) + a) 0 fs).
    { apply (fold_sum_nonneg (fun f => Qabs' (of_fee f))). intros x. apply Qabs'_nonneg. }
    set (n := fold_right _ 0 fs) in *. assert (0 <= n * rel20) by (apply Qmult_le_0_compat; lra). lra.
Qed.

Lemma wf_case_ovalid ofs os ag ts ik : wf_case (CFills ofs os ag ts ik) = true ->
  exists i, Forall (ovalid i) ofs.
Proof.
  cbn [wf_case]. destruct ofs as [|f0 l]; [exists 0%N; constructor|].
  intros H. exists (of_inst f0). rewrite forallb_forall in H. apply Forall_forall.
  intros f Hin. specialize (H f Hin). split_andb H.
  apply N.eqb_eq in H. apply negb_true_iff, Qle_bool_false in H2. split; assumption.
Qed.

(** the link theorem: on every well-formed case, agreement with the model implies that the
    property oracle accepts *)
Theorem oracle_sound : forall c, wf_case c = true -> corr_b c = true -> prop_b c = true.
Proof.
  intros [ofs os ag ts ik] Hwf Hcorr. destruct (wf_case_ovalid _ _ _ _ _ Hwf) as [i Hof].
  cbn [corr_b prop_b] in *. set (t := tols_of ofs) in *.
  destruct (tols_of_nonneg ofs) as [T1 [T2 T3]]. fold t in T1, T2, T3.
  apply andb_prop in Hcorr. destruct Hcorr as [Hcorr Hts].
  apply andb_prop in Hcorr. destruct Hcorr as [Hrun Hag].
  assert (R0 : R t acc0 None [] []).
  { constructor; cbn [acc0 a_net a_cash a_fees a_xpnl a_xfees a_nexits a_prev omatch length];
      try reflexivity; rewrite ?qn_0; change (this (sum_x_pnl [])) with 0;
      change (this (sum_x_fees [])) with 0; lra. }
  destruct (run_link t i T1 T2 T3 ofs os acc0 None [] [] (Forall_nil _) eq_refl R0 Hof Hrun)
    as [Hp [c' [xs' [Hrun' HR]]]].
  cbn [app] in Hrun', HR. rewrite Hp, Hag. cbn [andb].
  destruct ts as [[cnt pnl]|]; [|reflexivity].
  rewrite Hrun' in Hts. cbn [snd] in Hts. apply andb_prop in Hts. destruct Hts as [Hcnt Hpnl].
  destruct HR as [_ _ _ Rxp _ Rcnt _]. apply andb_true_intro. split.
  - rewrite Rcnt. exact Hcnt.
  - apply near_iff in Hpnl. apply near_iff.
    set (k := qn (a_nexits (snd (prop_run t acc0 ofs os)))) in *.
    assert (E : (k + 1) * t_pnl t == k * t_pnl t + t_pnl t) by ring. rewrite E.
    set (kt := k * t_pnl t) in *. lra.
Qed.
