(** C20 — link between the correspondence check and the oracle: whenever the model run reproduces
    what an engine was observed to process ([corr_run] = true), the market part of the oracle
    holds for that run (processed market events = dataset, or a prefix of it on a fatal stop).
    So the oracle is no stricter than the model on this part, and a wrong oracle would show up
    here as an unprovable lemma. *)
From Coq Require Import List Arith Bool ZArith NArith.
Import ListNotations.
From BV Require Import Base.Common Model.Backtest Proofs.Backtest Corr.C20.

Lemma list_eqb_eq : forall (X : Type) (eqb : X -> X -> bool),
  (forall a b, eqb a b = true -> a = b) ->
  forall l1 l2, list_eqb eqb l1 l2 = true -> l1 = l2.
Proof.
  intros X eqb Heq. induction l1 as [|x l1 IH]; intros [|y l2] H; cbn in H; try discriminate; [reflexivity|].
  apply andb_true_iff in H. destruct H as [H1 H2]. f_equal; [apply Heq; exact H1|apply IH; exact H2].
Qed.

Lemma list_eqb_refl : forall (X : Type) (eqb : X -> X -> bool),
  (forall a, eqb a a = true) -> forall l, list_eqb eqb l l = true.
Proof. intros X eqb Hr. induction l as [|x l IH]; [reflexivity|]. cbn. rewrite Hr, IH. reflexivity. Qed.

Lemma ev_eqb_eq : forall a b : ev Z N, ev_eqb a b = true -> a = b.
Proof.
  intros [x|x|] [y|y|] H; cbn in H; try discriminate; try reflexivity.
  - apply Z.eqb_eq in H. subst. reflexivity.
  - apply N.eqb_eq in H. subst. reflexivity.
Qed.

Lemma stop_eqb_eq : forall a b, stop_eqb a b = true -> a = b.
Proof. intros [] [] H; cbn in H; try discriminate; reflexivity. Qed.

Lemma markets_map_lev : forall log, markets (map lev_ev log) = market_codes log.
Proof.
  induction log as [|l log IH]; [reflexivity|]. destruct l; cbn; [f_equal|]; exact IH.
Qed.

Lemma is_prefix_app : forall l1 l2, is_prefix l1 (l1 ++ l2) = true.
Proof. induction l1 as [|x l1 IH]; intros l2; [reflexivity|]. cbn. rewrite Z.eqb_refl. apply IH. Qed.

Theorem corr_run_markets : forall fatal ds r, corr_run fatal ds r = true ->
  match fatal with
  | None => market_codes (r_log r) = ds
  | Some _ => exists ds2, ds = market_codes (r_log r) ++ ds2
  end.
Proof.
  intros fatal ds r H. unfold corr_run in H.
  destruct (model_feed ds (r_log r)) as [feed|] eqn:E; [|discriminate].
  assert (Hadm : admissible ds (acct_kinds (r_log r)) feed).
  { unfold model_feed in E. exact (weave_interleave Z N _ _ _ feed E). }
  pose proof (consumes_all_in_order Z N N (cstep fatal) ds _ feed 0%N Hadm) as Hc.
  destruct fatal as [f|].
  - apply andb_true_iff in H. destruct H as [H Hp]. apply andb_true_iff in H. destruct H as [_ Ho].
    apply stop_eqb_eq in Ho. apply (list_eqb_eq _ ev_eqb ev_eqb_eq) in Hp.
    destruct Hc as [[Ho' _]|[_ [ds2 Hd]]].
    + rewrite Ho in Ho'. discriminate Ho'.
    + exists ds2. rewrite Hd, Hp, markets_map_lev. reflexivity.
  - apply andb_true_iff in H. destruct H as [H Hp]. apply andb_true_iff in H. destruct H as [_ Ho].
    apply stop_eqb_eq in Ho. apply (list_eqb_eq _ ev_eqb ev_eqb_eq) in Hp.
    destruct Hc as [[_ [p' [Hp' [Hm _]]]]|[Ho' _]].
    + rewrite Hp in Hp'. apply app_inj_tail in Hp'. destruct Hp' as [Hp' _].
      rewrite <- Hm, <- Hp', markets_map_lev. reflexivity.
    + rewrite Ho in Ho'. discriminate Ho'.
Qed.

(** boolean form, as used by [prop_b] *)
Theorem corr_implies_market_oracle : forall c r, corr_b c = true -> In r (c_runs c) ->
  (c_fail c && N.eqb (r_outcome r) 1) = false ->   (* not a run aborted by a failing source *)
  match c_fatal c with
  | None => list_eqb Z.eqb (market_codes (r_log r)) (c_ds c) = true
  | Some _ => is_prefix (market_codes (r_log r)) (c_ds c) = true
  end.
Proof.
  intros c r Hc Hin Hnf. unfold corr_b in Hc. apply andb_true_iff in Hc. destruct Hc as [Hc _].
  apply andb_true_iff in Hc. destruct Hc as [_ Hc].
  rewrite forallb_forall in Hc. specialize (Hc r Hin). cbv beta in Hc. rewrite Hnf in Hc.
  pose proof (corr_run_markets _ _ _ Hc) as H.
  destruct (c_fatal c).
  - destruct H as [ds2 Hd]. rewrite Hd. apply is_prefix_app.
  - rewrite H. apply list_eqb_refl. exact Z.eqb_refl.
Qed.
Print Assumptions corr_implies_market_oracle.
