(** Lemmas about Model/Stats.v: the one-pass (Welford) summary equals the statistics of the
    whole dataset computed at once, in exact rational arithmetic. *)
From Coq Require Import Lia Permutation.
From BV Require Import Model.Stats.
Open Scope Qc_scope.

(* ---- nat -> Qc ----------------------------------------------------------------------------- *)

Lemma nQc_0 : nQc 0 = 0.
Proof. apply Qc_is_canon. reflexivity. Qed.

Lemma nQc_S : forall n, nQc (S n) = nQc n + 1.
Proof.
  intro n. apply Qc_is_canon. unfold nQc, Qcplus. cbn [this Q2Qc].
  rewrite !Qred_correct. unfold Qeq, Qplus, inject_Z. cbn [Qnum Qden]. lia.
Qed.

Lemma nQc_pos : forall n, 0 < nQc (S n).
Proof.
  intro n. unfold Qclt, nQc. cbn [this Q2Qc]. rewrite !Qred_correct.
  unfold Qlt, inject_Z. cbn [Qnum Qden]. lia.
Qed.

Lemma nQc_nonzero : forall n, nQc (S n) <> 0.
Proof. intros n H. pose proof (nQc_pos n) as P. rewrite H in P. exact (Qclt_not_eq _ _ P eq_refl). Qed.

Lemma nQc_ge_1 : forall n, 1 <= nQc (S n).
Proof.
  intro n. unfold Qcle, nQc. cbn [this Q2Qc]. rewrite !Qred_correct.
  unfold Qle, inject_Z. cbn [Qnum Qden]. lia.
Qed.

(* ---- boolean comparisons -------------------------------------------------------------------- *)

Lemma Qcltb_true : forall a b, Qcltb a b = true <-> a < b.
Proof.
  intros a b. unfold Qcltb, Qclt. rewrite negb_true_iff. split.
  - intro H. apply Qnot_le_lt. intro L. apply Qle_bool_iff in L. congruence.
  - intro H. destruct (Qle_bool b a) eqn:E; [|reflexivity].
    apply Qle_bool_iff in E. exfalso. exact (Qlt_not_le _ _ H E).
Qed.

Lemma Qcltb_false : forall a b, Qcltb a b = false <-> b <= a.
Proof.
  intros a b. unfold Qcltb, Qcle. rewrite negb_false_iff. apply Qle_bool_iff.
Qed.

Lemma Qclt_le_weak : forall a b : Qc, a < b -> a <= b.
Proof. intros a b. unfold Qclt, Qcle. apply Qlt_le_weak. Qed.

(* ---- sums ------------------------------------------------------------------------------------ *)

Lemma sumQc_app : forall l1 l2, sumQc (l1 ++ l2) = sumQc l1 + sumQc l2.
Proof. induction l1; intro l2; cbn [sumQc app]; [ring|rewrite IHl1; ring]. Qed.

Definition sumsq (l : list Qc) : Qc := sumQc (map sq l).

Lemma sumQc_snoc : forall l x, sumQc (l ++ [x]) = sumQc l + x.
Proof. intros. rewrite sumQc_app. cbn [sumQc]. ring. Qed.

Lemma sumsq_app : forall l1 l2, sumsq (l1 ++ l2) = sumsq l1 + sumsq l2.
Proof. intros. unfold sumsq. rewrite map_app. apply sumQc_app. Qed.

Lemma sumsq_snoc : forall l x, sumsq (l ++ [x]) = sumsq l + x * x.
Proof. intros. rewrite sumsq_app. unfold sumsq, sq. cbn [map sumQc]. ring. Qed.

(** sum of squared deviations from any centre *)
Lemma sum_sq_dev : forall c l,
  sumQc (map (fun x => sq (x - c)) l) = sumsq l - (1 + 1) * c * sumQc l + nQc (length l) * c * c.
Proof.
  intros c l. induction l as [|a l IH].
  - cbn. rewrite nQc_0. unfold sumsq. cbn. ring.
  - cbn [map sumQc length]. rewrite IH, nQc_S. unfold sumsq, sq. cbn [map sumQc]. ring.
Qed.

(** the textbook identity: sum of squared deviations from the mean = sum of squares - S^2/n *)
Lemma b_M_closed : forall l, b_M l = sumsq l - sumQc l * sumQc l / nQc (length l).
Proof.
  intro l. unfold b_M. rewrite sum_sq_dev. unfold b_mean.
  destruct l as [|a l].
  - cbn [length sumQc]. rewrite nQc_0. unfold sumsq. cbn [map sumQc]. unfold Qcdiv. ring.
  - cbn [length]. field. apply nQc_nonzero.
Qed.

Lemma sumQc_perm : forall l l', Permutation l l' -> sumQc l = sumQc l'.
Proof.
  induction 1; cbn [sumQc]; try congruence; try ring.
Qed.

Lemma sumsq_perm : forall l l', Permutation l l' -> sumsq l = sumsq l'.
Proof. intros. unfold sumsq. apply sumQc_perm. apply Permutation_map. assumption. Qed.

(* ---- squares are non-negative --------------------------------------------------------------------- *)

Lemma sq_nonneg : forall x : Qc, 0 <= sq x.
Proof.
  intro x. unfold sq, Qcle, Qcmult. cbn [this Q2Qc]. rewrite !Qred_correct.
  destruct x as [[n d] c]. cbn [this]. unfold Qle, Qmult. cbn [Qnum Qden]. nia.
Qed.

Lemma sumQc_nonneg : forall l, (forall x, In x l -> 0 <= x) -> 0 <= sumQc l.
Proof.
  induction l as [|a l IH]; intro H; cbn [sumQc].
  - apply Qcle_refl.
  - replace 0 with (0 + 0) by ring. apply Qcplus_le_compat.
    + apply H. left. reflexivity.
    + apply IH. intros x Hx. apply H. right. assumption.
Qed.

Lemma b_M_nonneg : forall l, 0 <= b_M l.
Proof.
  intro l. unfold b_M. apply sumQc_nonneg. intros x Hx.
  apply in_map_iff in Hx. destruct Hx as [y [<- _]]. apply sq_nonneg.
Qed.

Lemma div_nonneg : forall a n, 0 <= a -> 0 <= a / nQc n.
Proof.
  intros a n Ha. destruct n as [|n].
  - rewrite nQc_0. assert (I0 : / (0 : Qc) = 0) by (apply Qc_is_canon; reflexivity).
    unfold Qcdiv. rewrite I0. replace (a * 0) with 0 by ring. apply Qcle_refl.
  - apply Qcmult_lt_0_le_reg_r with (z := nQc (S n)); [apply nQc_pos|].
    replace (0 * nQc (S n)) with 0 by ring.
    replace (a / nQc (S n) * nQc (S n)) with a; [assumption|].
    field. apply nQc_nonzero.
Qed.

Lemma b_var_nonneg : forall l, 0 <= b_var l.
Proof. intro l. unfold b_var. apply div_nonneg. apply b_M_nonneg. Qed.

(* ---- the running summary --------------------------------------------------------------------------- *)

Lemma ds_run_snoc : forall l x, ds_run (l ++ [x]) = ds_update (ds_run l) x.
Proof. intros. unfold ds_run. rewrite fold_left_app. reflexivity. Qed.

Lemma calc_pop_var_pos : forall m n, calc_pop_var m (nQc (S n)) = m / nQc (S n).
Proof.
  intros m n. unfold calc_pop_var.
  destruct (Qcltb (nQc (S n)) 1) eqn:E; [|reflexivity].
  apply Qcltb_true in E. exfalso.
  pose proof (nQc_ge_1 n) as G. unfold Qclt, Qcle in *. exact (Qlt_not_le _ _ E G).
Qed.

(** count, sum, mean, recurrence M and variance after any sequence, in closed form *)
Lemma run_closed : forall l,
  s_count (ds_run l) = nQc (length l) /\
  s_sum (ds_run l) = sumQc l /\
  s_mean (ds_run l) = sumQc l / nQc (length l) /\
  d_m (s_disp (ds_run l)) = sumsq l - sumQc l * sumQc l / nQc (length l) /\
  d_var (s_disp (ds_run l)) = (sumsq l - sumQc l * sumQc l / nQc (length l)) / nQc (length l).
Proof.
  induction l as [|x l IH] using rev_ind.
  - change (ds_run []) with ds_default.
    cbn [ds_default disp_default s_count s_sum s_mean s_disp d_m d_var length sumQc].
    unfold sumsq. cbn [map sumQc]. rewrite nQc_0. unfold Qcdiv. repeat split; ring.
  - destruct IH as (Hc & Hs & Hm & HM & _).
    rewrite ds_run_snoc. unfold ds_update, disp_update.
    cbn [s_count s_sum s_mean s_disp d_m d_var].
    rewrite app_length, sumQc_snoc, sumsq_snoc. cbn [length]. rewrite Nat.add_1_r.
    rewrite Hc, Hs, Hm, HM. rewrite <- nQc_S. rewrite calc_pop_var_pos.
    unfold calc_mean, calc_m.
    destruct l as [|a l].
    + cbn [length sumQc]. unfold sumsq. cbn [map sumQc]. rewrite nQc_S, nQc_0.
      assert (I0 : / (0 : Qc) = 0) by (apply Qc_is_canon; reflexivity).
      assert (I1 : / ((0 : Qc) + 1) = 1) by (apply Qc_is_canon; reflexivity).
      unfold sq, Qcdiv. rewrite I0, I1. repeat split; ring.
    + rewrite nQc_S.
      assert (HN : nQc (length (a :: l)) <> 0) by (apply nQc_nonzero).
      assert (HN1 : nQc (length (a :: l)) + 1 <> 0).
      { rewrite <- nQc_S. apply nQc_nonzero. }
      clear Hc Hs Hm HM. generalize dependent (nQc (length (a :: l))). intros N HN HN1.
      generalize (sumQc (a :: l)) (sumsq (a :: l)). intros S Q.
      repeat split; try ring; field; auto.
Qed.

Theorem run_equals_batch : forall l,
  s_count (ds_run l) = b_count l /\
  s_sum (ds_run l) = b_sum l /\
  s_mean (ds_run l) = b_mean l /\
  d_m (s_disp (ds_run l)) = b_M l /\
  d_var (s_disp (ds_run l)) = b_var l.
Proof.
  intro l. destruct (run_closed l) as (Hc & Hs & Hm & HM & Hv).
  unfold b_count, b_sum, b_mean, b_var. rewrite b_M_closed. auto.
Qed.

Theorem run_var_nonneg : forall l, 0 <= d_var (s_disp (ds_run l)).
Proof. intro l. destruct (run_equals_batch l) as (_ & _ & _ & _ & ->). apply b_var_nonneg. Qed.

Theorem run_m_nonneg : forall l, 0 <= d_m (s_disp (ds_run l)).
Proof. intro l. destruct (run_equals_batch l) as (_ & _ & _ & -> & _). apply b_M_nonneg. Qed.

(* ---- range -------------------------------------------------------------------------------------------- *)

Lemma run_range : forall l, l <> [] ->
  r_act (d_range (s_disp (ds_run l))) = true /\
  is_max l (r_high (d_range (s_disp (ds_run l)))) /\
  is_min l (r_low (d_range (s_disp (ds_run l)))).
Proof.
  induction l as [|x l IH] using rev_ind; intro Hne; [congruence|].
  rewrite ds_run_snoc. unfold ds_update, disp_update. cbn [s_disp d_range].
  destruct l as [|a l].
  - change (ds_run []) with ds_default.
    cbn [ds_default disp_default s_disp d_range range_default range_update r_act r_high r_low app].
    unfold is_max, is_min. split; [reflexivity|].
    split; (split; [left; reflexivity|intros y [<-|[]]; apply Qcle_refl]).
  - destruct IH as (Hact & [Hin_h Hmax] & [Hin_l Hmin]); [discriminate|].
    unfold range_update. rewrite Hact. cbn [r_act r_high r_low].
    split; [reflexivity|]. split.
    + destruct (Qcltb _ x) eqn:E.
      * apply Qcltb_true in E. split; [apply in_or_app; right; left; reflexivity|].
        intros y Hy. apply in_app_or in Hy. destruct Hy as [Hy|[<-|[]]]; [|apply Qcle_refl].
        eapply Qcle_trans; [apply Hmax; exact Hy|apply Qclt_le_weak; exact E].
      * apply Qcltb_false in E. split; [apply in_or_app; left; exact Hin_h|].
        intros y Hy. apply in_app_or in Hy. destruct Hy as [Hy|[<-|[]]]; [apply Hmax; exact Hy|exact E].
    + destruct (Qcltb x _) eqn:E.
      * apply Qcltb_true in E. split; [apply in_or_app; right; left; reflexivity|].
        intros y Hy. apply in_app_or in Hy. destruct Hy as [Hy|[<-|[]]]; [|apply Qcle_refl].
        eapply Qcle_trans; [apply Qclt_le_weak; exact E|apply Hmin; exact Hy].
      * apply Qcltb_false in E. split; [apply in_or_app; left; exact Hin_l|].
        intros y Hy. apply in_app_or in Hy. destruct Hy as [Hy|[<-|[]]]; [apply Hmin; exact Hy|exact E].
Qed.

Lemma is_min_unique : forall l l' a b, Permutation l l' -> is_min l a -> is_min l' b -> a = b.
Proof.
  intros l l' a b P [Ia Ha] [Ib Hb]. apply Qcle_antisym.
  - apply Ha. eapply Permutation_in; [apply Permutation_sym; exact P|exact Ib].
  - apply Hb. eapply Permutation_in; [exact P|exact Ia].
Qed.

Lemma is_max_unique : forall l l' a b, Permutation l l' -> is_max l a -> is_max l' b -> a = b.
Proof.
  intros l l' a b P [Ia Ha] [Ib Hb]. apply Qcle_antisym.
  - apply Hb. eapply Permutation_in; [exact P|exact Ia].
  - apply Ha. eapply Permutation_in; [apply Permutation_sym; exact P|exact Ib].
Qed.

Lemma sum_lower : forall lo l, (forall x, In x l -> lo <= x) -> nQc (length l) * lo <= sumQc l.
Proof.
  intros lo l. induction l as [|a l IH]; intro H.
  - cbn. rewrite nQc_0. replace (0 * lo) with 0 by ring. apply Qcle_refl.
  - cbn [length sumQc]. rewrite nQc_S.
    replace ((nQc (length l) + 1) * lo) with (lo + nQc (length l) * lo) by ring.
    apply Qcplus_le_compat; [apply H; left; reflexivity|].
    apply IH. intros x Hx. apply H. right. exact Hx.
Qed.

Lemma sum_upper : forall hi l, (forall x, In x l -> x <= hi) -> sumQc l <= nQc (length l) * hi.
Proof.
  intros hi l. induction l as [|a l IH]; intro H.
  - cbn. rewrite nQc_0. replace (0 * hi) with 0 by ring. apply Qcle_refl.
  - cbn [length sumQc]. rewrite nQc_S.
    replace ((nQc (length l) + 1) * hi) with (hi + nQc (length l) * hi) by ring.
    apply Qcplus_le_compat; [apply H; left; reflexivity|].
    apply IH. intros x Hx. apply H. right. exact Hx.
Qed.

Theorem mean_in_range : forall l lo hi, l <> [] -> is_min l lo -> is_max l hi ->
  lo <= b_mean l /\ b_mean l <= hi.
Proof.
  intros l lo hi Hne [_ Hlo] [_ Hhi]. destruct l as [|a l]; [congruence|].
  set (L := a :: l) in *.
  assert (HN : nQc (length L) <> 0) by (apply nQc_nonzero).
  assert (HP : 0 < nQc (length L)) by (apply nQc_pos).
  assert (E : b_mean L * nQc (length L) = sumQc L) by (unfold b_mean; field; exact HN).
  split; apply Qcmult_lt_0_le_reg_r with (z := nQc (length L)); try exact HP; rewrite E.
  - rewrite Qcmult_comm. apply sum_lower. exact Hlo.
  - rewrite Qcmult_comm. apply sum_upper. exact Hhi.
Qed.

Theorem run_mean_in_range : forall l, l <> [] ->
  r_low (d_range (s_disp (ds_run l))) <= s_mean (ds_run l) /\
  s_mean (ds_run l) <= r_high (d_range (s_disp (ds_run l))).
Proof.
  intros l Hne. destruct (run_range l Hne) as (_ & Hmax & Hmin).
  destruct (run_equals_batch l) as (_ & _ & -> & _).
  apply mean_in_range; assumption.
Qed.

(* ---- arrival order -------------------------------------------------------------------------------------- *)

Theorem run_perm : forall l l', Permutation l l' -> ds_run l = ds_run l'.
Proof.
  intros l l' P.
  destruct (run_closed l) as (Hc & Hs & Hm & HM & Hv).
  destruct (run_closed l') as (Hc' & Hs' & Hm' & HM' & Hv').
  pose proof (Permutation_length P) as EL.
  pose proof (sumQc_perm _ _ P) as ES. pose proof (sumsq_perm _ _ P) as EQ.
  assert (ER : d_range (s_disp (ds_run l)) = d_range (s_disp (ds_run l'))).
  { destruct l as [|a l].
    - apply Permutation_nil in P. subst l'. reflexivity.
    - assert (Hne' : l' <> []).
      { intro E. subst l'. apply Permutation_sym, Permutation_nil in P. discriminate. }
      destruct (run_range (a :: l)) as (A1 & H1 & L1); [discriminate|].
      destruct (run_range l' Hne') as (A2 & H2 & L2).
      pose proof (is_max_unique _ _ _ _ P H1 H2) as EH.
      pose proof (is_min_unique _ _ _ _ P L1 L2) as ELo.
      destruct (d_range (s_disp (ds_run (a :: l)))) as [a1 h1 l1].
      destruct (d_range (s_disp (ds_run l'))) as [a2 h2 l2].
      cbn [r_act r_high r_low] in *. congruence. }
  destruct (ds_run l) as [c s m [r mm v]]. destruct (ds_run l') as [c' s' m' [r' mm' v']].
  cbn [s_count s_sum s_mean s_disp d_range d_m d_var] in *.
  subst c s m mm v c' s' m' mm' v' r. rewrite EL, ES, EQ. reflexivity.
Qed.

(* ---- standard deviation is determined by the oracle ----------------------------------------------------------- *)

Theorem sqrt_unique : forall v s1 s2 : Qc,
  0 <= s1 -> 0 <= s2 -> s1 * s1 = v -> s2 * s2 = v -> s1 = s2.
Proof.
  intros v s1 s2 H1 H2 E1 E2.
  assert (E : (s1 - s2) * (s1 + s2) = 0).
  { replace ((s1 - s2) * (s1 + s2)) with (s1 * s1 - s2 * s2) by ring. rewrite E1, E2. ring. }
  apply Qcmult_integral in E. destruct E as [E|E].
  - replace s1 with (s1 - s2 + s2) by ring. rewrite E. ring.
  - (* s1 + s2 = 0 with both non-negative: both are 0 *)
    assert (A : s1 <= 0).
    { replace 0 with (s1 + s2) at 1 by exact E. replace s1 with (s1 + 0) at 1 by ring.
      apply Qcplus_le_compat; [apply Qcle_refl|exact H2]. }
    assert (Z1 : s1 = 0) by (apply Qcle_antisym; assumption).
    rewrite Z1 in E. replace (0 + s2) with s2 in E by ring. congruence.
Qed.

(* ---- persist/restore steps --------------------------------------------------------------------------------- *)

Theorem persist_invariant : forall ops s, fold_left ds_step ops s = fold_left ds_update (dvals ops) s.
Proof.
  induction ops as [|[x|] ops IH]; intro s; [reflexivity| |]; unfold dvals in *; cbn [flat_map fold_left ds_step app].
  - apply IH.
  - apply IH.
Qed.

(* ------------------------------------------------------------------------------------------ *)
(** A value that lands exactly on the running mean leaves mean and M unchanged, but the
    population variance is still re-derived from the grown count: M / (n + 1), not the old M / n. *)
Lemma ds_update_at_mean : forall s : ds,
  s_mean (ds_update s (s_mean s)) = s_mean s /\
  d_m (s_disp (ds_update s (s_mean s))) = d_m (s_disp s) /\
  d_var (s_disp (ds_update s (s_mean s))) = calc_pop_var (d_m (s_disp s)) (s_count s + 1) /\
  s_count (ds_update s (s_mean s)) = s_count s + 1.
Proof.
  intros s. unfold ds_update, disp_update. cbn [s_mean s_disp d_m d_var s_count].
  assert (E : calc_m (d_m (s_disp s)) (s_mean s) (s_mean s)
                (calc_mean (s_mean s) (s_mean s) (s_count s + 1)) = d_m (s_disp s))
    by (unfold calc_m; ring).
  rewrite E. repeat split. unfold calc_mean, Qcdiv. ring.
Qed.
