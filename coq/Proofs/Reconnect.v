(** C12 — lemmas about the reconnecting-stream model (Model/Reconnect.v). *)
From Coq Require Import List NArith PeanoNat Bool Lia Permutation.
From BV Require Import Model.Reconnect.
Import ListNotations.
Local Open Scope N_scope.

(* ---- generic list facts ---------------------------------------------------------------------- *)

Lemma outputs_app : forall a b, outputs (a ++ b) = outputs a ++ outputs b.
Proof. intros. unfold outputs, events. now rewrite map_app, filter_app. Qed.

Lemma handled_app : forall a b, handled (a ++ b) = handled a ++ handled b.
Proof. intros. unfold handled, events. now rewrite map_app, filter_app. Qed.

Lemma attempt_times_app : forall a b, attempt_times (a ++ b) = attempt_times a ++ attempt_times b.
Proof. intros. unfold attempt_times. now rewrite filter_app, map_app. Qed.

Lemma handle_errors_app : forall a b, handle_errors (a ++ b) = handle_errors a ++ handle_errors b.
Proof. intros. unfold handle_errors. now rewrite map_app. Qed.

(* ---- one connection ----------------------------------------------------------------------------- *)

Lemma outputs_conn_trace : forall o items now tail,
  outputs (conn_trace o now items tail) = delivered items ++ [TNotice o].
Proof.
  intros o items. induction items as [|[d i] t IH]; intros now tail.
  - reflexivity.
  - destruct i as [v| |e]; cbn [conn_trace]; unfold delivered; cbn [map snd take_until_terminal].
    + change (TItem v :: outputs (conn_trace o (now + d) t tail) =
              (TItem v :: delivered t) ++ [TNotice o]).
      now rewrite IH.
    + reflexivity.
    + change (TErr e :: outputs (conn_trace o (now + d) t tail) =
              (TErr e :: delivered t) ++ [TNotice o]).
      now rewrite IH.
Qed.

Lemma handled_conn_trace : forall o items now tail, handled (conn_trace o now items tail) = [].
Proof.
  intros o items. induction items as [|[d i] t IH]; intros now tail; [reflexivity|].
  destruct i; cbn [conn_trace]; try reflexivity;
  unfold handled, events; cbn [map snd filter is_handled]; apply IH.
Qed.

Lemma attempts_conn_trace : forall o items now tail,
  attempt_times (conn_trace o now items tail) = [].
Proof.
  intros o items. induction items as [|[d i] t IH]; intros now tail; [reflexivity|].
  destruct i; cbn [conn_trace]; try reflexivity;
  unfold attempt_times; cbn [filter snd is_attempt map]; apply IH.
Qed.

(** the terminal error cuts the connection; what precedes it is untouched *)
Lemma take_until_terminal_cut : forall pre post,
  Forall (fun i => i <> IErrTerminal) pre ->
  take_until_terminal (pre ++ IErrTerminal :: post) = pre.
Proof.
  induction pre as [|x pre IH]; intros post H; [reflexivity|].
  inversion H; subst. cbn [app take_until_terminal].
  destruct x; [f_equal; now apply IH|congruence|f_equal; now apply IH].
Qed.

Lemma take_until_terminal_all : forall l,
  Forall (fun i => i <> IErrTerminal) l -> take_until_terminal l = l.
Proof.
  induction l as [|x l IH]; intros H; [reflexivity|].
  inversion H; subst. cbn [take_until_terminal].
  destruct x; [f_equal; now apply IH|congruence|f_equal; now apply IH].
Qed.

(** a non-terminal error is passed through and does not end the connection *)
Lemma take_until_terminal_other : forall pre e post,
  Forall (fun i => i <> IErrTerminal) pre ->
  take_until_terminal (pre ++ IErrOther e :: post) = pre ++ IErrOther e :: take_until_terminal post.
Proof.
  induction pre as [|x pre IH]; intros e post H; [reflexivity|].
  inversion H; subst. cbn [app take_until_terminal].
  destruct x; [f_equal; now apply IH|congruence|f_equal; now apply IH].
Qed.

Lemma no_terminal_delivered : forall items, ~ In TErrTerminal (delivered items).
Proof.
  intros items. unfold delivered. induction (map snd items) as [|x l IH]; [intros []|].
  destruct x; cbn [take_until_terminal map ev_of_item]; [|intros []|];
  (intros [H|H]; [discriminate|now apply IH]).
Qed.

Lemma no_notice_delivered : forall items o, ~ In (TNotice o) (delivered items).
Proof.
  intros items o. unfold delivered. induction (map snd items) as [|x l IH]; [intros []|].
  destruct x; cbn [take_until_terminal map ev_of_item]; [|intros []|];
  (intros [H|H]; [discriminate|now apply IH]).
Qed.

(* ---- the whole script ---------------------------------------------------------------------------- *)

Lemma outputs_run : forall pol o s cur now,
  outputs (run pol o cur now s) = flat_map (conn_spec o) s.
Proof.
  intros pol o s. induction s as [|c t IH]; intros cur now; [reflexivity|].
  destruct c as [lat|lat items tail]; cbn [run flat_map conn_spec].
  - change (outputs (run pol o (multiply_backoff pol cur) (now + lat + cur) t) =
            [] ++ flat_map (conn_spec o) t). now rewrite IH.
  - change (outputs (conn_trace o (now + lat) items tail ++
                     run pol o (reset_backoff pol cur) (conn_end (now + lat) items tail) t) =
            (delivered items ++ [TNotice o]) ++ flat_map (conn_spec o) t).
    now rewrite outputs_app, outputs_conn_trace, IH.
Qed.

Lemma outputs_stream_trace : forall pol o s,
  outputs (stream_trace pol o s) = flat_map (conn_spec o) s.
Proof.
  intros. unfold stream_trace. rewrite outputs_app, outputs_run.
  change (outputs [(end_now pol (p_initial pol) 0 s, TAttempt)]) with (@nil tev).
  now rewrite app_nil_r.
Qed.

Lemma handled_run : forall pol o s cur now, handled (run pol o cur now s) = [].
Proof.
  intros pol o s. induction s as [|c t IH]; intros cur now; [reflexivity|].
  destruct c as [lat|lat items tail]; cbn [run].
  - change (handled (run pol o (multiply_backoff pol cur) (now + lat + cur) t) = []). apply IH.
  - change (handled (conn_trace o (now + lat) items tail ++
                     run pol o (reset_backoff pol cur) (conn_end (now + lat) items tail) t) = []).
    rewrite handled_app, handled_conn_trace. cbn [app]. now rewrite IH.
Qed.

Lemma attempts_run_length : forall pol o s cur now,
  length (attempt_times (run pol o cur now s)) = length s.
Proof.
  intros pol o s. induction s as [|c t IH]; intros cur now; [reflexivity|].
  destruct c as [lat|lat items tail]; cbn [run length].
  - change (S (length (attempt_times (run pol o (multiply_backoff pol cur) (now + lat + cur) t))) =
            S (length t)). now rewrite IH.
  - change (S (length (attempt_times (conn_trace o (now + lat) items tail ++
              run pol o (reset_backoff pol cur) (conn_end (now + lat) items tail) t))) =
            S (length t)).
    rewrite attempt_times_app, attempts_conn_trace. cbn [app]. now rewrite IH.
Qed.

(** failed attempts deliver nothing: the trace of a run of failures consists of attempts only *)
Lemma fails_only_attempts : forall pol o lats cur now,
  Forall (fun p => snd p = TAttempt) (run pol o cur now (map InitFail lats)).
Proof.
  intros pol o lats. induction lats as [|lat t IH]; intros cur now; [constructor|].
  cbn [map run]. constructor; [reflexivity|apply IH].
Qed.

(* ---- notices: exactly one per connection, after its items, before the next connection ------------- *)

Lemma split_notices_segment : forall seg o rest,
  (forall o', ~ In (TNotice o') seg) ->
  split_notices (seg ++ TNotice o :: rest) =
  (seg :: fst (split_notices rest), snd (split_notices rest)).
Proof.
  induction seg as [|x seg IH]; intros o rest H; [reflexivity|].
  cbn [app]. assert (Hx : forall o', x <> TNotice o') by (intros o' E; apply (H o'); now left).
  assert (Hs : forall o', ~ In (TNotice o') seg) by (intros o' Hin; apply (H o'); now right).
  destruct x; try (exfalso; eapply Hx; reflexivity);
  cbn [split_notices]; rewrite (IH o rest Hs); reflexivity.
Qed.

Lemma split_notices_spec : forall o s,
  split_notices (flat_map (conn_spec o) s) = (map delivered (ok_conns s), []).
Proof.
  intros o s. induction s as [|c t IH]; [reflexivity|].
  destruct c as [lat|lat items tail]; cbn [flat_map conn_spec ok_conns map].
  - exact IH.
  - rewrite <- app_assoc. cbn [app].
    rewrite split_notices_segment by (intros o'; apply no_notice_delivered).
    now rewrite IH.
Qed.

(* ---- error handler ------------------------------------------------------------------------------- *)

Lemma outputs_handle_errors : forall tr,
  outputs (handle_errors tr) = filter (fun e => negb (is_err e)) (outputs tr).
Proof.
  induction tr as [|[t e] tr IH]; [reflexivity|].
  unfold outputs, events, handle_errors in *. cbn [map fst snd].
  destruct e; cbn [handle_ev is_output filter is_err negb]; rewrite IH; reflexivity.
Qed.

Lemma handled_handle_errors : forall tr,
  handled tr = [] ->
  handled (handle_errors tr) = map handle_ev (filter is_err (outputs tr)).
Proof.
  induction tr as [|[t e] tr IH]; [reflexivity|].
  unfold handled, outputs, events, handle_errors in *. cbn [map fst snd].
  destruct e; cbn [handle_ev is_handled is_output filter is_err map]; intros H;
  try discriminate; rewrite (IH H); reflexivity.
Qed.

(* ---- backoff ---------------------------------------------------------------------------------------- *)

Lemma min_mul_min : forall a m M, N.min (N.min a M * m) M = N.min (a * m) M.
Proof.
  intros a m M. destruct (N.le_gt_cases a M) as [H|H].
  - now rewrite (N.min_l a M H).
  - rewrite (N.min_r a M) by lia.
    destruct (N.eq_dec m 0) as [->|Hm].
    + now rewrite !N.mul_0_r.
    + rewrite (N.min_r (M * m) M) by nia. rewrite (N.min_r (a * m) M) by nia. reflexivity.
Qed.

(** the state machine's backoff after k consecutive failures is the closed form *)
Lemma multiply_wait : forall pol k, multiply_backoff pol (wait pol k) = wait pol (S k).
Proof.
  intros pol k. unfold multiply_backoff. destruct k as [|k].
  - cbn [wait]. change (N.of_nat 1) with 1. now rewrite N.pow_1_r.
  - cbn [wait]. rewrite min_mul_min. f_equal.
    rewrite (Nat2N.inj_succ (S k)), N.pow_succ_r'. lia.
Qed.

Lemma wait_uniform : forall pol k,
  p_initial pol <= p_max pol ->
  wait pol k = N.min (p_initial pol * p_mult pol ^ N.of_nat k) (p_max pol).
Proof.
  intros pol [|k] H; [|reflexivity].
  cbn [wait N.of_nat]. rewrite N.pow_0_r, N.mul_1_r. now rewrite N.min_l.
Qed.

Lemma wait_le_max : forall pol k, p_initial pol <= p_max pol -> wait pol k <= p_max pol.
Proof. intros pol k H. rewrite wait_uniform by assumption. apply N.le_min_r. Qed.

Lemma wait_mono : forall pol k,
  p_initial pol <= p_max pol -> 1 <= p_mult pol -> wait pol k <= wait pol (S k).
Proof.
  intros pol k Hi Hm. rewrite <- multiply_wait. unfold multiply_backoff.
  pose proof (wait_le_max pol k Hi). apply N.min_glb; [nia|assumption].
Qed.

(** u64: with initial <= max and max * multiplier < 2^64 no product computed by
    [multiply_backoff] overflows and every backoff fits *)
Lemma no_overflow : forall pol k,
  p_initial pol <= p_max pol -> p_max pol * p_mult pol < 2 ^ 64 -> p_max pol < 2 ^ 64 ->
  wait pol k * p_mult pol < 2 ^ 64 /\ wait pol k < 2 ^ 64.
Proof.
  intros pol k Hi Ho Hm. pose proof (wait_le_max pol k Hi). split; [|lia].
  eapply N.le_lt_trans; [|exact Ho]. now apply N.mul_le_mono_r.
Qed.

Lemma run_fails : forall pol o lats k now rest,
  run pol o (wait pol k) now (map InitFail lats ++ rest) =
  fail_attempts pol k now lats ++
  run pol o (wait pol (k + length lats)) (fail_end pol k now lats) rest.
Proof.
  intros pol o lats. induction lats as [|lat t IH]; intros k now rest.
  - cbn [map app fail_attempts fail_end length]. now rewrite Nat.add_0_r.
  - cbn [map app run fail_attempts fail_end length]. rewrite multiply_wait, IH.
    now rewrite Nat.add_succ_r.
Qed.

Lemma fail_end_sum : forall pol lats k now,
  fail_end pol k now lats + sum_waits pol k =
  now + sumN lats + sum_waits pol (k + length lats).
Proof.
  intros pol lats. induction lats as [|lat t IH]; intros k now.
  - cbn [fail_end sumN fold_right length]. rewrite Nat.add_0_r. lia.
  - cbn [fail_end length]. rewrite Nat.add_succ_r.
    change (sumN (lat :: t)) with (lat + sumN t).
    pose proof (IH (S k) (now + lat + wait pol k)) as E.
    change (sum_waits pol (S k)) with (sum_waits pol k + wait pol k) in E.
    change (S k + length t)%nat with (S (k + length t)) in E. lia.
Qed.

Lemma fail_end_closed : forall pol lats now,
  fail_end pol 0 now lats = now + sumN lats + sum_waits pol (length lats).
Proof.
  intros. pose proof (fail_end_sum pol lats 0 now) as E.
  change (sum_waits pol 0) with 0 in E. change (0 + length lats)%nat with (length lats) in E. lia.
Qed.

(* ---- the stream never ends by itself: prefix monotonicity ------------------------------------------- *)

Lemma run_app : forall pol o s1 s2 cur now,
  run pol o cur now (s1 ++ s2) =
  run pol o cur now s1 ++ run pol o (end_cur pol cur s1) (end_now pol cur now s1) s2.
Proof.
  intros pol o s1. induction s1 as [|c t IH]; intros s2 cur now; [reflexivity|].
  destruct c as [lat|lat items tail]; cbn [app run end_cur end_now].
  - now rewrite IH.
  - now rewrite IH, <- app_assoc.
Qed.

Lemma end_now_app : forall pol s1 s2 cur now,
  end_now pol cur now (s1 ++ s2) = end_now pol (end_cur pol cur s1) (end_now pol cur now s1) s2.
Proof.
  intros pol s1. induction s1 as [|c t IH]; intros s2 cur now; [reflexivity|].
  destruct c; cbn [app end_cur end_now]; now rewrite IH.
Qed.

Lemma run_head : forall pol o cur now c s,
  exists rest, run pol o cur now (c :: s) = (now, TAttempt) :: rest.
Proof. intros. destruct c; cbn [run]; eexists; reflexivity. Qed.

Lemma stream_trace_prefix : forall pol o s1 s2,
  Prefix (stream_trace pol o s1) (stream_trace pol o (s1 ++ s2)).
Proof.
  intros pol o s1 s2. unfold Prefix, stream_trace. destruct s2 as [|c s2].
  - exists []. now rewrite !app_nil_r.
  - rewrite run_app.
    destruct (run_head pol o (end_cur pol (p_initial pol) s1)
                (end_now pol (p_initial pol) 0 s1) c s2) as [rest E].
    rewrite E. eexists. rewrite <- !app_assoc. cbn [app]. reflexivity.
Qed.

(* ---- forward_to -------------------------------------------------------------------------------------- *)

Lemma forward_outputs : forall tr k, outputs (fst (forward_to k tr)) = firstn k (outputs tr).
Proof.
  induction tr as [|[t e] tr IH]; intros k; [now destruct k|].
  cbn [forward_to]. unfold outputs, events in *. cbn [map snd filter].
  destruct (is_output e) eqn:E.
  - destruct k as [|k]; [reflexivity|].
    cbn [fst map snd filter firstn]. rewrite E. f_equal. apply IH.
  - cbn [fst map snd filter]. rewrite E. apply IH.
Qed.

Lemma forward_prefix : forall tr k, Prefix (fst (forward_to k tr)) tr.
Proof.
  induction tr as [|[t e] tr IH]; intros k; [exists []; reflexivity|].
  cbn [forward_to]. destruct (is_output e).
  - destruct k as [|k]; [eexists; reflexivity|].
    destruct (IH k) as [rest E]. exists rest. cbn [fst app]. now rewrite <- E.
  - destruct (IH k) as [rest E]. exists rest. cbn [fst app]. now rewrite <- E.
Qed.

Lemma forward_done : forall tr k,
  snd (forward_to k tr) = None <-> (length (outputs tr) <= k)%nat.
Proof.
  induction tr as [|[t e] tr IH]; intros k.
  - cbn. split; [lia|reflexivity].
  - cbn [forward_to]. unfold outputs, events in *. cbn [map snd filter].
    destruct (is_output e).
    + destruct k as [|k]; cbn [snd length].
      * split; [discriminate|lia].
      * rewrite IH. lia.
    + cbn [snd]. apply IH.
Qed.

(* ---- a consumer that stops polling ------------------------------------------------------------------- *)

Lemma take_outputs : forall tr n, outputs (take_upto n tr) = firstn n (outputs tr).
Proof.
  induction tr as [|[t e] tr IH]; intros n; [now destruct n|].
  cbn [take_upto]. unfold outputs, events in *. cbn [map snd filter].
  destruct n as [|n]; [now destruct (is_output e)|].
  destruct (is_output e) eqn:E; cbn [map snd filter]; rewrite E.
  - cbn [firstn]. f_equal. apply IH.
  - apply IH.
Qed.

Lemma take_prefix : forall tr n, Prefix (take_upto n tr) tr.
Proof.
  induction tr as [|[t e] tr IH]; intros n; [exists []; reflexivity|].
  cbn [take_upto]. destruct n as [|n]; [eexists; reflexivity|].
  destruct (is_output e).
  - destruct (IH n) as [rest E]. exists rest. cbn [app]. now rewrite <- E.
  - destruct (IH (S n)) as [rest E]. exists rest. cbn [app]. now rewrite <- E.
Qed.

Lemma consumer_take_prefix : forall tr n, Prefix (consumer_take n tr) tr.
Proof.
  intros tr [|n]; [|apply take_prefix].
  exists (skipn 1 tr). cbn [consumer_take]. now rewrite firstn_skipn.
Qed.

Lemma consumer_take_outputs : forall t rest n,
  outputs (consumer_take n ((t, TAttempt) :: rest)) = firstn n (outputs ((t, TAttempt) :: rest)).
Proof. intros t rest [|n]; [reflexivity|apply take_outputs]. Qed.

(* ---- merge (untimed) ---------------------------------------------------------------------------------- *)

Lemma interleave_subseq : forall A (l r o : list A),
  interleave l r o -> subseq l o /\ subseq r o.
Proof.
  intros A l r o H. induction H as [|x l r o H [IH1 IH2]|x l r o H [IH1 IH2]].
  - split; constructor.
  - split; [now apply SS_take|now apply SS_skip].
  - split; [now apply SS_skip|now apply SS_take].
Qed.

Lemma interleave_perm : forall A (l r o : list A), interleave l r o -> Permutation (l ++ r) o.
Proof.
  intros A l r o H. induction H as [|x l r o H IH|x l r o H IH].
  - constructor.
  - cbn [app]. now constructor.
  - apply Permutation_sym. eapply Permutation_trans.
    + apply perm_skip. apply Permutation_sym. exact IH.
    + apply Permutation_middle.
Qed.

Lemma merge_rel_sound : forall A (l r o : list A),
  merge_rel l r o ->
  exists l1 l2 r1 r2, l = l1 ++ l2 /\ r = r1 ++ r2 /\ interleave l1 r1 o /\ (l2 = [] \/ r2 = []).
Proof.
  intros A l r o H. induction H as [r|l|x l r o H IH|x l r o H IH].
  - exists [], [], [], r. repeat split; [constructor|now left].
  - exists [], l, [], []. repeat split; [constructor|now right].
  - destruct IH as (l1 & l2 & r1 & r2 & -> & -> & Hi & Hd).
    exists (x :: l1), l2, r1, r2. repeat split; [now constructor|assumption].
  - destruct IH as (l1 & l2 & r1 & r2 & -> & -> & Hi & Hd).
    exists l1, l2, (x :: r1), r2. repeat split; [now constructor|assumption].
Qed.

Lemma merge_rel_complete : forall A (l1 l2 r1 r2 o : list A),
  interleave l1 r1 o -> (l2 = [] \/ r2 = []) -> merge_rel (l1 ++ l2) (r1 ++ r2) o.
Proof.
  intros A l1 l2 r1 r2 o H Hd. induction H as [|x l r o H IH|x l r o H IH].
  - destruct Hd as [->| ->]; cbn [app]; constructor.
  - cbn [app]. now constructor.
  - cbn [app]. now constructor.
Qed.

(* ---- merge (timed) --------------------------------------------------------------------------------------- *)

Lemma onat_eqb_eq : forall a b, onat_eqb a b = true <-> a = b.
Proof.
  intros [a|] [b|]; cbn; try (split; [discriminate|congruence]); try tauto.
  rewrite N.eqb_eq. split; congruence.
Qed.

Lemma is_nil_eq : forall A (l : list A), is_nil l = true <-> l = [].
Proof. intros A [|x l]; cbn; split; congruence. Qed.

Lemma tm_check_sound : forall out l r el er e,
  tm_check l r el er out e = true -> tm_rel (l, el) (r, er) out e.
Proof.
  induction out as [|[[t s] v] out IH]; intros l r el er e H.
  - cbn [tm_check] in H. destruct e as [t|].
    + apply orb_true_iff in H. destruct H as [H|H];
      repeat (apply andb_true_iff in H; destruct H as [H ?]);
      apply is_nil_eq in H; subst; match goal with X : onat_eqb _ _ = true |- _ =>
        apply onat_eqb_eq in X; subst end; now constructor.
    + repeat (apply andb_true_iff in H; destruct H as [H ?]).
      apply is_nil_eq in H. subst.
      repeat match goal with
             | X : is_nil _ = true |- _ => apply is_nil_eq in X; subst
             | X : onat_eqb _ _ = true |- _ => apply onat_eqb_eq in X; subst
             end. constructor.
  - cbn [tm_check] in H. destruct s.
    + destruct l as [|[t' v'] l']; [discriminate|].
      repeat (apply andb_true_iff in H; destruct H as [H ?]).
      apply N.eqb_eq in H. subst t'.
      match goal with X : (v =? v') = true |- _ => apply N.eqb_eq in X; subst v' end.
      apply TM_take_l; [assumption|now apply IH].
    + destruct r as [|[t' v'] r']; [discriminate|].
      repeat (apply andb_true_iff in H; destruct H as [H ?]).
      apply N.eqb_eq in H. subst t'.
      match goal with X : (v =? v') = true |- _ => apply N.eqb_eq in X; subst v' end.
      apply TM_take_r; [assumption|now apply IH].
Qed.

Lemma tm_check_complete : forall a b out e,
  tm_rel a b out e -> tm_check (fst a) (fst b) (snd a) (snd b) out e = true.
Proof.
  intros a b out e H. induction H.
  - reflexivity.
  - destruct r as [r er]. cbn [fst snd tm_check is_nil onat_eqb andb].
    rewrite N.eqb_refl. cbn [andb]. rewrite H. reflexivity.
  - destruct l as [l el]. cbn [fst snd tm_check]. apply orb_true_iff. right.
    cbn [is_nil onat_eqb andb]. rewrite N.eqb_refl. cbn [andb]. exact H.
  - destruct r as [r er]. cbn [fst snd tm_check] in *.
    rewrite !N.eqb_refl, H, IHtm_rel. reflexivity.
  - destruct l as [l el]. cbn [fst snd tm_check] in *.
    rewrite !N.eqb_refl, H, IHtm_rel. reflexivity.
Qed.

(** what any timed merge output satisfies: the part coming from each input is a prefix of that
    input (order kept, nothing invented, nothing twice); the output interleaves these two
    prefixes; if the merged stream ends at t, one input has been delivered completely and ended
    at t while nothing remaining on the other input was available before t; if it never ends,
    both inputs were delivered completely and neither ends. *)
Lemma tm_rel_sound : forall a b out e,
  tm_rel a b out e ->
  exists l2 r2,
    fst a = of_side SL out ++ l2 /\ fst b = of_side SR out ++ r2 /\
    interleave (of_side SL out) (of_side SR out) (untag out) /\
    match e with
    | None => l2 = [] /\ r2 = [] /\ snd a = None /\ snd b = None
    | Some t =>
        (l2 = [] /\ snd a = Some t /\ le_inf t (head_time (r2, snd b)) = true) \/
        (r2 = [] /\ snd b = Some t /\ le_inf t (head_time (l2, snd a)) = true)
    end.
Proof.
  intros a b out e H. induction H.
  - exists [], []. repeat split; constructor.
  - destruct r as [r er]. exists [], r. repeat split; [constructor|]. left. now repeat split.
  - destruct l as [l el]. exists l, []. repeat split; [constructor|]. right. now repeat split.
  - destruct IHtm_rel as (l2 & r2 & E1 & E2 & Hi & He). cbn [fst snd] in *.
    exists l2, r2. unfold of_side, untag in *. cbn [filter side_eqb fst snd map app].
    repeat split; [now rewrite E1|assumption|now constructor|assumption].
  - destruct IHtm_rel as (l2 & r2 & E1 & E2 & Hi & He). cbn [fst snd] in *.
    exists l2, r2. unfold of_side, untag in *. cbn [filter side_eqb fst snd map app].
    repeat split; [assumption|now rewrite E2|now constructor|assumption].
Qed.

(* ---- statements in the shape used by Props/C12.v ------------------------------------------------------ *)

Lemma Forall_map_snd : forall pre,
  Forall non_terminal pre -> Forall (fun i => i <> IErrTerminal) (map snd pre).
Proof. induction 1; cbn [map]; constructor; assumption. Qed.

Lemma delivered_terminal_cuts : forall pre d post,
  Forall non_terminal pre ->
  delivered (pre ++ (d, IErrTerminal) :: post) = map ev_of_item (map snd pre).
Proof.
  intros pre d post H. unfold delivered. rewrite map_app. cbn [map snd].
  now rewrite take_until_terminal_cut by now apply Forall_map_snd.
Qed.

Lemma delivered_other_passes : forall pre d e post,
  Forall non_terminal pre ->
  delivered (pre ++ (d, IErrOther e) :: post) =
  map ev_of_item (map snd pre) ++ TErr e :: delivered post.
Proof.
  intros pre d e post H. unfold delivered. rewrite map_app. cbn [map snd].
  rewrite take_until_terminal_other by now apply Forall_map_snd.
  now rewrite map_app.
Qed.

Lemma delivered_all : forall items,
  Forall non_terminal items -> delivered items = map ev_of_item (map snd items).
Proof.
  intros items H. unfold delivered. now rewrite take_until_terminal_all by now apply Forall_map_snd.
Qed.

Lemma handled_stream_trace : forall pol o s, handled (stream_trace pol o s) = [].
Proof. intros. unfold stream_trace. now rewrite handled_app, handled_run. Qed.

Lemma handler_spec : forall pol o s,
  outputs (handle_errors (stream_trace pol o s)) =
    filter (fun e => negb (is_err e)) (flat_map (conn_spec o) s) /\
  handled (handle_errors (stream_trace pol o s)) =
    map handle_ev (filter is_err (flat_map (conn_spec o) s)).
Proof.
  intros. split.
  - now rewrite outputs_handle_errors, outputs_stream_trace.
  - rewrite handled_handle_errors by apply handled_stream_trace.
    now rewrite outputs_stream_trace.
Qed.

Lemma backoff_closed_form : forall pol o now lats rest,
  run pol o (p_initial pol) now (map InitFail lats ++ rest) =
  fail_attempts pol 0 now lats ++
  run pol o (wait pol (length lats)) (now + sumN lats + sum_waits pol (length lats)) rest.
Proof.
  intros. change (p_initial pol) with (wait pol 0) at 1.
  now rewrite run_fails, fail_end_closed.
Qed.

Lemma mono_weaken : forall tr lo lo', lo' <= lo -> mono lo tr -> mono lo' tr.
Proof. intros [|[t e] tr] lo lo' H; cbn [mono]; [trivial|]. intros [H1 H2]. split; [lia|assumption]. Qed.

Lemma conn_end_ge : forall items now tail, now <= conn_end now items tail.
Proof.
  induction items as [|[d i] t IH]; intros now tail; cbn [conn_end]; [lia|].
  destruct i; [|lia|]; (eapply N.le_trans; [|apply IH]; lia).
Qed.

(** [mono_app]: a trace whose times stay within [lo, hi] followed by one that starts at hi *)
Lemma mono_app : forall a b lo hi,
  lo <= hi -> mono lo a -> bounded hi a -> mono hi b -> mono lo (a ++ b).
Proof.
  induction a as [|[t e] a IH]; intros b lo hi Hl Ha Hb Hm; cbn [app].
  - eapply mono_weaken; eassumption.
  - cbn [mono bounded] in *. destruct Ha, Hb. split; [assumption|]. eapply IH; eauto.
Qed.

Lemma mono_conn_trace : forall o items now tail,
  mono now (conn_trace o now items tail) /\
  bounded (conn_end now items tail) (conn_trace o now items tail).
Proof.
  intros o items. induction items as [|[d i] t IH]; intros now tail.
  - cbn. repeat split; lia.
  - destruct i; cbn [conn_trace conn_end mono bounded].
    + destruct (IH (now + d) tail). pose proof (conn_end_ge t (now + d) tail).
      repeat split; try lia; assumption.
    + repeat split; lia.
    + destruct (IH (now + d) tail). pose proof (conn_end_ge t (now + d) tail).
      repeat split; try lia; assumption.
Qed.

Lemma mono_run : forall pol o s cur now, mono now (run pol o cur now s).
Proof.
  intros pol o s. induction s as [|c t IH]; intros cur now; [exact I|].
  destruct c as [lat|lat items tail]; cbn [run mono].
  - split; [lia|]. eapply mono_weaken; [|apply IH]. lia.
  - split; [lia|]. destruct (mono_conn_trace o items (now + lat) tail) as [H1 H2].
    pose proof (conn_end_ge items (now + lat) tail).
    eapply mono_app; [|eapply mono_weaken; [|exact H1]; lia|exact H2|apply IH]. lia.
Qed.

Lemma bounded_weaken : forall tr hi hi', hi <= hi' -> bounded hi tr -> bounded hi' tr.
Proof.
  induction tr as [|[t e] tr IH]; intros hi hi' H; cbn [bounded]; [trivial|].
  intros [H1 H2]. split; [lia|eapply IH; eassumption].
Qed.

Lemma bounded_app : forall a b hi, bounded hi a -> bounded hi b -> bounded hi (a ++ b).
Proof.
  induction a as [|[t e] a IH]; intros b hi Ha Hb; cbn [app bounded] in *; [assumption|].
  destruct Ha. split; [assumption|now apply IH].
Qed.

Lemma end_now_ge : forall pol s cur now, now <= end_now pol cur now s.
Proof.
  intros pol s. induction s as [|c t IH]; intros cur now; cbn [end_now]; [lia|].
  destruct c as [lat|lat items tail].
  - eapply N.le_trans; [|apply IH]. lia.
  - pose proof (conn_end_ge items (now + lat) tail). eapply N.le_trans; [|apply IH]. lia.
Qed.

Lemma bounded_run : forall pol o s cur now,
  bounded (end_now pol cur now s) (run pol o cur now s).
Proof.
  intros pol o s. induction s as [|c t IH]; intros cur now; [exact I|].
  destruct c as [lat|lat items tail]; cbn [run end_now bounded].
  - split; [|apply IH].
    eapply N.le_trans; [|apply end_now_ge]. lia.
  - pose proof (conn_end_ge items (now + lat) tail).
    pose proof (end_now_ge pol t (reset_backoff pol cur) (conn_end (now + lat) items tail)).
    split; [lia|]. apply bounded_app; [|apply IH].
    eapply bounded_weaken; [|apply mono_conn_trace]. assumption.
Qed.

Lemma mono_stream_trace : forall pol o s, mono 0 (stream_trace pol o s).
Proof.
  intros. unfold stream_trace.
  eapply mono_app; [apply N.le_0_l|apply mono_run|apply bounded_run|].
  cbn [mono]. split; [lia|exact I].
Qed.
