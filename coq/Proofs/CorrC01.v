(** The C01 run-time oracle is no stricter than the model: whenever the model reproduces the
    observed maps ([corr_b]), the observed maps satisfy the oracle ([prop_b]).  Hence an oracle
    failure on the implementation always comes with a model/implementation disagreement, and
    wherever they agree the property theorems of Props/C01.v transfer to the observed behaviour. *)
From BV Require Import Base.Common Model.Orders Proofs.Orders Corr.C01.
From Coq Require Import Lia ZifyBool.
Local Open Scope Z_scope.

Lemma oorder_eqb_refl : forall x, oorder_eqb x x = true.
Proof. intros x. apply oorder_eqb_eq. reflexivity. Qed.

Lemma lookup_of_entries : forall l c, of_entries l c = lookup l c.
Proof.
  induction l as [|[c' o] l IH]; intros c; simpl; [reflexivity|].
  unfold upd. rewrite (Z.eqb_sym c c'). destruct (Z.eqb c' c); [reflexivity|apply IH].
Qed.

Lemma view_eq_spec : forall U s l,
  view_eq U s l = true ->
  keys_in U l = true /\ strictly_sorted l = true /\ (forall c, In c U -> lookup l c = s c).
Proof.
  intros U s l H. unfold view_eq in H. apply andb_prop in H. destruct H as [H H3].
  apply andb_prop in H. destruct H as [H1 H2]. repeat split; auto.
  intros c Hc. rewrite forallb_forall in H3. specialize (H3 c Hc).
  apply oorder_eqb_eq in H3. auto.
Qed.

Lemma mono_b_spec : forall s s',
  (forall t t', pts s = Some t -> pts s' = Some t' -> t <= t') -> mono_b s s' = true.
Proof.
  intros s s' H. unfold mono_b. destruct (pts s) as [t|]; [|reflexivity].
  destruct (pts s') as [t'|]; [|reflexivity]. apply Z.leb_le. apply H; reflexivity.
Qed.

(** one model step is accepted by the oracle, whatever the universe *)
Lemma model_step_ok : forall U s o prev cur,
  (forall c, In c U -> lookup prev c = s c) ->
  keys_in U cur = true ->
  (forall c, In c U -> lookup cur c = step s o c) ->
  step_ok U prev cur o = true.
Proof.
  intros U s o prev cur Hp Hk Hc. unfold step_ok. rewrite Hk. simpl.
  apply forallb_forall. intros c Hin. rewrite (Hp c Hin), (Hc c Hin).
  destruct (Z.eqb_spec (cid_of o) c) as [E|E].
  - subst c. apply andb_true_intro. split.
    + apply lifecycle_b_spec. apply step_refines_lifecycle.
    + apply mono_b_spec. intros t t' H1 H2.
      exact (lifecycle_monotone _ _ _ _ _ (step_refines_lifecycle s o) H1 H2).
  - rewrite step_frame by exact E. apply oorder_eqb_refl.
Qed.

Lemma corr_run_prop_run : forall U ops s prev obs,
  (forall c, In c U -> lookup prev c = s c) ->
  corr_run U s ops obs = true -> prop_run U prev ops obs = true.
Proof.
  induction ops as [|o ops IH]; intros s prev obs Hp H; destruct obs as [|cur obs]; simpl in *;
    try discriminate; auto.
  apply andb_prop in H. destruct H as [Hv Hr].
  destruct (view_eq_spec _ _ _ Hv) as [Hk [_ Hc]].
  apply andb_true_intro. split.
  - apply (model_step_ok U s o prev cur); auto.
  - apply (IH (step s o)); auto.
Qed.

(* ---- engine ------------------------------------------------------------------------------------ *)

Lemma entry_eqb_refl : forall e, entry_eqb e e = true.
Proof.
  intros [c o]. simpl. rewrite Z.eqb_refl. simpl. apply order_eqb_eq. reflexivity.
Qed.

Lemma list_entry_eqb_refl : forall l, list_eqb entry_eqb l l = true.
Proof. induction l as [|e l IH]; simpl; [reflexivity|]. rewrite entry_eqb_refl, IH. reflexivity. Qed.

(** a strictly sorted entry list is determined by its lookups *)
Lemma sorted_head_min : forall c o l e,
  strictly_sorted (E c o :: l) = true -> In e l -> c < ekey e.
Proof.
  intros c o l. revert c o. induction l as [|[c2 o2] l IH]; intros c o e Hs Hin; [destruct Hin|].
  simpl in Hs. apply andb_prop in Hs. destruct Hs as [Hlt Hs]. apply Z.ltb_lt in Hlt.
  destruct Hin as [<-|Hin]; simpl; [lia|].
  assert (c2 < ekey e) by (apply (IH c2 o2 e); auto). lia.
Qed.

Lemma sorted_tail : forall e l, strictly_sorted (e :: l) = true -> strictly_sorted l = true.
Proof.
  intros e [|e2 l] H; [reflexivity|]. simpl in H. apply andb_prop in H. destruct H; auto.
Qed.

Lemma lookup_none_below : forall l c, (forall e, In e l -> c < ekey e) -> lookup l c = None.
Proof.
  induction l as [|[c' o] l IH]; intros c H; simpl; [reflexivity|].
  destruct (Z.eqb_spec c' c) as [Heq|Hne].
  - specialize (H (E c' o) (or_introl eq_refl)). simpl in H. lia.
  - apply IH. intros e He. apply H. right. auto.
Qed.

Lemma lookup_some_in : forall l c o, lookup l c = Some o -> In (E c o) l.
Proof.
  induction l as [|[c' o'] l IH]; intros c o H; simpl in *; [discriminate|].
  destruct (Z.eqb_spec c' c) as [E1|E1].
  - injection H as <-. subst. left. reflexivity.
  - right. apply IH. auto.
Qed.

Lemma sorted_lookup_ext : forall l1 l2,
  strictly_sorted l1 = true -> strictly_sorted l2 = true ->
  (forall c, lookup l1 c = lookup l2 c) -> l1 = l2.
Proof.
  induction l1 as [|[c1 o1] l1 IH]; intros [|[c2 o2] l2] H1 H2 Hl.
  - reflexivity.
  - specialize (Hl c2). simpl in Hl. rewrite Z.eqb_refl in Hl. discriminate.
  - specialize (Hl c1). simpl in Hl. rewrite Z.eqb_refl in Hl. discriminate.
  - assert (c1 = c2) as ->.
    { pose proof (Hl c1) as Ha. pose proof (Hl c2) as Hb. simpl in Ha, Hb.
      rewrite Z.eqb_refl in Ha, Hb.
      destruct (Z.eqb_spec c2 c1) as [E1|E1]; [auto|].
      destruct (Z.eqb_spec c1 c2) as [E2|E2]; [auto|].
      symmetry in Ha. apply lookup_some_in in Ha. apply lookup_some_in in Hb.
      pose proof (sorted_head_min _ _ _ _ H2 Ha) as Hx. pose proof (sorted_head_min _ _ _ _ H1 Hb) as Hy.
      simpl in Hx, Hy. lia. }
    pose proof (Hl c2) as Ho. simpl in Ho. rewrite Z.eqb_refl in Ho. injection Ho as ->.
    f_equal. apply IH; [eapply sorted_tail; eauto|eapply sorted_tail; eauto|].
    intros c. destruct (Z.eq_dec c c2) as [->|Hne].
    + rewrite (lookup_none_below l1 c2), (lookup_none_below l2 c2); auto.
      * intros e He. apply (sorted_head_min _ _ _ _ H2 He).
      * intros e He. apply (sorted_head_min _ _ _ _ H1 He).
    + specialize (Hl c). simpl in Hl. destruct (Z.eqb_spec c2 c); [congruence|auto].
Qed.

Lemma keys_in_lookup_none : forall U l c,
  keys_in U l = true -> ~ In c U -> lookup l c = None.
Proof.
  intros U l c Hk Hc. destruct (lookup l c) as [o|] eqn:E; [|reflexivity].
  apply lookup_some_in in E. unfold keys_in in Hk. rewrite forallb_forall in Hk.
  specialize (Hk _ E). simpl in Hk. apply existsb_exists in Hk. destruct Hk as [u [Hu He]].
  apply Z.eqb_eq in He. subst. contradiction.
Qed.

Lemma views_equal : forall U s l1 l2,
  view_eq U s l1 = true -> view_eq U s l2 = true -> l1 = l2.
Proof.
  intros U s l1 l2 H1 H2.
  destruct (view_eq_spec _ _ _ H1) as [K1 [S1 L1]].
  destruct (view_eq_spec _ _ _ H2) as [K2 [S2 L2]].
  apply sorted_lookup_ext; auto. intros c.
  destruct (in_dec Z.eq_dec c U) as [Hin|Hout].
  - rewrite L1, L2; auto.
  - rewrite (keys_in_lookup_none U l1 c), (keys_in_lookup_none U l2 c); auto.
Qed.

Lemma existsb_cid_spec : forall c (reps : list osnap),
  existsb (fun sn => Z.eqb (k_cid (o_key sn)) c) reps = false ->
  ~ In c (map (fun sn => k_cid (o_key sn)) reps).
Proof.
  intros c reps H Hin. apply in_map_iff in Hin. destruct Hin as [sn [E Hin]].
  assert (existsb (fun sn => Z.eqb (k_cid (o_key sn)) c) reps = true) as Ht.
  { apply existsb_exists. exists sn. split; [auto|apply Z.eqb_eq; auto]. }
  congruence.
Qed.

(** one instrument under one engine input *)
Lemma model_inst_ok : forall U e x i prev cur,
  view_eq U (e i) prev = true ->
  view_eq U (estep e x i) cur = true ->
  inst_ok U i prev cur x = true.
Proof.
  intros U e x i prev cur Hp Hc.
  destruct (view_eq_spec _ _ _ Hp) as [Kp [Sp Lp]].
  destruct (view_eq_spec _ _ _ Hc) as [Kc [Sc Lc]].
  destruct x as [o|l]; unfold inst_ok.
  - destruct (Z.eqb_spec (inst_of o) i) as [E|E].
    + subst i. rewrite estep_target in Lc. apply (model_step_ok U (e (inst_of o)) o); auto.
    + rewrite (estep_frame_inst e o i E) in Hc.
      rewrite (views_equal U (e i) prev cur Hp Hc). apply list_entry_eqb_refl.
  - rewrite Kc. simpl. apply forallb_forall. intros c Hin.
    rewrite (Lp c Hin), (Lc c Hin). rewrite account_snapshot_per_instrument.
    change (reports_of i l) with (reports_for i l).
    destruct (existsb (fun sn => Z.eqb (k_cid (o_key sn)) c) (reports_for i l)) eqn:Ex.
    + apply existsb_exists. exists (pst (fold_left snapshot_step (reports_for i l) (e i) c)).
      split; [|apply pstate_eqb_eq; reflexivity].
      apply reach_spec. apply snapshots_refine.
    + rewrite snapshots_frame_cid by (apply existsb_cid_spec; exact Ex). apply oorder_eqb_refl.
Qed.

Lemma model_insts_ok : forall U e x ls_prev ls_cur i,
  length ls_prev = length ls_cur ->
  eview_eq U e i ls_prev = true ->
  eview_eq U (estep e x) i ls_cur = true ->
  insts_ok U i ls_prev ls_cur x = true.
Proof.
  intros U e x. induction ls_prev as [|p ps IH]; intros [|c cs] i Hlen Hp Hc; simpl in *;
    try discriminate; auto.
  apply andb_prop in Hp. destruct Hp as [Hp1 Hp2].
  apply andb_prop in Hc. destruct Hc as [Hc1 Hc2].
  apply andb_true_intro. split.
  - apply (model_inst_ok U e x i p c); auto.
  - apply IH; auto.
Qed.

Lemma ecorr_run_prop_run : forall n U xs e prevs obs,
  N.of_nat (length prevs) = n ->
  eview_eq U e 0 prevs = true ->
  ecorr_run n U e xs obs = true -> eprop_run U prevs xs obs = true.
Proof.
  intros n U. induction xs as [|x xs IH]; intros e prevs obs Hn Hp H;
    destruct obs as [|curs obs]; simpl in *; try discriminate; auto.
  apply andb_prop in H. destruct H as [H Hr]. apply andb_prop in H. destruct H as [Hl Hv].
  apply N.eqb_eq in Hl.
  apply andb_true_intro. split.
  - apply (model_insts_ok U e x); auto. lia.
  - apply (IH (estep e x)); auto.
Qed.

Lemma eview_empty : forall U k i, eview_eq U eempty i (repeat [] k) = true.
Proof.
  intros U. induction k as [|k IH]; intros i; simpl; [reflexivity|].
  rewrite IH. rewrite andb_true_r. unfold view_eq. simpl.
  apply forallb_forall. intros c _. reflexivity.
Qed.

Theorem oracle_no_stricter_than_model : forall c, corr_b c = true -> prop_b c = true.
Proof.
  intros [init xs obs|n xs obs|] H; simpl in *.
  - destruct (strip_orders init xs obs) as [[ops os]|]; [|discriminate].
    apply andb_prop in H. destruct H as [_ H].
    apply (corr_run_prop_run _ ops (of_entries init)); auto.
    intros c _. symmetry. apply lookup_of_entries.
  - destruct (strip_engine (repeat [] (N.to_nat n)) xs obs) as [[ys os]|]; [|discriminate].
    apply (ecorr_run_prop_run n _ ys eempty); auto.
    + rewrite repeat_length. lia.
    + apply eview_empty.
  - discriminate.
Qed.

(* ---- persist / restore steps ------------------------------------------------------------------- *)

(** runs are invariant under inserting persist / restore steps anywhere *)
Theorem persist_invariant : forall xs s, fold_left xstep xs s = run (ops_of xs) s.
Proof.
  induction xs as [|[o|b] xs IH]; intros s; simpl; auto.
Qed.

Theorem persist_invariant_engine : forall xs e, fold_left xestep xs e = erun (eops_of xs) e.
Proof.
  induction xs as [|[x|b] xs IH]; intros e; simpl; auto.
Qed.

(** what the judge runs the model on is the case's step list without its persist steps *)
Lemma strip_orders_ops : forall xs prev obs ops os,
  strip_orders prev xs obs = Some (ops, os) -> ops = ops_of xs.
Proof.
  induction xs as [|[o|b] xs IH]; intros prev obs ops os H; destruct obs as [|cur obs];
    simpl in H; try discriminate.
  - injection H as <- <-. reflexivity.
  - destruct (strip_orders cur xs obs) as [[ops' os']|] eqn:E; [|discriminate].
    injection H as <- <-. simpl. f_equal. eapply IH; eauto.
  - destruct (b && list_eqb entry_eqb prev cur); [|discriminate]. simpl. eapply IH; eauto.
Qed.

Lemma strip_engine_ops : forall xs prev obs ys os,
  strip_engine prev xs obs = Some (ys, os) -> ys = eops_of xs.
Proof.
  induction xs as [|[x|b] xs IH]; intros prev obs ys os H; destruct obs as [|cur obs];
    simpl in H; try discriminate.
  - injection H as <- <-. reflexivity.
  - destruct (strip_engine cur xs obs) as [[ys' os']|] eqn:E; [|discriminate].
    injection H as <- <-. simpl. f_equal. eapply IH; eauto.
  - destruct (b && list_eqb (list_eqb entry_eqb) prev cur); [|discriminate]. simpl. eapply IH; eauto.
Qed.
