(** Lemmas about Model/ExecMgr.v (property C07). *)
From BV Require Import Base.Common Model.ExecMgr.
From Coq Require Import Permutation ZifyBool.
Local Open Scope N_scope.

(* ---- the handlers agree with the per-request specification ------------------------------------ *)

Lemma accepted_exchange : forall m r, accepted m r = true -> r_exchange r = m_exchange m.
Proof. intros m r H. unfold accepted in H. apply andb_true_iff in H. destruct H as [H _]. now apply N.eqb_eq in H. Qed.

Lemma complete_open_spec : forall m r, accepted m r = true -> r_kind r = KOpen ->
  complete_open m r = spec_event m r.
Proof.
  intros m r Ha Hk. unfold complete_open, spec_event, ctime, poll_result, process_open_response,
    process_open_timeout, timeout_outcome, response_outcome.
  rewrite Hk, (accepted_exchange m r Ha).
  destruct (r_beh r) as [d rs|d|];
    [destruct (N.ltb d (m_tau m)); [destruct rs as [[|]|e]|]|destruct (N.ltb d (m_tau m))|];
    reflexivity.
Qed.

Lemma complete_cancel_spec : forall m r, accepted m r = true -> r_kind r = KCancel ->
  complete_cancel m r = spec_event m r.
Proof.
  intros m r Ha Hk. unfold complete_cancel, spec_event, ctime, poll_result, process_cancel_response,
    process_cancel_timeout, timeout_outcome, response_outcome.
  rewrite Hk, (accepted_exchange m r Ha).
  destruct (r_beh r) as [d rs|d|];
    [destruct (N.ltb d (m_tau m)); [destruct rs as [[|]|e]|]|destruct (N.ltb d (m_tau m))|];
    reflexivity.
Qed.

(** every request sits in the set of its own kind, and was accepted *)
Definition good (m : mgr) (st : state) : Prop :=
  Forall (fun r => accepted m r = true /\ r_kind r = KOpen) (s_opens st) /\
  Forall (fun r => accepted m r = true /\ r_kind r = KCancel) (s_cancels st).

Definition pend (st : state) : list req := s_cancels st ++ s_opens st.

Lemma Forall_filter : forall {A} (P : A -> Prop) f l, Forall P l -> Forall P (filter f l).
Proof.
  intros A P f l H. induction H; cbn; [constructor|]. destruct (f x); [constructor|]; assumption.
Qed.

Lemma flat_map_ext_Forall : forall {A B} (P : A -> Prop) (f g : A -> list B) l,
  Forall P l -> (forall x, P x -> f x = g x) -> flat_map f l = flat_map g l.
Proof. intros A B P f g l H E. induction H; cbn; [reflexivity|]. now rewrite (E x H), IHForall. Qed.

Lemma flush_out : forall m t st, good m st ->
  s_out (flush m t st) =
  s_out st ++ flat_map (spec_event m) (filter (due (m_tau m) t) (pend st)).
Proof.
  intros m t st [Ho Hc]. unfold flush, pend. cbn [s_out]. rewrite filter_app, flat_map_app. f_equal. f_equal.
  - apply (flat_map_ext_Forall (fun r => accepted m r = true /\ r_kind r = KCancel)).
    + now apply Forall_filter.
    + intros x [A K]. now apply complete_cancel_spec.
  - apply (flat_map_ext_Forall (fun r => accepted m r = true /\ r_kind r = KOpen)).
    + now apply Forall_filter.
    + intros x [A K]. now apply complete_open_spec.
Qed.

Lemma flush_pend : forall m t st,
  pend (flush m t st) = filter (fun r => negb (due (m_tau m) t r)) (pend st).
Proof. intros. unfold flush, pend. cbn [s_opens s_cancels]. now rewrite filter_app. Qed.

Lemma flush_good : forall m t st, good m st -> good m (flush m t st).
Proof. intros m t st [Ho Hc]. split; cbn [flush s_opens s_cancels]; now apply Forall_filter. Qed.

(* ---- permutation helpers ----------------------------------------------------------------------- *)

Lemma Permutation_filter' : forall {A} (f : A -> bool) l1 l2,
  Permutation l1 l2 -> Permutation (filter f l1) (filter f l2).
Proof.
  intros A f l1 l2 H. induction H; cbn.
  - constructor.
  - destruct (f x); [now constructor|assumption].
  - destruct (f x), (f y); try apply Permutation_refl. apply perm_swap.
  - eapply Permutation_trans; eassumption.
Qed.

Lemma Permutation_flat_map' : forall {A B} (g : A -> list B) l1 l2,
  Permutation l1 l2 -> Permutation (flat_map g l1) (flat_map g l2).
Proof.
  intros A B g l1 l2 H. induction H; cbn.
  - constructor.
  - now apply Permutation_app_head.
  - rewrite !app_assoc. apply Permutation_app_tail. apply Permutation_app_comm.
  - eapply Permutation_trans; eassumption.
Qed.

(** what is due before [t] first, then the rest of what is due before a later bound *)
Lemma split_due : forall {A B} (g : A -> list B) (p q : A -> bool) l,
  (forall x, p x = true -> q x = true) ->
  Permutation (flat_map g (filter q l))
              (flat_map g (filter p l) ++ flat_map g (filter q (filter (fun x => negb (p x)) l))).
Proof.
  intros A B g p q l Hpq. induction l as [|x t IH]; cbn; [constructor|].
  destruct (p x) eqn:Ep; cbn.
  - rewrite (Hpq x Ep). cbn. rewrite <- app_assoc. now apply Permutation_app_head.
  - destruct (q x) eqn:Eq; cbn.
    + eapply Permutation_trans; [apply Permutation_app_head; exact IH|].
      rewrite !app_assoc. apply Permutation_app_tail. apply Permutation_app_comm.
    + exact IH.
Qed.

(* ---- the stop time is never before what has already been taken in -------------------------- *)

Definition le_opt (t : N) (e : option N) : Prop := match e with None => True | Some s => t <= s end.

Lemma eff_stop_lb : forall m stop l t,
  forallb (fun r' => N.leb t (r_arrival r')) l = true -> le_opt t stop -> le_opt t (eff_stop m stop l).
Proof.
  induction l as [|r l' IH]; intros t Hs Hle; cbn; [exact Hle|].
  cbn in Hs. apply andb_true_iff in Hs. destruct Hs as [H1 H2].
  destruct (past_stop stop r); [exact Hle|].
  destruct (accepted m r); [now apply IH|]. cbn. lia.
Qed.

Lemma due_mono : forall tau t e x, le_opt t e -> due tau (Some t) x = true -> due tau e x = true.
Proof.
  intros tau t [s|] x Hle H; cbn in *; [|reflexivity]. lia.
Qed.

Lemma not_past_le : forall stop r, past_stop stop r = false -> le_opt (r_arrival r) stop.
Proof. intros [s|] r H; cbn in *; [lia|exact I]. Qed.

(* ---- main refinement ------------------------------------------------------------------------------ *)

Lemma intake_dead1 : forall m stop st r, s_end st <> Running -> intake m stop st r = st.
Proof. intros m stop st r H. unfold intake. destruct (s_end st); [congruence| |]; reflexivity. Qed.

Lemma intake_dead : forall m stop l st, s_end st <> Running -> fold_left (intake m stop) l st = st.
Proof.
  induction l as [|r l' IH]; intros st H; cbn [fold_left]; [reflexivity|].
  rewrite intake_dead1 by assumption. now apply IH.
Qed.

Lemma finish_dead : forall m stop st, s_end st <> Running -> finish m stop st = st.
Proof. intros m stop st H. unfold finish. destruct (s_end st); congruence. Qed.

Lemma run_from : forall m stop l st,
  s_end st = Running -> good m st -> sorted_by_arrival l = true ->
  let fin := finish m stop (fold_left (intake m stop) l st) in
  Permutation (s_out fin)
    (s_out st ++ flat_map (spec_event m)
                   (filter (due (m_tau m) (eff_stop m stop l)) (pend st ++ taken m stop l)))
  /\ s_end fin = end_of m stop l.
Proof.
  intros m stop l. induction l as [|r l' IH]; intros st Hrun Hgood Hsorted; cbn zeta.
  - cbn [fold_left eff_stop taken end_of]. unfold finish. rewrite Hrun. cbn [s_out s_end].
    rewrite app_nil_r. rewrite flush_out by assumption. split; [apply Permutation_refl|reflexivity].
  - cbn [fold_left eff_stop taken end_of]. cbn [sorted_by_arrival] in Hsorted.
    apply andb_true_iff in Hsorted. destruct Hsorted as [Hhead Htail].
    unfold intake at 2. unfold intake at 3. rewrite Hrun.
    destruct (past_stop stop r) eqn:Epast.
    + (* Shutdown ahead of r *)
      rewrite intake_dead, finish_dead by (cbn; discriminate). cbn [s_out s_end].
      rewrite app_nil_r, flush_out by assumption. split; [apply Permutation_refl|reflexivity].
    + destruct (accepted m r) eqn:Eacc.
      * (* taken in *)
        set (st1 := flush m (Some (r_arrival r)) st).
        assert (G1 : good m st1) by (now apply flush_good).
        set (st2 := match r_kind r with
                    | KOpen => mkSt Running (s_opens st1 ++ [r]) (s_cancels st1) (s_out st1)
                    | KCancel => mkSt Running (s_opens st1) (s_cancels st1 ++ [r]) (s_out st1)
                    end).
        assert (R2 : s_end st2 = Running) by (unfold st2; destruct (r_kind r); reflexivity).
        assert (O2 : s_out st2 = s_out st1) by (unfold st2; destruct (r_kind r); reflexivity).
        assert (G2 : good m st2).
        { destruct G1 as [Go Gc]. unfold st2. destruct (r_kind r) eqn:Ek; split; cbn [s_opens s_cancels];
            try assumption; apply Forall_app; split; try assumption; repeat constructor; assumption. }
        assert (P2 : Permutation (pend st2) (pend st1 ++ [r])).
        { unfold st2, pend. destruct (r_kind r); cbn [s_opens s_cancels].
          - rewrite app_assoc. apply Permutation_refl.
          - rewrite <- !app_assoc. apply Permutation_app_head. apply Permutation_app_comm. }
        destruct (IH st2 R2 G2 Htail) as [IHp IHe]. cbn zeta in IHp, IHe.
        split; [|exact IHe].
        eapply Permutation_trans; [exact IHp|].
        rewrite O2. unfold st1 at 1. rewrite flush_out by assumption.
        rewrite <- app_assoc. apply Permutation_app_head.
        set (E' := eff_stop m stop l').
        set (dt := due (m_tau m) (Some (r_arrival r))).
        set (dE := due (m_tau m) E').
        (* rearrange the pending part *)
        assert (Hsub : forall x, dt x = true -> dE x = true).
        { intros x Hx. unfold dE, dt in *. eapply due_mono; [|exact Hx].
          apply eff_stop_lb; [exact Hhead|now apply not_past_le]. }
        assert (Hp : Permutation (pend st2 ++ taken m stop l')
                                 (filter (fun x => negb (dt x)) (pend st) ++ r :: taken m stop l')).
        { eapply Permutation_trans; [apply Permutation_app_tail; exact P2|].
          unfold st1. rewrite flush_pend. fold dt. rewrite <- app_assoc. apply Permutation_refl. }
        eapply Permutation_trans.
        { apply Permutation_app_head. apply Permutation_flat_map'. apply Permutation_filter'. exact Hp. }
        rewrite !filter_app, !flat_map_app. rewrite app_assoc.
        apply Permutation_app_tail. apply Permutation_sym. apply split_due. exact Hsub.
      * (* panic *)
        rewrite intake_dead, finish_dead by (cbn; discriminate). cbn [s_out s_end].
        rewrite app_nil_r, flush_out by assumption. split; [apply Permutation_refl|reflexivity].
Qed.

Theorem run_refines_spec : forall m stop script, sorted_by_arrival script = true ->
  Permutation (s_out (run_manager m stop script)) (spec_events m stop script) /\
  s_end (run_manager m stop script) = end_of m stop script.
Proof.
  intros m stop script Hs. unfold run_manager, spec_events.
  assert (G : good m init_state) by (split; constructor).
  destruct (run_from m stop script init_state eq_refl G Hs) as [P E]. cbn zeta in P, E.
  cbn [init_state s_out pend s_cancels s_opens app] in P. split; assumption.
Qed.

(* ---- what the specification says, request by request -------------------------------------------- *)

Definition ev_kind (o : outcome) : rkind :=
  match o with OutActive | OutFullyFilled | OutOpenFailed _ => KOpen | _ => KCancel end.

Lemma spec_event_attribution : forall m r e, In e (spec_event m r) ->
  e_exchange e = m_exchange m /\ e_instr e = r_instr r /\ e_cid e = r_cid r /\ ev_kind (e_out e) = r_kind r.
Proof.
  intros m r e H. unfold spec_event in H.
  assert (T : forall o t, e = mkEv (m_exchange m) (r_instr r) (r_cid r) o t -> ev_kind o = r_kind r ->
              e_exchange e = m_exchange m /\ e_instr e = r_instr r /\ e_cid e = r_cid r /\ ev_kind (e_out e) = r_kind r).
  { intros o t -> K. cbn. auto. }
  assert (KT : ev_kind (timeout_outcome (r_kind r)) = r_kind r) by (destruct (r_kind r); reflexivity).
  assert (KR : forall rs, ev_kind (response_outcome (r_kind r) rs) = r_kind r)
    by (intros [[|]|x]; destruct (r_kind r); reflexivity).
  destruct (r_beh r) as [d rs|d|]; [destruct (N.ltb d (m_tau m))|destruct (N.ltb d (m_tau m))|];
    cbn in H; try tauto; destruct H as [H|[]]; symmetry in H; eauto.
Qed.

(** which event: the client's response iff it comes strictly before the timeout *)
Lemma spec_event_which : forall m r, well_behaved r = true ->
  exists e, spec_event m r = [e] /\
    match r_beh r with
    | Respond d rs =>
        (d < m_tau m -> e_out e = response_outcome (r_kind r) rs /\ e_time e = r_arrival r + d) /\
        (m_tau m <= d -> e_out e = timeout_outcome (r_kind r) /\ e_time e = r_arrival r + m_tau m)
    | _ => e_out e = timeout_outcome (r_kind r) /\ e_time e = r_arrival r + m_tau m
    end.
Proof.
  intros m r Hw. unfold well_behaved in Hw. unfold spec_event.
  destruct (r_beh r) as [d rs|d|]; [|discriminate|].
  - destruct (N.ltb_spec d (m_tau m)); eexists; (split; [reflexivity|]); cbn; split; intros; try lia; auto.
  - eexists. split; [reflexivity|]. cbn. auto.
Qed.

Lemma spec_event_cids : forall m r, well_behaved r = true -> map e_cid (spec_event m r) = [r_cid r].
Proof.
  intros m r Hw. unfold well_behaved in Hw. unfold spec_event.
  destruct (r_beh r) as [d rs|d|]; [|discriminate|]; [destruct (N.ltb d (m_tau m))|]; reflexivity.
Qed.

(* ---- all requests accepted, no shutdown: the plain statements ------------------------------------ *)

Lemma taken_all : forall m l, forallb (accepted m) l = true -> taken m None l = l /\ eff_stop m None l = None.
Proof.
  induction l as [|r t IH]; intros H; cbn; [split; reflexivity|].
  cbn in H. apply andb_true_iff in H. destruct H as [H1 H2]. rewrite H1.
  destruct (IH H2) as [A B]. now rewrite A, B.
Qed.

Lemma filter_true : forall {A} (l : list A), filter (fun _ => true) l = l.
Proof. induction l; cbn; congruence. Qed.

Lemma spec_events_all : forall m l, forallb (accepted m) l = true ->
  spec_events m None l = flat_map (spec_event m) l.
Proof.
  intros m l H. unfold spec_events. destruct (taken_all m l H) as [A B]. rewrite A, B.
  unfold due. now rewrite filter_true.
Qed.

Theorem out_is_spec_all : forall m script,
  sorted_by_arrival script = true -> forallb (accepted m) script = true ->
  Permutation (s_out (run_manager m None script)) (flat_map (spec_event m) script).
Proof.
  intros m script Hs Ha. destruct (run_refines_spec m None script Hs) as [P _].
  now rewrite spec_events_all in P.
Qed.

Lemma flat_map_cids : forall m l, forallb well_behaved l = true ->
  map e_cid (flat_map (spec_event m) l) = map r_cid l.
Proof.
  induction l as [|r t IH]; intros H; cbn; [reflexivity|].
  cbn in H. apply andb_true_iff in H. destruct H as [H1 H2].
  rewrite map_app, (spec_event_cids m r H1), IH by assumption. reflexivity.
Qed.

Theorem exactly_one_cids : forall m script,
  sorted_by_arrival script = true -> forallb (accepted m) script = true ->
  forallb well_behaved script = true ->
  Permutation (map e_cid (s_out (run_manager m None script))) (map r_cid script).
Proof.
  intros m script Hs Ha Hw. rewrite <- (flat_map_cids m script Hw).
  apply Permutation_map. now apply out_is_spec_all.
Qed.

Theorem every_event_is_some_requests : forall m stop script e,
  sorted_by_arrival script = true -> In e (s_out (run_manager m stop script)) ->
  exists r, In r (taken m stop script) /\ In e (spec_event m r).
Proof.
  intros m stop script e Hs Hin. destruct (run_refines_spec m stop script Hs) as [P _].
  apply (Permutation_in _ P) in Hin. unfold spec_events in Hin. apply in_flat_map in Hin.
  destruct Hin as [r [Hr He]]. apply filter_In in Hr. destruct Hr as [Hr _]. eauto.
Qed.

Lemma taken_in_script : forall m stop l r, In r (taken m stop l) -> In r l /\ accepted m r = true.
Proof.
  induction l as [|x t IH]; intros r H; cbn in H; [tauto|].
  destruct (past_stop stop x); [cbn in H; tauto|].
  destruct (accepted m x) eqn:E; [|cbn in H; tauto].
  destruct H as [H|H]; [subst; split; [now left|assumption]|].
  destruct (IH r H). split; [now right|assumption].
Qed.

(** the events of one client order id depend only on the requests carrying that id *)
Lemma filter_flat_map_cid : forall m c l,
  filter (fun e => N.eqb (e_cid e) c) (flat_map (spec_event m) l) =
  flat_map (spec_event m) (filter (fun r => N.eqb (r_cid r) c) l).
Proof.
  induction l as [|r t IH]; cbn; [reflexivity|]. rewrite filter_app, IH.
  assert (H : forall e, In e (spec_event m r) -> e_cid e = r_cid r)
    by (intros e He; now destruct (spec_event_attribution m r e He) as [_ [_ [A _]]]).
  destruct (N.eqb (r_cid r) c) eqn:E; cbn; f_equal.
  - induction (spec_event m r) as [|e es IHe]; cbn; [reflexivity|].
    rewrite (H e (or_introl eq_refl)), E. f_equal. apply IHe. intros e' He'. apply H. now right.
  - induction (spec_event m r) as [|e es IHe]; cbn; [reflexivity|].
    rewrite (H e (or_introl eq_refl)), E. apply IHe. intros e' He'. apply H. now right.
Qed.

Theorem independent_of_others : forall m script c,
  sorted_by_arrival script = true -> forallb (accepted m) script = true ->
  Permutation (filter (fun e => N.eqb (e_cid e) c) (s_out (run_manager m None script)))
              (flat_map (spec_event m) (filter (fun r => N.eqb (r_cid r) c) script)).
Proof.
  intros m script c Hs Ha. rewrite <- filter_flat_map_cid.
  apply Permutation_filter'. now apply out_is_spec_all.
Qed.

Theorem order_independent : forall m s1 s2,
  Permutation s1 s2 -> sorted_by_arrival s1 = true -> sorted_by_arrival s2 = true ->
  forallb (accepted m) s1 = true ->
  Permutation (s_out (run_manager m None s1)) (s_out (run_manager m None s2)).
Proof.
  intros m s1 s2 P H1 H2 Ha.
  assert (Ha2 : forallb (accepted m) s2 = true).
  { rewrite forallb_forall in *. intros x Hx. apply Ha. eapply Permutation_in; [apply Permutation_sym; exact P|exact Hx]. }
  eapply Permutation_trans; [now apply out_is_spec_all|].
  eapply Permutation_trans; [apply Permutation_flat_map'; exact P|].
  apply Permutation_sym. now apply out_is_spec_all.
Qed.

(* ---- account stream side ----------------------------------------------------------------------------- *)

Lemma orders_of_app : forall a b, orders_of (a ++ b) = orders_of a ++ orders_of b.
Proof. intros. unfold orders_of. apply flat_map_app. Qed.

Lemma orders_of_map_MOrder : forall l, orders_of (map MOrder l) = l.
Proof. induction l as [|x t IH]; [reflexivity|]. cbn [map]. unfold orders_of in *. cbn [flat_map app]. now rewrite IH. Qed.

Lemma orders_of_acct_from : forall pol sched, orders_of (acct_events_from pol sched) = [].
Proof. induction sched as [|[t k] rest IH]; cbn; [reflexivity|exact IH]. Qed.

Lemma orders_of_merged : forall m stop script pol sched,
  orders_of (merged m stop script pol sched) = s_out (run_manager m stop script).
Proof.
  intros. unfold merged, acct_events. rewrite orders_of_app, orders_of_map_MOrder.
  cbn. rewrite orders_of_acct_from. apply app_nil_r.
Qed.

Theorem answers_independent_of_account_stream : forall m stop script pol1 sched1 pol2 sched2,
  sorted_by_arrival script = true ->
  orders_of (merged m stop script pol1 sched1) = orders_of (merged m stop script pol2 sched2) /\
  Permutation (orders_of (merged m stop script pol1 sched1)) (spec_events m stop script).
Proof.
  intros m stop script pol1 sched1 pol2 sched2 Hs. rewrite !orders_of_merged. split; [reflexivity|].
  now destruct (run_refines_spec m stop script Hs).
Qed.

Lemma notices_of_merged : forall m stop script pol sched,
  notices_of (merged m stop script pol sched) = map fst sched.
Proof.
  intros. unfold merged, notices_of. rewrite flat_map_app.
  assert (A : forall l, flat_map (fun x => match x with MReconnecting t => [t] | _ => [] end) (map MOrder l) = [])
    by (induction l; cbn; auto).
  rewrite A. cbn. induction sched as [|[t k] rest IH]; cbn; [reflexivity|]. now rewrite IH.
Qed.
