(** C20 — lemmas about the backtest model (Model/Backtest.v). *)
From Coq Require Import List Arith Bool Lia.
Import ListNotations.
From BV Require Import Model.Backtest.

Section Proofs.
  Variables M A St R : Type.
  Variable step : St -> ev M A -> St * bool.
  Variable summarise : St -> R.

  Notation ev := (ev M A).
  Notation run := (run step).
  Notation state_after := (state_after step).
  Notation terminal := (terminal step).
  Notation tick := (tick step).
  Notation eng := (eng M A St).

  Definition not_shutdown (e : ev) : bool := negb (is_shutdown e).

  (* ---------------------------------------------------------------------------------- *)
  (** * the run loop *)

  Lemma run_unfold_market : forall m rest s,
    run s (EMarket m :: rest) =
      let '(s', fatal) := step s (EMarket m) in
      if fatal then (s', [EMarket m], StopFatal)
      else let '(sf, p, o) := run s' rest in (sf, EMarket m :: p, o).
  Proof. reflexivity. Qed.

  Lemma run_unfold_account : forall a rest s,
    run s (EAccount a :: rest) =
      let '(s', fatal) := step s (EAccount a) in
      if fatal then (s', [EAccount a], StopFatal)
      else let '(sf, p, o) := run s' rest in (sf, EAccount a :: p, o).
  Proof. reflexivity. Qed.

  (** what [run] does on a non-shutdown head, in one lemma *)
  Lemma run_cons : forall e rest s, is_shutdown e = false ->
    run s (e :: rest) =
      (if snd (step s e) then (fst (step s e), [e], StopFatal)
       else (final (run (fst (step s e)) rest), e :: processed (run (fst (step s e)) rest),
             outcome (run (fst (step s e)) rest))).
  Proof.
    intros e rest s He. destruct e as [m|a|]; try discriminate; cbn [Backtest.run];
    destruct (step s _) as [s' f]; cbn [fst snd]; destruct f; try reflexivity;
    destruct (Backtest.run step s' rest) as [[sf p] o]; reflexivity.
  Qed.

  Lemma run_shutdown : forall rest s, run s (EShutdown :: rest) = (s, [EShutdown], StopShutdown).
  Proof. reflexivity. Qed.

  Lemma run_cons_fatal : forall e rest s, is_shutdown e = false -> snd (step s e) = true ->
    run s (e :: rest) = (fst (step s e), [e], StopFatal).
  Proof. intros e rest s He Hf. rewrite (run_cons e rest s He), Hf. reflexivity. Qed.

  Lemma run_cons_ok : forall e rest s, is_shutdown e = false -> snd (step s e) = false ->
    final (run s (e :: rest)) = final (run (fst (step s e)) rest) /\
    processed (run s (e :: rest)) = e :: processed (run (fst (step s e)) rest) /\
    outcome (run s (e :: rest)) = outcome (run (fst (step s e)) rest).
  Proof. intros e rest s He Hf. rewrite (run_cons e rest s He), Hf. repeat split. Qed.

  Lemma state_after_cons : forall e l s, is_shutdown e = false ->
    state_after s (e :: l) = state_after (fst (step s e)) l.
  Proof. intros e l s He. destruct e; try discriminate; reflexivity. Qed.

  Lemma terminal_not_shutdown : forall e s, is_shutdown e = false -> terminal s e = snd (step s e).
  Proof. intros e s He. destruct e; try discriminate; reflexivity. Qed.

  (** the processed events are a prefix of the feed *)
  Lemma run_prefix : forall feed s, exists rest, feed = processed (run s feed) ++ rest.
  Proof.
    induction feed as [|e feed IH]; intros s.
    - exists []. reflexivity.
    - destruct (is_shutdown e) eqn:He.
      + destruct e; try discriminate. exists feed. reflexivity.
      + destruct (snd (step s e)) eqn:Hf.
        * rewrite (run_cons_fatal e feed s He Hf). exists feed. reflexivity.
        * destruct (run_cons_ok e feed s He Hf) as [_ [Hp _]]. rewrite Hp.
          destruct (IH (fst (step s e))) as [rest Hr]. exists rest.
          cbn [app]. f_equal. exact Hr.
  Qed.

  (** the final state is the state after the processed ticks *)
  Lemma run_state : forall feed s, final (run s feed) = state_after s (processed (run s feed)).
  Proof.
    induction feed as [|e feed IH]; intros s.
    - reflexivity.
    - destruct (is_shutdown e) eqn:He.
      + destruct e; try discriminate. reflexivity.
      + destruct (snd (step s e)) eqn:Hf.
        * rewrite (run_cons_fatal e feed s He Hf). unfold final, processed. cbn [fst snd].
          rewrite (state_after_cons e [] s He). reflexivity.
        * destruct (run_cons_ok e feed s He Hf) as [Hfi [Hp _]]. rewrite Hfi, Hp.
          rewrite (state_after_cons e _ s He). apply IH.
  Qed.

  (** no tick strictly inside the processed list is terminal *)
  Lemma run_inner_nonterminal : forall feed s p1 e p2,
    processed (run s feed) = p1 ++ e :: p2 -> p2 <> [] ->
    terminal (state_after s p1) e = false.
  Proof.
    induction feed as [|x feed IH]; intros s p1 e p2 Hp Hne.
    - destruct p1; discriminate Hp.
    - assert (Hsingle : forall y : ev, [y] = p1 ++ e :: p2 -> False).
      { intros y H. destruct p1 as [|z p1]; cbn [app] in H.
        - injection H as _ H2. subst p2. contradiction.
        - injection H as _ H2. destruct p1; discriminate H2. }
      destruct (is_shutdown x) eqn:Hx.
      + destruct x; try discriminate. rewrite run_shutdown in Hp. exfalso. exact (Hsingle _ Hp).
      + destruct (snd (step s x)) eqn:Hf.
        * rewrite (run_cons_fatal x feed s Hx Hf) in Hp. exfalso. exact (Hsingle _ Hp).
        * destruct (run_cons_ok x feed s Hx Hf) as [_ [Hpr _]]. rewrite Hpr in Hp.
          destruct p1 as [|y p1]; cbn [app] in Hp.
          -- injection Hp as H1 H2. subst e. cbn. rewrite (terminal_not_shutdown x s Hx). exact Hf.
          -- injection Hp as H1 H2. subst y. rewrite (state_after_cons x p1 s Hx).
             exact (IH (fst (step s x)) p1 e p2 H2 Hne).
  Qed.

  (** unless the feed ran dry, the last processed tick is terminal, and it is Shutdown exactly
      when the run stopped on Shutdown *)
  Lemma run_last_terminal : forall feed s, outcome (run s feed) <> FeedEnded ->
    exists p1 e, processed (run s feed) = p1 ++ [e] /\ terminal (state_after s p1) e = true /\
                 (outcome (run s feed) = StopShutdown <-> e = EShutdown).
  Proof.
    induction feed as [|x feed IH]; intros s Ho.
    - exfalso. apply Ho. reflexivity.
    - destruct (is_shutdown x) eqn:Hx.
      + destruct x; try discriminate. exists [], EShutdown. rewrite run_shutdown. repeat split.
      + destruct (snd (step s x)) eqn:Hf.
        * rewrite (run_cons_fatal x feed s Hx Hf). exists [], x. split; [reflexivity|]. split.
          -- cbn. rewrite (terminal_not_shutdown x s Hx). exact Hf.
          -- split; intro H; [discriminate H | subst x; discriminate Hx].
        * destruct (run_cons_ok x feed s Hx Hf) as [_ [Hpr Hou]]. rewrite Hou in Ho. rewrite Hpr, Hou.
          destruct (IH (fst (step s x)) Ho) as [p1 [e [Hp [Ht Hiff]]]].
          exists (x :: p1), e. split; [cbn [app]; f_equal; exact Hp|].
          split; [|exact Hiff]. rewrite (state_after_cons x p1 s Hx). exact Ht.
  Qed.

  (** a feed that ran dry was processed completely and contained no terminal tick *)
  Lemma run_feed_ended : forall feed s, outcome (run s feed) = FeedEnded ->
    processed (run s feed) = feed /\
    forall p1 e p2, feed = p1 ++ e :: p2 -> terminal (state_after s p1) e = false.
  Proof.
    induction feed as [|x feed IH]; intros s Ho.
    - split; [reflexivity|]. intros p1 e p2 H. destruct p1; discriminate H.
    - destruct (is_shutdown x) eqn:Hx.
      + destruct x; discriminate.
      + destruct (snd (step s x)) eqn:Hf.
        * rewrite (run_cons_fatal x feed s Hx Hf) in Ho. discriminate Ho.
        * destruct (run_cons_ok x feed s Hx Hf) as [_ [Hpr Hou]]. rewrite Hou in Ho. rewrite Hpr.
          destruct (IH (fst (step s x)) Ho) as [Hp Hall]. split.
          -- f_equal. exact Hp.
          -- intros p1 e p2 H. destruct p1 as [|y p1]; cbn [app] in H.
             ++ injection H as H1 H2. subst e. cbn. rewrite (terminal_not_shutdown x s Hx). exact Hf.
             ++ injection H as H1 H2. subst y. rewrite (state_after_cons x p1 s Hx).
                exact (Hall p1 e p2 H2).
  Qed.

  (** whatever follows the terminal tick is irrelevant *)
  Lemma run_ignores_rest : forall feed s, outcome (run s feed) <> FeedEnded ->
    forall rest', run s (processed (run s feed) ++ rest') = run s feed.
  Proof.
    induction feed as [|x feed IH]; intros s Ho rest'.
    - exfalso. apply Ho. reflexivity.
    - destruct (is_shutdown x) eqn:Hx.
      + destruct x; try discriminate. reflexivity.
      + destruct (snd (step s x)) eqn:Hf.
        * rewrite (run_cons_fatal x feed s Hx Hf). unfold processed. cbn [fst snd app].
          apply (run_cons_fatal x rest' s Hx Hf).
        * destruct (run_cons_ok x feed s Hx Hf) as [_ [Hpr Hou]]. rewrite Hou in Ho. rewrite Hpr.
          cbn [app]. rewrite (run_cons x _ s Hx), (run_cons x feed s Hx), Hf.
          rewrite (IH (fst (step s x)) Ho rest'). reflexivity.
  Qed.

  (* ---------------------------------------------------------------------------------- *)
  (** * the feed of a backtest *)

  Lemma markets_app : forall l1 l2 : list ev, markets (l1 ++ l2) = markets l1 ++ markets l2.
  Proof. intros. unfold markets. apply flat_map_app. Qed.

  Lemma markets_map_market : forall ds : list M, markets (map (@EMarket M A) ds) = ds.
  Proof. induction ds as [|d ds IH]; [reflexivity|]. cbn. f_equal. exact IH. Qed.

  Lemma markets_map_account : forall acs : list A, markets (map (@EAccount M A) acs) = [].
  Proof. induction acs as [|a acs IH]; [reflexivity|]. cbn. exact IH. Qed.

  Definition consumed (ds : list M) (s : St) (feed : list ev) : Prop :=
    outcome (run s feed) = StopShutdown /\
    exists p', processed (run s feed) = p' ++ [EShutdown] /\ markets p' = ds /\
               forallb not_shutdown p' = true.

  Definition stopped_early (ds : list M) (s : St) (feed : list ev) : Prop :=
    outcome (run s feed) = StopFatal /\
    exists ds2, ds = markets (processed (run s feed)) ++ ds2.

  Lemma consumes_gen : forall (L Rr feed : list ev), interleave L Rr feed ->
    forall ds acs, L = map (@EMarket M A) ds ++ [EShutdown] -> Rr = map (@EAccount M A) acs ->
    forall s, consumed ds s feed \/ stopped_early ds s feed.
  Proof.
    induction 1 as [|x l r o Hil IH|y l r o Hil IH]; intros ds acs HL HR s.
    - destruct ds; discriminate HL.
    - destruct ds as [|d ds]; cbn [map app] in HL.
      + injection HL as Hx Hl. subst x l. left. split; [reflexivity|].
        exists []. repeat split.
      + injection HL as Hx Hl. subst x.
        assert (Hns0 : is_shutdown (@EMarket M A d) = false) by reflexivity.
        unfold consumed, stopped_early.
        destruct (snd (step s (EMarket d))) eqn:Hf.
        * right. rewrite (run_cons_fatal _ o s Hns0 Hf). split; [reflexivity|]. exists ds. reflexivity.
        * destruct (run_cons_ok _ o s Hns0 Hf) as [_ [Hpr Hou]]. rewrite Hpr, Hou.
          destruct (IH ds acs Hl HR (fst (step s (EMarket d)))) as [[Ho [p' [Hp [Hm Hns]]]]|[Ho [ds2 Hd]]].
          -- left. split; [exact Ho|]. exists (EMarket d :: p').
             split; [cbn [app]; f_equal; exact Hp|]. split; [cbn; f_equal; exact Hm|].
             cbn [forallb]. rewrite Hns. reflexivity.
          -- right. split; [exact Ho|]. exists ds2. cbn. f_equal. exact Hd.
    - destruct acs as [|a acs]; cbn [map] in HR; [discriminate HR|].
      injection HR as Hy Hr. subst y.
      assert (Hns0 : is_shutdown (@EAccount M A a) = false) by reflexivity.
      unfold consumed, stopped_early.
      destruct (snd (step s (EAccount a))) eqn:Hf.
      + right. rewrite (run_cons_fatal _ o s Hns0 Hf). split; [reflexivity|]. exists ds. reflexivity.
      + destruct (run_cons_ok _ o s Hns0 Hf) as [_ [Hpr Hou]]. rewrite Hpr, Hou.
        destruct (IH ds acs HL Hr (fst (step s (EAccount a)))) as [[Ho [p' [Hp [Hm Hns]]]]|[Ho [ds2 Hd]]].
        * left. split; [exact Ho|]. exists (EAccount a :: p').
          split; [cbn [app]; f_equal; exact Hp|]. split; [cbn; exact Hm|].
          cbn [forallb]. rewrite Hns. reflexivity.
        * right. split; [exact Ho|]. exists ds2. cbn. exact Hd.
  Qed.

  (** Main theorem: for every dataset, every account-event sequence and every admissible
      interleaving, either the engine stopped on a fatal tick having processed a prefix of the
      dataset (nothing skipped or reordered before the stop), or it stopped on Shutdown and the
      market events it processed are exactly the dataset, in order, each once, all before the
      single Shutdown, which is the last processed event. *)
  Theorem consumes_all_in_order : forall ds acs feed s,
    admissible ds acs feed -> consumed ds s feed \/ stopped_early ds s feed.
  Proof. intros ds acs feed s H. exact (consumes_gen _ _ _ H ds acs eq_refl eq_refl s). Qed.

  Corollary consumes_unless_fatal : forall ds acs feed s,
    admissible ds acs feed -> outcome (run s feed) <> StopFatal ->
    outcome (run s feed) = StopShutdown /\ markets (processed (run s feed)) = ds /\
    exists p', processed (run s feed) = p' ++ [EShutdown] /\ markets p' = ds /\
               forallb not_shutdown p' = true.
  Proof.
    intros ds acs feed s H Hnf. destruct (consumes_all_in_order ds acs feed s H) as [[Ho [p' [Hp [Hm Hns]]]]|[Ho _]].
    - split; [exact Ho|]. split.
      + rewrite Hp, markets_app, Hm. cbn. apply app_nil_r.
      + exists p'. auto.
    - contradiction.
  Qed.

  (** in every case the processed market events are a prefix of the dataset *)
  Corollary processed_markets_prefix : forall ds acs feed s,
    admissible ds acs feed -> exists ds2, ds = markets (processed (run s feed)) ++ ds2.
  Proof.
    intros ds acs feed s H. destruct (consumes_all_in_order ds acs feed s H) as [[Ho [p' [Hp [Hm Hns]]]]|[Ho Hd]].
    - exists []. rewrite Hp, markets_app, Hm. cbn. rewrite !app_nil_r. reflexivity.
    - exact Hd.
  Qed.

  (** the summary is a function of the engine's own processed prefix: it is [summarise] of the
      state reached by the processed ticks, and events queued behind the terminal tick (late
      fills, anything else) cannot influence it *)
  Theorem summary_of_own_state : forall s feed,
    backtest step summarise s feed = summarise (state_after s (processed (run s feed))).
  Proof. intros. unfold backtest. rewrite run_state. reflexivity. Qed.

  Theorem summary_ignores_rest : forall s feed rest',
    outcome (run s feed) <> FeedEnded ->
    backtest step summarise s (processed (run s feed) ++ rest') = backtest step summarise s feed.
  Proof. intros s feed rest' H. unfold backtest. rewrite (run_ignores_rest feed s H rest'). reflexivity. Qed.

  (** a batch returns, at position i, the summary of the i-th backtest's own run — and one
      result per argument set *)
  Theorem batch_positional : forall s0 (feeds : list (list ev)) i,
    nth_error (run_backtests step summarise s0 feeds) i =
      option_map (backtest step summarise s0) (nth_error feeds i).
  Proof. intros. unfold run_backtests. apply nth_error_map. Qed.

  Theorem batch_length : forall s0 (feeds : list (list ev)),
    length (run_backtests step summarise s0 feeds) = length feeds.
  Proof. intros. unfold run_backtests. apply map_length. Qed.

  (* ---------------------------------------------------------------------------------- *)
  (** * the executable merge produces admissible feeds *)

  Lemma interleave_app : forall (l r : list ev), interleave l r (l ++ r).
  Proof.
    induction l as [|x l IH]; intros r.
    - cbn. induction r as [|y r IHr]; [constructor|]. apply il_r. exact IHr.
    - cbn. apply il_l. apply IH.
  Qed.

  Lemma weave_interleave : forall cs (ms acs f : list ev),
    weave ms acs cs = Some f -> interleave ms acs f.
  Proof.
    induction cs as [|c cs IH]; intros ms acs f H.
    - cbn in H. injection H as <-. apply interleave_app.
    - destruct c; cbn in H.
      + destruct ms as [|m ms]; [discriminate|].
        destruct (weave ms acs cs) as [f'|] eqn:E; [|discriminate]. cbn in H. injection H as <-.
        apply il_l. apply IH. exact E.
      + destruct acs as [|a acs]; [discriminate|].
        destruct (weave ms acs cs) as [f'|] eqn:E; [|discriminate]. cbn in H. injection H as <-.
        apply il_r. apply IH. exact E.
  Qed.

  (* ---------------------------------------------------------------------------------- *)
  (** * several engines under a schedule *)

  Lemma iter_succ_r : forall (X : Type) (f : X -> X) n x, Nat.iter (S n) f x = Nat.iter n f (f x).
  Proof.
    induction n as [|n IH]; intros x; [reflexivity|].
    change (f (Nat.iter (S n) f x) = f (Nat.iter n f (f x))). f_equal. apply IH.
  Qed.

  Lemma tick_stopped : forall e : eng, e_stop e <> None -> tick e = e.
  Proof. intros e H. unfold Backtest.tick. destruct (e_stop e); [reflexivity|contradiction]. Qed.

  Lemma iter_tick_stopped : forall n (e : eng), e_stop e <> None -> Nat.iter n tick e = e.
  Proof.
    induction n as [|n IH]; intros e H; [reflexivity|].
    rewrite iter_succ_r. rewrite (tick_stopped e H). apply IH. exact H.
  Qed.

  Lemma tick_run_gen : forall feed s done,
    let e := Nat.iter (S (length feed)) tick (mkEng s feed done None) in
    e_state e = final (run s feed) /\
    e_done e = rev (processed (run s feed)) ++ done /\
    e_stop e = Some (outcome (run s feed)).
  Proof.
    induction feed as [|x feed IH]; intros s done.
    - cbn. repeat split.
    - cbv zeta. rewrite iter_succ_r. cbn [length].
      destruct (is_shutdown x) eqn:Hx.
      + destruct x; try discriminate.
        assert (Ht : tick (mkEng s (EShutdown :: feed) done None) =
                     mkEng s feed (EShutdown :: done) (Some StopShutdown)) by reflexivity.
        rewrite Ht. rewrite iter_tick_stopped by (cbn; discriminate).
        rewrite run_shutdown. cbn. repeat split.
      + assert (Ht : tick (mkEng s (x :: feed) done None) =
                     mkEng (fst (step s x)) feed (x :: done)
                           (if snd (step s x) then Some StopFatal else None)).
        { unfold Backtest.tick. cbn [e_stop e_feed e_state e_done].
          destruct x; try discriminate; destruct (step s _) as [s' f]; reflexivity. }
        rewrite Ht. destruct (snd (step s x)) eqn:Hf.
        * rewrite iter_tick_stopped by (cbn; discriminate).
          rewrite (run_cons_fatal x feed s Hx Hf). cbn. repeat split.
        * destruct (run_cons_ok x feed s Hx Hf) as [Hfi [Hpr Hou]]. rewrite Hfi, Hpr, Hou.
          specialize (IH (fst (step s x)) (x :: done)). cbv zeta in IH.
          destruct IH as [H1 [H2 H3]].
          split; [exact H1|]. split; [|exact H3].
          rewrite H2. cbn [rev]. rewrite <- app_assoc. reflexivity.
  Qed.

  (** an engine stepped at least [length feed + 1] times has done exactly what [run] says *)
  Lemma tick_run : forall feed s n, S (length feed) <= n ->
    let e := Nat.iter n tick (start s feed) in
    e_state e = final (run s feed) /\
    rev (e_done e) = processed (run s feed) /\
    e_stop e = Some (outcome (run s feed)).
  Proof.
    intros feed s n Hn.
    assert (Hsplit : n = (n - S (length feed)) + S (length feed)) by lia.
    cbv zeta. rewrite Hsplit.
    assert (Hiter : forall a b (e : eng), Nat.iter (a + b) tick e = Nat.iter a tick (Nat.iter b tick e)).
    { induction a as [|a IHa]; intros b e; [reflexivity|]. cbn [Nat.add Nat.iter nat_rect]. f_equal. apply IHa. }
    rewrite Hiter. unfold start.
    destruct (tick_run_gen feed s []) as [H1 [H2 H3]].
    rewrite iter_tick_stopped by (rewrite H3; discriminate).
    split; [exact H1|]. split; [|exact H3].
    rewrite H2, app_nil_r, rev_involutive. reflexivity.
  Qed.

  Lemma tick_at_nth : forall i (sys : list eng) j,
    nth_error (tick_at step i sys) j =
      if Nat.eqb i j then option_map tick (nth_error sys j) else nth_error sys j.
  Proof.
    induction i as [|i IH]; intros sys j.
    - destruct sys as [|e t]; destruct j; cbn; reflexivity.
    - destruct sys as [|e t].
      + destruct j as [|j]; cbn; [reflexivity|]. destruct (Nat.eqb i j); reflexivity.
      + destruct j as [|j]; cbn [tick_at nth_error]; [reflexivity|].
        rewrite IH. reflexivity.
  Qed.

  (** Isolation in the model: under ANY schedule, engine [i] of the system is exactly the engine
      [i] stepped alone as many times as the schedule names it — nothing the other engines do,
      and no order in which they do it, shows up in it. *)
  Theorem schedule_independent : forall sched (sys : list eng) i,
    nth_error (run_schedule step sched sys) i =
      option_map (Nat.iter (ticks_of i sched) tick) (nth_error sys i).
  Proof.
    induction sched as [|a sched IH]; intros sys i.
    - cbn. destruct (nth_error sys i); reflexivity.
    - unfold run_schedule in *. cbn [fold_left]. rewrite IH. rewrite tick_at_nth.
      unfold ticks_of. cbn [count_occ].
      destruct (Nat.eq_dec a i) as [E|E].
      + subst a. rewrite Nat.eqb_refl. destruct (nth_error sys i) as [e|]; cbn [option_map]; [|reflexivity].
        f_equal. symmetry. apply iter_succ_r.
      + apply Nat.eqb_neq in E. rewrite E. reflexivity.
  Qed.

  (** hence: a backtest that is given enough ticks inside ANY concurrent schedule ends in the
      state, with the processed list, the stop reason and therefore the summary it has alone *)
  Theorem concurrent_equals_alone : forall sched (sys : list eng) i s feed,
    nth_error sys i = Some (start s feed) -> S (length feed) <= ticks_of i sched ->
    exists e, nth_error (run_schedule step sched sys) i = Some e /\
              e_state e = final (run s feed) /\
              rev (e_done e) = processed (run s feed) /\
              e_stop e = Some (outcome (run s feed)) /\
              summarise (e_state e) = backtest step summarise s feed.
  Proof.
    intros sched sys i s feed Hi Hn. rewrite schedule_independent, Hi. cbn [option_map].
    eexists. split; [reflexivity|].
    destruct (tick_run feed s (ticks_of i sched) Hn) as [H1 [H2 H3]].
    repeat split; try assumption. unfold backtest. rewrite H1. reflexivity.
  Qed.

End Proofs.
