(** Shared infrastructure for the link theorems "oracle no stricter than the model"
    (Proofs/OracleC03.v, Proofs/OracleC19.v): soundness / reflexivity of the decidable equalities of
    Corr/EngineCase.v, what an exact observation of a model step looks like, multiset equality by
    counting = Permutation, and invariants of [model_step]. *)
From Coq Require Import List ZArith NArith Bool Lia Permutation.
From BV Require Import Base.Common Model.Engine Proofs.Engine Corr.EngineCase.
Import ListNotations.
Local Open Scope N_scope.

(* ---------------------------------------------------------------------------------------- *)
(** * Decidable equalities: soundness and reflexivity *)

Ltac bool_hyps := repeat match goal with
  | H : _ && _ = true |- _ => apply andb_true_iff in H; destruct H
  | H : N.eqb _ _ = true |- _ => apply N.eqb_eq in H
  | H : Z.eqb _ _ = true |- _ => apply Z.eqb_eq in H
  | H : Bool.eqb _ _ = true |- _ => apply Bool.eqb_prop in H
  end.

Lemma list_eqb_true : forall A (eqb : A -> A -> bool),
  (forall a b, eqb a b = true -> a = b) -> forall l1 l2, list_eqb eqb l1 l2 = true -> l1 = l2.
Proof.
  intros A eqb H. induction l1 as [|x t IH]; intros [|y u] E; cbn in E; try discriminate; [reflexivity|].
  bool_hyps. f_equal; auto.
Qed.
Lemma list_eqb_refl : forall A (eqb : A -> A -> bool), (forall a, eqb a a = true) -> forall l, list_eqb eqb l l = true.
Proof. intros A eqb H. induction l; cbn; [reflexivity|]. rewrite H, IHl. reflexivity. Qed.
Lemma option_eqb_true : forall A (eqb : A -> A -> bool),
  (forall a b, eqb a b = true -> a = b) -> forall x y, option_eqb eqb x y = true -> x = y.
Proof. intros A eqb H [a|] [b|] E; cbn in E; try discriminate; [f_equal; auto|reflexivity]. Qed.
Lemma option_eqb_refl : forall A (eqb : A -> A -> bool), (forall a, eqb a a = true) -> forall x, option_eqb eqb x x = true.
Proof. intros A eqb H [a|]; cbn; auto. Qed.
Lemma pair_eqb_true : forall A B (ea : A -> A -> bool) (eb : B -> B -> bool),
  (forall a b, ea a b = true -> a = b) -> (forall a b, eb a b = true -> a = b) ->
  forall x y, pair_eqb ea eb x y = true -> x = y.
Proof. intros A B ea eb Ha Hb [a b] [c d] E. unfold pair_eqb in E. cbn in E. bool_hyps. f_equal; auto. Qed.
Lemma pair_eqb_refl : forall A B (ea : A -> A -> bool) (eb : B -> B -> bool),
  (forall a, ea a a = true) -> (forall a, eb a a = true) -> forall x, pair_eqb ea eb x x = true.
Proof. intros A B ea eb Ha Hb [a b]. unfold pair_eqb. cbn. rewrite Ha, Hb. reflexivity. Qed.

Lemma side_eqb_true : forall a b, side_eqb a b = true -> a = b.
Proof. intros [] []; cbn; congruence. Qed.
Lemma side_eqb_refl : forall a, side_eqb a a = true. Proof. intros []; reflexivity. Qed.
Lemma okind_eqb_true : forall a b, okind_eqb a b = true -> a = b.
Proof. intros [] []; cbn; congruence. Qed.
Lemma okind_eqb_refl : forall a, okind_eqb a a = true. Proof. intros []; reflexivity. Qed.
Lemma tif_eqb_true : forall a b, tif_eqb a b = true -> a = b.
Proof. intros [x| | |] [y| | |]; cbn; try congruence. intros H. apply Bool.eqb_prop in H. congruence. Qed.
Lemma tif_eqb_refl : forall a, tif_eqb a a = true. Proof. intros [[]| | |]; reflexivity. Qed.
Lemma errk_eqb_true : forall a b, errk_eqb a b = true -> a = b.
Proof. intros [] []; cbn; congruence. Qed.
Lemma errk_eqb_refl : forall a, errk_eqb a a = true. Proof. intros []; reflexivity. Qed.

Lemma key_eqb_true : forall a b, key_eqb a b = true -> a = b.
Proof. intros [] [] E. unfold key_eqb in E. cbn in E. bool_hyps. congruence. Qed.
Lemma key_eqb_refl : forall a, key_eqb a a = true.
Proof. intros []. unfold key_eqb. cbn. rewrite !N.eqb_refl. reflexivity. Qed.
Lemma ropen_eqb_true : forall a b, ropen_eqb a b = true -> a = b.
Proof.
  intros [] [] E. unfold ropen_eqb in E. cbn in E. bool_hyps.
  repeat match goal with
  | H : side_eqb _ _ = true |- _ => apply side_eqb_true in H
  | H : okind_eqb _ _ = true |- _ => apply okind_eqb_true in H
  | H : tif_eqb _ _ = true |- _ => apply tif_eqb_true in H end. congruence.
Qed.
Lemma ropen_eqb_refl : forall a, ropen_eqb a a = true.
Proof. intros []. unfold ropen_eqb. cbn. rewrite side_eqb_refl, !Z.eqb_refl, okind_eqb_refl, tif_eqb_refl. reflexivity. Qed.
Lemma oreq_eqb_true : forall a b, oreq_eqb a b = true -> a = b.
Proof. intros [] [] E. unfold oreq_eqb in E. cbn in E. bool_hyps. apply key_eqb_true in H. apply ropen_eqb_true in H0. congruence. Qed.
Lemma oreq_eqb_refl : forall a, oreq_eqb a a = true.
Proof. intros []. unfold oreq_eqb. cbn. rewrite key_eqb_refl, ropen_eqb_refl. reflexivity. Qed.
Lemma creq_eqb_true : forall a b, creq_eqb a b = true -> a = b.
Proof.
  intros [] [] E. unfold creq_eqb in E. cbn in E. bool_hyps. apply key_eqb_true in H.
  apply option_eqb_true in H0; [congruence|]. intros a b. apply N.eqb_eq.
Qed.
Lemma creq_eqb_refl : forall a, creq_eqb a a = true.
Proof. intros []. unfold creq_eqb. cbn. rewrite key_eqb_refl, option_eqb_refl; [reflexivity|apply N.eqb_refl]. Qed.
Lemma xreq_eqb_true : forall a b, xreq_eqb a b = true -> a = b.
Proof. intros [x|x] [y|y] E; cbn in E; try discriminate; f_equal; [apply creq_eqb_true|apply oreq_eqb_true]; exact E. Qed.
Lemma xreq_eqb_refl : forall a, xreq_eqb a a = true.
Proof. intros [x|x]; cbn; [apply creq_eqb_refl|apply oreq_eqb_refl]. Qed.
Lemma meta_eqb_true : forall a b, meta_eqb a b = true -> a = b.
Proof. intros [] [] E. unfold meta_eqb in E. cbn in E. bool_hyps. congruence. Qed.
Lemma meta_eqb_refl : forall a, meta_eqb a a = true.
Proof. intros []. unfold meta_eqb. cbn. rewrite N.eqb_refl, !Z.eqb_refl. reflexivity. Qed.
Lemma ostate_eqb_true : forall a b, ostate_eqb a b = true -> a = b.
Proof.
  intros [|x|x] [|y|y] E; cbn in E; try discriminate; [reflexivity| |]; f_equal.
  - apply meta_eqb_true. exact E.
  - apply (option_eqb_true _ _ meta_eqb_true). exact E.
Qed.
Lemma ostate_eqb_refl : forall a, ostate_eqb a a = true.
Proof. intros [|x|x]; cbn; [reflexivity|apply meta_eqb_refl|apply option_eqb_refl, meta_eqb_refl]. Qed.
Lemma order_eqb_true : forall a b, order_eqb a b = true -> a = b.
Proof.
  intros [] [] E. unfold order_eqb in E. cbn in E. bool_hyps.
  repeat match goal with
  | H : key_eqb _ _ = true |- _ => apply key_eqb_true in H
  | H : side_eqb _ _ = true |- _ => apply side_eqb_true in H
  | H : okind_eqb _ _ = true |- _ => apply okind_eqb_true in H
  | H : tif_eqb _ _ = true |- _ => apply tif_eqb_true in H
  | H : ostate_eqb _ _ = true |- _ => apply ostate_eqb_true in H end. congruence.
Qed.
Lemma order_eqb_refl : forall a, order_eqb a a = true.
Proof.
  intros []. unfold order_eqb. cbn.
  rewrite key_eqb_refl, side_eqb_refl, !Z.eqb_refl, okind_eqb_refl, tif_eqb_refl, ostate_eqb_refl. reflexivity.
Qed.
Lemma pos_eqb_true : forall a b, pos_eqb a b = true -> a = b.
Proof. intros [] [] E. unfold pos_eqb in E. cbn in E. bool_hyps. apply side_eqb_true in H1. congruence. Qed.
Lemma pos_eqb_refl : forall a, pos_eqb a a = true.
Proof. intros []. unfold pos_eqb. cbn. rewrite N.eqb_refl, side_eqb_refl, Z.eqb_refl. reflexivity. Qed.

Lemma N_eqb_true : forall a b, N.eqb a b = true -> a = b. Proof. intros a b. apply N.eqb_eq. Qed.
Lemma Z_eqb_true : forall a b, Z.eqb a b = true -> a = b. Proof. intros a b. apply Z.eqb_eq. Qed.

Lemma omap_eqb_true : forall a b, omap_eqb a b = true -> a = b.
Proof. apply list_eqb_true. apply pair_eqb_true; [apply N_eqb_true|apply order_eqb_true]. Qed.
Lemma omap_eqb_refl : forall a, omap_eqb a a = true.
Proof. apply list_eqb_refl. apply pair_eqb_refl; [apply N.eqb_refl|apply order_eqb_refl]. Qed.
Lemma zz_eqb_true : forall a b : Z * Z, pair_eqb Z.eqb Z.eqb a b = true -> a = b.
Proof. apply pair_eqb_true; apply Z_eqb_true. Qed.
Lemma zz_eqb_refl : forall a : Z * Z, pair_eqb Z.eqb Z.eqb a a = true.
Proof. apply pair_eqb_refl; apply Z.eqb_refl. Qed.
Lemma zz_eqb_true' : forall a b, zz_eqb a b = true -> a = b. Proof. exact zz_eqb_true. Qed.
Lemma zz_eqb_refl' : forall a, zz_eqb a a = true. Proof. exact zz_eqb_refl. Qed.
Lemma l1_eqb_true : forall a b, l1_eqb a b = true -> a = b.
Proof.
  intros [] [] E. unfold l1_eqb in E. cbn in E. bool_hyps.
  apply (option_eqb_true _ _ zz_eqb_true') in H1. apply (option_eqb_true _ _ zz_eqb_true') in H0. congruence.
Qed.
Lemma l1_eqb_refl : forall a, l1_eqb a a = true.
Proof. intros []. unfold l1_eqb. cbn. rewrite Z.eqb_refl, !(option_eqb_refl _ _ zz_eqb_refl'). reflexivity. Qed.
Lemma mdata_eqb_true : forall a b, mdata_eqb a b = true -> a = b.
Proof.
  intros [] [] E. unfold mdata_eqb in E. cbn in E. bool_hyps. apply l1_eqb_true in H.
  apply (option_eqb_true _ _ zz_eqb_true') in H0. congruence.
Qed.
Lemma mdata_eqb_refl : forall a, mdata_eqb a a = true.
Proof. intros []. unfold mdata_eqb. cbn. rewrite l1_eqb_refl, (option_eqb_refl _ _ zz_eqb_refl'). reflexivity. Qed.

Lemma iobs_eqb_true : forall a b, iobs_eqb a b = true -> a = b.
Proof.
  intros [[a1 a2] a3] [[b1 b2] b3] E. unfold iobs_eqb in E. cbn in E. bool_hyps.
  apply omap_eqb_true in H. apply (option_eqb_true _ _ pos_eqb_true) in H1.
  apply mdata_eqb_true in H0. congruence.
Qed.
Lemma iobs_eqb_refl : forall a, iobs_eqb a a = true.
Proof.
  intros [[a1 a2] a3]. unfold iobs_eqb. cbn.
  rewrite omap_eqb_refl, (option_eqb_refl _ _ pos_eqb_refl), mdata_eqb_refl. reflexivity.
Qed.

Lemma sendout_eqb_true : forall R (eqb : R -> R -> bool), (forall a b, eqb a b = true -> a = b) ->
  forall a b, sendout_eqb false eqb a b = true -> a = b.
Proof.
  intros R eqb H [s1 e1] [s2 e2] E. unfold sendout_eqb, seq_eqb in E. cbn in E. bool_hyps.
  apply (list_eqb_true _ _ H) in H0.
  apply (list_eqb_true _ _ (pair_eqb_true _ _ _ _ H errk_eqb_true)) in H1. congruence.
Qed.
Lemma sendout_eqb_refl : forall R (eqb : R -> R -> bool), (forall a, eqb a a = true) ->
  forall a, sendout_eqb false eqb a a = true.
Proof.
  intros R eqb H [s1 e1]. unfold sendout_eqb, seq_eqb. cbn.
  rewrite (list_eqb_refl _ _ H), (list_eqb_refl _ _ (pair_eqb_refl _ _ _ _ H errk_eqb_refl)). reflexivity.
Qed.
Lemma algo_eqb_true : forall a b, algo_eqb a b = true -> a = b.
Proof.
  intros [] [] E. unfold algo_eqb in E. cbn in E. bool_hyps.
  apply (sendout_eqb_true _ _ creq_eqb_true) in H. apply (sendout_eqb_true _ _ oreq_eqb_true) in H2.
  apply (list_eqb_true _ _ creq_eqb_true) in H1. apply (list_eqb_true _ _ oreq_eqb_true) in H0. congruence.
Qed.
Lemma algo_eqb_refl : forall a, algo_eqb a a = true.
Proof.
  intros []. unfold algo_eqb. cbn.
  rewrite (sendout_eqb_refl _ _ creq_eqb_refl), (sendout_eqb_refl _ _ oreq_eqb_refl),
          (list_eqb_refl _ _ creq_eqb_refl), (list_eqb_refl _ _ oreq_eqb_refl). reflexivity.
Qed.
Lemma action_eqb_true : forall a b, action_eqb false a b = true -> a = b.
Proof.
  intros [x|x|x1 x2] [y|y|y1 y2] E; cbn in E; try discriminate.
  - apply (sendout_eqb_true _ _ creq_eqb_true) in E. congruence.
  - apply (sendout_eqb_true _ _ oreq_eqb_true) in E. congruence.
  - bool_hyps. apply (sendout_eqb_true _ _ creq_eqb_true) in H. apply (sendout_eqb_true _ _ oreq_eqb_true) in H0. congruence.
Qed.
Lemma action_eqb_refl : forall a, action_eqb false a a = true.
Proof.
  intros [x|x|x1 x2]; cbn; rewrite ?(sendout_eqb_refl _ _ creq_eqb_refl), ?(sendout_eqb_refl _ _ oreq_eqb_refl); reflexivity.
Qed.
Lemma output_eqb_true : forall a b, output_eqb false a b = true -> a = b.
Proof.
  intros [x| | |i| |x] [y| | |j| |y] E; cbn in E; try discriminate; try reflexivity.
  - apply action_eqb_true in E. congruence.
  - apply N.eqb_eq in E. congruence.
  - apply algo_eqb_true in E. congruence.
Qed.
Lemma output_eqb_refl : forall a, output_eqb false a a = true.
Proof. intros [x| | |i| |x]; cbn; try reflexivity; [apply action_eqb_refl|apply N.eqb_refl|apply algo_eqb_refl]. Qed.
Lemma audit_eqb_true : forall a b, audit_eqb false a b = true -> a = b.
Proof.
  intros [] [] E. unfold audit_eqb, seq_eqb in E. cbn in E. bool_hyps.
  apply (list_eqb_true _ _ output_eqb_true) in H. apply (list_eqb_true _ _ errk_eqb_true) in H0. congruence.
Qed.

(* ---------------------------------------------------------------------------------------- *)
(** * What an exact observation of a model step looks like *)

Definition res_of (m : mres) : result :=
  match m with MAudit a => RAudit a | MAlgo a => RAlgo a | MAction a => RAction a | MNone => RNone end.
Definition iobs_of (s : state) := map (fun i => (i_orders i, i_pos i, i_data i)) (insts s).
Definition deliv_of (s : state) := map (mbox (links s)) (nat_seqN (length (links s))).
Definition obs_of (s : state) (m : mres) : obs := mkObs (trading s) (deliv_of s) (iobs_of s) (res_of m).

Lemma res_eqb_exact : forall m r, res_eqb false m r = true -> r = res_of m.
Proof.
  intros [a|a|a|] [b|b|b| |] E; cbn in E; try discriminate; cbn; try reflexivity; f_equal; symmetry.
  - apply audit_eqb_true. exact E.
  - apply algo_eqb_true. exact E.
  - apply action_eqb_true. exact E.
Qed.

Lemma obs_matches_exact : forall s m o, obs_matches false s m o = true -> o = obs_of s m.
Proof.
  intros s m [tr dl io rs] E. unfold obs_matches in E. cbn in E. bool_hyps.
  apply res_eqb_exact in H0. apply (list_eqb_true _ _ iobs_eqb_true) in H1.
  apply (list_eqb_true _ _ (list_eqb_true _ _ xreq_eqb_true)) in H2.
  unfold obs_of, deliv_of, iobs_of. congruence.
Qed.

(* ---------------------------------------------------------------------------------------- *)
(** * Helpers *)

Lemma list_nth_ext : forall A (l1 l2 : list A), (forall k, nth_error l1 k = nth_error l2 k) -> l1 = l2.
Proof.
  induction l1 as [|x t IH]; intros [|y u] H.
  - reflexivity.
  - specialize (H 0%nat). discriminate.
  - specialize (H 0%nat). discriminate.
  - pose proof (H 0%nat) as H0. cbn in H0. inversion H0. f_equal. apply IH. intros k. apply (H (S k)).
Qed.

Definition lstat_link (l : link) : lstat :=
  match l with LOpen _ => SOpen | LClosed => SClosed | LUnhealthy => SUnhealthy | LMissing => SMissing end.

Lemma lstat_of_nth : forall ls e,
  lstat_of ls e = match nth_error ls (N.to_nat e) with Some l => lstat_link l | None => SNoIndex end.
Proof. intros. unfold lstat_of, nthN. destruct (nth_error ls (N.to_nat e)) as [[| | |]|]; reflexivity. Qed.

Lemma stats_ext : forall ls ls',
  (forall e, lstat_of ls' e = lstat_of ls e) -> map lstat_link ls' = map lstat_link ls.
Proof.
  intros ls ls' H. apply list_nth_ext. intros k. rewrite !nth_error_map.
  specialize (H (N.of_nat k)). rewrite !lstat_of_nth, Nat2N.id in H.
  destruct (nth_error ls' k) as [l'|], (nth_error ls k) as [l|]; cbn; try reflexivity.
  - congruence.
  - destruct l'; discriminate.
  - destruct l; discriminate.
Qed.

Lemma stats_length : forall ls ls',
  (forall e, lstat_of ls' e = lstat_of ls e) -> length ls' = length ls.
Proof. intros ls ls' H. apply stats_ext in H. rewrite <- (map_length lstat_link ls'), H, map_length. reflexivity. Qed.

Definition clear_state (s : state) : state := mkState (trading s) (map clear_link (links s)) (insts s).

Lemma mbox_clear : forall ls e, mbox (map clear_link ls) e = [].
Proof.
  intros. unfold mbox, nthN. rewrite nth_error_map. destruct (nth_error ls (N.to_nat e)) as [[| | |]|]; reflexivity.
Qed.

Lemma stat_clear : forall ls, map lstat_link (map clear_link ls) = map lstat_link ls.
Proof. intros. rewrite map_map. apply map_ext. intros [| | |]; reflexivity. Qed.

Lemma indexed_from_map_seq : forall A (f : N -> A) n a,
  indexed_from (N.of_nat a) (map f (map N.of_nat (seq a n))) = map (fun k => (k, f k)) (map N.of_nat (seq a n)).
Proof.
  induction n as [|n IH]; intros a; [reflexivity|]. cbn [seq map indexed_from]. f_equal.
  rewrite <- Nat2N.inj_succ. apply IH.
Qed.

Lemma indexed_deliv : forall s,
  indexed (deliv_of s) = map (fun k => (k, mbox (links s) k)) (nat_seqN (length (links s))).
Proof. intros. unfold indexed, deliv_of, nat_seqN. apply (indexed_from_map_seq _ _ _ 0%nat). Qed.

Lemma forallb_map : forall A B (g : A -> B) (p : B -> bool) l, forallb p (map g l) = forallb (fun x => p (g x)) l.
Proof. induction l; cbn; congruence. Qed.

Lemma forallb_true : forall A (p : A -> bool) l, (forall x, p x = true) -> forallb p l = true.
Proof. induction l; intros; cbn; [reflexivity|]. rewrite H, IHl; auto. Qed.

Lemma length_deliv : forall s, length (deliv_of s) = length (links s).
Proof. intros. unfold deliv_of, nat_seqN. rewrite !map_length, seq_length. reflexivity. Qed.

Lemma length_iobs : forall s, length (iobs_of s) = length (insts s).
Proof. intros. unfold iobs_of. apply map_length. Qed.

Definition inst_static (x : inst) := (i_ex x, i_base x, i_quote x).

Lemma rest_static : forall l l', map inst_rest l' = map inst_rest l -> map inst_static l' = map inst_static l.
Proof.
  intros l l'. revert l. induction l' as [|x t IH]; intros [|y u] H; cbn in *; try discriminate; [reflexivity|].
  inversion H. unfold inst_static. f_equal; [congruence|]. apply IH. assumption.
Qed.

Lemma cids_marked_nil : forall base i c, marked base [] [] i c = base i c.
Proof. reflexivity. Qed.

Lemma cancels_of_app : forall (cs : list creq) (os : list oreq),
  filter_map (fun x => match x with XCancel c => Some c | _ => None end) (map XCancel cs ++ map XOpen os) = cs.
Proof.
  intros. induction cs as [|c t IH]; cbn; [|rewrite IH; reflexivity].
  induction os as [|o u IHo]; cbn; auto.
Qed.
Lemma opens_of_app : forall (cs : list creq) (os : list oreq),
  filter_map (fun x => match x with XOpen o => Some o | _ => None end) (map XCancel cs ++ map XOpen os) = os.
Proof.
  intros. induction cs as [|c t IH]; cbn; [|exact IH].
  induction os as [|o u IHo]; cbn; [reflexivity|]. rewrite IHo. reflexivity.
Qed.

(* ---- multiset equality by counting = Permutation ---- *)
Section Perm.
  Variable A : Type.
  Variable eqb : A -> A -> bool.
  Hypothesis eqb_true : forall a b, eqb a b = true -> a = b.
  Hypothesis eqb_refl : forall a, eqb a a = true.

  Lemma count_app : forall x l1 l2, count_b eqb x (l1 ++ l2) = (count_b eqb x l1 + count_b eqb x l2)%nat.
  Proof. intros. unfold count_b. rewrite filter_app, app_length. reflexivity. Qed.

  Lemma count_cons : forall x a l, count_b eqb x (a :: l) = ((if eqb x a then 1 else 0) + count_b eqb x l)%nat.
  Proof. intros. unfold count_b. cbn. destruct (eqb x a); reflexivity. Qed.

  Lemma count_perm : forall l1 l2, Permutation l1 l2 -> forall x, count_b eqb x l1 = count_b eqb x l2.
  Proof.
    induction 1; intros z.
    - reflexivity.
    - rewrite !count_cons, IHPermutation. reflexivity.
    - rewrite !count_cons. lia.
    - rewrite IHPermutation1. apply IHPermutation2.
  Qed.

  Lemma perm_eqb_of_perm : forall l1 l2, Permutation l1 l2 -> perm_eqb eqb l1 l2 = true.
  Proof.
    intros l1 l2 H. unfold perm_eqb. rewrite (Permutation_length H), Nat.eqb_refl. cbn [andb].
    apply forallb_forall. intros x _. rewrite (count_perm _ _ H x). apply Nat.eqb_refl.
  Qed.

  Lemma count_pos_in : forall x l, (0 < count_b eqb x l)%nat -> In x l.
  Proof.
    intros x l H. unfold count_b in H. destruct (filter (eqb x) l) as [|y t] eqn:E; [cbn in H; lia|].
    assert (In y (filter (eqb x) l)) as Hy by (rewrite E; left; reflexivity).
    apply filter_In in Hy. destruct Hy as [Hin He]. apply eqb_true in He. subst. exact Hin.
  Qed.

  Lemma perm_of_counts : forall l1 l2,
    length l1 = length l2 -> (forall x, In x l1 -> count_b eqb x l1 = count_b eqb x l2) -> Permutation l1 l2.
  Proof.
    induction l1 as [|a t IH]; intros l2 Hl Hc.
    - destruct l2; [constructor|discriminate].
    - assert (In a l2) as Hin.
      { apply count_pos_in. rewrite <- (Hc a (or_introl eq_refl)), count_cons, eqb_refl. lia. }
      apply in_split in Hin. destruct Hin as (u & w & ->).
      apply Permutation_cons_app. apply IH.
      + rewrite app_length in *. cbn in Hl. lia.
      + intros x Hx. specialize (Hc x (or_intror Hx)).
        rewrite count_cons, count_app, count_cons in Hc. rewrite count_app. lia.
  Qed.

  Lemma perm_of_perm_eqb : forall l1 l2, perm_eqb eqb l1 l2 = true -> Permutation l1 l2.
  Proof.
    intros l1 l2 H. unfold perm_eqb in H. apply andb_true_iff in H. destruct H as [Hl Hc].
    apply Nat.eqb_eq in Hl. apply perm_of_counts; [exact Hl|].
    intros x Hx. rewrite forallb_forall in Hc. apply Nat.eqb_eq. apply Hc. exact Hx.
  Qed.
End Perm.

Lemma filter_partition_perm : forall A (p : A -> bool) l,
  Permutation (filter p l ++ filter (fun x => negb (p x)) l) l.
Proof.
  induction l as [|x t IH]; [constructor|]. cbn. destruct (p x); cbn.
  - constructor. exact IH.
  - apply Permutation_sym. apply Permutation_cons_app. apply Permutation_sym. exact IH.
Qed.

(** sent ++ failed requests of a batch that equals the specification = the batch, as a multiset *)
Lemma spec_reqs_perm : forall R (ex : R -> N) ls rs,
  Permutation (spec_sent ex ls rs ++ map fst (spec_errs ex ls rs)) rs.
Proof.
  intros. unfold spec_sent, spec_errs. rewrite map_map. cbn [fst]. rewrite map_id.
  apply filter_partition_perm.
Qed.

Lemma sendout_perm : forall R (eqb : R -> R -> bool),
  (forall a b, eqb a b = true -> a = b) -> (forall a, eqb a a = true) ->
  forall a b : sendout R, sendout_eqb true eqb a b = true ->
  Permutation (so_sent a) (so_sent b) /\ Permutation (so_errs a) (so_errs b).
Proof.
  intros R eqb Ht Hr a b H. unfold sendout_eqb, seq_eqb in H. apply andb_true_iff in H. destruct H as [H1 H2].
  split.
  - apply (perm_of_perm_eqb _ eqb Ht Hr). exact H1.
  - apply (perm_of_perm_eqb _ (pair_eqb eqb errk_eqb)).
    + apply pair_eqb_true; [exact Ht|apply errk_eqb_true].
    + apply pair_eqb_refl; [exact Hr|apply errk_eqb_refl].
    + exact H2.
Qed.

(* ---- invariants of model steps ---- *)
Lemma update_state_static : forall s ev,
  map inst_static (insts (fst (update_state s ev))) = map inst_static (insts s).
Proof.
  intros s ev. destruct ev as [|c|b|o sn|l|k ok|i sd q| |i t p|i t b| |]; cbn; try reflexivity;
    try (apply map_updN_inv; intros x; reflexivity).
  - generalize (insts s). induction l as [|p t IH]; intros is_; [reflexivity|]. cbn [fold_left].
    rewrite IH. apply map_updN_inv. intros x. reflexivity.
  - destruct (nthN (insts s) i) as [x|]; [|reflexivity].
    destruct (trade_pos (i_pos x) i sd q). cbn. apply map_updN_inv. intros y. reflexivity.
Qed.

Lemma state_wf_clear : forall s, state_wf (clear_state s) = state_wf s.
Proof. reflexivity. Qed.

Lemma rest_length : forall l l' : list inst, map inst_rest l' = map inst_rest l -> length l' = length l.
Proof. intros l l' H. rewrite <- (map_length inst_rest l'), H, map_length. reflexivity. Qed.

Lemma process_length : forall cs s ev g, length (insts (fst (process cs s ev g))) = length (insts s).
Proof.
  intros cs s ev g. unfold process.
  pose proof (process_orders cs s ev g) as H. cbn zeta in H. destruct H as [H _].
  destruct (process_trace cs s ev g) as [s' t]. cbn [fst] in *.
  apply rest_length in H. rewrite H.
  rewrite <- (map_length inst_static (insts (fst (update_state s ev)))), update_state_static, map_length. reflexivity.
Qed.

Lemma model_step_inv : forall s st,
  state_wf s = true ->
  state_wf (fst (model_step s st)) = true /\ length (insts (fst (model_step s st))) = length (insts s).
Proof.
  intros s [o g cl ob] Hwf. unfold model_step. cbn [st_op st_g st_close].
  destruct o as [ev| |c|e stt|h c].
  - pose proof (state_wf_process (cs_of cl) s ev g Hwf) as H1. pose proof (process_length (cs_of cl) s ev g) as H2.
    destruct (process (cs_of cl) s ev g). cbn [fst] in *. auto.
  - pose proof (state_wf_generate s g Hwf) as H1. pose proof (generate_spec s g) as H2. cbn zeta in H2.
    destruct (generate s g). cbn [fst] in *. split; [exact H1|]. apply rest_length. tauto.
  - pose proof (state_wf_action (cs_of cl) s c Hwf) as H1. pose proof (action_spec (cs_of cl) s c) as H2. cbn zeta in H2.
    destruct (action (cs_of cl) s c). cbn [fst] in *. split; [exact H1|]. apply rest_length. tauto.
  - cbn [fst insts]. split; [exact Hwf|reflexivity].
  - destruct (hook_fires h (trading s)); [|cbn [fst]; auto].
    assert (state_wf (hook_state h s) = true) as Hwf' by (destruct h; exact Hwf).
    pose proof (state_wf_action (cs_of cl) (hook_state h s) c Hwf') as H1.
    pose proof (action_spec (cs_of cl) (hook_state h s) c) as H2. cbn zeta in H2.
    destruct (action (cs_of cl) (hook_state h s) c). cbn [fst] in *. split; [exact H1|].
    transitivity (length (insts (hook_state h s))); [apply rest_length; tauto|destruct h; reflexivity].
Qed.

Lemma mbox_clear_state : forall s e, mbox (links (clear_state s)) e = [].
Proof. intros. unfold clear_state. cbn [links]. apply mbox_clear. Qed.

Lemma model_step_static : forall s st, map inst_static (insts (fst (model_step s st))) = map inst_static (insts s).
Proof.
  intros s [o g cl ob]. unfold model_step. cbn [st_op st_g st_close]. destruct o as [ev| |c|e stt|h c].
  - pose proof (process_orders (cs_of cl) s ev g) as H. cbn zeta in H. destruct H as [H _].
    unfold process. destruct (process_trace (cs_of cl) s ev g) as [s' t]. cbn [fst] in *.
    rewrite (rest_static _ _ H). apply update_state_static.
  - pose proof (generate_spec s g) as H. cbn zeta in H. destruct (generate s g). cbn [fst] in *.
    apply rest_static. tauto.
  - pose proof (action_spec (cs_of cl) s c) as H. cbn zeta in H. destruct (action (cs_of cl) s c). cbn [fst] in *.
    apply rest_static. tauto.
  - reflexivity.
  - destruct (hook_fires h (trading s)); [|reflexivity].
    pose proof (action_spec (cs_of cl) (hook_state h s) c) as H. cbn zeta in H.
    destruct (action (cs_of cl) (hook_state h s) c). cbn [fst] in *.
    transitivity (map inst_static (insts (hook_state h s))); [apply rest_static; tauto|destruct h; reflexivity].
Qed.
