(** C19 link theorem (full): wherever the model reproduces the observation ([corr_b]; for
    CancelOrders commands up to the order of the requests), the oracle [Corr.C19.prop_b] accepts it. *)
From Coq Require Import List ZArith NArith Bool Lia Permutation.
From BV Require Import Base.Common Model.Engine Proofs.Engine Corr.EngineCase Corr.C19 Proofs.CorrEngine Proofs.OracleCommon.
Import ListNotations.
Local Open Scope N_scope.

(* ---- model-only facts ---- *)
Lemma generate_empty_insts : forall s g, gs_cancels g = [] -> gs_opens g = [] -> insts (fst (generate s g)) = insts s.
Proof. intros s [cs os cm om] Hc Ho. cbn in Hc, Ho. subst. reflexivity. Qed.

Lemma generate_empty_state : forall s g, gs_cancels g = [] -> gs_opens g = [] -> fst (generate s g) = s.
Proof. intros [tr ls is_] [cs os cm om] Hc Ho. cbn in Hc, Ho. subst. reflexivity. Qed.

Lemma process_command_parts : forall cs s c g,
  (exists tl, au_outputs (snd (process cs s (EvCommand c) g)) = OutCommanded (snd (action cs s c)) :: tl) /\
  (trading s = false \/ (gs_cancels g = [] /\ gs_opens g = []) ->
   fst (process cs s (EvCommand c) g) = fst (action cs s c)).
Proof.
  intros cs s c g. unfold process.
  pose proof (process_trace_shape cs s (EvCommand c) g) as Hsh. cbn [pre_step generation_runs] in Hsh. rewrite Hsh.
  destruct (match action_unrec (snd (action cs s c)) with [] => trading s | _ => false end) eqn:Er; cbn [fst snd].
  - split.
    + unfold audit_of. cbn [tr_action tr_update tr_algo app].
      destruct (algo_empty _); [eexists; reflexivity|]. destruct (algo_unrec _); eexists; reflexivity.
    + intros [Ht|[Hc Ho]].
      * destruct (action_unrec (snd (action cs s c))); [congruence|discriminate].
      * apply generate_empty_state; assumption.
  - split; [eexists; reflexivity|reflexivity].
Qed.

Lemma obs_matches_parts : forall p s m o,
  obs_matches p s m o = true ->
  ob_trading o = trading s /\ ob_insts o = iobs_of s /\ res_eqb p m (ob_res o) = true /\
  list_eqb (seq_eqb p xreq_eqb) (deliv_of s) (ob_deliv o) = true.
Proof.
  intros p s m [tr dl io rs] E. unfold obs_matches in E. cbn in E. bool_hyps.
  apply (list_eqb_true _ _ iobs_eqb_true) in H1. cbn. unfold iobs_of, deliv_of. auto.
Qed.

(* ---- link table, deliveries, marks ---- *)
Lemma clear_link_stat : forall l, clear_link l = link_of_stat (lstat_link l).
Proof. intros [| | |]; reflexivity. Qed.

Lemma clear_links_ext : forall ls ls',
  (forall e, lstat_of ls' e = lstat_of ls e) -> map clear_link ls' = map clear_link ls.
Proof.
  intros ls ls' H. rewrite (map_ext _ _ clear_link_stat ls'), (map_ext _ _ clear_link_stat ls).
  rewrite <- !(map_map lstat_link link_of_stat). f_equal. apply stats_ext. exact H.
Qed.

Lemma lstat_clear : forall ls e, lstat_of (map clear_link ls) e = lstat_of ls e.
Proof.
  intros. unfold lstat_of, nthN. rewrite nth_error_map. destruct (nth_error ls (N.to_nat e)) as [[| | |]|]; reflexivity.
Qed.

Lemma clear_clear : forall ls, map clear_link (map clear_link ls) = map clear_link ls.
Proof. intros. apply clear_links_ext. intros e. apply lstat_clear. Qed.

Lemma map_updN_const : forall A B (f : A -> B) (l : list A) n (a : A),
  map f (updN l n (fun _ => a)) = updN (map f l) n (fun _ => f a).
Proof.
  intros A B f l n a. unfold updN. generalize (N.to_nat n). clear n.
  induction l as [|x t IH]; intros [|k]; cbn; try reflexivity. rewrite IH. reflexivity.
Qed.

Lemma clear_link_of_stat : forall stt, clear_link (link_of_stat stt) = link_of_stat stt.
Proof. intros []; reflexivity. Qed.

Lemma Permutation_filter' : forall A (p : A -> bool) l l', Permutation l l' -> Permutation (filter p l) (filter p l').
Proof.
  induction 1; cbn.
  - constructor.
  - destruct (p x); [constructor|]; assumption.
  - destruct (p x), (p y); try apply perm_swap; apply Permutation_refl.
  - eapply Permutation_trans; eassumption.
Qed.

Lemma seq_eqb_perm : forall p a d, seq_eqb p xreq_eqb a d = true -> Permutation a d.
Proof.
  intros [|] a d H; unfold seq_eqb in H.
  - apply (perm_of_perm_eqb _ xreq_eqb xreq_eqb_true xreq_eqb_refl). exact H.
  - apply (list_eqb_true _ _ xreq_eqb_true) in H. subst. apply Permutation_refl.
Qed.

Lemma list_rel_indexed : forall A (R : A -> A -> bool) (la lb : list A) n,
  list_eqb R la lb = true ->
  length lb = length la /\
  forall e d, In (e, d) (indexed_from n lb) -> exists a, In (e, a) (indexed_from n la) /\ R a d = true.
Proof.
  induction la as [|x t IH]; intros [|y u] n H; cbn in H; try discriminate.
  - split; [reflexivity|]. intros e d [].
  - apply andb_true_iff in H. destruct H as [Hxy H]. destruct (IH u (N.succ n) H) as [Hl Hin].
    split; [cbn; congruence|]. intros e d [E|Hd].
    + inversion E; subst. exists x. split; [left; reflexivity|exact Hxy].
    + destruct (Hin e d Hd) as [a [Ha Hr]]. exists a. split; [right; exact Ha|exact Hr].
Qed.

(** deliveries observed (equal to the model's mailboxes, as lists or as multisets) = exactly the sent
    requests per link *)
Lemma delivered_from_model : forall p s1 L deliv sent_m sent_obs,
  list_eqb (seq_eqb p xreq_eqb) (deliv_of s1) deliv = true ->
  length (links s1) = length L ->
  (forall e, mbox (links s1) e = to_ex e sent_m) ->
  Permutation sent_m sent_obs ->
  delivered_ok L deliv sent_obs = true.
Proof.
  intros p s1 L deliv sent_m sent_obs Hd Hl Hmb Hp. unfold delivered_ok.
  destruct (list_rel_indexed _ _ _ _ 0 Hd) as [Hlen Hin]. fold (indexed deliv) in Hin. fold (indexed (deliv_of s1)) in Hin.
  rewrite Hlen, length_deliv, Hl, Nat.eqb_refl. cbn [andb].
  apply forallb_forall. intros [e d] Hed. destruct (Hin e d Hed) as [a [Ha Hr]]. cbn [fst snd].
  rewrite indexed_deliv in Ha. apply in_map_iff in Ha. destruct Ha as [k [E _]]. inversion E; subst.
  apply seq_eqb_perm in Hr. rewrite Hmb in Hr.
  apply (perm_eqb_of_perm _ xreq_eqb). apply Permutation_sym.
  eapply Permutation_trans; [|exact Hr]. apply Permutation_sym. unfold to_ex. apply Permutation_filter'. exact Hp.
Qed.

Lemma consistent_spec : forall R (eqb : R -> R -> bool) (ex : R -> N) ls rs (out : sendout R),
  (forall a b, eqb a b = true -> a = b) -> (forall a, eqb a a = true) ->
  Permutation (spec_sent ex ls rs) (so_sent out) -> Permutation (spec_errs ex ls rs) (so_errs out) ->
  consistent ex ls out = true.
Proof.
  intros R eqb ex ls rs out _ _ Hs He. unfold consistent. apply andb_true_iff. split; apply forallb_forall.
  - intros r Hr. apply Permutation_sym in Hs. apply (Permutation_in _ Hs) in Hr. apply spec_sent_in in Hr. apply Hr.
  - intros [r k] Hr. apply Permutation_sym in He. apply (Permutation_in _ He) in Hr. unfold spec_errs in Hr.
    apply in_map_iff in Hr. destruct Hr as [r' [E Hr']]. inversion E; subst. apply filter_In in Hr'. destruct Hr' as [_ Hn].
    cbn [fst snd]. rewrite Hn. destruct (err_of_stat (lstat_of ls (ex r))); reflexivity.
Qed.

Lemma obs_insts_id : forall l0 l1,
  map inst_static l1 = map inst_static l0 ->
  obs_insts l0 (map (fun i => (i_orders i, i_pos i, i_data i)) l1) = l1.
Proof.
  intros l0 l1. revert l0. induction l1 as [|x t IH]; intros [|y u] H; cbn in *; try discriminate; [reflexivity|].
  inversion H. unfold obs_insts in *. cbn. rewrite IH by assumption. f_equal.
  destruct x; cbn in *. congruence.
Qed.

Lemma filter_eqb_true : forall a b, filter_eqb a b = true -> a = b.
Proof.
  intros [|x|x|x] [|y|y|y] E; cbn in E; try discriminate; try reflexivity; f_equal.
  - apply (list_eqb_true _ _ N_eqb_true). exact E.
  - apply (list_eqb_true _ _ N_eqb_true). exact E.
  - apply (list_eqb_true _ _ (pair_eqb_true _ _ _ _ N_eqb_true N_eqb_true)). exact E.
Qed.

(* ---- untouched_ok from pointwise facts ---- *)
Lemma nth_error_combine : forall A B (l1 : list A) (l2 : list B) k a b,
  nth_error (combine l1 l2) k = Some (a, b) -> nth_error l1 k = Some a /\ nth_error l2 k = Some b.
Proof.
  induction l1 as [|x t IH]; intros [|y u] [|k] a b H; cbn in *; try discriminate.
  - inversion H. auto.
  - apply IH. exact H.
Qed.

Lemma untouched_from_pointwise : forall f before after,
  length before = length after ->
  (forall idx b a, nthN before idx = Some b -> nthN after idx = Some a ->
     if in_scope f idx b then rest_same b a = true else inst_same b a = true) ->
  untouched_ok f before after = true.
Proof.
  intros f before after Hl H. unfold untouched_ok. rewrite Hl, Nat.eqb_refl. cbn [andb].
  apply forallb_forall. intros [idx [b a]] Hin. apply indexed_spec in Hin. unfold nthN in Hin.
  apply nth_error_combine in Hin. destruct Hin as [Hb Ha]. specialize (H idx b a Hb Ha).
  destruct (in_scope f idx b); exact H.
Qed.

Lemma inst_same_refl : forall b, inst_same b b = true.
Proof.
  intros b. unfold inst_same. rewrite omap_eqb_refl, (option_eqb_refl _ _ pos_eqb_refl), mdata_eqb_refl. reflexivity.
Qed.

Lemma rest_same_of_rest : forall (l l' : list inst) idx b a,
  map inst_rest l' = map inst_rest l -> nthN l idx = Some b -> nthN l' idx = Some a -> rest_same b a = true.
Proof.
  intros l l' idx b a Hm Hb Ha. pose proof (rest_nth l l' idx b a Hm Ha Hb) as E. unfold inst_rest in E.
  unfold rest_same. inversion E. rewrite (option_eqb_refl _ _ pos_eqb_refl), mdata_eqb_refl. reflexivity.
Qed.

Definition prev_ok (s : state) (prev : option (ifilter * list creq)) : Prop :=
  match prev with
  | None => True
  | Some (f, sent0) =>
      exists cs sp, state_wf sp = true /\ insts s = insts (fst (action cs sp (CCancelOrders f))) /\
                    (forall r, In r sent0 -> link_open (links sp) (cr_ex r) = true)
  end.

(** scope of a cancel command, from a report that is the specification up to order *)
Lemma cancel_scope_ok : forall ls is_ f out,
  sendout_eqb true creq_eqb
    (mkSendOut (spec_sent cr_ex ls (cancel_requests f is_)) (spec_errs cr_ex ls (cancel_requests f is_))) out = true ->
  perm_eqb creq_eqb (reqs_of out) (expected_cancels f is_) = true /\
  (forall r, In r (reqs_of out) -> In r (cancel_requests f is_)) /\
  (forall r, In r (so_sent out) -> link_open ls (cr_ex r) = true).
Proof.
  intros ls is_ f out H. apply (sendout_perm _ _ creq_eqb_true creq_eqb_refl) in H. cbn [so_sent so_errs] in H.
  destruct H as [Hs He].
  assert (Permutation (reqs_of out) (cancel_requests f is_)) as Hp.
  { unfold reqs_of. eapply Permutation_trans; [|apply (spec_reqs_perm _ cr_ex ls)].
    apply Permutation_sym. apply Permutation_app; [exact Hs|apply Permutation_map; exact He]. }
  split; [|split].
  - rewrite expected_cancels_model. apply perm_eqb_of_perm. exact Hp.
  - intros r Hr. eapply Permutation_in; [exact Hp|exact Hr].
  - intros r Hr. apply Permutation_sym in Hs. apply (Permutation_in _ Hs) in Hr. apply spec_sent_in in Hr. apply Hr.
Qed.

Lemma cancel_frame_ok : forall cs s0 f is1,
  state_wf s0 = true -> is1 = insts (fst (action cs s0 (CCancelOrders f))) ->
  untouched_ok f (insts s0) is1 = true.
Proof.
  intros cs s0 f is1 Hwf ->. pose proof (action_spec cs s0 (CCancelOrders f)) as Ha. cbn zeta in Ha.
  destruct Ha as (_ & _ & _ & _ & _ & Hrest & _).
  apply untouched_from_pointwise.
  - symmetry. rewrite <- (map_length inst_rest (insts (fst (action cs s0 (CCancelOrders f))))), Hrest, map_length. reflexivity.
  - intros idx b a Hb Ha. rewrite in_scope_filter_match. destruct (filter_match f idx b) eqn:Hm.
    + eapply rest_same_of_rest; eassumption.
    + rewrite (cancel_orders_outside cs s0 f idx b Hwf Hb Hm) in Ha. inversion Ha. apply inst_same_refl.
Qed.

Lemma close_frame_ok : forall strat gen s0 f is1,
  state_wf s0 = true -> is1 = insts (fst (action (default_close strat gen) s0 (CClosePositions f))) ->
  untouched_ok f (insts s0) is1 = true.
Proof.
  intros strat gen s0 f is1 Hwf ->. pose proof (action_spec (default_close strat gen) s0 (CClosePositions f)) as Ha. cbn zeta in Ha.
  destruct Ha as (_ & _ & _ & _ & _ & Hrest & _).
  apply untouched_from_pointwise.
  - symmetry. rewrite <- (map_length inst_rest (insts (fst (action _ s0 (CClosePositions f))))), Hrest, map_length. reflexivity.
  - intros idx b a Hb Ha. rewrite in_scope_filter_match. destruct (filter_match f idx b) eqn:Hm.
    + eapply rest_same_of_rest; eassumption.
    + rewrite (close_positions_outside strat gen s0 f idx b Hwf Hb Hm) in Ha. inversion Ha. apply inst_same_refl.
Qed.

Lemma cancel_repeat_ok : forall s0 f f0 sent0 (reqs : list creq),
  prev_ok s0 (Some (f0, sent0)) -> filter_eqb f0 f = true ->
  (forall r, In r reqs -> In r (cancel_requests f (insts s0))) ->
  forallb (fun r => negb (existsb (creq_eqb r) sent0)) reqs = true.
Proof.
  intros s0 f f0 sent0 reqs (cs & sp & Hwf & Hi & Hopen) Hf Hin. apply filter_eqb_true in Hf. subst f0.
  apply forallb_forall. intros r Hr. apply negb_true_iff.
  destruct (existsb (creq_eqb r) sent0) eqn:E; [|reflexivity]. exfalso.
  apply existsb_exists in E. destruct E as [x [Hx Ex]]. apply creq_eqb_true in Ex. subst x.
  specialize (Hin r Hr). rewrite Hi in Hin. apply cancel_repeat in Hin; [|exact Hwf].
  destruct Hin as [_ Hcl]. rewrite (Hopen r Hx) in Hcl. discriminate.
Qed.

Lemma close_scope_ok : forall strat base s0 f,
  let rq := snd (default_close strat (fun i => base + i) s0 f) in
  perm_eqb oreq_eqb
    (reqs_of (mkSendOut (spec_sent or_ex (links s0) rq) (spec_errs or_ex (links s0) rq)))
    (expected_closes strat base f (insts s0)) = true.
Proof.
  intros. rewrite expected_closes_model. apply (perm_eqb_of_perm _ oreq_eqb). unfold reqs_of. cbn [so_sent so_errs].
  apply spec_reqs_perm.
Qed.


Definition Rel (s : state) (v : cview) : Prop :=
  cv_insts v = insts s /\ cv_trading v = trading s /\ prev_ok s (cv_prev v) /\
  cv_links v = map clear_link (links s).

Lemma report_audit_cancel : forall au out_m tl r,
  au_outputs au = OutCommanded (AOCancel out_m) :: tl ->
  res_eqb true (MAudit au) r = true ->
  exists bu out tl', r = RAudit bu /\ au_outputs bu = OutCommanded (AOCancel out) :: tl' /\
                     sendout_eqb true creq_eqb out_m out = true.
Proof.
  intros au out_m tl r Ho H. destruct r as [bu| | | |]; cbn in H; try discriminate.
  unfold audit_eqb in H. apply andb_true_iff in H. destruct H as [H _]. rewrite Ho in H.
  destruct (au_outputs bu) as [|b0 tl'] eqn:Eb; cbn in H; [discriminate|].
  apply andb_true_iff in H. destruct H as [H _].
  destruct b0 as [b| | | | |]; cbn in H; try discriminate.
  destruct b as [out| |]; cbn in H; try discriminate. exists bu, out, tl'. auto.
Qed.

Lemma report_action_cancel : forall out_m r,
  res_eqb true (MAction (AOCancel out_m)) r = true ->
  exists out, r = RAction (AOCancel out) /\ sendout_eqb true creq_eqb out_m out = true.
Proof.
  intros out_m r H. destruct r as [|  |b| |]; cbn in H; try discriminate.
  destruct b as [out| |]; cbn in H; try discriminate. exists out. auto.
Qed.

(** the state a command step leaves, when no generation may have run *)
Lemma maybe_generation_false : forall v g cl ob ev s0,
  cv_trading v = trading s0 ->
  maybe_generation v (mkStep (OpProcess ev) g cl ob) = false ->
  trading s0 = false \/ (gs_cancels g = [] /\ gs_opens g = []).
Proof.
  intros v g cl ob ev s0 Ht H. unfold maybe_generation in H. cbn [st_op st_g] in H. rewrite Ht in H.
  apply andb_false_iff in H. destruct H as [H|H]; [left; exact H|right].
  apply negb_false_iff in H. destruct (gs_cancels g); [|discriminate]. destruct (gs_opens g); [auto|discriminate].
Qed.


Lemma prev_ok_insts : forall a b p, insts a = insts b -> prev_ok a p -> prev_ok b p.
Proof. intros a b [[f sent0]|] H Hp; [|exact I]. cbn in *. rewrite <- H. exact Hp. Qed.

Lemma default_close_valid19 : forall strat gen s f,
  state_wf s = true -> valid_opens (insts s) (snd (default_close strat gen s f)) = true.
Proof.
  intros strat gen s f Hwf. unfold valid_opens. apply forallb_forall. intros r Hr.
  destruct (default_close_spec strat gen s f) as (_ & Hin & _). apply Hin in Hr.
  destruct Hr as (i & x & p & pr & Hn & _ & Hp & _ & ->). cbn [or_key k_inst].
  pose proof (state_wf_inst s i x Hwf Hn) as Hi. apply inst_wf_parts in Hi. destruct Hi as (_ & _ & Hpi).
  rewrite Hp in Hpi. apply N.eqb_eq in Hpi. rewrite Hpi. unfold has_inst. rewrite Hn. reflexivity.
Qed.

(** the link table after a model step, mailboxes cleared, is what the oracle tracks *)
Lemma model_step_links : forall s0 st,
  map clear_link (links (fst (model_step s0 st))) =
  match st_op st with
  | OpSetLink e stt => updN (map clear_link (links s0)) e (fun _ => link_of_stat stt)
  | _ => map clear_link (links s0)
  end.
Proof.
  intros s0 [o g cl ob]. unfold model_step. cbn [st_op st_g st_close]. destruct o as [ev| |c|e stt|h c].
  - apply clear_links_ext. intros e. unfold process.
    pose proof (process_delivery (cs_of cl) s0 ev g e) as H. cbn zeta in H.
    destruct (process_trace (cs_of cl) s0 ev g) as [s' t]. cbn [fst] in *. apply H.
  - apply clear_links_ext. pose proof (generate_spec s0 g) as H. cbn zeta in H.
    destruct (generate s0 g). cbn [fst] in *. apply H.
  - apply clear_links_ext. pose proof (action_spec (cs_of cl) s0 c) as H. cbn zeta in H.
    destruct (action (cs_of cl) s0 c). cbn [fst] in *. apply H.
  - cbn [fst links]. rewrite map_updN_const, clear_link_of_stat. reflexivity.
  - destruct (hook_fires h (trading s0)); [|reflexivity].
    apply clear_links_ext. pose proof (action_spec (cs_of cl) (hook_state h s0) c) as H. cbn zeta in H.
    destruct (action (cs_of cl) (hook_state h s0) c). cbn [fst] in *.
    intros e. destruct H as (_ & _ & _ & Hst & _). rewrite Hst. destruct h; reflexivity.
Qed.

Ltac trivial_step Hafter Ot Hl1 :=
  eexists; split; [reflexivity|split; [exact Hafter|split; [exact Ot|split; [exact I|exact Hl1]]]].

(** a cancel-orders step, whatever the public entry point: [sb] is the state the action runs on *)
Lemma cancel_step : forall p s v st sb s1 f out,
  Rel s v -> state_wf sb = true -> insts sb = insts s -> links sb = cv_links v ->
  (forall e, mbox (links sb) e = []) ->
  match st_op st with OpSetLink _ _ => False | _ => True end ->
  the_command (cv_trading v) st = Some (CCancelOrders f) ->
  obs_insts (cv_insts v) (ob_insts (st_obs st)) = insts s1 ->
  ob_trading (st_obs st) = trading s1 ->
  map clear_link (links s1) = cv_links v ->
  list_eqb (seq_eqb p xreq_eqb) (deliv_of s1) (ob_deliv (st_obs st)) = true ->
  the_report st = Some (AOCancel out) ->
  sendout_eqb true creq_eqb
    (mkSendOut (spec_sent cr_ex (links sb) (cancel_requests f (insts sb)))
               (spec_errs cr_ex (links sb) (cancel_requests f (insts sb)))) out = true ->
  (maybe_generation v st = false ->
   s1 = fst (action (cs_of (st_close st)) sb (CCancelOrders f))) ->
  exists v', oracle_step v st = (true, v') /\ Rel s1 v'.
Proof.
  intros p s v st sb s1 f out (Ri & Rt & Rp & Rl) Hwf Hib Hl Hclr Hop Hcmd Hafter Ot Hl1 Hdel Hrep Hout Hgen.
  destruct (cancel_scope_ok _ _ _ _ Hout) as (Hscope & Hin & Hopen).
  pose proof (sendout_perm _ _ creq_eqb_true creq_eqb_refl _ _ Hout) as [Hps Hpe]. cbn [so_sent so_errs] in Hps, Hpe.
  assert (Hcons : consistent cr_ex (cv_links v) out = true)
    by (rewrite <- Hl; eapply consistent_spec; [apply creq_eqb_true|apply creq_eqb_refl|exact Hps|exact Hpe]).
  assert (Hlinks' : match st_op st with OpSetLink e stt => updN (cv_links v) e (fun _ => link_of_stat stt) | _ => cv_links v end = cv_links v)
    by (destruct (st_op st); try reflexivity; destruct Hop).
  unfold oracle_step. rewrite Hcmd, Hrep, Hlinks'. rewrite Hafter, Ri, <- Hib. rewrite Hscope, Hcons. cbn [andb].
  assert (Hrepeat :
    match cv_prev v with
    | Some (f0, sent0) => if filter_eqb f0 f then forallb (fun r => negb (existsb (creq_eqb r) sent0)) (reqs_of out) else true
    | None => true
    end = true).
  { destruct (cv_prev v) as [[f0 sent0]|] eqn:Ep; [|reflexivity].
    destruct (filter_eqb f0 f) eqn:Ef; [|reflexivity].
    eapply (cancel_repeat_ok sb); [eapply prev_ok_insts; [symmetry; exact Hib|exact Rp]|exact Ef|exact Hin]. }
  rewrite Hrepeat.
  destruct (maybe_generation v st) eqn:Emg.
  - cbn [orb andb]. eexists. split; [reflexivity|]. split; [reflexivity|]. split; [exact Ot|]. split; [exact I|symmetry; exact Hl1].
  - specialize (Hgen eq_refl).
    assert (Hins : insts s1 = insts (fst (action (cs_of (st_close st)) sb (CCancelOrders f)))) by (rewrite Hgen; reflexivity).
    pose proof (action_spec (cs_of (st_close st)) sb (CCancelOrders f)) as Ha. cbn zeta in Ha.
    cbn [command_requests fst snd] in Ha. rewrite cancel_orders_output in Ha. cbn [action_cancels action_opens action_sent so_sent] in Ha.
    destruct Ha as (_ & _ & _ & Hst & Hmb & _ & _ & Hmk). rewrite <- Hgen in Hst, Hmb, Hmk.
    (* deliveries *)
    assert (Hdl : delivered_ok (cv_links v) (ob_deliv (st_obs st)) (map XCancel (so_sent out)) = true).
    { eapply (delivered_from_model p s1); [exact Hdel| | |apply Permutation_map; exact Hps].
      - rewrite <- Hl. apply stats_length. exact Hst.
      - intros e. rewrite Hmb, Hclr. reflexivity. }
    (* marks *)
    assert (Hmarks : cancel_marks_ok (insts sb) (insts s1) (so_sent out) = true).
    { unfold cancel_marks_ok. apply forallb_forall. intros r Hr.
      assert (Hrm : In r (spec_sent cr_ex (links sb) (cancel_requests f (insts sb))))
        by (eapply Permutation_in; [apply Permutation_sym; exact Hps|exact Hr]).
      pose proof (spec_sent_in _ _ _ _ _ Hrm) as [Hrq _].
      apply cancel_requests_spec in Hrq; [|exact Hwf].
      destruct Hrq as (i & x & c & o & Hn & _ & Hg & _ & ->).
      destruct (inst_wf_key i x c o (state_wf_inst sb i x Hwf Hn) Hg) as [Hi Hc].
      cbn [cancel_of_order cr_key]. rewrite Hi, Hc.
      assert (Hb : ord (insts sb) i c = Some o) by (unfold ord; rewrite Hn; exact Hg).
      rewrite Hb, (Hmk eq_refl i c). unfold marked. cbn [last_open].
      assert (Hnm : names_c i c (spec_sent cr_ex (links sb) (cancel_requests f (insts sb))) = true).
      { apply existsb_exists. exists (cancel_of_order o). split; [exact Hrm|].
        unfold key_at, cancel_of_order. cbn. rewrite Hi, Hc, !N.eqb_refl. reflexivity. }
      rewrite Hnm, Hb. cbn [mark_cancel]. apply option_eqb_refl, order_eqb_refl. }
    cbn [orb]. rewrite Hdl, Hmarks, (cancel_frame_ok (cs_of (st_close st)) sb f (insts s1) Hwf Hins). cbn [andb].
    eexists. split; [reflexivity|]. split; [reflexivity|]. split; [exact Ot|]. split; [|symmetry; exact Hl1].
    cbn [cv_prev prev_ok]. exists (cs_of (st_close st)), sb. split; [exact Hwf|]. split; [exact Hins|exact Hopen].
Qed.

Lemma default_close_key_unique : forall strat gen s f r r',
  state_wf s = true ->
  In r (snd (default_close strat gen s f)) -> In r' (snd (default_close strat gen s f)) ->
  k_inst (or_key r') = k_inst (or_key r) -> r' = r.
Proof.
  intros strat gen s f r r' Hwf Hr Hr' Hk.
  destruct (default_close_spec strat gen s f) as (_ & Hin & _).
  apply Hin in Hr. apply Hin in Hr'.
  destruct Hr as (i & x & p & pr & Hn & _ & Hp & Hpr & ->).
  destruct Hr' as (i' & x' & p' & pr' & Hn' & _ & Hp' & Hpr' & ->). cbn in Hk.
  pose proof (state_wf_inst s i x Hwf Hn) as Hi. apply inst_wf_parts in Hi. destruct Hi as (_ & _ & Hpi).
  pose proof (state_wf_inst s i' x' Hwf Hn') as Hi'. apply inst_wf_parts in Hi'. destruct Hi' as (_ & _ & Hpi').
  rewrite Hp in Hpi. rewrite Hp' in Hpi'. apply N.eqb_eq in Hpi. apply N.eqb_eq in Hpi'.
  assert (E : i' = i) by congruence. rewrite E in Hn'. rewrite Hn in Hn'. inversion Hn'; subst x'. rewrite E.
  rewrite Hp in Hp'. inversion Hp'; subst p'. rewrite Hpr in Hpr'. inversion Hpr'; subst pr'. reflexivity.
Qed.

(** a close-positions step with the default strategy, whatever the public entry point *)
Lemma close_step : forall p s v st sb s1 f strat base,
  Rel s v -> state_wf sb = true -> insts sb = insts s -> links sb = cv_links v ->
  (forall e, mbox (links sb) e = []) ->
  match st_op st with OpSetLink _ _ => False | _ => True end ->
  st_close st = CloseDefault strat base ->
  the_command (cv_trading v) st = Some (CClosePositions f) ->
  obs_insts (cv_insts v) (ob_insts (st_obs st)) = insts s1 ->
  ob_trading (st_obs st) = trading s1 ->
  map clear_link (links s1) = cv_links v ->
  list_eqb (seq_eqb p xreq_eqb) (deliv_of s1) (ob_deliv (st_obs st)) = true ->
  the_report st = Some (snd (action (default_close strat (fun i => base + i)) sb (CClosePositions f))) ->
  (maybe_generation v st = false ->
   s1 = fst (action (default_close strat (fun i => base + i)) sb (CClosePositions f))) ->
  exists v', oracle_step v st = (true, v') /\ Rel s1 v'.
Proof.
  intros p s v st sb s1 f strat base (Ri & Rt & Rp & Rl) Hwf Hib Hl Hclr Hop Hcl Hcmd Hafter Ot Hl1 Hdel Hrep Hgen.
  assert (Hlinks' : match st_op st with OpSetLink e stt => updN (cv_links v) e (fun _ => link_of_stat stt) | _ => cv_links v end = cv_links v)
    by (destruct (st_op st); try reflexivity; destruct Hop).
  set (gen := fun i => base + i) in *.
  set (rq := snd (default_close strat gen sb f)).
  unfold oracle_step. rewrite Hcmd, Hrep, Hcl, Hlinks'.
  rewrite close_positions_output. fold rq. rewrite Hafter, Ri, <- Hib.
  pose proof (close_scope_ok strat base sb f) as Hsc. cbn zeta in Hsc. fold gen rq in Hsc. rewrite Hsc.
  assert (Hc1 : consistent cr_ex (cv_links v) (mkSendOut [] []) = true) by reflexivity.
  assert (Hc2 : consistent or_ex (cv_links v) (mkSendOut (spec_sent or_ex (links sb) rq) (spec_errs or_ex (links sb) rq)) = true)
    by (rewrite <- Hl; eapply consistent_spec; [apply oreq_eqb_true|apply oreq_eqb_refl|apply Permutation_refl|apply Permutation_refl]).
  rewrite Hc1, Hc2. cbn [reqs_of so_sent so_errs map app andb].
  destruct (maybe_generation v st) eqn:Emg.
  - cbn [orb andb]. eexists. split; [reflexivity|]. split; [reflexivity|]. split; [exact Ot|]. split; [exact I|symmetry; exact Hl1].
  - specialize (Hgen eq_refl).
    assert (Hins : insts s1 = insts (fst (action (default_close strat gen) sb (CClosePositions f)))) by (rewrite Hgen; reflexivity).
    pose proof (action_spec (default_close strat gen) sb (CClosePositions f)) as Ha. cbn zeta in Ha.
    rewrite close_positions_output in Ha. fold rq in Ha. cbn [action_cancels action_opens action_sent so_sent] in Ha.
    destruct Ha as (_ & _ & _ & Hst & Hmb & _ & _ & Hmk). rewrite <- Hgen in Hst, Hmb, Hmk.
    assert (Hval : valid_opens (insts sb) (spec_sent or_ex (links sb) rq) = true).
    { pose proof (default_close_valid19 strat gen sb f Hwf) as Hv. fold rq in Hv. unfold valid_opens in *.
      rewrite forallb_forall in *. intros r Hr. apply Hv. apply spec_sent_in in Hr. apply Hr. }
    assert (Hdl : delivered_ok (cv_links v) (ob_deliv (st_obs st))
                    (map XCancel [] ++ map XOpen (spec_sent or_ex (links sb) rq)) = true).
    { eapply (delivered_from_model p s1); [exact Hdel| | |apply Permutation_refl].
      - rewrite <- Hl. apply stats_length. exact Hst.
      - intros e. rewrite Hmb, Hclr. reflexivity. }
    assert (Hmarks : open_marks_ok (insts s1) (spec_sent or_ex (links sb) rq) = true).
    { unfold open_marks_ok. apply forallb_forall. intros r Hr.
      rewrite (Hmk Hval). unfold marked.
      destruct (last_open (k_inst (or_key r)) (k_cid (or_key r)) (spec_sent or_ex (links sb) rq)) as [r'|] eqn:El.
      - apply last_open_some in El. destruct El as [Hr' Hk]. unfold key_at in Hk. apply andb_true_iff in Hk.
        destruct Hk as [Hk _]. apply N.eqb_eq in Hk.
        assert (r' = r) as ->.
        { apply (default_close_key_unique strat gen sb f r r' Hwf); [| |exact Hk].
          - apply spec_sent_in in Hr. apply Hr.
          - apply spec_sent_in in Hr'. apply Hr'. }
        apply option_eqb_refl, order_eqb_refl.
      - exfalso. apply last_open_none in El.
        assert (names_o (k_inst (or_key r)) (k_cid (or_key r)) (spec_sent or_ex (links sb) rq) = true) as X.
        { apply existsb_exists. exists r. split; [exact Hr|]. unfold key_at. rewrite !N.eqb_refl. reflexivity. }
        congruence. }
    cbn [orb]. cbn [map app] in Hdl. rewrite Hdl, Hmarks, (close_frame_ok strat gen sb f (insts s1) Hwf Hins). cbn [andb].
    eexists. split; [reflexivity|]. split; [reflexivity|]. split; [exact Ot|]. split; [exact I|symmetry; exact Hl1].
Qed.

Lemma sound_step19 : forall s v st,
  state_wf s = true -> Rel s v ->
  let s0 := clear_state s in
  obs_matches (hash_ordered (st_op st)) (fst (model_step s0 st)) (snd (model_step s0 st)) (st_obs st) = true ->
  exists v', oracle_step v st = (true, v') /\ Rel (fst (model_step s0 st)) v'.
Proof.
  intros s v [o g cl ob] Hwf HR s0 Hm. cbn [st_op st_obs] in Hm.
  pose proof (model_step_static s0 (mkStep o g cl ob)) as Hstat.
  pose proof (model_step_links s0 (mkStep o g cl ob)) as Hlk. cbn [st_op] in Hlk.
  apply obs_matches_parts in Hm. destruct Hm as (Ot & Oi & Ores & Odel).
  assert (Hafter : obs_insts (cv_insts v) (ob_insts ob) = insts (fst (model_step s0 (mkStep o g cl ob)))).
  { destruct HR as (Ri & _). rewrite Oi, Ri. apply obs_insts_id. exact Hstat. }
  assert (Rt : cv_trading v = trading s0) by (destruct HR as (_ & Rt & _); exact Rt).
  assert (Rl : links s0 = cv_links v) by (destruct HR as (_ & _ & _ & Rl); symmetry; exact Rl).
  assert (Hclr : forall e, mbox (links s0) e = []) by (apply mbox_clear_state).
  assert (Hcc : map clear_link (links s0) = cv_links v) by (rewrite <- Rl; unfold s0, clear_state; cbn [links]; apply clear_clear).
  rewrite Hcc in Hlk.
  unfold model_step in *. cbn [st_op st_g st_close] in *.
  destruct o as [ev| |c|e stt|h c].
  - (* process *)
    rewrite (surjective_pairing (process (cs_of cl) s0 ev g)) in *. cbn [fst snd] in *.
    assert (Hl1 : cv_links v = map clear_link (links (fst (process (cs_of cl) s0 ev g)))) by (symmetry; exact Hlk).
    destruct ev as [|c| | | | | | | | | |]; try (unfold oracle_step; cbn [the_command st_op]; trivial_step Hafter Ot Hl1).
    destruct c as [rs|rs|f|f]; try (unfold oracle_step; cbn [the_command st_op]; trivial_step Hafter Ot Hl1).
    + (* close positions *)
      destruct cl as [strat base|cs os]; [|unfold oracle_step; cbn [the_command st_op st_close]; trivial_step Hafter Ot Hl1].
      eapply (close_step _ s v) with (sb := s0) (strat := strat) (base := base) (f := f);
        [exact HR|exact Hwf|reflexivity|exact Rl|exact Hclr|exact I|reflexivity|reflexivity|exact Hafter|exact Ot|exact Hlk|exact Odel| |].
      * cbn [hash_ordered] in Ores. apply res_eqb_exact in Ores. unfold the_report. cbn [st_obs]. rewrite Ores. cbn [res_of].
        destruct (proj1 (process_command_parts (cs_of (CloseDefault strat base)) s0 (CClosePositions f) g)) as [tl Htl].
        rewrite Htl. reflexivity.
      * intros Emg. apply (proj2 (process_command_parts (cs_of (CloseDefault strat base)) s0 (CClosePositions f) g)).
        eapply maybe_generation_false; [exact Rt|exact Emg].
    + (* cancel orders *)
      cbn [hash_ordered] in Ores.
      destruct (proj1 (process_command_parts (cs_of cl) s0 (CCancelOrders f) g)) as [tl Htl].
      rewrite cancel_orders_output in Htl.
      destruct (report_audit_cancel _ _ _ _ Htl Ores) as (bu & out & tl' & Er & Eo & Hout).
      eapply (cancel_step _ s v) with (sb := s0) (f := f) (out := out);
        [exact HR|exact Hwf|reflexivity|exact Rl|exact Hclr|exact I|reflexivity|exact Hafter|exact Ot|exact Hlk|exact Odel| |exact Hout|].
      * unfold the_report. cbn [st_obs]. rewrite Er, Eo. reflexivity.
      * intros Emg. apply (proj2 (process_command_parts (cs_of cl) s0 (CCancelOrders f) g)).
        eapply maybe_generation_false; [exact Rt|exact Emg].
  - rewrite (surjective_pairing (generate s0 g)) in *. cbn [fst] in *.
    assert (Hl1 : cv_links v = map clear_link (links (fst (generate s0 g)))) by (symmetry; exact Hlk).
    unfold oracle_step; cbn [the_command st_op]. trivial_step Hafter Ot Hl1.
  - (* direct action *)
    rewrite (surjective_pairing (action (cs_of cl) s0 c)) in *. cbn [fst snd] in *.
    assert (Hl1 : cv_links v = map clear_link (links (fst (action (cs_of cl) s0 c)))) by (symmetry; exact Hlk).
    destruct c as [rs|rs|f|f]; try (unfold oracle_step; cbn [the_command st_op]; trivial_step Hafter Ot Hl1).
    + destruct cl as [strat base|cs os]; [|unfold oracle_step; cbn [the_command st_op st_close]; trivial_step Hafter Ot Hl1].
      eapply (close_step _ s v) with (sb := s0) (strat := strat) (base := base) (f := f);
        [exact HR|exact Hwf|reflexivity|exact Rl|exact Hclr|exact I|reflexivity|reflexivity|exact Hafter|exact Ot|exact Hlk|exact Odel| |].
      * cbn [hash_ordered] in Ores. apply res_eqb_exact in Ores. unfold the_report. cbn [st_obs]. rewrite Ores. reflexivity.
      * intros _. reflexivity.
    + cbn [hash_ordered] in Ores. rewrite cancel_orders_output in Ores.
      destruct (report_action_cancel _ _ Ores) as (out & Er & Hout).
      eapply (cancel_step _ s v) with (sb := s0) (f := f) (out := out);
        [exact HR|exact Hwf|reflexivity|exact Rl|exact Hclr|exact I|reflexivity|exact Hafter|exact Ot|exact Hlk|exact Odel| |exact Hout|].
      * unfold the_report. cbn [st_obs]. rewrite Er. reflexivity.
      * intros _. reflexivity.
  - (* environment: the link table changes *)
    cbn [fst] in *.
    unfold oracle_step; cbn [the_command st_op].
    eexists. split; [reflexivity|]. split; [exact Hafter|]. split; [exact Ot|]. split; [exact I|]. cbn [cv_links]. symmetry. exact Hlk.
  - (* strategy hook calling the trait method *)
    destruct (hook_fires h (trading s0)) eqn:Hf.
    + rewrite (surjective_pairing (action (cs_of cl) (hook_state h s0) c)) in *. cbn [fst snd] in *.
      assert (Hl1 : cv_links v = map clear_link (links (fst (action (cs_of cl) (hook_state h s0) c)))) by (symmetry; exact Hlk).
      assert (Hwfb : state_wf (hook_state h s0) = true) by (destruct h; exact Hwf).
      assert (Hib : insts (hook_state h s0) = insts s) by (destruct h; reflexivity).
      assert (Hlb : links (hook_state h s0) = cv_links v) by (destruct h; exact Rl).
      assert (Hclrb : forall e, mbox (links (hook_state h s0)) e = []) by (destruct h; exact Hclr).
      assert (Hcmd : forall c', c' = c -> the_command (cv_trading v) (mkStep (OpHook h c) g cl ob) = Some c')
        by (intros c' ->; unfold the_command; cbn [st_op]; rewrite Rt, Hf; reflexivity).
      destruct c as [rs|rs|f|f];
        try (unfold oracle_step; rewrite (Hcmd _ eq_refl); trivial_step Hafter Ot Hl1).
      * destruct cl as [strat base|cs os];
          [|unfold oracle_step; rewrite (Hcmd _ eq_refl); cbn [st_close]; trivial_step Hafter Ot Hl1].
        eapply (close_step _ s v) with (sb := hook_state h s0) (strat := strat) (base := base) (f := f);
          [exact HR|exact Hwfb|exact Hib|exact Hlb|exact Hclrb|exact I|reflexivity|exact (Hcmd _ eq_refl)|exact Hafter|exact Ot|exact Hlk|exact Odel| |].
        -- cbn [hash_ordered] in Ores. apply res_eqb_exact in Ores. unfold the_report. cbn [st_obs]. rewrite Ores. reflexivity.
        -- intros _. reflexivity.
      * cbn [hash_ordered] in Ores. rewrite cancel_orders_output in Ores.
        destruct (report_action_cancel _ _ Ores) as (out & Er & Hout).
        eapply (cancel_step _ s v) with (sb := hook_state h s0) (f := f) (out := out);
          [exact HR|exact Hwfb|exact Hib|exact Hlb|exact Hclrb|exact I|exact (Hcmd _ eq_refl)|exact Hafter|exact Ot|exact Hlk|exact Odel| |exact Hout|].
        -- unfold the_report. cbn [st_obs]. rewrite Er. reflexivity.
        -- intros _. reflexivity.
    + cbn [fst snd] in *. unfold oracle_step.
      assert (Hl1 : cv_links v = map clear_link (links s0)) by (symmetry; exact Hlk).
      assert (the_command (cv_trading v) (mkStep (OpHook h c) g cl ob) = None) as Hn
        by (unfold the_command; cbn [st_op]; rewrite Rt, Hf; reflexivity).
      rewrite Hn. trivial_step Hafter Ot Hl1.
Qed.

Lemma sound_run19 : forall steps s v,
  state_wf s = true -> Rel s v -> corr_run s steps = true -> oracle_run v steps = true.
Proof.
  induction steps as [|st rest IH]; intros s v Hwf HR Hc; [reflexivity|].
  cbn [corr_run] in Hc. fold (clear_state s) in Hc.
  pose proof (model_step_inv (clear_state s) st Hwf) as [Hwf1 _].
  pose proof (sound_step19 s v st Hwf HR) as Hstep. cbn zeta in Hstep.
  destruct (model_step (clear_state s) st) as [s1 m]. cbn [fst snd] in *.
  apply andb_true_iff in Hc. destruct Hc as [Hm Hc].
  destruct (Hstep Hm) as (v' & Ho & HR').
  cbn [oracle_run]. rewrite Ho. cbn [andb]. apply (IH s1 v' Hwf1 HR' Hc).
Qed.

(** Oracle no stricter than the model: full statement *)
Theorem oracle_sound_C19 : forall c, valid_case c = true -> corr_b c = true -> prop_b c = true.
Proof.
  intros c Hv Hc. unfold valid_case in Hv. apply andb_true_iff in Hv. destruct Hv as [Hwf _].
  apply andb_true_iff in Hwf. destruct Hwf as [Hwf _].
  unfold prop_b. apply (sound_run19 (c_steps c) (c_init c)); [exact Hwf| |exact Hc].
  split; [reflexivity|]. split; [reflexivity|]. split; [exact I|reflexivity].
Qed.
