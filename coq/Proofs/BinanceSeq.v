(** Lemmas about Model/BinanceSeq.v *)
From BV Require Import Base.Common Model.Book Proofs.Book Model.BinanceSeq.
From Coq Require Import ZifyBool.

(* ------------------------------------------------------------------------------------------ *)
(** * absolute-quantity writes: the last mention of a price wins *)

Lemma spec_upsert_last_write l : forall m p,
  spec_upsert m l p = match last_write l p with Some w => w | None => m p end.
Proof.
  unfold spec_upsert. induction l as [|[q a] tl IH]; intros m p; cbn [fold_left last_write]; [reflexivity|].
  rewrite IH. destruct (last_write tl p) as [w|]; [reflexivity|].
  unfold spec_upsert_single. cbn [fst snd]. destruct (Z.eqb p q); reflexivity.
Qed.

Lemma last_write_app l1 l2 p :
  last_write (l1 ++ l2) p = match last_write l2 p with Some w => Some w | None => last_write l1 p end.
Proof.
  induction l1 as [|[q a] tl IH]; cbn [app last_write].
  - destruct (last_write l2 p); reflexivity.
  - rewrite IH. destruct (last_write l2 p); reflexivity.
Qed.

(** key lemma: re-applying a list of absolute-quantity writes that the map already contains
    changes nothing *)
Lemma spec_upsert_idem l m p : spec_upsert (spec_upsert m l) l p = spec_upsert m l p.
Proof.
  rewrite (spec_upsert_last_write l (spec_upsert m l)). rewrite (spec_upsert_last_write l m).
  destruct (last_write l p); reflexivity.
Qed.

Lemma spec_upsert_app m l1 l2 : spec_upsert m (l1 ++ l2) = spec_upsert (spec_upsert m l1) l2.
Proof. unfold spec_upsert. apply fold_left_app. Qed.

(** two write lists that say the same about every price act the same on every map *)
Lemma spec_upsert_lw_ext l l' m m' p :
  (forall q, last_write l q = last_write l' q) -> (forall q, m q = m' q) ->
  spec_upsert m l p = spec_upsert m' l' p.
Proof. intros Hl Hm. rewrite !spec_upsert_last_write, Hl, Hm. reflexivity. Qed.

(** the (stable) sort performed by [OrderBook::new] does not change what the list says *)
Lemma last_write_insert_sorted s lv l p :
  last_write (insert_sorted s lv l) p = last_write (lv :: l) p.
Proof.
  destruct lv as [p0 a0]. induction l as [|[q a] tl IH]; [reflexivity|].
  cbn [insert_sorted fst]. destruct (before s q p0) eqn:Hb; [|reflexivity].
  change (last_write ((q, a) :: insert_sorted s (p0, a0) tl) p)
    with (match last_write (insert_sorted s (p0, a0) tl) p with
          | Some w => Some w
          | None => if Z.eqb p q then Some (if Z.eqb a 0 then None else Some a) else None end).
  rewrite IH. cbn [last_write]. destruct (last_write tl p); [reflexivity|].
  destruct (Z.eqb_spec p p0) as [E1|_]; destruct (Z.eqb_spec p q) as [E2|_]; try reflexivity.
  subst p0. subst q. rewrite before_irrefl in Hb. discriminate.
Qed.

Lemma last_write_sort_levels s l p : last_write (sort_levels s l) p = last_write l p.
Proof.
  induction l as [|[q a] tl IH]; [reflexivity|].
  cbn [sort_levels fold_right]. fold (sort_levels s tl).
  rewrite last_write_insert_sorted. cbn [last_write]. rewrite IH. reflexivity.
Qed.

Lemma last_write_net l p : last_write (net l) p = last_write l p.
Proof.
  induction l as [|[q a] tl IH]; [reflexivity|].
  cbn [net]. destruct (last_write tl q) eqn:Hq.
  - rewrite IH. cbn [last_write]. destruct (last_write tl p) eqn:Hp; [reflexivity|].
    destruct (Z.eqb_spec p q) as [E|_]; [subst p; congruence|reflexivity].
  - cbn [last_write]. rewrite IH. reflexivity.
Qed.

(* ------------------------------------------------------------------------------------------ *)
(** * the exchange *)

Section Exchange.
  Variable delta : N -> list level * list level.
  Notation cat := (cat delta).
  Notation payload := (payload delta).
  Notation B := (B delta).

  Lemma cat_app sd a : forall lo b, cat sd lo (a + b) = cat sd lo a ++ cat sd (lo + N.of_nat a) b.
  Proof.
    induction a as [|a IH]; intros lo b.
    - cbn [plus cat app]. f_equal. lia.
    - cbn [plus cat]. rewrite IH, <- app_assoc. do 3 f_equal. lia.
  Qed.

  Lemma cat_nil sd len : forall lo,
    (forall n, (lo <= n)%N -> (n < lo + N.of_nat len)%N -> delta n = ([], [])) -> cat sd lo len = [].
  Proof.
    induction len as [|len IH]; intros lo H; [reflexivity|].
    cbn [cat]. rewrite IH by (intros n H1 H2; apply H; lia).
    unfold dside. rewrite (H lo) by lia. destruct sd; reflexivity.
  Qed.

  Lemma payload_split sd U k u :
    (U <= k + 1)%N -> (k <= u)%N -> payload sd U u = payload sd U k ++ payload sd (k + 1) u.
  Proof.
    intros H1 H2. unfold BinanceSeq.payload.
    replace (N.to_nat (u + 1 - U)) with (N.to_nat (k + 1 - U) + N.to_nat (u + 1 - (k + 1)))%nat by lia.
    rewrite cat_app. do 2 f_equal. lia.
  Qed.

  Lemma B_step sd k u : (k <= u)%N -> B sd u = spec_upsert (B sd k) (payload sd (k + 1) u).
  Proof.
    intros H. unfold BinanceSeq.B. rewrite (payload_split sd 0 k u) by lia. apply spec_upsert_app.
  Qed.

  (** nothing changes on ids without changes *)
  Lemma B_const sd a b :
    (a <= b)%N -> (forall n, (a < n)%N -> (n <= b)%N -> delta n = ([], [])) -> B sd b = B sd a.
  Proof.
    intros H1 H2. rewrite (B_step sd a b H1). unfold BinanceSeq.payload.
    rewrite cat_nil; [reflexivity|]. intros n H3 H4. apply H2; lia.
  Qed.

  (** applying the changes of ids U..u to the book as of id k, where U..u overlaps or abuts k
      (U <= k+1) and reaches at least k, gives the book as of id u: the part U..k is already
      contained *)
  Lemma overlap sd U k u p :
    (U <= k + 1)%N -> (k <= u)%N -> spec_upsert (B sd k) (payload sd U u) p = B sd u p.
  Proof.
    intros H1 H2. rewrite (payload_split sd U k u H1 H2), spec_upsert_app, (B_step sd k u H2).
    apply spec_upsert_ext. intros q.
    assert (E : B sd k = spec_upsert (spec_upsert pempty (cat sd 0 (N.to_nat U))) (payload sd U k)).
    { unfold BinanceSeq.B, BinanceSeq.payload.
      replace (N.to_nat (k + 1 - 0)) with (N.to_nat U + N.to_nat (k + 1 - U))%nat by lia.
      rewrite cat_app, spec_upsert_app. do 2 f_equal. lia. }
    rewrite E. apply spec_upsert_idem.
  Qed.

  (* ---------------------------------------------------------------------------------------- *)
  (** * one admitted genuine message moves the local book from B(k) to B(u) *)

  (** the content part of [book_is] (the reported sequence aside) *)
  Definition content (b : book) (n : N) : Prop :=
    book_inv b /\
    (forall p, lookup (bids b) p = B Bid n p) /\ (forall p, lookup (asks b) p = B Ask n p).

  Lemma book_is_content b n : book_is delta b n -> content b n.
  Proof. intros (_ & H). exact H. Qed.

  Lemma apply_genuine v m b k :
    genuine delta v m -> content b k -> (m_U m <= k + 1)%N -> (k <= m_u m)%N ->
    book_is delta (update b (event_of v m)) (m_u m).
  Proof.
    intros (HUu & Hb & Ha & _) (Hinv & Hbids & Hasks) H1 H2.
    pose proof Hinv as Hinv'. apply book_inv_SS in Hinv' as [SB SA].
    unfold book_is. split; [reflexivity|]. split.
    { apply update_inv; [reflexivity|exact Hinv]. }
    unfold event_of. cbn [update bids asks]. split; intros p.
    - rewrite lookup_upsert by exact SB.
      rewrite <- (overlap Bid (m_U m) k (m_u m) p H1 H2).
      apply spec_upsert_lw_ext; [|exact Hbids].
      intros q. rewrite last_write_sort_levels. apply Hb.
    - rewrite lookup_upsert by exact SA.
      rewrite <- (overlap Ask (m_U m) k (m_u m) p H1 H2).
      apply spec_upsert_lw_ext; [|exact Hasks].
      intros q. rewrite last_write_sort_levels. apply Ha.
  Qed.

  Lemma content_ext b k k' :
    content b k -> B Bid k' = B Bid k -> B Ask k' = B Ask k -> content b k'.
  Proof.
    intros (Hi & Hb & Ha) Eb Ea. unfold content. rewrite Eb, Ea. repeat split; try assumption; apply Hi.
  Qed.
End Exchange.

(* ------------------------------------------------------------------------------------------ *)
(** * the sequencer *)

(** every outcome of [validate_sequence], with the comparisons that led to it *)
Lemma validate_cases v s m :
  (is_stale v s m = true /\ validate_sequence v s m = (s, VDrop)) \/
  (is_stale v s m = false /\ validate_sequence v s m = (s, VErr (seq_error s m)) /\
     (if is_first_update s then first_ok v s m else next_ok v s m) = false) \/
  (is_stale v s m = false /\ validate_sequence v s m = (advance v s m, VOk) /\
     (if is_first_update s then first_ok v s m else next_ok v s m) = true).
Proof.
  unfold validate_sequence. destruct (is_stale v s m); [left; split; reflexivity|right].
  destruct (is_first_update s).
  - destruct (first_ok v s m); [right|left]; repeat split; reflexivity.
  - destruct (next_ok v s m); [right|left]; repeat split; reflexivity.
Qed.

Lemma advance_last v s m : sq_last (advance v s m) = m_u m.
Proof. destruct v; reflexivity. Qed.
Lemma advance_ups v s m : sq_ups (advance v s m) = (sq_ups s + 1)%N.
Proof. destruct v; reflexivity. Qed.

Lemma step1_cases v st m :
  (is_stale v (i_seq st) m = true /\ step1 v st m = (st, VDrop)) \/
  (is_stale v (i_seq st) m = false /\ step1 v st m = (st, VErr (seq_error (i_seq st) m)) /\
     (if is_first_update (i_seq st) then first_ok v (i_seq st) m else next_ok v (i_seq st) m) = false) \/
  (is_stale v (i_seq st) m = false /\
   step1 v st m = (mkIst (advance v (i_seq st) m) (update (i_book st) (event_of v m)), VOk) /\
     (if is_first_update (i_seq st) then first_ok v (i_seq st) m else next_ok v (i_seq st) m) = true).
Proof.
  destruct st as [s b]. unfold step1. cbn [i_seq i_book].
  destruct (validate_cases v s m) as [[H1 H2]|[[H1 [H2 H3]]|[H1 [H2 H3]]]]; rewrite H2.
  - left. split; [exact H1|reflexivity].
  - right; left. repeat split; assumption.
  - right; right. repeat split; assumption.
Qed.

(** classification of one delivered message: Applied / Dropped / InvalidSequence, with the
    sequencer state and the book unchanged on the last two, and every error terminal *)
Lemma step1_classified v st m :
  match step1 v st m with
  | (st', VDrop) => st' = st
  | (st', VErr e) => st' = st /\ e = InvalidSequence (sq_last (i_seq st)) (m_U m) /\ is_terminal e = true
  | (st', VOk) => i_seq st' = advance v (i_seq st) m /\ i_book st' = update (i_book st) (event_of v m) /\
                  sq_last (i_seq st') = m_u m /\ bseq (i_book st') = m_u m /\
                  sq_ups (i_seq st') = (sq_ups (i_seq st) + 1)%N
  end.
Proof.
  destruct (step1_cases v st m) as [[_ H]|[[_ [H _]]|[_ [H _]]]]; rewrite H.
  - reflexivity.
  - repeat split.
  - cbn [i_seq i_book]. rewrite advance_last, advance_ups. repeat split.
Qed.

Lemma run1_app v : forall a b st,
  run1 v st (a ++ b) =
  (fst (run1 v (fst (run1 v st a)) b), snd (run1 v st a) ++ snd (run1 v (fst (run1 v st a)) b)).
Proof.
  induction a as [|m a IH]; intros b st; cbn [app run1].
  - cbn [fst snd app]. destruct (run1 v st b); reflexivity.
  - destruct (step1 v st m) as [st' r]. rewrite IH.
    destruct (run1 v st' a) as [st'' rs]. cbn [fst snd app]. reflexivity.
Qed.

Lemma run1_cons v st m ms :
  run1 v st (m :: ms) =
  (fst (run1 v (fst (step1 v st m)) ms), snd (step1 v st m) :: snd (run1 v (fst (step1 v st m)) ms)).
Proof.
  cbn [run1]. destruct (step1 v st m) as [st' r]. cbn [fst snd]. destruct (run1 v st' ms). reflexivity.
Qed.

(* ------------------------------------------------------------------------------------------ *)
(** * main invariant: the local book is the exchange's book as of the sequencer's id *)

Section Invariant.
  Variable delta : N -> list level * list level.

  Definition Inv (st : ist) : Prop := book_is delta (i_book st) (sq_last (i_seq st)).

  Lemma step1_inv v st m : genuine delta v m -> Inv st -> Inv (fst (step1 v st m)).
  Proof.
    intros Hg Hinv.
    destruct (step1_cases v st m) as [[_ H]|[[_ [H _]]|[Hst [H Hok]]]]; rewrite H; cbn [fst]; try exact Hinv.
    unfold Inv. cbn [i_seq i_book]. rewrite advance_last.
    pose proof Hg as (HUu & _ & _ & Hv).
    unfold Inv in Hinv. set (s := i_seq st) in *. set (b := i_book st) in *.
    destruct v; cbn [is_stale first_ok next_ok] in Hst, Hok.
    - (* spot *)
      apply (apply_genuine delta Spot m b (sq_last s) Hg (book_is_content delta _ _ Hinv)).
      + destruct (is_first_update s); lia.
      + lia.
    - (* futures *)
      destruct (is_first_update s).
      + apply (apply_genuine delta Fut m b (sq_last s) Hg (book_is_content delta _ _ Hinv)); lia.
      + destruct Hv as [Hpu Hgap].
        assert (Epu : m_pu m = sq_last s) by lia.
        assert (Hc : content delta b (m_U m - 1)).
        { apply (content_ext delta b (sq_last s)); [apply book_is_content; exact Hinv| |];
            apply B_const; try lia; intros n Hn1 Hn2; apply Hgap; lia. }
        apply (apply_genuine delta Fut m b (m_U m - 1) Hg Hc); lia.
  Qed.
End Invariant.

Section Run.
  Variable delta : N -> list level * list level.

  (** after every delivered message (any list of genuine messages: any order, multiplicity,
      gaps) the local book is the exchange's book as of the id the sequencer holds, which is
      also the sequence the book reports *)
  Lemma run1_inv v : forall ms st,
    Forall (genuine delta v) ms -> Inv delta st ->
    forall k, Inv delta (fst (run1 v st (firstn k ms))).
  Proof.
    induction ms as [|m ms IH]; intros st Hg Hinv k.
    - rewrite firstn_nil. exact Hinv.
    - destruct k as [|k]; [exact Hinv|].
      cbn [firstn]. rewrite run1_cons. cbn [fst].
      inversion Hg as [|? ? Hm Hms]; subst.
      apply IH; [exact Hms|]. apply step1_inv; assumption.
  Qed.

  (** the state right after the REST snapshot, when the snapshot is the exchange's book at l *)
  Lemma init_inv l bs as_ :
    nodup_prices bs = true -> nodup_prices as_ = true ->
    (forall p, lookup bs p = B delta Bid l p) -> (forall p, lookup as_ p = B delta Ask l p) ->
    Inv delta (ist_init l bs as_).
  Proof.
    intros Nb Na Hb Ha. unfold Inv, ist_init, book_is. cbn [i_seq i_book seq_new sq_last update bseq bids asks].
    split; [reflexivity|]. split.
    { apply book_inv_SS. cbn [bids asks]. split; apply sort_levels_SS; assumption. }
    split; intros p; rewrite lookup_sort_levels; [apply Hb|apply Ha].
  Qed.
End Run.

(* ------------------------------------------------------------------------------------------ *)
(** * the admitted messages form an unbroken chain under the venue's rule *)

Lemma first_ok_rule v s m : first_ok v s m = true -> first_rule v (sq_last s) m.
Proof. destruct v; cbn [first_ok first_rule]; lia. Qed.
Lemma next_ok_rule v s m : next_ok v s m = true -> next_rule v (sq_last s) m.
Proof. destruct v; cbn [next_ok next_rule]; lia. Qed.
Lemma first_rule_ok v s m : first_rule v (sq_last s) m -> first_ok v s m = true.
Proof. destruct v; cbn [first_ok first_rule]; lia. Qed.
Lemma next_rule_ok v s m : next_rule v (sq_last s) m -> next_ok v s m = true.
Proof. destruct v; cbn [next_ok next_rule]; lia. Qed.

Lemma is_first_update_false s : sq_ups s <> 0%N -> is_first_update s = false.
Proof. unfold is_first_update. lia. Qed.
Lemma is_first_update_true s : sq_ups s = 0%N -> is_first_update s = true.
Proof. unfold is_first_update. lia. Qed.

Lemma admitted_chain_next v : forall ms st,
  sq_ups (i_seq st) <> 0%N ->
  chain_from v (sq_last (i_seq st)) (admitted ms (snd (run1 v st ms))).
Proof.
  induction ms as [|m ms IH]; intros st Hups; [exact I|].
  rewrite run1_cons. cbn [snd].
  destruct (step1_cases v st m) as [[_ H]|[[_ [H _]]|[_ [H Hok]]]]; rewrite H; cbn [fst snd admitted].
  - apply IH; exact Hups.
  - apply IH; exact Hups.
  - rewrite (is_first_update_false _ Hups) in Hok. split; [apply next_ok_rule; exact Hok|].
    specialize (IH (mkIst (advance v (i_seq st) m) (update (i_book st) (event_of v m)))).
    cbn [i_seq] in IH. rewrite advance_last, advance_ups in IH. apply IH. lia.
Qed.

Lemma admitted_chain_first v : forall ms st,
  sq_ups (i_seq st) = 0%N ->
  chain_ok v (sq_last (i_seq st)) (admitted ms (snd (run1 v st ms))).
Proof.
  induction ms as [|m ms IH]; intros st Hups; [exact I|].
  rewrite run1_cons. cbn [snd].
  destruct (step1_cases v st m) as [[_ H]|[[_ [H _]]|[_ [H Hok]]]]; rewrite H; cbn [fst snd admitted].
  - apply IH; exact Hups.
  - apply IH; exact Hups.
  - rewrite (is_first_update_true _ Hups) in Hok. split; [apply first_ok_rule; exact Hok|].
    pose proof (admitted_chain_next v ms (mkIst (advance v (i_seq st) m) (update (i_book st) (event_of v m)))) as Hn.
    cbn [i_seq] in Hn. rewrite advance_last, advance_ups in Hn. apply Hn. lia.
Qed.

(* ------------------------------------------------------------------------------------------ *)
(** * no false alarm *)

Lemma older_dropped v l : forall old st,
  Forall (older v l) old -> (l <= sq_last (i_seq st))%N ->
  run1 v st old = (st, repeat VDrop (length old)).
Proof.
  induction old as [|m old IH]; intros st Ho Hl; [reflexivity|].
  inversion Ho as [|? ? Hm Hold]; subst.
  rewrite run1_cons.
  assert (Hst : is_stale v (i_seq st) m = true).
  { destruct v; cbn [is_stale older] in *; lia. }
  destruct (step1_cases v st m) as [[_ H]|[[Hs _]|[Hs _]]]; try congruence.
  rewrite H. cbn [fst snd]. rewrite (IH st Hold Hl). reflexivity.
Qed.

Lemma chain_applied_next v : forall ms st,
  sq_ups (i_seq st) <> 0%N -> Forall (ids_wf v) ms -> chain_from v (sq_last (i_seq st)) ms ->
  snd (run1 v st ms) = repeat VOk (length ms).
Proof.
  induction ms as [|m ms IH]; intros st Hups Hwf Hch; [reflexivity|].
  inversion Hwf as [|? ? [HUu Hpu] Hwf']; subst. destruct Hch as [Hn Hch].
  rewrite run1_cons. cbn [snd length repeat].
  assert (Hst : is_stale v (i_seq st) m = false).
  { destruct v; cbn [is_stale next_rule] in *; lia. }
  assert (Hok : next_ok v (i_seq st) m = true) by (apply next_rule_ok; exact Hn).
  destruct (step1_cases v st m) as [[Hs _]|[[_ [_ Hf]]|[_ [H _]]]]; try congruence.
  { rewrite (is_first_update_false _ Hups) in Hf. congruence. }
  rewrite H. cbn [fst snd]. f_equal. apply IH; cbn [i_seq]; rewrite ?advance_last, ?advance_ups; [lia|exact Hwf'|exact Hch].
Qed.

Lemma chain_applied_first v : forall ms st,
  sq_ups (i_seq st) = 0%N -> Forall (ids_wf v) ms -> chain_ok v (sq_last (i_seq st)) ms ->
  snd (run1 v st ms) = repeat VOk (length ms).
Proof.
  intros [|m ms] st Hups Hwf Hch; [reflexivity|].
  inversion Hwf as [|? ? [HUu Hpu] Hwf']; subst. destruct Hch as [Hf Hch].
  rewrite run1_cons. cbn [snd length repeat].
  assert (Hst : is_stale v (i_seq st) m = false).
  { destruct v; cbn [is_stale first_rule] in *; lia. }
  assert (Hok : first_ok v (i_seq st) m = true) by (apply first_rule_ok; exact Hf).
  destruct (step1_cases v st m) as [[Hs _]|[[_ [_ Hx]]|[_ [H _]]]]; try congruence.
  { rewrite (is_first_update_true _ Hups) in Hx. congruence. }
  rewrite H. cbn [fst snd]. f_equal.
  apply chain_applied_next; cbn [i_seq]; rewrite ?advance_last, ?advance_ups; [lia|exact Hwf'|exact Hch].
Qed.

(** strictly older messages, then the gap-free in-order stream: the older ones are dropped,
    every message of the stream is applied, nothing errs *)
Lemma no_false_alarm_lemma v l bk old suffix :
  Forall (older v l) old -> Forall (ids_wf v) suffix -> chain_ok v l suffix ->
  snd (run1 v (mkIst (seq_new l) bk) (old ++ suffix)) =
  repeat VDrop (length old) ++ repeat VOk (length suffix).
Proof.
  intros Ho Hwf Hch. rewrite run1_app. cbn [snd].
  rewrite (older_dropped v l old _ Ho) by (cbn [i_seq seq_new sq_last]; lia).
  cbn [fst snd]. f_equal. apply chain_applied_first; [reflexivity|exact Hwf|exact Hch].
Qed.

(* ------------------------------------------------------------------------------------------ *)
(** * errors: every sequence error is terminal and ends the connection's stream *)

Lemma validate_error_terminal v s m e :
  snd (validate_sequence v s m) = VErr e ->
  e = InvalidSequence (sq_last s) (m_U m) /\ is_terminal e = true /\ fst (validate_sequence v s m) = s.
Proof.
  destruct (validate_cases v s m) as [[_ H]|[[_ [H _]]|[_ [H _]]]]; rewrite H; cbn [fst snd]; intros E;
    try discriminate.
  injection E as <-. repeat split.
Qed.

Lemma tfind_tset sid x t sid' :
  tfind sid' (tset sid x t) =
  if N.eqb sid' sid then match tfind sid t with Some _ => Some x | None => None end else tfind sid' t.
Proof.
  induction t as [|[k y] tl IH]; cbn [tset tfind].
  - destruct (N.eqb sid' sid); reflexivity.
  - destruct (N.eqb_spec sid k) as [E|E].
    + subst k. cbn [tfind]. destruct (N.eqb_spec sid' sid); reflexivity.
    + cbn [tfind]. rewrite IH. destruct (N.eqb_spec sid' k) as [E'|E'].
      * subst k. destruct (N.eqb_spec sid' sid); [congruence|reflexivity].
      * reflexivity.
Qed.

Lemma bfind_bapply key e bs key' :
  bfind key' (bapply key e bs) =
  if N.eqb key' key then option_map (fun b => update b e) (bfind key bs) else bfind key' bs.
Proof.
  induction bs as [|[k b] tl IH]; cbn [bapply bfind].
  - destruct (N.eqb key' key); reflexivity.
  - destruct (N.eqb_spec key k) as [E|E].
    + subst k. cbn [bfind]. destruct (N.eqb_spec key' key); reflexivity.
    + cbn [bfind]. rewrite IH. destruct (N.eqb_spec key' k) as [E'|E'].
      * subst k. destruct (N.eqb_spec key' key); [congruence|reflexivity].
      * reflexivity.
Qed.

(** an error leaving the transformer is either "unidentifiable subscription" (not terminal, no
    instrument touched) or the routed sequencer's InvalidSequence (terminal, state unchanged) *)
Lemma transform_error v t sid m e :
  snd (transform v t sid m) = TErr e ->
  (tfind sid t = None /\ e = SocketUnidentifiable sid /\ is_terminal e = false /\ fst (transform v t sid m) = t) \/
  (exists mt, tfind sid t = Some mt /\ e = InvalidSequence (sq_last (mt_seq mt)) (m_U m) /\
              is_terminal e = true /\ forall sid', tfind sid' (fst (transform v t sid m)) = tfind sid' t).
Proof.
  unfold transform. destruct (tfind sid t) as [mt|] eqn:Hf.
  - destruct (validate_cases v (mt_seq mt) m) as [[_ H]|[[_ [H _]]|[_ [H _]]]]; rewrite H; cbn [fst snd];
      intros E; try discriminate.
    injection E as <-. right. exists mt. repeat split.
    intros sid'. rewrite tfind_tset, Hf. destruct (N.eqb_spec sid' sid) as [->|_]; [|reflexivity].
    rewrite Hf. destruct mt; reflexivity.
  - cbn [fst snd]. intros E. injection E as <-. left. repeat split.
Qed.

(** an event leaving the transformer carries the key of the instrument subscribed under the
    message's subscription id, the message's last update id as sequence, and its levels *)
Lemma transform_event v t sid m key te ev :
  snd (transform v t sid m) = TEvent key te ev ->
  exists mt, tfind sid t = Some mt /\ key = mt_key mt /\ te = m_E m /\ ev = event_of v m /\
             event_seq ev = m_u m /\
             snd (validate_sequence v (mt_seq mt) m) = VOk.
Proof.
  unfold transform. destruct (tfind sid t) as [mt|] eqn:Hf; [|cbn [snd]; discriminate].
  destruct (validate_sequence v (mt_seq mt) m) as [s' r] eqn:Hv. destruct r; cbn [snd]; intros E; try discriminate.
  injection E as <- <- <-. exists mt. repeat split. rewrite Hv. reflexivity.
Qed.

(** [with_termination_on_error]: what reaches the consumer is the prefix before the first
    terminal error; nothing after it is delivered on this connection *)
Lemma with_termination_spec os :
  exists k, with_termination os = firstn k os /\
            Forall (fun o => tout_terminal o = false) (firstn k os) /\
            ((k < length os)%nat -> exists o, nth_error os k = Some o /\ tout_terminal o = true) /\
            ((length os <= k)%nat -> k = length os).
Proof.
  induction os as [|o tl (k & E & Hall & Hnext & Hend)].
  - exists 0%nat. cbn [with_termination firstn length]. split; [reflexivity|]. split; [constructor|].
    split; intros H; [inversion H|reflexivity].
  - cbn [with_termination]. destruct (tout_terminal o) eqn:Ho.
    + exists 0%nat. cbn [firstn length nth_error]. split; [reflexivity|]. split; [constructor|].
      split; intros H; [|inversion H].
      exists o. split; [reflexivity|exact Ho].
    + exists (S k). cbn [firstn length nth_error]. rewrite E. split; [reflexivity|].
      split; [constructor; assumption|]. split; intros Hk.
      * apply Hnext. apply Nat.succ_lt_mono. exact Hk.
      * f_equal. apply Hend. apply Nat.succ_le_mono. exact Hk.
Qed.

(* ------------------------------------------------------------------------------------------ *)
(** * routing: on one connection every instrument evolves as if it were alone *)

Definition keys_distinct (t : list (N * meta)) : Prop :=
  forall s1 s2 m1 m2, tfind s1 t = Some m1 -> tfind s2 t = Some m2 -> mt_key m1 = mt_key m2 -> s1 = s2.

Lemma keys_distinct_tset t sid mt s' :
  tfind sid t = Some mt -> keys_distinct t -> keys_distinct (tset sid (mkMeta (mt_key mt) s') t).
Proof.
  intros Hf Hd s1 s2 m1 m2. rewrite !tfind_tset, Hf.
  assert (K : forall s x, (if N.eqb s sid then Some (mkMeta (mt_key mt) s') else tfind s t) = Some x ->
                          exists x0, tfind s t = Some x0 /\ mt_key x0 = mt_key x).
  { intros s x. destruct (N.eqb_spec s sid) as [->|_]; intros E.
    - injection E as <-. exists mt. split; [exact Hf|reflexivity].
    - exists x. split; [exact E|reflexivity]. }
  intros E1 E2 Ek. apply K in E1 as (x1 & F1 & K1). apply K in E2 as (x2 & F2 & K2).
  apply (Hd s1 s2 x1 x2 F1 F2). congruence.
Qed.

Lemma trun_cons v st d ds : fst (trun v st (d :: ds)) = fst (trun v (fst (tstep v st d)) ds).
Proof.
  cbn [trun]. destruct (tstep v st d) as [st' o]. cbn [fst]. destruct (trun v st' ds). reflexivity.
Qed.

Lemma tstep_routing v t bs sid mt b sid' m :
  keys_distinct t -> tfind sid t = Some mt -> bfind (mt_key mt) bs = Some b ->
  let st' := fst (tstep v (t, bs) (sid', m)) in
  let st1 := fst (step1 v (mkIst (mt_seq mt) b) m) in
  keys_distinct (fst st') /\
  if N.eqb sid' sid
  then tfind sid (fst st') = Some (mkMeta (mt_key mt) (i_seq st1)) /\
       bfind (mt_key mt) (snd st') = Some (i_book st1)
  else tfind sid (fst st') = Some mt /\ bfind (mt_key mt) (snd st') = Some b.
Proof.
  intros Hd Hf Hb. unfold tstep, transform, step1. cbn [fst snd i_seq i_book].
  destruct (N.eqb_spec sid' sid) as [E|E].
  - subst sid'. rewrite Hf.
    destruct (validate_sequence v (mt_seq mt) m) as [s' r]. cbn [fst snd i_seq i_book].
    assert (Hd' : keys_distinct (tset sid (mkMeta (mt_key mt) s') t)) by (apply keys_distinct_tset; assumption).
    assert (Hf' : tfind sid (tset sid (mkMeta (mt_key mt) s') t) = Some (mkMeta (mt_key mt) s')).
    { rewrite tfind_tset, N.eqb_refl, Hf. reflexivity. }
    destruct r; cbn [fst snd consume i_seq i_book]; (split; [exact Hd'|]); (split; [exact Hf'|]);
      try exact Hb.
    rewrite bfind_bapply, N.eqb_refl, Hb. reflexivity.
  - destruct (tfind sid' t) as [mt'|] eqn:Hf2.
    + destruct (validate_sequence v (mt_seq mt') m) as [s' r]. cbn [fst snd].
      assert (Hd' : keys_distinct (tset sid' (mkMeta (mt_key mt') s') t)) by (apply keys_distinct_tset; assumption).
      assert (Hf' : tfind sid (tset sid' (mkMeta (mt_key mt') s') t) = Some mt).
      { rewrite tfind_tset. destruct (N.eqb_spec sid sid'); [congruence|exact Hf]. }
      assert (Hk : mt_key mt' <> mt_key mt).
      { intros Ek. apply E. exact (Hd sid' sid mt' mt Hf2 Hf Ek). }
      destruct r; cbn [fst snd consume]; (split; [exact Hd'|]); (split; [exact Hf'|]); try exact Hb.
      rewrite bfind_bapply. destruct (N.eqb_spec (mt_key mt) (mt_key mt')); [congruence|exact Hb].
    + cbn [fst snd consume]. split; [exact Hd|]. split; [exact Hf|exact Hb].
Qed.

Lemma routing_lemma v : forall ds t bs sid mt b,
  keys_distinct t -> tfind sid t = Some mt -> bfind (mt_key mt) bs = Some b ->
  let st' := fst (trun v (t, bs) ds) in
  let st1 := fst (run1 v (mkIst (mt_seq mt) b) (map snd (filter (fun d => N.eqb (fst d) sid) ds))) in
  tfind sid (fst st') = Some (mkMeta (mt_key mt) (i_seq st1)) /\
  bfind (mt_key mt) (snd st') = Some (i_book st1).
Proof.
  induction ds as [|[sid' m] ds IH]; intros t bs sid mt b Hd Hf Hb.
  - cbn. split; [rewrite Hf; destruct mt; reflexivity|exact Hb].
  - cbv zeta. rewrite trun_cons.
    pose proof (tstep_routing v t bs sid mt b sid' m Hd Hf Hb) as H. cbv zeta in H.
    destruct (tstep v (t, bs) (sid', m)) as [[t' bs'] o]. cbn [fst snd] in H |- *.
    destruct H as [Hd' H]. cbn [filter fst].
    destruct (N.eqb sid' sid).
    + destruct H as [Hf' Hb']. cbn [map snd]. rewrite run1_cons. cbn [fst].
      pose proof (IH t' bs' sid _ _ Hd' Hf' Hb') as IH'. cbv zeta in IH'. cbn [mt_key mt_seq] in IH'.
      destruct (fst (step1 v (mkIst (mt_seq mt) b) m)) as [s1 b1]. cbn [i_seq i_book] in IH'. exact IH'.
    + destruct H as [Hf' Hb']. exact (IH t' bs' sid mt b Hd' Hf' Hb').
Qed.

(** end to end on one connection: if the messages carrying [sid] are genuine for the exchange
    [delta] of the instrument subscribed under [sid], that instrument's local book is the
    exchange's book as of its sequencer's id after the whole delivery - whatever was delivered
    for the other instruments *)
Lemma connection_inv delta v ds t bs sid mt b :
  keys_distinct t -> tfind sid t = Some mt -> bfind (mt_key mt) bs = Some b ->
  book_is delta b (sq_last (mt_seq mt)) ->
  Forall (fun d => fst d = sid -> genuine delta v (snd d)) ds ->
  exists s' b', tfind sid (fst (fst (trun v (t, bs) ds))) = Some (mkMeta (mt_key mt) s') /\
                bfind (mt_key mt) (snd (fst (trun v (t, bs) ds))) = Some b' /\
                book_is delta b' (sq_last s').
Proof.
  intros Hd Hf Hb Hinv Hg.
  pose proof (routing_lemma v ds t bs sid mt b Hd Hf Hb) as [H1 H2]. cbv zeta in H1, H2.
  set (ms := map snd (filter (fun d => N.eqb (fst d) sid) ds)) in *.
  assert (Hgm : Forall (genuine delta v) ms).
  { unfold ms. clear - Hg. induction ds as [|d ds IH]; [constructor|].
    inversion Hg as [|? ? Hd Hds]; subst. cbn [filter].
    destruct (N.eqb_spec (fst d) sid) as [E|E]; [cbn [map]; constructor; [apply Hd; exact E|]|]; apply IH; exact Hds. }
  pose proof (run1_inv delta v ms (mkIst (mt_seq mt) b) Hgm Hinv (length ms)) as Hr.
  rewrite firstn_all in Hr. unfold Inv in Hr.
  eexists. eexists. split; [exact H1|]. split; [exact H2|exact Hr].
Qed.
