(** Lemmas about Model/ExecMap.v : the per-exchange map translates exactly the indices owned by
    its exchange, both ways; the indexer is the inverse of reading indices back through the
    global tables. *)
From BV Require Import Base.Common Model.Index Model.ExecMap Proofs.Index.

(* ------------------------------------------------------------------------------------------ *)
(** * association lists *)

Lemma find_fst_unique {V} : forall (l : list (N * V)) k v,
  NoDup (map fst l) -> In (k, v) l -> find (fun kv => N.eqb (fst kv) k) l = Some (k, v).
Proof.
  induction l as [|[k' v'] t IH]; intros k v Hn Hin; [destruct Hin|].
  cbn [find fst]. cbn in Hn. inversion Hn as [|? ? Hx Ht]; subst.
  destruct (N.eqb_spec k' k) as [E|E].
  - subst k'. destruct Hin as [H|H]; [congruence|].
    exfalso. apply Hx. apply in_map_iff. exists (k, v). auto.
  - destruct Hin as [H|H]; [congruence|]. now apply IH.
Qed.

Lemma find_snd_unique {K} : forall (l : list (K * N)) k v,
  NoDup (map snd l) -> In (k, v) l -> find (fun kv => N.eqb (snd kv) v) l = Some (k, v).
Proof.
  induction l as [|[k' v'] t IH]; intros k v Hn Hin; [destruct Hin|].
  cbn [find snd]. cbn in Hn. inversion Hn as [|? ? Hx Ht]; subst.
  destruct (N.eqb_spec v' v) as [E|E].
  - subst v'. destruct Hin as [H|H]; [congruence|].
    exfalso. apply Hx. apply in_map_iff. exists (k, v). auto.
  - destruct Hin as [H|H]; [congruence|]. now apply IH.
Qed.

Lemma find_value_in {V} : forall (l : list (N * V)) k v, find_value k l = Some v -> In (k, v) l.
Proof.
  intros l k v H. unfold find_value in H.
  destruct (find (fun kv => N.eqb (fst kv) k) l) as [[k' v']|] eqn:E; [|discriminate].
  cbn in H. injection H as ->. apply find_some in E. destruct E as [Hin Hk]. cbn in Hk.
  apply N.eqb_eq in Hk. now subst.
Qed.
Lemma find_value_unique {V} : forall (l : list (N * V)) k v,
  NoDup (map fst l) -> In (k, v) l -> find_value k l = Some v.
Proof. intros l k v Hn Hin. unfold find_value. now rewrite (find_fst_unique l k v Hn Hin). Qed.

Lemma im_insert_in {V} : forall (m : list (N * V)) k v kv,
  In kv (im_insert N.eqb k v m) -> kv = (k, v) \/ In kv m.
Proof.
  induction m as [|[k' v'] t IH]; intros k v kv; cbn [im_insert].
  - intros [H|[]]. now left.
  - destruct (N.eqb_spec k' k) as [E|E]; cbn [In].
    + subst. intros [H|H]; [now left|right; now right].
    + intros [H|H]; [right; now left|]. destruct (IH _ _ _ H); [now left|right; now right].
Qed.
Lemma im_insert_keys {V} : forall (m : list (N * V)) k v k',
  In k' (map fst (im_insert N.eqb k v m)) <-> k' = k \/ In k' (map fst m).
Proof.
  induction m as [|[k0 v0] t IH]; intros k v k'; cbn [im_insert].
  - cbn. intuition congruence.
  - destruct (N.eqb_spec k0 k) as [E|E]; cbn [map fst In].
    + subst. intuition congruence.
    + rewrite IH. intuition congruence.
Qed.
Lemma im_insert_nodup {V} : forall (m : list (N * V)) k v,
  NoDup (map fst m) -> NoDup (map fst (im_insert N.eqb k v m)).
Proof.
  induction m as [|[k0 v0] t IH]; intros k v Hn; cbn [im_insert].
  - cbn. constructor; [intros []|constructor].
  - cbn in Hn. inversion Hn as [|? ? Hx Ht]; subst.
    destruct (N.eqb_spec k0 k) as [E|E]; cbn [map fst].
    + constructor; assumption.
    + constructor; [|now apply IH]. rewrite im_insert_keys. intros [H|H]; [congruence|contradiction].
Qed.

Lemma im_collect_facts {V} : forall (l : list (N * V)),
  NoDup (map fst (im_collect N.eqb l)) /\
  (forall kv, In kv (im_collect N.eqb l) -> In kv l) /\
  (forall k, In k (map fst l) -> In k (map fst (im_collect N.eqb l))).
Proof.
  intros l. unfold im_collect.
  assert (G : forall (l acc : list (N * V)), NoDup (map fst acc) ->
    NoDup (map fst (fold_left (fun m kv => im_insert N.eqb (fst kv) (snd kv) m) l acc)) /\
    (forall kv, In kv (fold_left (fun m kv => im_insert N.eqb (fst kv) (snd kv) m) l acc) ->
                In kv acc \/ In kv l) /\
    (forall k, In k (map fst acc) \/ In k (map fst l) ->
               In k (map fst (fold_left (fun m kv => im_insert N.eqb (fst kv) (snd kv) m) l acc)))).
  { clear l. induction l as [|[k v] t IH]; intros acc Hn; cbn [fold_left].
    - split; [assumption|]. split; [intros; now left|]. intros k [H|[]]. assumption.
    - cbn [fst snd]. destruct (IH (im_insert N.eqb k v acc) (im_insert_nodup acc k v Hn)) as [I1 [I2 I3]].
      split; [assumption|]. split.
      + intros kv H. destruct (I2 kv H) as [H1|H1]; [|right; now right].
        destruct (im_insert_in _ _ _ _ H1) as [->|H2]; [right; now left|now left].
      + intros k' H. apply I3. rewrite im_insert_keys. cbn [map fst In] in H. intuition congruence. }
  destruct (G l [] (NoDup_nil _)) as [G1 [G2 G3]]. split; [assumption|]. split.
  - intros kv H. destruct (G2 kv H) as [[]|H1]. assumption.
  - intros k H. apply G3. now right.
Qed.

Lemma is_insert_in : forall s k k', In k' (is_insert k s) <-> k' = k \/ In k' s.
Proof.
  induction s as [|a t IH]; intros k k'; cbn [is_insert].
  - cbn. intuition congruence.
  - destruct (N.eqb_spec a k) as [E|E]; cbn [In]; [subst|rewrite IH]; intuition congruence.
Qed.
Lemma is_collect_in : forall l k, In k (is_collect l) <-> In k l.
Proof.
  intros l k. unfold is_collect.
  assert (G : forall l acc, In k (fold_left (fun s k => is_insert k s) l acc) <-> In k acc \/ In k l).
  { clear l. induction l as [|a t IH]; intros acc; cbn [fold_left]; [cbn; tauto|].
    rewrite IH, is_insert_in. cbn. intuition congruence. }
  rewrite G. cbn. tauto.
Qed.

(* ------------------------------------------------------------------------------------------ *)
(** * the tables of a map *)

Lemma dense_keys_unique {V} : forall (l : list (N * V)), dense l -> NoDup (map fst l).
Proof.
  intros l Hd. apply NoDup_nth_error. intros i j Hi E.
  rewrite map_length in Hi.
  destruct (nth_error l i) as [kv|] eqn:Ei; [|apply nth_error_None in Ei; lia].
  rewrite (map_nth_error fst _ _ Ei) in E. symmetry in E.
  destruct (nth_error l j) as [kv'|] eqn:Ej.
  - rewrite (map_nth_error fst _ _ Ej) in E. injection E as E.
    rewrite (Hd _ _ Ei), (Hd _ _ Ej) in E. lia.
  - apply nth_error_None in Ej. assert (nth_error (map fst l) j = None) by (apply nth_error_None; rewrite map_length; lia).
    congruence.
Qed.

Lemma build_indexed_wf : forall l x, build l = Some x -> indexed_wf x.
Proof.
  intros l x Hb. destruct (dense_unique l x Hb) as [[D1 [N1 _]] [[D2 _] [D3 _]]].
  repeat split; try (apply dense_keys_unique; assumption). assumption.
Qed.

Lemma in_filter_instruments : forall x e k n,
  In (k, n) (filter_instruments x e) <->
  exists i, In (k, i) (x_instruments x) /\ snd (i_ex i) = e /\ i_ne i = n.
Proof.
  intros x e k n. unfold filter_instruments. rewrite in_flat_map. split.
  - intros [[k' i] [Hin H]]. cbn [fst snd] in H. destruct (N.eqb_spec (snd (i_ex i)) e) as [E|E]; [|destruct H].
    destruct H as [H|[]]. injection H as -> <-. exists i. auto.
  - intros [i [Hin [E <-]]]. exists (k, i). split; [assumption|]. cbn [fst snd].
    rewrite E, N.eqb_refl. now left.
Qed.
Lemma in_filter_assets : forall x e k n,
  In (k, n) (filter_assets x e) <-> exists ni, In (k, (e, (ni, n))) (x_assets x).
Proof.
  intros x e k n. unfold filter_assets. rewrite in_flat_map. split.
  - intros [[k' [e' [ni ne]]] [Hin H]]. cbn [fst snd] in H. destruct (N.eqb_spec e' e) as [E|E]; [|destruct H].
    destruct H as [H|[]]. injection H as -> <-. subst. exists ni. assumption.
  - intros [ni Hin]. exists (k, (e, (ni, n))). split; [assumption|]. cbn [fst snd].
    rewrite N.eqb_refl. now left.
Qed.

Lemma instrument_owner_in : forall x k e n, keys_unique (x_instruments x) ->
  (instrument_owner x k = Some (e, n) <->
   exists i, In (k, i) (x_instruments x) /\ snd (i_ex i) = e /\ i_ne i = n).
Proof.
  intros x k e n Hu. unfold instrument_owner, find_instrument. split.
  - destruct (find_value k (x_instruments x)) as [i|] eqn:E; [|discriminate].
    cbn. intros H. injection H as <- <-. exists i. split; [now apply find_value_in|auto].
  - intros [i [Hin [<- <-]]]. now rewrite (find_value_unique _ _ _ Hu Hin).
Qed.
Lemma asset_owner_in : forall x k e n, keys_unique (x_assets x) ->
  (asset_owner x k = Some (e, n) <-> exists ni, In (k, (e, (ni, n))) (x_assets x)).
Proof.
  intros x k e n Hu. unfold asset_owner, find_asset. split.
  - destruct (find_value k (x_assets x)) as [[e' [ni ne]]|] eqn:E; [|discriminate].
    cbn. intros H. injection H as <- <-. exists ni. now apply find_value_in.
  - intros [ni Hin]. now rewrite (find_value_unique _ _ _ Hu Hin).
Qed.

(** the name -> index table of a filtered (index, name) list *)
Definition names_of (f : list (N * N)) : list (N * N) :=
  im_collect N.eqb (map swap_pair (im_collect N.eqb f)).

Lemma names_of_in : forall f n k, In (n, k) (names_of f) -> In (k, n) f.
Proof.
  intros f n k H. unfold names_of in H.
  apply (proj1 (proj2 (im_collect_facts _))) in H. apply in_map_iff in H.
  destruct H as [[k' n'] [E H]]. unfold swap_pair in E. cbn in E. injection E as -> ->.
  now apply (proj1 (proj2 (im_collect_facts _))) in H.
Qed.
Lemma names_of_keys : forall f, NoDup (map fst (names_of f)).
Proof. intros f. apply im_collect_facts. Qed.

Lemma map_fst_swap : forall l : list (N * N), map fst (map swap_pair l) = map snd l.
Proof. induction l as [|[a b] t IH]; cbn; [reflexivity|now rewrite IH]. Qed.
Lemma map_snd_swap : forall l : list (N * N), map snd (map swap_pair l) = map fst l.
Proof. induction l as [|[a b] t IH]; cbn; [reflexivity|now rewrite IH]. Qed.

(** with pairwise distinct indices and pairwise distinct names nothing is overwritten *)
Lemma names_of_id : forall f, NoDup (map fst f) -> NoDup (map snd f) -> names_of f = map swap_pair f.
Proof.
  intros f H1 H2. unfold names_of.
  rewrite (im_collect_nodup N.eqb (fun a b => proj1 (N.eqb_eq a b)) f H1).
  apply im_collect_nodup; [exact (fun a b => proj1 (N.eqb_eq a b))|]. now rewrite map_fst_swap.
Qed.

Lemma name_of_index_some : forall names k n, name_of_index names k = Some n -> In (n, k) names.
Proof.
  intros names k n H. unfold name_of_index in H.
  destruct (find (fun nv => N.eqb (snd nv) k) names) as [[n' k']|] eqn:E; [|discriminate].
  cbn in H. injection H as ->. apply find_some in E. destruct E as [Hin Hk]. cbn in Hk.
  apply N.eqb_eq in Hk. now subst.
Qed.
Lemma index_of_name_some : forall names k n, index_of_name names n = Some k -> In (n, k) names.
Proof.
  intros names k n H. unfold index_of_name in H.
  destruct (find (fun nv => N.eqb (fst nv) n) names) as [[n' k']|] eqn:E; [|discriminate].
  cbn in H. injection H as ->. apply find_some in E. destruct E as [Hin Hk]. cbn in Hk.
  apply N.eqb_eq in Hk. now subst.
Qed.
Lemma index_of_name_unique : forall names k n, NoDup (map fst names) -> In (n, k) names ->
  index_of_name names n = Some k.
Proof. intros names k n Hn Hin. unfold index_of_name. now rewrite (find_fst_unique _ _ _ Hn Hin). Qed.
Lemma name_of_index_unique : forall names k n, NoDup (map snd names) -> In (n, k) names ->
  name_of_index names k = Some n.
Proof. intros names k n Hn Hin. unfold name_of_index. now rewrite (find_snd_unique _ _ _ Hn Hin). Qed.

Lemma filter_instruments_keys : forall x e, keys_unique (x_instruments x) ->
  NoDup (map fst (filter_instruments x e)).
Proof.
  intros x e. unfold keys_unique, filter_instruments.
  induction (x_instruments x) as [|[k i] t IH]; intros Hn; cbn; [constructor|].
  cbn in Hn. inversion Hn as [|? ? Hx Ht]; subst.
  destruct (N.eqb (snd (i_ex i)) e); cbn; [|now apply IH]. constructor; [|now apply IH].
  intros Hin. apply Hx. apply in_map_iff in Hin. destruct Hin as [[k' n'] [E Hin]]. cbn in E. subst k'.
  apply in_flat_map in Hin. destruct Hin as [[k2 i2] [Hin2 H2]]. cbn [fst snd] in H2.
  destruct (N.eqb (snd (i_ex i2)) e); [|destruct H2]. destruct H2 as [H2|[]]. injection H2 as -> _.
  apply in_map_iff. exists (k, i2). auto.
Qed.
Lemma filter_assets_keys : forall x e, keys_unique (x_assets x) -> NoDup (map fst (filter_assets x e)).
Proof.
  intros x e. unfold keys_unique, filter_assets.
  induction (x_assets x) as [|[k a] t IH]; intros Hn; cbn; [constructor|].
  cbn in Hn. inversion Hn as [|? ? Hx Ht]; subst.
  destruct (N.eqb (fst a) e); cbn; [|now apply IH]. constructor; [|now apply IH].
  intros Hin. apply Hx. apply in_map_iff in Hin. destruct Hin as [[k' n'] [E Hin]]. cbn in E. subst k'.
  apply in_flat_map in Hin. destruct Hin as [[k2 a2] [Hin2 H2]]. cbn [fst snd] in H2.
  destruct (N.eqb (fst a2) e); [|destruct H2]. destruct H2 as [H2|[]]. injection H2 as -> _.
  apply in_map_iff. exists (k, a2). auto.
Qed.

Lemma gen_map_inv : forall x e m, gen_map x e = Some m ->
  exists ek, find_exchange_index (x_exchanges x) e = Some ek /\ m_exchange m = (ek, e) /\
    m_asset_names m = names_of (filter_assets x e) /\
    m_instrument_names m = names_of (filter_instruments x e) /\
    m_assets m = is_collect (map snd (im_collect N.eqb (filter_assets x e))) /\
    m_instruments m = is_collect (map snd (im_collect N.eqb (filter_instruments x e))).
Proof.
  intros x e m. unfold gen_map. destruct (find_exchange_index (x_exchanges x) e) as [ek|]; [|discriminate].
  intros H. injection H as <-. exists ek. cbn. repeat split; reflexivity.
Qed.

(* ------------------------------------------------------------------------------------------ *)
(** * round trip, only own, total on own *)

Theorem instrument_roundtrip : forall x e m k n, indexed_wf x -> gen_map x e = Some m ->
  find_instrument_name m k = Some n ->
  instrument_owner x k = Some (e, n) /\ find_instrument_ix m n = Some k.
Proof.
  intros x e m k n [_ [_ [_ Hu]]] Hg H. destruct (gen_map_inv x e m Hg) as [ek [_ [_ [_ [Hn _]]]]].
  unfold find_instrument_name, find_instrument_ix in *. rewrite Hn in *.
  apply name_of_index_some in H. split.
  - apply instrument_owner_in; [assumption|]. apply in_filter_instruments. now apply names_of_in.
  - apply index_of_name_unique; [apply names_of_keys|assumption].
Qed.

Theorem instrument_roundtrip_back : forall x e m k n, indexed_wf x -> gen_map x e = Some m ->
  find_instrument_ix m n = Some k ->
  instrument_owner x k = Some (e, n) /\ find_instrument_name m k = Some n.
Proof.
  intros x e m k n [_ [_ [_ Hu]]] Hg H. destruct (gen_map_inv x e m Hg) as [ek [_ [_ [_ [Hn _]]]]].
  unfold find_instrument_name, find_instrument_ix in *. rewrite Hn in *.
  apply index_of_name_some in H. pose proof (names_of_in _ _ _ H) as Hf. split.
  - apply instrument_owner_in; [assumption|]. now apply in_filter_instruments.
  - (* every index occurs once among the values *)
    unfold name_of_index.
    destruct (find (fun nv => N.eqb (snd nv) k) (names_of (filter_instruments x e))) as [[n' k']|] eqn:E.
    + apply find_some in E. destruct E as [Hin Hk]. cbn in Hk. apply N.eqb_eq in Hk. subst k'.
      pose proof (names_of_in _ _ _ Hin) as Hf'. cbn. f_equal.
      pose proof (filter_instruments_keys x e Hu) as Hkeys.
      pose proof (find_fst_unique _ _ _ Hkeys Hf) as F1.
      pose proof (find_fst_unique _ _ _ Hkeys Hf') as F2. congruence.
    + exfalso. pose proof (find_none _ _ E _ H) as F. cbn in F. now rewrite N.eqb_refl in F.
Qed.

Theorem instrument_only_own : forall x e m k, indexed_wf x -> gen_map x e = Some m ->
  (forall n, instrument_owner x k <> Some (e, n)) -> find_instrument_name m k = None.
Proof.
  intros x e m k Hwf Hg Hno. destruct (find_instrument_name m k) as [n|] eqn:E; [|reflexivity].
  exfalso. apply (Hno n). now apply (instrument_roundtrip x e m k n Hwf Hg E).
Qed.

Lemma filter_instruments_names : forall x e, keys_unique (x_instruments x) ->
  (forall k k' n, instrument_owner x k = Some (e, n) -> instrument_owner x k' = Some (e, n) -> k = k') ->
  NoDup (map snd (filter_instruments x e)).
Proof.
  intros x e Hu Hd. pose proof (filter_instruments_keys x e Hu) as Hk.
  assert (G : forall f : list (N * N), NoDup (map fst f) ->
            (forall k k' n, In (k, n) f -> In (k', n) f -> k = k') -> NoDup (map snd f)).
  { induction f as [|[k n] t IH]; intros Hn Hinj; cbn; [constructor|].
    cbn in Hn. inversion Hn as [|? ? Hx Ht]; subst. constructor.
    - intros Hin. apply in_map_iff in Hin. destruct Hin as [[k' n'] [E Hin]]. cbn in E. subst n'.
      assert (k = k') by (apply (Hinj k k' n); cbn; auto). subst k'.
      apply Hx. apply in_map_iff. exists (k, n). auto.
    - apply IH; [assumption|]. intros a b c Ha Hb. apply (Hinj a b c); cbn; auto. }
  apply G; [assumption|]. intros k k' n H1 H2. apply (Hd k k' n).
  - apply instrument_owner_in; [assumption|]. now apply in_filter_instruments.
  - apply instrument_owner_in; [assumption|]. now apply in_filter_instruments.
Qed.

Theorem instrument_total_on_own : forall x e m k n, indexed_wf x -> names_distinct x e ->
  gen_map x e = Some m -> instrument_owner x k = Some (e, n) ->
  find_instrument_name m k = Some n /\ find_instrument_ix m n = Some k.
Proof.
  intros x e m k n Hwf [_ Hd] Hg Ho. pose proof Hwf as [_ [_ [_ Hu]]].
  destruct (gen_map_inv x e m Hg) as [ek [_ [_ [_ [Hn _]]]]].
  assert (Hf : In (k, n) (filter_instruments x e)).
  { apply in_filter_instruments. now apply instrument_owner_in. }
  assert (E : find_instrument_name m k = Some n).
  { unfold find_instrument_name. rewrite Hn.
    rewrite (names_of_id _ (filter_instruments_keys x e Hu) (filter_instruments_names x e Hu Hd)).
    apply name_of_index_unique.
    - rewrite map_snd_swap. now apply filter_instruments_keys.
    - apply in_map_iff. exists (k, n). auto. }
  split; [assumption|]. now apply (instrument_roundtrip x e m k n Hwf Hg E).
Qed.

(** the same three facts for assets *)
Theorem asset_roundtrip : forall x e m k n, indexed_wf x -> gen_map x e = Some m ->
  find_asset_name m k = Some n ->
  asset_owner x k = Some (e, n) /\ find_asset_ix m n = Some k.
Proof.
  intros x e m k n [_ [_ [Hu _]]] Hg H. destruct (gen_map_inv x e m Hg) as [ek [_ [_ [Hn _]]]].
  unfold find_asset_name, find_asset_ix in *. rewrite Hn in *.
  apply name_of_index_some in H. split.
  - apply asset_owner_in; [assumption|]. apply in_filter_assets. now apply names_of_in.
  - apply index_of_name_unique; [apply names_of_keys|assumption].
Qed.

Theorem asset_roundtrip_back : forall x e m k n, indexed_wf x -> gen_map x e = Some m ->
  find_asset_ix m n = Some k ->
  asset_owner x k = Some (e, n) /\ find_asset_name m k = Some n.
Proof.
  intros x e m k n [_ [_ [Hu _]]] Hg H. destruct (gen_map_inv x e m Hg) as [ek [_ [_ [Hn _]]]].
  unfold find_asset_name, find_asset_ix in *. rewrite Hn in *.
  apply index_of_name_some in H. pose proof (names_of_in _ _ _ H) as Hf. split.
  - apply asset_owner_in; [assumption|]. now apply in_filter_assets.
  - unfold name_of_index.
    destruct (find (fun nv => N.eqb (snd nv) k) (names_of (filter_assets x e))) as [[n' k']|] eqn:E.
    + apply find_some in E. destruct E as [Hin Hk]. cbn in Hk. apply N.eqb_eq in Hk. subst k'.
      pose proof (names_of_in _ _ _ Hin) as Hf'. cbn. f_equal.
      pose proof (filter_assets_keys x e Hu) as Hkeys.
      pose proof (find_fst_unique _ _ _ Hkeys Hf) as F1.
      pose proof (find_fst_unique _ _ _ Hkeys Hf') as F2. congruence.
    + exfalso. pose proof (find_none _ _ E _ H) as F. cbn in F. now rewrite N.eqb_refl in F.
Qed.

Theorem asset_only_own : forall x e m k, indexed_wf x -> gen_map x e = Some m ->
  (forall n, asset_owner x k <> Some (e, n)) -> find_asset_name m k = None.
Proof.
  intros x e m k Hwf Hg Hno. destruct (find_asset_name m k) as [n|] eqn:E; [|reflexivity].
  exfalso. apply (Hno n). now apply (asset_roundtrip x e m k n Hwf Hg E).
Qed.

Lemma filter_assets_names : forall x e, keys_unique (x_assets x) ->
  (forall k k' n, asset_owner x k = Some (e, n) -> asset_owner x k' = Some (e, n) -> k = k') ->
  NoDup (map snd (filter_assets x e)).
Proof.
  intros x e Hu Hd. pose proof (filter_assets_keys x e Hu) as Hk.
  assert (G : forall f : list (N * N), NoDup (map fst f) ->
            (forall k k' n, In (k, n) f -> In (k', n) f -> k = k') -> NoDup (map snd f)).
  { induction f as [|[k n] t IH]; intros Hn Hinj; cbn; [constructor|].
    cbn in Hn. inversion Hn as [|? ? Hx Ht]; subst. constructor.
    - intros Hin. apply in_map_iff in Hin. destruct Hin as [[k' n'] [E Hin]]. cbn in E. subst n'.
      assert (k = k') by (apply (Hinj k k' n); cbn; auto). subst k'.
      apply Hx. apply in_map_iff. exists (k, n). auto.
    - apply IH; [assumption|]. intros a b c Ha Hb. apply (Hinj a b c); cbn; auto. }
  apply G; [assumption|]. intros k k' n H1 H2. apply (Hd k k' n).
  - apply asset_owner_in; [assumption|]. now apply in_filter_assets.
  - apply asset_owner_in; [assumption|]. now apply in_filter_assets.
Qed.

Theorem asset_total_on_own : forall x e m k n, indexed_wf x -> names_distinct x e ->
  gen_map x e = Some m -> asset_owner x k = Some (e, n) ->
  find_asset_name m k = Some n /\ find_asset_ix m n = Some k.
Proof.
  intros x e m k n Hwf [Hd _] Hg Ho. pose proof Hwf as [_ [_ [Hu _]]].
  destruct (gen_map_inv x e m Hg) as [ek [_ [_ [Hn _]]]].
  assert (Hf : In (k, n) (filter_assets x e)).
  { apply in_filter_assets. now apply asset_owner_in. }
  assert (E : find_asset_name m k = Some n).
  { unfold find_asset_name. rewrite Hn.
    rewrite (names_of_id _ (filter_assets_keys x e Hu) (filter_assets_names x e Hu Hd)).
    apply name_of_index_unique.
    - rewrite map_snd_swap. now apply filter_assets_keys.
    - apply in_map_iff. exists (k, n). auto. }
  split; [assumption|]. now apply (asset_roundtrip x e m k n Hwf Hg E).
Qed.

(** the exchange itself *)
Theorem gen_map_exchange : forall x e, indexed_wf x ->
  (gen_map x e = None <-> ~ In e (map snd (x_exchanges x))) /\
  (forall m, gen_map x e = Some m ->
     exists ek, m_exchange m = (ek, e) /\ find_exchange (x_exchanges x) ek = Some e /\
       (forall k, find_exchange_id m k = Some e <-> k = ek) /\
       (forall k e', find_exchange_id m k = Some e' -> e' = e) /\
       (forall e' k, find_exchange_ix m e' = Some k <-> e' = e /\ k = ek)).
Proof.
  intros x e [Hu [Hv _]]. split.
  - unfold gen_map, find_exchange_index, find_key.
    destruct (find (fun kv => N.eqb (snd kv) e) (x_exchanges x)) as [[k v]|] eqn:E; cbn.
    + split; [discriminate|]. intros Hn. exfalso. apply Hn. apply find_some in E. destruct E as [Hin Hp].
      cbn in Hp. apply N.eqb_eq in Hp. subst. apply in_map_iff. exists (k, e). auto.
    + split; [|reflexivity]. intros _ Hin. apply in_map_iff in Hin. destruct Hin as [[k v] [Ev Hin]].
      cbn in Ev. subst v. pose proof (find_none _ _ E _ Hin) as F. cbn in F. now rewrite N.eqb_refl in F.
  - intros m Hg. destruct (gen_map_inv x e m Hg) as [ek [Hf [Hm _]]]. exists ek.
    split; [assumption|].
    assert (Hin : In (ek, e) (x_exchanges x)).
    { unfold find_exchange_index, find_key in Hf.
      destruct (find (fun kv => N.eqb (snd kv) e) (x_exchanges x)) as [[k v]|] eqn:E; [|discriminate].
      cbn in Hf. injection Hf as ->. apply find_some in E. destruct E as [Hin Hp]. cbn in Hp.
      apply N.eqb_eq in Hp. now subst. }
    split; [unfold find_exchange; now apply find_value_unique|].
    unfold find_exchange_id, find_exchange_ix. rewrite Hm. cbn [fst snd]. repeat split.
    + destruct (N.eqb_spec ek k); [auto|discriminate].
    + intros ->. now rewrite N.eqb_refl.
    + intros k e'. destruct (N.eqb ek k); [congruence|discriminate].
    + destruct (N.eqb_spec e e'); [auto|discriminate].
    + destruct (N.eqb_spec e e'); [congruence|discriminate].
    + intros [-> ->]. now rewrite N.eqb_refl.
Qed.

(** the per-exchange name lists handed to the client are exactly the exchange's names *)
Theorem exchange_name_lists : forall x e m, indexed_wf x -> gen_map x e = Some m ->
  (forall n, In n (m_assets m) <-> exists k, asset_owner x k = Some (e, n)) /\
  (forall n, In n (m_instruments m) <-> exists k, instrument_owner x k = Some (e, n)).
Proof.
  intros x e m [_ [_ [Hua Hui]]] Hg. destruct (gen_map_inv x e m Hg) as [ek [_ [_ [_ [_ [Ha Hi]]]]]].
  rewrite Ha, Hi.
  rewrite (im_collect_nodup N.eqb (fun a b => proj1 (N.eqb_eq a b)) _ (filter_assets_keys x e Hua)).
  rewrite (im_collect_nodup N.eqb (fun a b => proj1 (N.eqb_eq a b)) _ (filter_instruments_keys x e Hui)).
  split; intros n; rewrite is_collect_in, in_map_iff.
  - split.
    + intros [[k n'] [E Hin]]. cbn in E. subst n'. exists k. apply asset_owner_in; [assumption|].
      now apply in_filter_assets.
    + intros [k Ho]. exists (k, n). split; [reflexivity|]. apply in_filter_assets. now apply asset_owner_in.
  - split.
    + intros [[k n'] [E Hin]]. cbn in E. subst n'. exists k. apply instrument_owner_in; [assumption|].
      now apply in_filter_instruments.
    + intros [k Ho]. exists (k, n). split; [reflexivity|]. apply in_filter_instruments.
      now apply instrument_owner_in.
Qed.

(* ------------------------------------------------------------------------------------------ *)
(** * the indexer: translation is the inverse of reading back *)

Section Inverse.
  Context {E1 E2 EK AK IK EK' AK' IK' : Type}.
  Variable fe : EK -> res E1 EK'.
  Variable fa : AK -> res E1 AK'.
  Variable fi : IK -> res E1 IK'.
  Variable ge : EK' -> res E2 EK.
  Variable ga : AK' -> res E2 AK.
  Variable gi : IK' -> res E2 IK.
  Hypothesis He : forall k k', fe k = Ok k' -> ge k' = Ok k.
  Hypothesis Ha : forall k k', fa k = Ok k' -> ga k' = Ok k.
  Hypothesis Hi : forall k k', fi k = Ok k' -> gi k' = Ok k.

  Lemma traverse_inverse {A B} (f : A -> res E1 B) (g : B -> res E2 A) :
    (forall a b, f a = Ok b -> g b = Ok a) ->
    forall l l', traverse f l = Ok l' -> traverse g l' = Ok l.
  Proof.
    intros Hfg. induction l as [|a t IH]; intros l'; cbn [traverse].
    - intros H. injection H as <-. reflexivity.
    - destruct (f a) as [b|] eqn:Eb; cbn [bind]; [|discriminate].
      destruct (traverse f t) as [t'|] eqn:Et; cbn [rmap]; [|discriminate].
      intros H. injection H as <-. cbn [traverse]. rewrite (Hfg _ _ Eb). cbn [bind].
      now rewrite (IH _ eq_refl).
  Qed.

  Lemma api_error_inverse : forall e e', tr_api_error fa fi e = Ok e' -> tr_api_error ga gi e' = Ok e.
  Proof.
    intros [|a|i|a|t] e'; cbn [tr_api_error].
    - intros H. injection H as <-. reflexivity.
    - destruct (fa a) as [a'|] eqn:Ea; cbn [rmap]; [|discriminate]. intros H. injection H as <-.
      cbn. now rewrite (Ha _ _ Ea).
    - destruct (fi i) as [i'|] eqn:Ei; cbn [rmap]; [|discriminate]. intros H. injection H as <-.
      cbn. now rewrite (Hi _ _ Ei).
    - destruct (fa a) as [a'|] eqn:Ea; cbn [rmap]; [|discriminate]. intros H. injection H as <-.
      cbn. now rewrite (Ha _ _ Ea).
    - intros H. injection H as <-. reflexivity.
  Qed.

  Lemma order_error_inverse : forall e e', tr_order_error fa fi e = Ok e' -> tr_order_error ga gi e' = Ok e.
  Proof.
    intros [|a] e'; cbn [tr_order_error].
    - intros H. injection H as <-. reflexivity.
    - destruct (tr_api_error fa fi a) as [a'|] eqn:Ea; cbn [rmap]; [|discriminate].
      intros H. injection H as <-. cbn. now rewrite (api_error_inverse _ _ Ea).
  Qed.

  Lemma order_key_inverse : forall k k', tr_order_key fe fi k = Ok k' -> tr_order_key ge gi k' = Ok k.
  Proof.
    intros [[e i] tag] k'. cbn [tr_order_key].
    destruct (fe e) as [e'|] eqn:Ee; cbn [bind]; [|discriminate].
    destruct (fi i) as [i'|] eqn:Ei; cbn [bind]; [|discriminate].
    intros H. injection H as <-. cbn. now rewrite (He _ _ Ee), (Hi _ _ Ei).
  Qed.

  Lemma order_state_inverse : forall s s', tr_order_state fa fi s = Ok s' -> tr_order_state ga gi s' = Ok s.
  Proof.
    intros [|e| | |] s'; cbn [tr_order_state]; try (intros H; injection H as <-; reflexivity).
    destruct (tr_order_error fa fi e) as [e'|] eqn:Ee; cbn [rmap]; [|discriminate].
    intros H. injection H as <-. cbn. now rewrite (order_error_inverse _ _ Ee).
  Qed.

  Lemma order_snapshot_inverse : forall o o',
    tr_order_snapshot fe fa fi o = Ok o' -> tr_order_snapshot ge ga gi o' = Ok o.
  Proof.
    intros [k s] o'. unfold tr_order_snapshot. cbn [fst snd].
    destruct (tr_order_key fe fi k) as [k'|] eqn:Ek; cbn [bind]; [|discriminate].
    destruct (tr_order_state fa fi s) as [s'|] eqn:Es; cbn [bind]; [|discriminate].
    intros H. injection H as <-. cbn [fst snd].
    now rewrite (order_key_inverse _ _ Ek), (order_state_inverse _ _ Es).
  Qed.

  Lemma balance_inverse : forall b b', tr_balance fa b = Ok b' -> tr_balance ga b' = Ok b.
  Proof.
    intros [a t] b'. unfold tr_balance. cbn [fst snd].
    destruct (fa a) as [a'|] eqn:Ea; cbn [bind]; [|discriminate].
    intros H. injection H as <-. cbn. now rewrite (Ha _ _ Ea).
  Qed.

  Lemma instrument_snapshot_inverse : forall s s',
    tr_instrument_snapshot fe fa fi s = Ok s' -> tr_instrument_snapshot ge ga gi s' = Ok s.
  Proof.
    intros [i os] s'. unfold tr_instrument_snapshot. cbn [fst snd].
    destruct (fi i) as [i'|] eqn:Ei; cbn [bind]; [|discriminate].
    destruct (traverse (tr_order_snapshot fe fa fi) os) as [os'|] eqn:Eo; cbn [bind]; [|discriminate].
    intros H. injection H as <-. cbn [fst snd]. rewrite (Hi _ _ Ei). cbn [bind].
    now rewrite (traverse_inverse _ _ order_snapshot_inverse _ _ Eo).
  Qed.

  Lemma kind_inverse : forall k k', tr_kind fe fa fi k = Ok k' -> tr_kind ge ga gi k' = Ok k.
  Proof.
    intros [ex bs ins|b|o|k st|t] k'; cbn [tr_kind].
    - destruct (fe ex) as [ex'|] eqn:Ee; cbn [bind]; [|discriminate].
      destruct (traverse (tr_balance fa) bs) as [bs'|] eqn:Eb; cbn [bind]; [|discriminate].
      destruct (traverse (tr_instrument_snapshot fe fa fi) ins) as [ins'|] eqn:Ei; cbn [bind]; [|discriminate].
      intros H. injection H as <-. cbn [tr_kind]. rewrite (He _ _ Ee). cbn [bind].
      rewrite (traverse_inverse _ _ balance_inverse _ _ Eb). cbn [bind].
      now rewrite (traverse_inverse _ _ instrument_snapshot_inverse _ _ Ei).
    - destruct (tr_balance fa b) as [b'|] eqn:Eb; cbn [rmap]; [|discriminate].
      intros H. injection H as <-. cbn. now rewrite (balance_inverse _ _ Eb).
    - destruct (tr_order_snapshot fe fa fi o) as [o'|] eqn:Eo; cbn [rmap]; [|discriminate].
      intros H. injection H as <-. cbn [tr_kind]. now rewrite (order_snapshot_inverse _ _ Eo).
    - destruct (tr_order_key fe fi k) as [k1|] eqn:Ek; cbn [bind]; [|discriminate].
      destruct st as [e|].
      + destruct (tr_order_error fa fi e) as [e'|] eqn:Ee; cbn [bind]; [|discriminate].
        intros H. injection H as <-. cbn [tr_kind]. rewrite (order_key_inverse _ _ Ek). cbn [bind].
        now rewrite (order_error_inverse _ _ Ee).
      + intros H. injection H as <-. cbn [tr_kind]. now rewrite (order_key_inverse _ _ Ek).
    - destruct t as [i tag]. cbn [fst snd].
      destruct (fi i) as [i'|] eqn:Ei; cbn [bind]; [|discriminate].
      intros H. injection H as <-. cbn. now rewrite (Hi _ _ Ei).
  Qed.

  Lemma event_inverse : forall ev ev', tr_event fe fa fi ev = Ok ev' -> tr_event ge ga gi ev' = Ok ev.
  Proof.
    intros [e k] ev'. unfold tr_event. cbn [fst snd].
    destruct (fe e) as [e'|] eqn:Ee; cbn [bind]; [|discriminate].
    destruct (tr_kind fe fa fi k) as [k'|] eqn:Ek; cbn [bind]; [|discriminate].
    intros H. injection H as <-. cbn [fst snd]. now rewrite (He _ _ Ee), (kind_inverse _ _ Ek).
  Qed.
End Inverse.

Lemma ix_exchange_back : forall x e m k k', indexed_wf x -> gen_map x e = Some m ->
  ix_exchange m k = Ok k' -> back_exchange x e k' = Ok k.
Proof.
  intros x e m k k' Hwf Hg H. destruct (proj2 (gen_map_exchange x e Hwf) m Hg) as [ek [Hm [Hf [_ [_ Hix]]]]].
  unfold ix_exchange in H. destruct (find_exchange_ix m k) as [j|] eqn:E; [|discriminate].
  cbn in H. injection H as <-. apply Hix in E. destruct E as [-> ->].
  unfold back_exchange. now rewrite Hf, N.eqb_refl.
Qed.
Lemma back_exchange_ix : forall x e m k k', indexed_wf x -> gen_map x e = Some m ->
  back_exchange x e k = Ok k' -> ix_exchange m k' = Ok k.
Proof.
  intros x e m k k' Hwf Hg H. destruct (proj2 (gen_map_exchange x e Hwf) m Hg) as [ek [Hm [Hf [_ [_ Hix]]]]].
  unfold back_exchange in H. destruct (find_exchange (x_exchanges x) k) as [e'|] eqn:E; [|discriminate].
  destruct (N.eqb_spec e' e) as [->|]; [|discriminate]. injection H as <-.
  (* the exchange values are pairwise distinct, so k is the key of e *)
  assert (k = ek).
  { destruct Hwf as [Hu [Hv _]]. unfold find_exchange in E, Hf.
    apply find_value_in in E. apply find_value_in in Hf.
    pose proof (find_snd_unique _ _ _ Hv E) as F1. pose proof (find_snd_unique _ _ _ Hv Hf) as F2.
    congruence. }
  subst k. unfold ix_exchange. now rewrite (proj2 (Hix e ek) (conj eq_refl eq_refl)).
Qed.

Lemma ix_instrument_back : forall x e m n k, indexed_wf x -> gen_map x e = Some m ->
  ix_instrument m n = Ok k -> back_instrument x e k = Ok n.
Proof.
  intros x e m n k Hwf Hg H. unfold ix_instrument in H.
  destruct (find_instrument_ix m n) as [j|] eqn:E; [|discriminate]. cbn in H. injection H as <-.
  destruct (instrument_roundtrip_back x e m j n Hwf Hg E) as [Ho _].
  unfold back_instrument. now rewrite Ho, N.eqb_refl.
Qed.
Lemma ix_asset_back : forall x e m n k, indexed_wf x -> gen_map x e = Some m ->
  ix_asset m n = Ok k -> back_asset x e k = Ok n.
Proof.
  intros x e m n k Hwf Hg H. unfold ix_asset in H.
  destruct (find_asset_ix m n) as [j|] eqn:E; [|discriminate]. cbn in H. injection H as <-.
  destruct (asset_roundtrip_back x e m j n Hwf Hg E) as [Ho _].
  unfold back_asset. now rewrite Ho, N.eqb_refl.
Qed.
Lemma back_instrument_ix : forall x e m n k, indexed_wf x -> names_distinct x e -> gen_map x e = Some m ->
  back_instrument x e k = Ok n -> ix_instrument m n = Ok k.
Proof.
  intros x e m n k Hwf Hd Hg H. unfold back_instrument in H.
  destruct (instrument_owner x k) as [[e' n']|] eqn:E; [|discriminate].
  destruct (N.eqb_spec e' e) as [->|]; [|discriminate]. injection H as <-.
  destruct (instrument_total_on_own x e m k n' Hwf Hd Hg E) as [_ Hi].
  unfold ix_instrument. now rewrite Hi.
Qed.
Lemma back_asset_ix : forall x e m n k, indexed_wf x -> names_distinct x e -> gen_map x e = Some m ->
  back_asset x e k = Ok n -> ix_asset m n = Ok k.
Proof.
  intros x e m n k Hwf Hd Hg H. unfold back_asset in H.
  destruct (asset_owner x k) as [[e' n']|] eqn:E; [|discriminate].
  destruct (N.eqb_spec e' e) as [->|]; [|discriminate]. injection H as <-.
  destruct (asset_total_on_own x e m k n' Hwf Hd Hg E) as [_ Hi].
  unfold ix_asset. now rewrite Hi.
Qed.

(** inbound: whatever the indexer accepts, read back through the global tables, is the original
    event, and every key in it belongs to this exchange *)
Theorem account_event_sound : forall x e m ev ev', indexed_wf x -> gen_map x e = Some m ->
  account_event m ev = Ok ev' -> back_event x e ev' = Ok ev.
Proof.
  intros x e m ev ev' Hwf Hg H. unfold account_event in H. unfold back_event.
  eapply event_inverse; [| | |exact H].
  - intros k k'. apply ix_exchange_back with (m := m); assumption.
  - intros k k'. apply ix_asset_back with (m := m); assumption.
  - intros k k'. apply ix_instrument_back with (m := m); assumption.
Qed.

(** inbound, completeness: an event naming only this exchange's assets and instruments (i.e. the
    naming of some indexed event) is accepted and indexed to exactly that event *)
Theorem account_event_complete : forall x e m ev ev', indexed_wf x -> names_distinct x e ->
  gen_map x e = Some m -> back_event x e ev' = Ok ev -> account_event m ev = Ok ev'.
Proof.
  intros x e m ev ev' Hwf Hd Hg H. unfold back_event in H. unfold account_event.
  eapply event_inverse; [| | |exact H].
  - intros k k'. apply back_exchange_ix; assumption.
  - intros k k'. apply back_asset_ix; assumption.
  - intros k k'. apply back_instrument_ix; assumption.
Qed.

(** outbound *)
Theorem order_request_sound : forall x e m ek ik tag e' n tag', indexed_wf x -> gen_map x e = Some m ->
  order_request m (ek, ik, tag) = Ok (e', n, tag') ->
  e' = e /\ tag' = tag /\ find_exchange (x_exchanges x) ek = Some e /\ instrument_owner x ik = Some (e, n).
Proof.
  intros x e m ek ik tag e' n tag' Hwf Hg. unfold order_request.
  destruct (proj2 (gen_map_exchange x e Hwf) m Hg) as [ek0 [Hm [Hf [Hid [Hid2 _]]]]].
  destruct (find_exchange_id m ek) as [e1|] eqn:E1; cbn [of_opt bind]; [|discriminate].
  destruct (find_instrument_name m ik) as [n1|] eqn:E2; cbn [of_opt bind]; [|discriminate].
  intros H. injection H as <- <- <-. pose proof (Hid2 _ _ E1) as ->.
  apply Hid in E1. subst ek0. repeat split; try assumption.
  now apply (instrument_roundtrip x e m ik n1 Hwf Hg E2).
Qed.

Theorem order_request_complete : forall x e m ek ik tag n, indexed_wf x -> names_distinct x e ->
  gen_map x e = Some m -> find_exchange (x_exchanges x) ek = Some e ->
  instrument_owner x ik = Some (e, n) -> order_request m (ek, ik, tag) = Ok (e, n, tag).
Proof.
  intros x e m ek ik tag n Hwf Hd Hg He Ho. unfold order_request.
  assert (Hb : back_exchange x e ek = Ok e) by (unfold back_exchange; now rewrite He, N.eqb_refl).
  apply (back_exchange_ix x e m ek e Hwf Hg) in Hb. unfold ix_exchange in Hb.
  destruct (proj2 (gen_map_exchange x e Hwf) m Hg) as [ek0 [Hm [Hf [Hid [_ Hix]]]]].
  destruct (find_exchange_ix m e) as [j|] eqn:Ej; [|discriminate]. cbn in Hb. injection Hb as ->.
  apply Hix in Ej. destruct Ej as [_ ->].
  rewrite (proj2 (Hid ek0) eq_refl). cbn [of_opt bind].
  destruct (instrument_total_on_own x e m ik n Hwf Hd Hg Ho) as [-> _]. reflexivity.
Qed.

Theorem order_request_foreign : forall x e m ek ik tag, indexed_wf x -> gen_map x e = Some m ->
  (find_exchange (x_exchanges x) ek <> Some e \/ forall n, instrument_owner x ik <> Some (e, n)) ->
  exists err, order_request m (ek, ik, tag) = Err err.
Proof.
  intros x e m ek ik tag Hwf Hg Hno.
  destruct (order_request m (ek, ik, tag)) as [[[e' n] tag']|err] eqn:E; [|eexists; reflexivity].
  exfalso. destruct (order_request_sound _ _ _ _ _ _ _ _ _ Hwf Hg E) as [_ [_ [H1 H2]]].
  destruct Hno as [Hno|Hno]; [now apply Hno|now apply (Hno n)].
Qed.

Lemma names_distinct_b_sound : forall x e, indexed_wf x -> names_distinct_b x e = true -> names_distinct x e.
Proof.
  intros x e [_ [_ [Hua Hui]]] H. unfold names_distinct_b in H. apply andb_true_iff in H.
  destruct H as [H1 H2]. split.
  - intros k k' n Ho Ho'. apply asset_owner_in in Ho, Ho'; try assumption.
    destruct Ho as [ni Hin]. destruct Ho' as [ni' Hin'].
    pose proof (forall2b_spec _ _ H1 _ _ Hin Hin') as P. cbn in P. rewrite !N.eqb_refl in P. cbn in P.
    now apply N.eqb_eq.
  - intros k k' n Ho Ho'. apply instrument_owner_in in Ho, Ho'; try assumption.
    destruct Ho as [i [Hin [E1 E2]]]. destruct Ho' as [i' [Hin' [E1' E2']]].
    pose proof (forall2b_spec _ _ H2 _ _ Hin Hin') as P. cbn in P.
    rewrite E1, E1', E2, E2', !N.eqb_refl in P. cbn in P. now apply N.eqb_eq.
Qed.

(* ------------------------------------------------------------------------------------------ *)
(** * C11: the execution-link table of every exchange of every built collection *)

Theorem exec_map_aligned : forall l x e, build l = Some x ->
  (gen_map x e = None <-> ~ In e (map snd (x_exchanges x))) /\
  forall m, gen_map x e = Some m ->
    (forall k n, find_instrument_name m k = Some n ->
       instrument_owner x k = Some (e, n) /\ find_instrument_ix m n = Some k) /\
    (forall k n, find_instrument_ix m n = Some k ->
       instrument_owner x k = Some (e, n) /\ find_instrument_name m k = Some n) /\
    (forall k, (forall n, instrument_owner x k <> Some (e, n)) -> find_instrument_name m k = None) /\
    (names_distinct x e -> forall k n, instrument_owner x k = Some (e, n) ->
       find_instrument_name m k = Some n /\ find_instrument_ix m n = Some k) /\
    (forall k n, find_asset_name m k = Some n ->
       asset_owner x k = Some (e, n) /\ find_asset_ix m n = Some k) /\
    (forall k n, find_asset_ix m n = Some k ->
       asset_owner x k = Some (e, n) /\ find_asset_name m k = Some n) /\
    (forall k, (forall n, asset_owner x k <> Some (e, n)) -> find_asset_name m k = None) /\
    (names_distinct x e -> forall k n, asset_owner x k = Some (e, n) ->
       find_asset_name m k = Some n /\ find_asset_ix m n = Some k).
Proof.
  intros l x e Hb. pose proof (build_indexed_wf l x Hb) as Hwf.
  split; [exact (proj1 (gen_map_exchange x e Hwf))|]. intros m Hg. repeat split.
  - now apply (instrument_roundtrip x e m k n Hwf Hg).
  - now apply (instrument_roundtrip x e m k n Hwf Hg).
  - now apply (instrument_roundtrip_back x e m k n Hwf Hg).
  - now apply (instrument_roundtrip_back x e m k n Hwf Hg).
  - intros k Hno. now apply (instrument_only_own x e m k Hwf Hg).
  - now apply (instrument_total_on_own x e m k n Hwf H Hg).
  - now apply (instrument_total_on_own x e m k n Hwf H Hg).
  - now apply (asset_roundtrip x e m k n Hwf Hg).
  - now apply (asset_roundtrip x e m k n Hwf Hg).
  - now apply (asset_roundtrip_back x e m k n Hwf Hg).
  - now apply (asset_roundtrip_back x e m k n Hwf Hg).
  - intros k Hno. now apply (asset_only_own x e m k Hwf Hg).
  - now apply (asset_total_on_own x e m k n Hwf H Hg).
  - now apply (asset_total_on_own x e m k n Hwf H Hg).
Qed.
