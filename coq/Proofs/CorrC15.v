(** Link theorem for C15: the correspondence oracle is no stricter than the model, modulo the
    recorded known-finding class. [wf_case c = true -> corr_b c = true ->] every verdict of the
    oracle on the observed states is 0 (accepted) or 1 (known class: position freshly opened by
    the last fill storing 0), i.e. [prop_b c = true \/ known_b c = 1]. *)
From Coq Require Import Lia Lqa Setoid Qcanon Qcabs Qabs.
From BV Require Import Base.Common Model.Position Model.MarketData Proofs.Position Proofs.MarketData
  Corr.PosObs Corr.C15 Proofs.CorrC02.
Local Close Scope Qc_scope.
Local Open Scope Q_scope.

(* ---- the market registers of the oracle against the model's market data ---------------------------- *)

Definition MR (md : mdata) (r : mreg) : Prop :=
  l1_time (md_l1 md) = r_l1t r /\
  (exists b a, In (b, a) (r_l1s r) /\
               l1_bid (md_l1 md) = option_map lvl_of b /\ l1_ask (md_l1 md) = option_map lvl_of a) /\
  match md_last md with
  | None => r_tr r = None
  | Some (t0, p0) => exists ps p, r_tr r = Some (t0, ps) /\ In p ps /\ p0 = Q2Qc p
  end.

Lemma MR_init : MR md0 mreg0.
Proof.
  split; [reflexivity|]. split; [|reflexivity].
  exists None, None. split; [left; reflexivity|split; reflexivity].
Qed.

Lemma MR_step md r e :
  match e with OML1 t lt _ _ => lt = t | _ => True end ->
  MR md r -> MR (md_process md (mevent_of e)) (mreg_step r e).
Proof.
  intros Hwf [Ht [[b [a [Hin [Hb Ha]]]] Hl]].
  destruct e as [t [p|]|t lt ob oa|t]; cbn [mevent_of md_process mreg_step option_map].
  - (* priced trade *)
    destruct (md_last md) as [[t0 p0]|] eqn:El.
    + destruct Hl as [ps [p1 [Hr [Hp1 Hp0]]]]. rewrite Hr.
      destruct (Z.ltb t0 t) eqn:E1.
      * split; [exact Ht|]. split; [exists b, a; auto|]. cbn [md_last r_tr].
        exists [p], p. split; [reflexivity|]. split; [left; reflexivity|reflexivity].
      * destruct (Z.eqb t0 t) eqn:E2.
        -- apply Z.eqb_eq in E2. subst t. split; [exact Ht|]. split; [exists b, a; auto|].
           rewrite El. cbn [r_tr]. exists (ps ++ [p])%list, p1.
           split; [reflexivity|]. split; [apply in_or_app; left; exact Hp1|exact Hp0].
        -- split; [exact Ht|]. split; [exists b, a; auto|]. rewrite El. exists ps, p1. auto.
    + rewrite Hl. split; [exact Ht|]. split; [exists b, a; auto|]. cbn [md_last r_tr].
      exists [p], p. split; [reflexivity|]. split; [left; reflexivity|reflexivity].
  - (* trade whose price does not convert *)
    assert (E : (if match md_last md with Some (t0, _) => Z.ltb t0 t | None => true end then md else md) = md)
      by (destruct (match md_last md with Some (t0, _) => Z.ltb t0 t | None => true end); reflexivity).
    rewrite E. split; [exact Ht|]. split; [exists b, a; auto|exact Hl].
  - (* top of book *)
    subst lt. rewrite <- Ht. destruct (Z.ltb (l1_time (md_l1 md)) t) eqn:E1.
    + split; [reflexivity|]. split; [|exact Hl]. cbn [md_l1 l1_bid l1_ask r_l1s].
      exists ob, oa. split; [left; reflexivity|split; reflexivity].
    + destruct (Z.eqb (l1_time (md_l1 md)) t) eqn:E2.
      * apply Z.eqb_eq in E2. split; [cbn [r_l1t]; exact E2|]. split; [|exact Hl].
        exists b, a. cbn [r_l1s]. split; [apply in_or_app; left; exact Hin|auto].
      * split; [exact Ht|]. split; [exists b, a; auto|exact Hl].
  - split; [exact Ht|]. split; [exists b, a; auto|exact Hl].
Qed.

Lemma this_vw_mid ob oa : this (vw_mid (lvl_of ob) (lvl_of oa)) == ovw_mid ob oa.
Proof.
  unfold vw_mid, ovw_mid, lvl_of. cbn [fst snd].
  rewrite this_div, !this_plus, !this_mult, !this_Q2Qc. reflexivity.
Qed.

(** the model's price() is one of the oracle's acceptable reference candidates *)
Lemma cand_model md r : MR md r ->
  match md_price md with
  | Some pr => exists rr, In (Some rr) (ref_candidates r) /\ rr == this pr
  | None => In None (ref_candidates r)
  end.
Proof.
  intros [_ [[b [a [Hin [Hb Ha]]]] Hl]]. unfold md_price, l1_vw_mid. rewrite Hb, Ha.
  unfold ref_candidates.
  destruct b as [ob|], a as [oa|]; cbn [option_map].
  - exists (Qred (ovw_mid ob oa)). split.
    + apply in_flat_map. exists (Some ob, Some oa). split; [exact Hin|left; reflexivity].
    + rewrite Qred_correct, this_vw_mid. reflexivity.
  - destruct (md_last md) as [[t0 p0]|]; cbn [option_map snd].
    + destruct Hl as [ps [p [Hr [Hp Hp0]]]]. exists p. split.
      * apply in_flat_map. exists (Some ob, None). split; [exact Hin|]. rewrite Hr. apply in_map, Hp.
      * subst p0. symmetry. apply this_Q2Qc.
    + apply in_flat_map. exists (Some ob, None). split; [exact Hin|]. rewrite Hl. left; reflexivity.
  - destruct (md_last md) as [[t0 p0]|]; cbn [option_map snd].
    + destruct Hl as [ps [p [Hr [Hp Hp0]]]]. exists p. split.
      * apply in_flat_map. exists (None, Some oa). split; [exact Hin|]. rewrite Hr. apply in_map, Hp.
      * subst p0. symmetry. apply this_Q2Qc.
    + apply in_flat_map. exists (None, Some oa). split; [exact Hin|]. rewrite Hl. left; reflexivity.
  - destruct (md_last md) as [[t0 p0]|]; cbn [option_map snd].
    + destruct Hl as [ps [p [Hr [Hp Hp0]]]]. exists p. split.
      * apply in_flat_map. exists (None, None). split; [exact Hin|]. rewrite Hr. apply in_map, Hp.
      * subst p0. symmetry. apply this_Q2Qc.
    + apply in_flat_map. exists (None, None). split; [exact Hin|]. rewrite Hl. left; reflexivity.
Qed.

(* ---- the estimate, on the model's fields seen as Q ------------------------------------------------------ *)

Definition mest (m : position) (r : Q) : Q :=
  let q := this (p_qty m) in
  let fees := (q / this (p_qmax m)) * this (p_fin m) in
  match p_side m with
  | Buy => q * r - q * this (p_avg m) - fees
  | Sell => q * this (p_avg m) - q * r - fees
  end.

Lemma this_estimate m pr : this (estimate m pr) == mest m (this pr).
Proof.
  unfold estimate, calc_pnl_u, exit_fees, mest. cbv zeta. destruct (p_side m);
    rewrite !this_minus, !this_mult, this_div; reflexivity.
Qed.

Lemma mest_wd m r r' : r == r' -> mest m r == mest m r'.
Proof. intros H. unfold mest. destruct (p_side m); rewrite H; reflexivity. Qed.

(** what the oracle's state guarantees about the model's stored estimate: it is the estimate at
    (a price within [tr] of) an acceptable reference, or the position is freshly opened and
    stores 0 *)
Definition pnl_ok (tr : Q) (m : position) (g : spec) : Prop :=
  (exists r rm, In r (sp_refs g) /\ - tr <= r - rm <= tr /\ this (p_pnl_u m) == mest m rm) \/
  (sp_fresh g = true /\ this (p_pnl_u m) == 0).

Definition pos_ok (tr : Q) (c : pm) (g : spec) : Prop :=
  match c with
  | None => True
  | Some m => sp_qmax g == this (p_qmax m) /\ sp_fin g == this (p_fin m) /\ pnl_ok tr m g
  end.

Record J (indep : bool) (tr : Q) (i : N) (st : istate) (g : spec) : Prop := {
  J_good : good i (is_pos st);
  J_net : sp_net g == this (sq_pm (is_pos st));
  J_reg : indep = true -> MR (is_md st) (sp_reg g);
  J_pos : pos_ok tr (is_pos st) g }.

Lemma pos_matches_pnl_u t m p : pos_matches t m p = true ->
  - t_pnl t <= this (p_pnl_u m) - op_pnl_u p <= t_pnl t.
Proof.
  unfold pos_matches. intros H. split_andb H. apply near_iff in H6. exact H6.
Qed.

Lemma oestimate_bound t tr m p g r rm :
  pos_matches t m p = true ->
  sp_qmax g == this (p_qmax m) -> sp_fin g == this (p_fin m) ->
  - tr <= r - rm <= tr ->
  - (Qabs' (op_qty p) * (t_price t + tr)) <= oestimate p g r - mest m rm
    <= Qabs' (op_qty p) * (t_price t + tr).
Proof.
  intros Hm Hqm Hfin Hr. apply pos_matches_facts in Hm.
  destruct Hm as [_ [Hs [Ha [Hq _]]]].
  pose proof (scale_bound (this (p_qty m)) r rm tr Hr) as B1.
  assert (Ha' : - t_price t <= op_avg p - this (p_avg m) <= t_price t) by lra.
  pose proof (scale_bound (this (p_qty m)) (op_avg p) (this (p_avg m)) (t_price t) Ha') as B2.
  unfold oestimate, mest. cbv zeta. rewrite <- Hs.
  destruct (p_side m); rewrite Hqm, Hfin, <- Hq;
    set (q := this (p_qty m)) in *; set (F := q / this (p_qmax m) * this (p_fin m));
    assert (E : Qabs' q * (t_price t + tr) == Qabs' q * t_price t + Qabs' q * tr) by ring;
    rewrite E; set (u1 := Qabs' q * tr) in *; set (u2 := Qabs' q * t_price t) in *;
    set (a1 := q * r) in *; set (a2 := q * rm) in *; set (a3 := q * op_avg p) in *;
    set (a4 := q * this (p_avg m)) in *; lra.
Qed.

(** the oracle's verdict on an observed state that agrees with the model is 0 or 1 *)
Lemma verdict_ok t tr c g o :
  pos_ok tr c g -> omatch (pos_matches t) c (oi_pos o) = true ->
  verdict t tr g o = 0%N \/ verdict t tr g o = 1%N.
Proof.
  intros Hp Hm. unfold verdict. destruct (oi_pos o) as [p|]; [|left; reflexivity].
  destruct c as [m|]; cbn [omatch] in Hm; [|discriminate].
  destruct Hp as [Hqm [Hfin Hok]]. pose proof (pos_matches_pnl_u t m p Hm) as Hu.
  destruct (existsb _ (sp_refs g)) eqn:Ee; [left; reflexivity|].
  destruct Hok as [[r [rm [Hin [Hr Hpnl]]]]|[Hfresh H0]].
  - exfalso. assert (T : existsb (fun r0 => near (t_pnl t + Qabs' (op_qty p) * (t_price t + tr))
                                      (oestimate p g r0) (op_pnl_u p)) (sp_refs g) = true).
    { apply existsb_exists. exists r. split; [exact Hin|]. apply near_iff.
      pose proof (oestimate_bound t tr m p g r rm Hm Hqm Hfin Hr) as B.
      set (u := Qabs' (op_qty p) * (t_price t + tr)) in *. lra. }
    congruence.
  - rewrite Hfresh. cbn [andb].
    assert (T : near (t_pnl t) 0 (op_pnl_u p) = true) by (apply near_iff; lra).
    rewrite T. right; reflexivity.
Qed.

(* ---- a market event ----------------------------------------------------------------------------------------- *)

Lemma somes_in {A} (l : list (option A)) x : In (Some x) l -> In x (somes l).
Proof.
  intros H. unfold somes. apply in_flat_map. exists (Some x). split; [exact H|left; reflexivity].
Qed.
Lemma has_none_in {A} (l : list (option A)) : In None l -> has_none l = true.
Proof. intros H. unfold has_none. apply existsb_exists. exists None. split; [exact H|reflexivity]. Qed.

Lemma is_market_md st e : is_md (is_market st e) = md_process (is_md st) e.
Proof. unfold is_market. destruct (is_pos st); [destruct (md_price _)|]; reflexivity. Qed.

Lemma J_market (indep : bool) tr tm i st g oe (oprice : option Q) :
  0 <= tr -> tr = (if indep then 0 else tm) ->
  (indep = true -> match oe with OML1 t lt _ _ => lt = t | _ => True end) ->
  J indep tr i st g ->
  omatch (fun x y => near tm (this x) y) (md_price (is_md (is_market st (mevent_of oe)))) oprice = true ->
  J indep tr i (is_market st (mevent_of oe)) (spec_market indep g oe oprice).
Proof.
  intros Htr Etr Hwf [Jg Jn Jr Jp] Hpr. rewrite is_market_md in Hpr.
  set (md' := md_process (is_md st) (mevent_of oe)) in *.
  set (r' := mreg_step (sp_reg g) oe).
  unfold spec_market. fold r'. set (C := if indep then ref_candidates r' else (oprice :: nil)).
  assert (HMR : indep = true -> MR md' r').
  { intros Ei. apply MR_step; [apply Hwf, Ei|apply Jr, Ei]. }
  (* the model's price() is matched by a candidate *)
  assert (HC : match md_price md' with
               | Some pr => exists r, In (Some r) C /\ - tr <= r - this pr <= tr
               | None => In None C
               end).
  { unfold C. destruct indep.
    - pose proof (cand_model md' r' (HMR eq_refl)) as Hc. subst tr.
      destruct (md_price md') as [pr|]; [|exact Hc].
      destruct Hc as [rr [Hin Hrr]]. exists rr. split; [exact Hin|]. lra.
    - subst tr. destruct (md_price md') as [pr|], oprice as [y|]; cbn [omatch] in Hpr; try discriminate.
      + apply near_iff in Hpr. exists y. split; [left; reflexivity|]. lra.
      + left; reflexivity. }
  unfold is_market. fold md'. constructor.
  - destruct (is_pos st) as [m|]; [destruct (md_price md')|]; exact Jg.
  - destruct (is_pos st) as [m|]; [destruct (md_price md')|]; exact Jn.
  - intros Ei. destruct (is_pos st) as [m|]; [destruct (md_price md')|]; cbn [is_md]; apply HMR, Ei.
  - unfold spec_market_cands.
    destruct (is_pos st) as [m|]; [|destruct (md_price md'); exact I].
    destruct Jp as [Hqm [Hfin Hok]].
    destruct (md_price md') as [pr|]; cbn [is_pos pos_ok sp_qmax sp_fin].
    + destruct HC as [r [Hin Hr]]. split; [exact Hqm|]. split; [exact Hfin|].
      left. exists r, (this pr). cbn [sp_refs]. split; [apply in_or_app; left; apply somes_in, Hin|].
      split; [exact Hr|]. apply (this_estimate m pr).
    + split; [exact Hqm|]. split; [exact Hfin|].
      rewrite (has_none_in C HC). unfold pnl_ok. cbn [sp_refs sp_fresh].
      destruct Hok as [[r [rm [Hin H]]]|H]; [left; exists r, rm; split; [apply in_or_app; right; exact Hin|exact H]|right; exact H].
Qed.

(* ---- a fill ------------------------------------------------------------------------------------------------- *)

Ltac qbools :=
  repeat match goal with
  | |- context [Qle_bool ?a ?b] =>
      let E := fresh "E" in
      destruct (Qle_bool a b) eqn:E; [apply Qle_bool_iff in E|apply Qle_bool_false in E]
  end;
  cbn [andb orb negb]; try reflexivity; try (exfalso; lra).

(** which branch of [spec_fill] a fill takes, from the signs and sizes of the net quantity [n]
    (= +-Q, the open quantity) and the fill's signed quantity [s] (= +-q) *)
Lemma dir_same n s Q q : 0 < Q -> 0 < q ->
  (n == Q /\ s == q) \/ (n == - Q /\ s == - q) ->
  exact n 0 = false /\ qcrosses_strictly n s = false /\ same_dir n s = true.
Proof.
  intros HQ Hq H. unfold exact, qcrosses_strictly, same_dir.
  assert (E0 : Qeq_bool n 0 = false).
  { destruct (Qeq_bool n 0) eqn:E; [|reflexivity]. apply Qeq_bool_iff in E. destruct H as [[A B]|[A B]]; lra. }
  rewrite E0. split; [reflexivity|]. destruct H as [[A B]|[A B]]; split; qbools.
Qed.

Lemma dir_against n s Q q : 0 < Q -> 0 < q -> q <= Q ->
  (n == Q /\ s == - q) \/ (n == - Q /\ s == q) ->
  exact n 0 = false /\ qcrosses_strictly n s = false /\ same_dir n s = false.
Proof.
  intros HQ Hq Hle H. unfold exact, qcrosses_strictly, same_dir.
  assert (E0 : Qeq_bool n 0 = false).
  { destruct (Qeq_bool n 0) eqn:E; [|reflexivity]. apply Qeq_bool_iff in E. destruct H as [[A B]|[A B]]; lra. }
  rewrite E0. split; [reflexivity|]. destruct H as [[A B]|[A B]]; split; qbools.
Qed.

Lemma dir_flip n s Q q : 0 < Q -> Q < q ->
  (n == Q /\ s == - q) \/ (n == - Q /\ s == q) ->
  exact n 0 = false /\ qcrosses_strictly n s = true.
Proof.
  intros HQ Hlt H. unfold exact, qcrosses_strictly.
  assert (E0 : Qeq_bool n 0 = false).
  { destruct (Qeq_bool n 0) eqn:E; [|reflexivity]. apply Qeq_bool_iff in E. destruct H as [[A B]|[A B]]; lra. }
  rewrite E0. split; [reflexivity|]. destruct H as [[A B]|[A B]]; qbools.
Qed.

Lemma Qmaxq_model a b (x y : Qc) : a == this x -> b == this y ->
  Qmaxq a b == this (if Qc_gtb y x then y else x).
Proof.
  intros Ha Hb. unfold Qmaxq. destruct (Qc_gtb y x) eqn:Eg.
  - apply Qc_gtb_true in Eg. assert (Eg' : this x < this y) by exact Eg.
    destruct (Qle_bool a b) eqn:E; [exact Hb|]. apply Qle_bool_false in E. lra.
  - assert (Hn : ~ this x < this y).
    { intros H. assert (H' : (x < y)%Qc) by exact H. apply Qc_gtb_true in H'. congruence. }
    destruct (Qle_bool a b) eqn:E; [|exact Ha]. apply Qle_bool_iff in E. lra.
Qed.

Lemma spec_fill_reg g f : sp_reg (spec_fill g f) = sp_reg g.
Proof.
  unfold spec_fill. destruct (exact (sp_net g) 0); [reflexivity|].
  destruct (qcrosses_strictly (sp_net g) (osq f)); [reflexivity|].
  destruct (same_dir (sp_net g) (osq f)); reflexivity.
Qed.
Lemma spec_fill_net g f : sp_net (spec_fill g f) == sp_net g + osq f.
Proof.
  unfold spec_fill. destruct (exact (sp_net g) 0); [apply Qred_correct|].
  destruct (qcrosses_strictly (sp_net g) (osq f)); [apply Qred_correct|].
  destruct (same_dir (sp_net g) (osq f)); apply Qred_correct.
Qed.

Lemma Qabs'_pos x : 0 <= x -> Qabs' x == x.
Proof. intros H. rewrite Qabs'_Qabs. apply Qabs_pos, H. Qed.
Lemma Qabs'_neg x : x <= 0 -> Qabs' x == - x.
Proof. intros H. rewrite Qabs'_Qabs. apply Qabs_neg, H. Qed.

Lemma pnl_ok_at_fill tr m g f :
  0 <= tr -> sp_refs g = (of_price f :: nil) ->
  this (p_pnl_u m) == mest m (this (f_price (fill_of f))) ->
  pnl_ok tr m g.
Proof.
  intros Htr Hrefs H. left. exists (of_price f), (this (f_price (fill_of f))).
  split; [rewrite Hrefs; left; reflexivity|]. split; [|exact H].
  cbn [fill_of f_price]. rewrite this_Q2Qc. lra.
Qed.

Lemma J_fill indep tr i st g f :
  0 <= tr -> ovalid i f -> J indep tr i st g ->
  J indep tr i (fst (is_fill st (fill_of f))) (spec_fill g f).
Proof.
  intros Htr Hf [Jg Jn Jr Jp]. pose proof (ovalid_valid i f Hf) as Hv.
  destruct Hf as [Hfi Hfq]. unfold is_fill. cbn [fst].
  set (gf := fill_of f) in *. set (c := is_pos st) in *.
  assert (Hs : osq f == this (sq_fill gf)) by (symmetry; apply this_sq_fill).
  constructor; cbn [is_pos is_md].
  - exact (step_good i c gf Jg Hv).
  - rewrite spec_fill_net, (step_net i c gf Jg Hv), this_plus, <- Jn, <- Hs. reflexivity.
  - intros Ei. rewrite spec_fill_reg. apply Jr, Ei.
  - assert (Hqa : this (Qcabs (f_qty gf)) == of_qty f).
    { rewrite this_abs. unfold gf. cbn [fill_of f_qty]. rewrite this_Q2Qc. apply Qabs_pos. lra. }
    destruct c as [m|] eqn:Ec.
    + (* a position is open *)
      destruct Jg as [Hi [HQ0 HM0]]. assert (HQ : 0 < this (p_qty m)) by exact HQ0.
      destruct Jp as [Hqm [Hfin _]]. cbn [sq_pm] in Jn. unfold sq_pos in Jn.
      destruct (arm_cases i m gf Hi Hv) as [[Hsd Ha]|[[Hsd [Hlt Ha]]|[[Hsd [Hlt Ha]]|[Hsd [Hlt Ha]]]]];
        unfold pm_update, pos_update; rewrite Ha; cbn [fst].
      * (* increase *)
        assert (D : exact (sp_net g) 0 = false /\ qcrosses_strictly (sp_net g) (osq f) = false /\
                    same_dir (sp_net g) (osq f) = true).
        { apply (dir_same _ _ (this (p_qty m)) (of_qty f) HQ Hfq). unfold osq.
          change (of_side f) with (f_side gf). rewrite <- Hsd.
          destruct (p_side m); [left|right]; split; try reflexivity; try exact Jn.
          rewrite this_opp in Jn. exact Jn. }
        destruct D as [D1 [D2 D3]]. unfold spec_fill. rewrite D1, D2, D3.
        cbn [pos_ok sp_qmax sp_fin].
        assert (Habs : Qabs' (Qred (sp_net g + osq f)) == this (p_qty m + Qcabs (f_qty gf))%Qc).
        { rewrite Qred_correct, this_plus, Hqa. unfold osq.
          change (of_side f) with (f_side gf). rewrite <- Hsd.
          destruct (p_side m); [|rewrite this_opp in Jn]; rewrite Jn.
          - apply Qabs'_pos. lra.
          - rewrite Qabs'_neg; lra. }
        split; [exact (Qmaxq_model _ _ _ _ Hqm Habs)|].
        split; [cbn [p_fin]; rewrite Qred_correct, this_plus, Hfin; unfold gf; cbn [fill_of f_fee]; rewrite this_Q2Qc; reflexivity|].
        eapply pnl_ok_at_fill; [exact Htr|reflexivity|].
        match goal with |- this (p_pnl_u ?M) == mest ?M _ => exact (this_estimate M (f_price gf)) end.
      * (* reduce *)
        assert (Hlt' : this (f_qty gf) < this (p_qty m)) by exact Hlt.
        assert (Eq : this (f_qty gf) == of_qty f) by (unfold gf; cbn [fill_of f_qty]; apply this_Q2Qc).
        assert (D : exact (sp_net g) 0 = false /\ qcrosses_strictly (sp_net g) (osq f) = false /\
                    same_dir (sp_net g) (osq f) = false).
        { apply (dir_against _ _ (this (p_qty m)) (of_qty f) HQ Hfq); [lra|]. unfold osq.
          change (of_side f) with (f_side gf).
          destruct (p_side m), (f_side gf); try congruence; [left|right]; split; try reflexivity; try exact Jn.
          rewrite this_opp in Jn. exact Jn. }
        destruct D as [D1 [D2 D3]]. unfold spec_fill. rewrite D1, D2, D3.
        cbn [pos_ok sp_qmax sp_fin p_qmax p_fin].
        split; [exact Hqm|]. split; [exact Hfin|].
        eapply pnl_ok_at_fill; [exact Htr|reflexivity|].
        match goal with |- this (p_pnl_u ?M) == mest ?M _ => exact (this_estimate M (f_price gf)) end.
      * (* exact close: no position afterwards *)
        exact I.
      * (* flip: the remainder opens the opposite position, freshly opened *)
        assert (Hlt' : this (p_qty m) < this (f_qty gf)) by exact Hlt.
        assert (Eq : this (f_qty gf) == of_qty f) by (unfold gf; cbn [fill_of f_qty]; apply this_Q2Qc).
        assert (Hdisj : (sp_net g == this (p_qty m) /\ osq f == - of_qty f) \/
                        (sp_net g == - this (p_qty m) /\ osq f == of_qty f)).
        { unfold osq. change (of_side f) with (f_side gf).
          destruct (p_side m), (f_side gf); try congruence; [left|right]; split; try reflexivity; try exact Jn.
          rewrite this_opp in Jn. exact Jn. }
        assert (D : exact (sp_net g) 0 = false /\ qcrosses_strictly (sp_net g) (osq f) = true).
        { apply (dir_flip _ _ (this (p_qty m)) (of_qty f) HQ); [lra|exact Hdisj]. }
        destruct D as [D1 D2]. unfold spec_fill. rewrite D1, D2.
        cbn [pos_ok sp_qmax sp_fin pos_of_fill p_qmax p_fin f_qty f_fee].
        assert (Hrem : Qabs' (Qred (sp_net g + osq f)) == this (Qcabs (f_qty gf) - p_qty m)%Qc).
        { rewrite Qred_correct, this_minus, Hqa.
          destruct Hdisj as [[A B]|[A B]]; rewrite A, B; [rewrite Qabs'_neg|rewrite Qabs'_pos]; lra. }
        assert (Hrpos : 0 < this (Qcabs (f_qty gf) - p_qty m)%Qc) by (rewrite this_minus, Hqa; lra).
        split; [rewrite this_abs, <- Hrem, Qabs_pos; [reflexivity|rewrite Hrem; lra]|].
        split.
        { rewrite Qred_correct, this_mult, this_div, Hqa, <- Hrem.
          unfold gf. cbn [fill_of f_fee]. rewrite this_Q2Qc. reflexivity. }
        right. split; reflexivity.
    + (* no position: the fill opens one, freshly opened *)
      cbn [sq_pm] in Jn. change (this (Q2Qc 0)) with 0 in Jn.
      assert (D1 : exact (sp_net g) 0 = true) by (apply exact_iff; exact Jn).
      unfold spec_fill. rewrite D1. cbn [pm_update fst pos_ok sp_qmax sp_fin pos_of_fill p_qmax p_fin].
      split; [symmetry; exact Hqa|]. split; [unfold gf; cbn [fill_of f_fee]; symmetry; apply this_Q2Qc|].
      right. split; reflexivity.
Qed.

(* ---- the engine: instruments addressed by index, in lockstep with the oracle's per-instrument state --- *)

Definition GJ (indep : bool) (tr : Q) (s : estate) (sp : N -> spec) : Prop :=
  forall j, J indep tr j (s j) (sp j).

Lemma GJ_init indep tr : GJ indep tr (fun _ => is0) (fun _ => spec0).
Proof.
  intros j. constructor; cbn [is0 is_pos is_md spec0 sp_net sp_reg good sq_pm pos_ok].
  - exact I.
  - reflexivity.
  - intros _. exact MR_init.
  - exact I.
Qed.

Lemma route_eevent_of e : route (eevent_of e) = oroute e.
Proof. destruct e; reflexivity. Qed.

Lemma istate_matches_facts t tm st o : istate_matches t tm st o = true ->
  omatch (pos_matches t) (is_pos st) (oi_pos o) = true /\
  omatch (fun x y => near tm (this x) y) (md_price (is_md st)) (oi_price o) = true.
Proof. unfold istate_matches. intros H. split_andb H. split; assumption. Qed.

Definition ev_l1_wf (e : oevent) : Prop :=
  match e with OMarket _ _ (OML1 t lt _ _) => lt = t | _ => True end.
Definition ev_fill_wf (e : oevent) : Prop :=
  match e with OFill f => 0 < of_qty f | _ => True end.

Lemma step_link15 (indep : bool) t tm tr s sp e o :
  0 <= tr -> tr = (if indep then 0 else tm) ->
  (indep = true -> ev_l1_wf e) -> ev_fill_wf e ->
  GJ indep tr s sp ->
  istate_matches t tm (estep s (eevent_of e) (oroute e)) o = true ->
  let g := match e with
           | OMarket _ _ m => spec_market indep (sp (oroute e)) m (oi_price o)
           | OFill f => spec_fill (sp (oroute e)) f
           end in
  (verdict t tr g o = 0%N \/ verdict t tr g o = 1%N) /\
  GJ indep tr (estep s (eevent_of e)) (supd sp (oroute e) g).
Proof.
  intros Htr Etr Hl1 Hfw HG Hm. cbv zeta.
  set (i := oroute e) in *.
  assert (Es : estep s (eevent_of e) i = istep (s i) (payload (eevent_of e))).
  { unfold estep, eupd. rewrite route_eevent_of. fold i. rewrite N.eqb_refl. reflexivity. }
  rewrite Es in Hm. apply istate_matches_facts in Hm. destruct Hm as [Hpos Hprice].
  set (g := match e with
            | OMarket _ _ m => spec_market indep (sp i) m (oi_price o)
            | OFill f => spec_fill (sp i) f
            end).
  assert (HJ : J indep tr i (istep (s i) (payload (eevent_of e))) g).
  { unfold g. destruct e as [i0 rc m|f]; cbn [eevent_of payload istep] in *.
    - apply (J_market indep tr tm i (s i) (sp i) m (oi_price o) Htr Etr); [|apply HG|exact Hprice].
      intros Ei. specialize (Hl1 Ei). destruct m; exact Hl1 || exact I.
    - apply (J_fill indep tr i (s i) (sp i) f Htr); [|apply HG].
      split; [reflexivity|exact Hfw]. }
  split.
  - exact (verdict_ok t tr _ g o (J_pos _ _ _ _ _ HJ) Hpos).
  - intros j. unfold estep, eupd, supd. rewrite route_eevent_of. fold i.
    destruct (N.eqb j i) eqn:Ej.
    + apply N.eqb_eq in Ej. subst j. exact HJ.
    + apply HG.
Qed.

Lemma run_link15 (indep : bool) t tm tr : 0 <= tr -> tr = (if indep then 0 else tm) ->
  forall evs obs s sp,
  (indep = true -> Forall ev_l1_wf evs) -> Forall ev_fill_wf evs ->
  GJ indep tr s sp ->
  fst (corr_run t tm s evs obs) = true ->
  Forall (fun v => v = 0%N \/ v = 1%N) (prop_run indep t tr sp evs obs).
Proof.
  intros Htr Etr. induction evs as [|e evs IH]; intros obs s sp Hl1 Hfw HG Hc.
  - destruct obs; [constructor|discriminate Hc].
  - destruct obs as [|o obs]; [discriminate Hc|]. cbn [corr_run] in Hc.
    destruct (istate_matches t tm (estep s (eevent_of e) (oroute e)) (fst o) &&
              omatch (exit_matches t) (exit_of_step s (eevent_of e)) (snd o)) eqn:Em;
      [|discriminate Hc].
    apply andb_prop in Em. destruct Em as [Em _].
    apply Forall_cons_iff in Hfw. destruct Hfw as [Hf1 Hf2].
    assert (Hl1e : indep = true -> ev_l1_wf e) by (intros Ei; specialize (Hl1 Ei); apply Forall_cons_iff in Hl1; tauto).
    assert (Hl1r : indep = true -> Forall ev_l1_wf evs) by (intros Ei; specialize (Hl1 Ei); apply Forall_cons_iff in Hl1; tauto).
    destruct (step_link15 indep t tm tr s sp e (fst o) Htr Etr Hl1e Hf1 HG Em) as [Hv HG'].
    cbn [prop_run]. constructor; [exact Hv|].
    apply (IH obs _ _ Hl1r Hf2 HG' Hc).
Qed.

Lemma tol_mid_nonneg evs : 0 <= tol_mid evs.
Proof.
  unfold tol_mid. rewrite Qred_correct.
  assert (H : 0 <= fold_right (fun e a => Qmaxq (ev_price e) a) 0 evs).
  { induction evs as [|x l IH]; cbn [fold_right]; [lra|]. apply Qmaxq_nonneg. exact IH. }
  set (p := fold_right _ 0 evs) in *. apply Qmult_le_0_compat; [lra|]. unfold tol18. reflexivity || (apply Qle_bool_iff; reflexivity).
Qed.

Lemma l1_times_wf_Forall evs : l1_times_wf evs = true -> Forall ev_l1_wf evs.
Proof.
  unfold l1_times_wf. rewrite forallb_forall. intros H. apply Forall_forall. intros e Hin.
  specialize (H e Hin). destruct e as [i rc [| t lt b a|]|f]; cbn [ev_l1_wf]; try exact I.
  apply Z.eqb_eq in H. symmetry. exact H.
Qed.

Lemma wf_case_fills n evs obs fin fr : wf_case (CEngine n evs obs fin fr) = true -> Forall ev_fill_wf evs.
Proof.
  cbn [wf_case]. rewrite forallb_forall. intros H. apply Forall_forall. intros e Hin.
  specialize (H e Hin). destruct e as [i rc m|f]; cbn [ev_fill_wf]; [exact I|].
  cbn [wf_event] in H. split_andb H. apply negb_true_iff, Qle_bool_false in H2. exact H2.
Qed.

(** the link theorem, modulo the known class *)
Theorem verdicts_sound : forall c, wf_case c = true -> corr_b c = true ->
  forallb (fun v => N.eqb v 0 || N.eqb v 1) (verdicts c) = true.
Proof.
  intros [n evs obs fin fr] Hwf Hcorr. cbn [corr_b verdicts] in *.
  split_andb Hcorr.
  set (indep := l1_times_wf evs) in *.
  set (tr := if indep then 0 else tol_mid evs).
  assert (Htr : 0 <= tr) by (unfold tr; destruct indep; [lra|apply tol_mid_nonneg]).
  pose proof (run_link15 indep (tols15 evs) (tol_mid evs) tr Htr eq_refl evs obs
                (fun _ => is0) (fun _ => spec0)) as H.
  apply forallb_forall. intros v Hin.
  assert (HF : Forall (fun v => v = 0%N \/ v = 1%N)
                 (prop_run indep (tols15 evs) tr (fun _ => spec0) evs obs)).
  { apply H; [intros Ei; apply l1_times_wf_Forall; exact Ei|
              exact (wf_case_fills _ _ _ _ _ Hwf)|apply GJ_init|exact Hcorr]. }
  rewrite Forall_forall in HF. destruct (HF v Hin) as [->| ->]; reflexivity.
Qed.

Lemma corr_rt_ok c : corr_b c = true -> rt_ok c = true.
Proof.
  destruct c as [n evs obs fin fr]. cbn [corr_b rt_ok]. intros H. split_andb H.
  apply andb_prop in H0. tauto.
Qed.

Theorem oracle_sound : forall c, wf_case c = true -> corr_b c = true ->
  prop_b c = true \/ known_b c = 1%N.
Proof.
  intros c Hwf Hcorr. right. unfold known_b.
  rewrite (verdicts_sound c Hwf Hcorr), (corr_rt_ok c Hcorr). reflexivity.
Qed.

Theorem judge_sound : forall c, wf_case c = true -> corr_b c = true ->
  judge c = 0%N \/ judge c = 101%N.
Proof.
  intros c Hwf Hcorr. pose proof (verdicts_sound c Hwf Hcorr) as Hv.
  unfold judge. rewrite Hwf, Hcorr. cbn [negb andb]. rewrite andb_false_r.
  unfold judge_code, known_b. rewrite Hv, (corr_rt_ok c Hcorr). destruct (prop_b c); [left|right]; reflexivity.
Qed.
