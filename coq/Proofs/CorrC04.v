(** C04: the oracle of Corr/C04.v is no stricter than the model: on every well-formed case on
    which the model reproduces the observation ([corr_b]), the oracle accepts ([prop_b]). *)
From BV Require Import Base.Common Model.Index Model.ExecMap Proofs.Index Proofs.ExecMap.
From BV Require Import Corr.C11 Proofs.CorrC11 Corr.C04.
From Coq Require Import Permutation.

(* ------------------------------------------------------------------------------------------ *)
(** * IndexSet *)

Lemma is_insert_fresh : forall s k, ~ In k s -> is_insert k s = s ++ [k].
Proof.
  induction s as [|a t IH]; intros k Hn; cbn [is_insert app]; [reflexivity|].
  destruct (N.eqb_spec a k) as [E|E]; [exfalso; apply Hn; now left|].
  rewrite IH; [reflexivity|]. intros H. apply Hn. now right.
Qed.
Lemma is_insert_nodup : forall s k, NoDup s -> NoDup (is_insert k s).
Proof.
  induction s as [|a t IH]; intros k Hn; cbn [is_insert]; [constructor; [intros []|constructor]|].
  destruct (N.eqb_spec a k) as [E|E]; [assumption|]. inversion Hn as [|? ? Hx Ht]; subst.
  constructor; [|now apply IH]. rewrite is_insert_in. intros [H|H]; [congruence|contradiction].
Qed.
Lemma is_collect_nodup : forall l, NoDup (is_collect l).
Proof.
  intros l. unfold is_collect.
  assert (G : forall l acc, NoDup acc -> NoDup (fold_left (fun s k => is_insert k s) l acc)).
  { clear l. induction l as [|a t IH]; intros acc Hn; cbn [fold_left]; [assumption|].
    apply IH. now apply is_insert_nodup. }
  apply G. constructor.
Qed.
Lemma is_collect_id : forall l, NoDup l -> is_collect l = l.
Proof.
  intros l. unfold is_collect.
  assert (G : forall l acc, NoDup (acc ++ l) -> fold_left (fun s k => is_insert k s) l acc = acc ++ l).
  { clear l. induction l as [|a t IH]; intros acc Hn; cbn [fold_left]; [now rewrite app_nil_r|].
    rewrite is_insert_fresh.
    - rewrite IH; rewrite <- app_assoc; [reflexivity|exact Hn].
    - apply NoDup_remove_2 in Hn. intros H. apply Hn. apply in_or_app. now left. }
  intros Hn. now rewrite G.
Qed.

(* ------------------------------------------------------------------------------------------ *)
(** * boolean equalities of Corr/C04.v *)

Lemma N3_sound : forall a b, N3_eqb a b = true -> a = b.
Proof. apply pair_eqb_sound; [apply NN_sound|apply N_sound]. Qed.
Lemma N3_refl : forall a, N3_eqb a a = true.
Proof. apply pair_eqb_refl; [apply NN_refl|apply N_refl]. Qed.
Lemma N4_sound : forall a b, N4_eqb a b = true -> a = b.
Proof. apply pair_eqb_sound; [apply N3_sound|apply N_sound]. Qed.
Lemma N4_refl : forall a, N4_eqb a a = true.
Proof. apply pair_eqb_refl; [apply N3_refl|apply N_refl]. Qed.
Lemma oN4_sound : forall a b, oN4_eqb a b = true -> a = b.
Proof. apply option_eqb_sound, N4_sound. Qed.
Lemma oN4_refl : forall a, oN4_eqb a a = true.
Proof. apply option_eqb_refl, N4_refl. Qed.
Lemma kerr_sound : forall a b, kerr_eqb a b = true -> a = b.
Proof. intros [] []; cbn; congruence. Qed.
Lemma ierr_sound : forall a b, ierr_eqb a b = true -> a = b.
Proof. intros [] []; cbn; congruence. Qed.
Lemma unit_refl : forall a, unit_eqb a a = true. Proof. reflexivity. Qed.

Lemma res_eqb_sound {E A} (ee : E -> E -> bool) (ea : A -> A -> bool) :
  (forall a b, ee a b = true -> a = b) -> (forall a b, ea a b = true -> a = b) ->
  forall a b, res_eqb ee ea a b = true -> a = b.
Proof. intros He Ha [a|a] [b|b]; cbn; try discriminate; intros H; f_equal; auto. Qed.
Lemma res_eqb_refl {E A} (ee : E -> E -> bool) (ea : A -> A -> bool) :
  (forall a, ee a a = true) -> (forall a, ea a a = true) -> forall a, res_eqb ee ea a a = true.
Proof. intros He Ha [a|a]; cbn; auto. Qed.

Lemma api_error_sound : forall a b, api_error_eqb a b = true -> a = b.
Proof. intros [|x|x|x|x] [|y|y|y|y]; cbn; try discriminate; try reflexivity; intros H; apply N.eqb_eq in H; now subst. Qed.
Lemma api_error_refl : forall a, api_error_eqb a a = true.
Proof. intros [|x|x|x|x]; cbn; try reflexivity; apply N.eqb_refl. Qed.
Lemma order_error_sound : forall a b, order_error_eqb a b = true -> a = b.
Proof. intros [|x] [|y]; cbn; try discriminate; [reflexivity|]. intros H. f_equal. now apply api_error_sound. Qed.
Lemma order_error_refl : forall a, order_error_eqb a a = true.
Proof. intros [|x]; cbn; [reflexivity|apply api_error_refl]. Qed.
Lemma order_state_sound : forall a b, order_state_eqb a b = true -> a = b.
Proof.
  intros [|x| | |] [|y| | |]; cbn; try discriminate; try reflexivity. intros H. f_equal.
  now apply order_error_sound.
Qed.
Lemma order_state_refl : forall a, order_state_eqb a a = true.
Proof. intros [|x| | |]; cbn; try reflexivity. apply order_error_refl. Qed.
Lemma osnap_sound : forall a b, osnap_eqb a b = true -> a = b.
Proof. apply pair_eqb_sound; [apply N3_sound|apply order_state_sound]. Qed.
Lemma osnap_refl : forall a, osnap_eqb a a = true.
Proof. apply pair_eqb_refl; [apply N3_refl|apply order_state_refl]. Qed.
Lemma kind_ev_sound : forall a b, kind_ev_eqb a b = true -> a = b.
Proof.
  intros [e1 b1 i1|x|x|k1 s1|x] [e2 b2 i2|y|y|k2 s2|y]; cbn; try discriminate.
  - rewrite !andb_true_iff. intros [[H1 H2] H3]. apply N.eqb_eq in H1.
    apply (list_eqb_sound _ NN_sound) in H2.
    apply (list_eqb_sound _ (pair_eqb_sound _ _ N_sound (list_eqb_sound _ osnap_sound))) in H3. now subst.
  - intros H. f_equal. now apply NN_sound.
  - intros H. f_equal. now apply osnap_sound.
  - rewrite andb_true_iff. intros [H1 H2]. apply N3_sound in H1.
    apply (option_eqb_sound _ order_error_sound) in H2. now subst.
  - intros H. f_equal. now apply NN_sound.
Qed.
Lemma kind_ev_refl : forall a, kind_ev_eqb a a = true.
Proof.
  intros [e1 b1 i1|x|x|k1 s1|x]; cbn.
  - rewrite N.eqb_refl, (list_eqb_refl _ NN_refl),
      (list_eqb_refl _ (pair_eqb_refl _ _ N_refl (list_eqb_refl _ osnap_refl))). reflexivity.
  - apply NN_refl.
  - apply osnap_refl.
  - now rewrite N3_refl, (option_eqb_refl _ order_error_refl).
  - apply NN_refl.
Qed.
Lemma event_sound : forall a b, event_eqb a b = true -> a = b.
Proof. apply pair_eqb_sound; [apply N_sound|apply kind_ev_sound]. Qed.
Lemma event_refl : forall a, event_eqb a a = true.
Proof. apply pair_eqb_refl; [apply N_refl|apply kind_ev_refl]. Qed.

Lemma probes_eq_sound {A R} (f : A -> R) (eqr : R -> R -> bool) :
  (forall a b, eqr a b = true -> a = b) ->
  forall l, probes_eq f eqr l = true -> forall q, In q l -> snd q = f (fst q).
Proof.
  intros Hs l H q Hq. unfold probes_eq in H. rewrite forallb_forall in H. symmetry. apply Hs. now apply H.
Qed.

(* ------------------------------------------------------------------------------------------ *)
(** * translation is monotone in the key lookups *)

Section Mono.
  Context {E1 E2 EK AK IK EK' AK' IK' : Type}.
  Variable fe : EK -> res E1 EK'.
  Variable fa : AK -> res E1 AK'.
  Variable fi : IK -> res E1 IK'.
  Variable ge : EK -> res E2 EK'.
  Variable ga : AK -> res E2 AK'.
  Variable gi : IK -> res E2 IK'.
  Hypothesis He : forall k k', fe k = Ok k' -> ge k = Ok k'.
  Hypothesis Ha : forall k k', fa k = Ok k' -> ga k = Ok k'.
  Hypothesis Hi : forall k k', fi k = Ok k' -> gi k = Ok k'.

  Lemma traverse_mono {A B} (f : A -> res E1 B) (g : A -> res E2 B) :
    (forall a b, f a = Ok b -> g a = Ok b) ->
    forall l l', traverse f l = Ok l' -> traverse g l = Ok l'.
  Proof.
    intros Hfg. induction l as [|a t IH]; intros l'; cbn [traverse].
    - intros H. injection H as <-. reflexivity.
    - destruct (f a) as [b|] eqn:Eb; cbn [bind]; [|discriminate].
      destruct (traverse f t) as [t'|] eqn:Et; cbn [rmap]; [|discriminate].
      intros H. injection H as <-. rewrite (Hfg _ _ Eb). cbn [bind]. now rewrite (IH _ eq_refl).
  Qed.

  Lemma api_error_mono : forall e e', tr_api_error fa fi e = Ok e' -> tr_api_error ga gi e = Ok e'.
  Proof.
    intros [|a|i|a|t] e'; cbn [tr_api_error]; try (intros H; injection H as <-; reflexivity).
    - destruct (fa a) as [a'|] eqn:Ea; cbn [rmap]; [|discriminate]. intros H. injection H as <-. now rewrite (Ha _ _ Ea).
    - destruct (fi i) as [i'|] eqn:Ei; cbn [rmap]; [|discriminate]. intros H. injection H as <-. now rewrite (Hi _ _ Ei).
    - destruct (fa a) as [a'|] eqn:Ea; cbn [rmap]; [|discriminate]. intros H. injection H as <-. now rewrite (Ha _ _ Ea).
  Qed.
  Lemma order_error_mono : forall e e', tr_order_error fa fi e = Ok e' -> tr_order_error ga gi e = Ok e'.
  Proof.
    intros [|a] e'; cbn [tr_order_error]; [intros H; injection H as <-; reflexivity|].
    destruct (tr_api_error fa fi a) as [a'|] eqn:Ea; cbn [rmap]; [|discriminate].
    intros H. injection H as <-. now rewrite (api_error_mono _ _ Ea).
  Qed.
  Lemma order_key_mono : forall k k', tr_order_key fe fi k = Ok k' -> tr_order_key ge gi k = Ok k'.
  Proof.
    intros [[e i] tag] k'. cbn [tr_order_key].
    destruct (fe e) as [e'|] eqn:Ee; cbn [bind]; [|discriminate].
    destruct (fi i) as [i'|] eqn:Ei; cbn [bind]; [|discriminate].
    intros H. injection H as <-. now rewrite (He _ _ Ee), (Hi _ _ Ei).
  Qed.
  Lemma order_state_mono : forall s s', tr_order_state fa fi s = Ok s' -> tr_order_state ga gi s = Ok s'.
  Proof.
    intros [|e| | |] s'; cbn [tr_order_state]; try (intros H; injection H as <-; reflexivity).
    destruct (tr_order_error fa fi e) as [e'|] eqn:Ee; cbn [rmap]; [|discriminate].
    intros H. injection H as <-. now rewrite (order_error_mono _ _ Ee).
  Qed.
  Lemma order_snapshot_mono : forall o o',
    tr_order_snapshot fe fa fi o = Ok o' -> tr_order_snapshot ge ga gi o = Ok o'.
  Proof.
    intros [k s] o'. unfold tr_order_snapshot. cbn [fst snd].
    destruct (tr_order_key fe fi k) as [k'|] eqn:Ek; cbn [bind]; [|discriminate].
    destruct (tr_order_state fa fi s) as [s'|] eqn:Es; cbn [bind]; [|discriminate].
    intros H. injection H as <-. now rewrite (order_key_mono _ _ Ek), (order_state_mono _ _ Es).
  Qed.
  Lemma balance_mono : forall b b', tr_balance fa b = Ok b' -> tr_balance ga b = Ok b'.
  Proof.
    intros [a t] b'. unfold tr_balance. cbn [fst snd].
    destruct (fa a) as [a'|] eqn:Ea; cbn [bind]; [|discriminate]. intros H. injection H as <-. now rewrite (Ha _ _ Ea).
  Qed.
  Lemma instrument_snapshot_mono : forall s s',
    tr_instrument_snapshot fe fa fi s = Ok s' -> tr_instrument_snapshot ge ga gi s = Ok s'.
  Proof.
    intros [i os] s'. unfold tr_instrument_snapshot. cbn [fst snd].
    destruct (fi i) as [i'|] eqn:Ei; cbn [bind]; [|discriminate].
    destruct (traverse (tr_order_snapshot fe fa fi) os) as [os'|] eqn:Eo; cbn [bind]; [|discriminate].
    intros H. injection H as <-. rewrite (Hi _ _ Ei). cbn [bind].
    now rewrite (traverse_mono _ _ order_snapshot_mono _ _ Eo).
  Qed.
  Lemma kind_mono : forall k k', tr_kind fe fa fi k = Ok k' -> tr_kind ge ga gi k = Ok k'.
  Proof.
    intros [ex bs ins|b|o|k st|t] k'; cbn [tr_kind].
    - destruct (fe ex) as [ex'|] eqn:Ee; cbn [bind]; [|discriminate].
      destruct (traverse (tr_balance fa) bs) as [bs'|] eqn:Eb; cbn [bind]; [|discriminate].
      destruct (traverse (tr_instrument_snapshot fe fa fi) ins) as [ins'|] eqn:Ei; cbn [bind]; [|discriminate].
      intros H. injection H as <-. rewrite (He _ _ Ee). cbn [bind].
      rewrite (traverse_mono _ _ balance_mono _ _ Eb). cbn [bind].
      now rewrite (traverse_mono _ _ instrument_snapshot_mono _ _ Ei).
    - destruct (tr_balance fa b) as [b'|] eqn:Eb; cbn [rmap]; [|discriminate].
      intros H. injection H as <-. now rewrite (balance_mono _ _ Eb).
    - destruct (tr_order_snapshot fe fa fi o) as [o'|] eqn:Eo; cbn [rmap]; [|discriminate].
      intros H. injection H as <-. now rewrite (order_snapshot_mono _ _ Eo).
    - destruct (tr_order_key fe fi k) as [k1|] eqn:Ek; cbn [bind]; [|discriminate].
      rewrite (order_key_mono _ _ Ek). cbn [bind]. destruct st as [e|]; [|intros H; injection H as <-; reflexivity].
      destruct (tr_order_error fa fi e) as [e'|] eqn:Ee; cbn [bind]; [|discriminate].
      intros H. injection H as <-. now rewrite (order_error_mono _ _ Ee).
    - destruct t as [i tag]. cbn [fst snd].
      destruct (fi i) as [i'|] eqn:Ei; cbn [bind]; [|discriminate]. intros H. injection H as <-. now rewrite (Hi _ _ Ei).
  Qed.
  Lemma event_mono : forall ev ev', tr_event fe fa fi ev = Ok ev' -> tr_event ge ga gi ev = Ok ev'.
  Proof.
    intros [e k] ev'. unfold tr_event. cbn [fst snd].
    destruct (fe e) as [e'|] eqn:Ee; cbn [bind]; [|discriminate].
    destruct (tr_kind fe fa fi k) as [k'|] eqn:Ek; cbn [bind]; [|discriminate].
    intros H. injection H as <-. now rewrite (He _ _ Ee), (kind_mono _ _ Ek).
  Qed.
End Mono.

(* ------------------------------------------------------------------------------------------ *)
(** * one exchange's map *)

Lemma sub_forallb : forall l l' : list N, (forall n, In n l -> In n l') ->
  forallb (fun n => memb N.eqb n l') l = true.
Proof. intros l l' H. apply forallb_forall. intros n Hn. apply (memb_of_In N.eqb N_refl). now apply H. Qed.

Lemma inbound_ok_of {A} (eqa : A -> A -> bool) (f : A -> res ierr A) (back spec : A -> res unit A) (hyp : bool) :
  (forall a, eqa a a = true) ->
  (forall a a', f a = Ok a' -> back a' = Ok a) ->
  (hyp = true -> forall a a', f a = Ok a' -> spec a = Ok a') ->
  (hyp = true -> forall a a', spec a = Ok a' -> f a = Ok a') ->
  forall l, (forall q, In q l -> snd q = f (fst q)) -> forallb (inbound_ok hyp eqa back spec) l = true.
Proof.
  intros Hr Hs Hc1 Hc2 l Hl. apply forallb_forall. intros q Hq. unfold inbound_ok. rewrite (Hl q Hq).
  destruct (f (fst q)) as [a'|err] eqn:Ef.
  - rewrite (Hs _ _ Ef). cbn [res_eqb]. rewrite Hr. cbn [andb]. destruct hyp; [|reflexivity].
    rewrite (Hc1 eq_refl _ _ Ef). cbn. apply Hr.
  - destruct hyp; [|reflexivity]. destruct (spec (fst q)) as [a''|] eqn:Es; [|reflexivity].
    rewrite (Hc2 eq_refl _ _ Es) in Ef. discriminate.
Qed.

Section OneMap.
  Variable x : indexed.
  Variable e : N.
  Variable m : emap.
  Hypothesis Hwf : indexed_wf x.
  Hypothesis Hg : gen_map x e = Some m.

  Lemma Ka : NoDup (map fst (filter_assets x e)).
  Proof. apply filter_assets_keys. apply Hwf. Qed.
  Lemma Ki : NoDup (map fst (filter_instruments x e)).
  Proof. apply filter_instruments_keys. apply Hwf. Qed.
  Lemma Sa : names_distinct_b x e = true -> NoDup (map snd (filter_assets x e)).
  Proof.
    intros H. destruct (names_distinct_b_sound x e Hwf H) as [Hd _].
    apply filter_assets_names; [apply Hwf|exact Hd].
  Qed.
  Lemma Si : names_distinct_b x e = true -> NoDup (map snd (filter_instruments x e)).
  Proof.
    intros H. destruct (names_distinct_b_sound x e Hwf H) as [_ Hd].
    apply filter_instruments_names; [apply Hwf|exact Hd].
  Qed.
  Lemma Ma : m_asset_names m = names_of (filter_assets x e).
  Proof. destruct (gen_map_inv x e m Hg) as [ek [_ [_ [H _]]]]. exact H. Qed.
  Lemma Mi : m_instrument_names m = names_of (filter_instruments x e).
  Proof. destruct (gen_map_inv x e m Hg) as [ek [_ [_ [_ [H _]]]]]. exact H. Qed.
  Lemma La : m_assets m = is_collect (map snd (filter_assets x e)).
  Proof.
    destruct (gen_map_inv x e m Hg) as [ek [_ [_ [_ [_ [H _]]]]]]. rewrite H.
    now rewrite (im_collect_nodup N.eqb (fun a b => proj1 (N.eqb_eq a b)) _ Ka).
  Qed.
  Lemma Li : m_instruments m = is_collect (map snd (filter_instruments x e)).
  Proof.
    destruct (gen_map_inv x e m Hg) as [ek [_ [_ [_ [_ [_ H]]]]]]. rewrite H.
    now rewrite (im_collect_nodup N.eqb (fun a b => proj1 (N.eqb_eq a b)) _ Ki).
  Qed.
  Lemma Ex : exists ek, m_exchange m = (ek, e) /\ exchange_index_of x e = Some ek /\
                        find_exchange (x_exchanges x) ek = Some e.
  Proof.
    destruct (gen_map_inv x e m Hg) as [ek [Hf [Hm _]]]. exists ek. split; [assumption|]. split; [exact Hf|].
    destruct (proj2 (gen_map_exchange x e Hwf) m Hg) as [ek' [Hm' [Hfe _]]]. congruence.
  Qed.

  Lemma exchange_ok : forall key ex_id ex_ix, key = m_exchange m ->
    (forall q, In q ex_id -> snd q = find_exchange_id m (fst q)) ->
    (forall q, In q ex_ix -> snd q = find_exchange_ix m (fst q)) ->
    oN_eqb (exchange_index_of x e) (Some (fst key)) = true /\ N.eqb (snd key) e = true /\
    forallb (fun q => match snd q with
                      | Some e' => N.eqb e' e && N.eqb (fst q) (fst key)
                      | None => negb (N.eqb (fst q) (fst key))
                      end) ex_id = true /\
    forallb (fun q => match snd q with
                      | Some k => N.eqb (fst q) e && N.eqb k (fst key)
                      | None => negb (N.eqb (fst q) e)
                      end) ex_ix = true.
  Proof.
    intros key l1 l2 -> H1 H2. destruct Ex as [ek [Hm [Hx _]]]. rewrite Hm, Hx. cbn [fst snd].
    split; [apply oN_refl|]. split; [apply N.eqb_refl|]. split; apply forallb_forall; intros q Hq.
    - rewrite (H1 q Hq). unfold find_exchange_id. rewrite Hm. cbn [fst snd].
      destruct (N.eqb_spec ek (fst q)) as [E|E].
      + now rewrite N.eqb_refl, <- E, N.eqb_refl.
      + destruct (N.eqb_spec (fst q) ek); [congruence|reflexivity].
    - rewrite (H2 q Hq). unfold find_exchange_ix. rewrite Hm. cbn [fst snd].
      destruct (N.eqb_spec e (fst q)) as [E|E].
      + now rewrite <- E, !N.eqb_refl.
      + destruct (N.eqb_spec (fst q) e); [congruence|reflexivity].
  Qed.

  Lemma list_ok : forall (F : list (N * N)) l, l = is_collect (map snd F) ->
    forallb (fun n => memb N.eqb n (map snd F)) l = true /\
    forallb (fun n => memb N.eqb n l) (map snd F) = true /\ nodupb N.eqb l = true.
  Proof.
    intros F l ->. split; [|split].
    - apply sub_forallb. intros n. apply is_collect_in.
    - apply sub_forallb. intros n. apply is_collect_in.
    - apply (nodupb_of_NoDup N.eqb N_sound). apply is_collect_nodup.
  Qed.

  Lemma table_ok : forall (F : list (N * N)) tbl, NoDup (map fst F) -> tbl = sort_names (names_of F) ->
    forallb (fun nv => memb NN_eqb (snd nv, fst nv) F) tbl = true /\
    nodupb N.eqb (map fst tbl) = true /\
    forallb (fun n => memb N.eqb n (map fst tbl)) (map snd F) = true.
  Proof.
    intros F tbl Hk ->. unfold sort_names. split; [|split].
    - apply forallb_forall. intros [n k] Hin. apply in_sort in Hin. apply names_of_in in Hin.
      now apply (memb_of_In NN_eqb NN_refl).
    - apply (nodupb_of_NoDup N.eqb N_sound).
      apply (Permutation_NoDup (l := map fst (names_of F))); [|apply names_of_keys].
      apply Permutation_map. apply Permutation_sym. apply sort_perm.
    - apply sub_forallb. intros n Hn. destruct (G4 F n Hk Hn) as [k Hk'].
      apply index_of_name_some in Hk'. apply in_map_iff. exists (n, k). split; [reflexivity|].
      now apply in_sort.
  Qed.

  Lemma requests_ok : forall l, (forall q, In q l -> snd q = order_request m (fst q)) ->
    forallb (request_ok (names_distinct_b x e) x e) l = true.
  Proof.
    intros l Hl. apply forallb_forall. intros q Hq. unfold request_ok. rewrite (Hl q Hq).
    destruct (fst q) as [[ek' ik] tag]. destruct Ex as [ek [Hm [Hx _]]]. rewrite Hx.
    unfold order_request, find_exchange_id, find_instrument_name. rewrite Hm, Mi. cbn [fst snd].
    change (own_instruments x e) with (filter_instruments x e).
    cbn [oN_eqb option_eqb]. destruct (N.eqb_spec ek ek') as [E|E]; cbn [of_opt bind].
    - destruct (name_of_index (names_of (filter_instruments x e)) ik) as [n|] eqn:En; cbn [of_opt bind].
      + destruct (G1 _ _ _ En) as [Hin _]. rewrite (name_of_nodup _ _ _ Ki Hin).
        now rewrite !N.eqb_refl, oN_refl.
      + destruct (name_of (filter_instruments x e) ik) as [n|] eqn:En'; [|reflexivity].
        destruct (names_distinct_b x e) eqn:Eh; [|reflexivity]. exfalso.
        apply name_of_in in En'. rewrite (G3 _ _ _ Ki (Si Eh) En') in En. discriminate.
    - reflexivity.
  Qed.

  (** pointwise agreement of the lookups *)
  Lemma px_sound : forall k k', ix_exchange m k = Ok k' -> back_exchange x e k' = Ok k.
  Proof. intros k k'. now apply ix_exchange_back. Qed.
  Lemma pa_sound : forall k k', ix_asset m k = Ok k' -> back_asset x e k' = Ok k.
  Proof. intros k k'. now apply ix_asset_back. Qed.
  Lemma pi_sound : forall k k', ix_instrument m k = Ok k' -> back_instrument x e k' = Ok k.
  Proof. intros k k'. now apply ix_instrument_back. Qed.

  Lemma px_spec : forall k k', ix_exchange m k = Ok k' <-> spec_exchange x e k = Ok k'.
  Proof.
    intros k k'. destruct Ex as [ek [Hm [Hx _]]]. unfold ix_exchange, find_exchange_ix, spec_exchange.
    rewrite Hm, Hx. cbn [fst snd of_opt]. rewrite (N.eqb_sym k e).
    destruct (N.eqb e k); cbn [of_opt]; split; intros H; try discriminate; injection H as <-; reflexivity.
  Qed.
  Lemma pname_spec : forall (F : list (N * N)) n k, NoDup (map fst F) -> NoDup (map snd F) ->
    (index_of_name (names_of F) n = Some k <-> index_of F n = Some k).
  Proof.
    intros F n k Hk Hs. split; intros H.
    - destruct (G2 F k n Hk H) as [Hin _]. now apply index_of_nodup.
    - apply index_of_in in H. pose proof (G3 F k n Hk Hs H) as H3. now destruct (G1 F k n H3).
  Qed.
  Lemma pa_spec : names_distinct_b x e = true -> forall n k,
    ix_asset m n = Ok k <-> spec_ix (own_assets x e) n = Ok k.
  Proof.
    intros Hh n k. unfold ix_asset, find_asset_ix, spec_ix. rewrite Ma.
    change (own_assets x e) with (filter_assets x e). split; intros H.
    - destruct (index_of_name (names_of (filter_assets x e)) n) as [k1|] eqn:E1; cbn [of_opt] in H; [|discriminate].
      injection H as <-. apply (proj1 (pname_spec _ n k1 Ka (Sa Hh))) in E1. now rewrite E1.
    - destruct (index_of (filter_assets x e) n) as [k2|] eqn:E2; cbn [of_opt] in H; [|discriminate].
      injection H as <-. apply (proj2 (pname_spec _ n k2 Ka (Sa Hh))) in E2. now rewrite E2.
  Qed.
  Lemma pi_spec : names_distinct_b x e = true -> forall n k,
    ix_instrument m n = Ok k <-> spec_ix (own_instruments x e) n = Ok k.
  Proof.
    intros Hh n k. unfold ix_instrument, find_instrument_ix, spec_ix. rewrite Mi.
    change (own_instruments x e) with (filter_instruments x e). split; intros H.
    - destruct (index_of_name (names_of (filter_instruments x e)) n) as [k1|] eqn:E1; cbn [of_opt] in H; [|discriminate].
      injection H as <-. apply (proj1 (pname_spec _ n k1 Ki (Si Hh))) in E1. now rewrite E1.
    - destruct (index_of (filter_instruments x e) n) as [k2|] eqn:E2; cbn [of_opt] in H; [|discriminate].
      injection H as <-. apply (proj2 (pname_spec _ n k2 Ki (Si Hh))) in E2. now rewrite E2.
  Qed.
End OneMap.

Lemma trade_inv {E1 E2} (f : N -> res E1 N) (g : N -> res E2 N) :
  (forall k k', f k = Ok k' -> g k' = Ok k) ->
  forall t t' : N * N, bind (f (fst t)) (fun i => Ok (i, snd t)) = Ok t' ->
                       bind (g (fst t')) (fun i => Ok (i, snd t')) = Ok t.
Proof.
  intros H [i tag] t'. cbn [fst snd]. destruct (f i) as [i'|] eqn:E; cbn [bind]; [|discriminate].
  intros H'. injection H' as <-. cbn [fst snd]. now rewrite (H _ _ E).
Qed.
Lemma trade_mono {E1 E2} (f : N -> res E1 N) (g : N -> res E2 N) :
  (forall k k', f k = Ok k' -> g k = Ok k') ->
  forall t t' : N * N, bind (f (fst t)) (fun i => Ok (i, snd t)) = Ok t' ->
                       bind (g (fst t)) (fun i => Ok (i, snd t)) = Ok t'.
Proof.
  intros H [i tag] t'. cbn [fst snd]. destruct (f i) as [i'|] eqn:E; cbn [bind]; [|discriminate].
  intros H'. injection H' as <-. now rewrite (H _ _ E).
Qed.

Lemma map_ok_of : forall x e m o, indexed_wf x -> gen_map x e = Some m ->
  map_corr m o = true -> map_ok x e o = true.
Proof.
  intros x e m o Hwf Hg Hc. unfold map_corr in Hc. rewrite !andb_true_iff in Hc.
  destruct Hc as [[[[[[[[[[[[[[[C1 C2] C3] C4] C5] C6] C7] C8] C9] C10] C11] C12] C13] C14] C15] C16].
  apply NN_sound in C1. apply (list_eqb_sound _ N_sound) in C2, C3.
  apply (list_eqb_sound _ NN_sound) in C4, C5.
  pose proof (probes_eq_sound _ _ oN_sound _ C6) as P6.
  pose proof (probes_eq_sound _ _ oN_sound _ C7) as P7.
  pose proof (probes_eq_sound _ _ oN_sound _ C8) as P8.
  pose proof (probes_eq_sound _ _ oN_sound _ C9) as P9.
  pose proof (probes_eq_sound _ _ oN_sound _ C10) as P10.
  pose proof (probes_eq_sound _ _ oN_sound _ C11) as P11.
  pose proof (probes_eq_sound _ _ (res_eqb_sound _ _ kerr_sound N3_sound) _ C12) as P12.
  pose proof (probes_eq_sound _ _ (res_eqb_sound _ _ ierr_sound N3_sound) _ C13) as P13.
  pose proof (probes_eq_sound _ _ (res_eqb_sound _ _ ierr_sound NN_sound) _ C14) as P14.
  pose proof (probes_eq_sound _ _ (res_eqb_sound _ _ ierr_sound NN_sound) _ C15) as P15.
  pose proof (probes_eq_sound _ _ (res_eqb_sound _ _ ierr_sound event_sound) _ C16) as P16.
  clear C6 C7 C8 C9 C10 C11 C12 C13 C14 C15 C16.
  destruct (exchange_ok x e m Hwf Hg (om_key o) (om_ex_id o) (om_ex_ix o) (eq_sym C1) P6 P7)
    as [X1 [X2 [X3 X4]]].
  rewrite (La x e m Hwf Hg) in C2. rewrite (Li x e m Hwf Hg) in C3.
  rewrite (Ma x e m Hg) in C4. rewrite (Mi x e m Hg) in C5.
  destruct (list_ok (filter_assets x e) (om_assets o) (eq_sym C2)) as [A1 [A2 A3]].
  destruct (list_ok (filter_instruments x e) (om_instruments o) (eq_sym C3)) as [I1 [I2 I3]].
  destruct (table_ok (filter_assets x e) (om_asset_names o) (Ka x e Hwf) (eq_sym C4)) as [TA1 [TA2 TA3]].
  destruct (table_ok (filter_instruments x e) (om_instrument_names o) (Ki x e Hwf) (eq_sym C5)) as [TI1 [TI2 TI3]].
  assert (Q8 : forall q, In q (om_as_name o) -> snd q = name_of_index (names_of (filter_assets x e)) (fst q)).
  { intros q Hq. rewrite (P8 q Hq). unfold find_asset_name. now rewrite (Ma x e m Hg). }
  assert (Q9 : forall q, In q (om_as_ix o) -> snd q = index_of_name (names_of (filter_assets x e)) (fst q)).
  { intros q Hq. rewrite (P9 q Hq). unfold find_asset_ix. now rewrite (Ma x e m Hg). }
  assert (Q10 : forall q, In q (om_in_name o) -> snd q = name_of_index (names_of (filter_instruments x e)) (fst q)).
  { intros q Hq. rewrite (P10 q Hq). unfold find_instrument_name. now rewrite (Mi x e m Hg). }
  assert (Q11 : forall q, In q (om_in_ix o) -> snd q = index_of_name (names_of (filter_instruments x e)) (fst q)).
  { intros q Hq. rewrite (P11 q Hq). unfold find_instrument_ix. now rewrite (Mi x e m Hg). }
  pose proof (px_sound x e m Hwf Hg) as SX. pose proof (pa_sound x e m Hwf Hg) as SA.
  pose proof (pi_sound x e m Hwf Hg) as SI.
  pose proof (px_spec x e m Hwf Hg) as EX.
  unfold map_ok. cbv zeta. rewrite !andb_true_iff. repeat split; try assumption.
  - (* lists in index order *)
    destruct (names_distinct_b x e) eqn:Eh; [|reflexivity].
    rewrite <- C2, <- C3. change (own_assets x e) with (filter_assets x e).
    change (own_instruments x e) with (filter_instruments x e).
    rewrite (is_collect_id _ (Sa x e Hwf Eh)), (is_collect_id _ (Si x e Hwf Eh)).
    now rewrite !(list_eqb_refl _ N_refl).
  - exact (names_ok_of _ _ _ _ (Ka x e Hwf) (Sa x e Hwf) Q8 Q9).
  - exact (names_ok_of _ _ _ _ (Ki x e Hwf) (Si x e Hwf) Q10 Q11).
  - now apply (requests_ok x e m Hwf Hg).
  - apply (inbound_ok_of N3_eqb (order_key m)); [exact N3_refl| | | |exact P13].
    + intros a a' H. unfold order_key in H. exact (order_key_inverse _ _ _ _ SX SI _ _ H).
    + intros Hh a a' H. unfold order_key in H.
      exact (order_key_mono _ _ _ _ (fun k k' => proj1 (EX k k')) (fun k k' => proj1 (pi_spec x e m Hwf Hg Hh k k')) _ _ H).
    + intros Hh a a' H. unfold order_key.
      exact (order_key_mono _ _ _ _ (fun k k' => proj2 (EX k k')) (fun k k' => proj2 (pi_spec x e m Hwf Hg Hh k k')) _ _ H).
  - apply (inbound_ok_of NN_eqb (trade m)); [exact NN_refl| | | |exact P14].
    + intros a a' H. unfold trade in H. exact (trade_inv _ _ SI _ _ H).
    + intros Hh a a' H. unfold trade in H.
      exact (trade_mono _ _ (fun k k' => proj1 (pi_spec x e m Hwf Hg Hh k k')) _ _ H).
    + intros Hh a a' H. unfold trade.
      exact (trade_mono _ _ (fun k k' => proj2 (pi_spec x e m Hwf Hg Hh k k')) _ _ H).
  - apply (inbound_ok_of NN_eqb (asset_balance m)); [exact NN_refl| | | |exact P15].
    + intros a a' H. unfold asset_balance in H. exact (balance_inverse _ _ SA _ _ H).
    + intros Hh a a' H. unfold asset_balance in H.
      exact (balance_mono _ _ (fun k k' => proj1 (pa_spec x e m Hwf Hg Hh k k')) _ _ H).
    + intros Hh a a' H. unfold asset_balance.
      exact (balance_mono _ _ (fun k k' => proj2 (pa_spec x e m Hwf Hg Hh k k')) _ _ H).
  - apply (inbound_ok_of event_eqb (account_event m)); [exact event_refl| | | |exact P16].
    + intros a a' H. exact (account_event_sound x e m a a' Hwf Hg H).
    + intros Hh a a' H. unfold account_event in H.
      exact (event_mono _ _ _ _ _ _ (fun k k' => proj1 (EX k k'))
               (fun k k' => proj1 (pa_spec x e m Hwf Hg Hh k k'))
               (fun k k' => proj1 (pi_spec x e m Hwf Hg Hh k k')) _ _ H).
    + intros Hh a a' H. unfold account_event.
      exact (event_mono _ _ _ _ _ _ (fun k k' => proj2 (EX k k'))
               (fun k k' => proj2 (pa_spec x e m Hwf Hg Hh k k'))
               (fun k k' => proj2 (pi_spec x e m Hwf Hg Hh k k')) _ _ H).
Qed.

(* ------------------------------------------------------------------------------------------ *)
(** * the running system *)

(** a request on the link of the exchange that owns the instrument, names distinct there *)
Definition well_routed (x : indexed) (rq : N * N * N) : bool :=
  match find_exchange (x_exchanges x) (fst (fst rq)) with
  | Some e => names_distinct_b x e && is_some (name_of (own_instruments x e) (snd (fst rq)))
  | None => false
  end.
(** every request but the last one is well routed (so no manager is gone before the last) *)
Fixpoint e2e_dom (x : indexed)
         (l : list ((N * N * N) * option (N * N * N * N) * option (N * N * N * N))) : bool :=
  match l with
  | [] => true
  | q :: t => match t with [] => true | _ => well_routed x (fst (fst q)) && e2e_dom x t end
  end.

Lemma gen_map_some : forall x e k, indexed_wf x -> find_exchange (x_exchanges x) k = Some e ->
  exists m, gen_map x e = Some m.
Proof.
  intros x e k Hwf H. destruct (gen_map x e) as [m|] eqn:E; [eexists; reflexivity|].
  exfalso. apply (proj1 (gen_map_exchange x e Hwf)) in E. apply E.
  apply in_map_iff. exists (k, e). split; [reflexivity|]. now apply find_value_some.
Qed.

Lemma own_owner : forall x e ik n, indexed_wf x ->
  (name_of (own_instruments x e) ik = Some n <-> instrument_owner x ik = Some (e, n)).
Proof.
  intros x e ik n Hwf. change (own_instruments x e) with (filter_instruments x e). split; intros H.
  - apply name_of_in in H. apply instrument_owner_in; [apply Hwf|]. now apply in_filter_instruments.
  - apply name_of_nodup; [apply Ki; assumption|]. apply in_filter_instruments.
    apply instrument_owner_in; [apply Hwf|assumption].
Qed.

Lemma e2e_model_own : forall x ek ik cid e n, indexed_wf x ->
  find_exchange (x_exchanges x) ek = Some e -> names_distinct_b x e = true ->
  name_of (own_instruments x e) ik = Some n ->
  e2e_model x (ek, ik, cid) = (Some (e, e, n, cid), Some (ek, ek, ik, cid)).
Proof.
  intros x ek ik cid e n Hwf He Hh Hn. destruct (gen_map_some x e ek Hwf He) as [m Hg].
  pose proof (names_distinct_b_sound x e Hwf Hh) as Hd.
  apply (own_owner x e ik n Hwf) in Hn.
  unfold e2e_model. rewrite He, Hg.
  rewrite (order_request_complete x e m ek ik cid n Hwf Hd Hg He Hn).
  assert (B1 : back_exchange x e ek = Ok e) by (unfold back_exchange; now rewrite He, N.eqb_refl).
  assert (B2 : back_instrument x e ik = Ok n) by (unfold back_instrument; now rewrite Hn, N.eqb_refl).
  apply (back_exchange_ix x e m ek e Hwf Hg) in B1.
  apply (back_instrument_ix x e m n ik Hwf Hd Hg) in B2.
  unfold order_key, tr_order_key. rewrite B1. cbn [bind]. rewrite B2. reflexivity.
Qed.

Lemma e2e_model_foreign : forall x ek ik cid e, indexed_wf x ->
  find_exchange (x_exchanges x) ek = Some e -> name_of (own_instruments x e) ik = None ->
  e2e_model x (ek, ik, cid) = (None, None).
Proof.
  intros x ek ik cid e Hwf He Hn. destruct (gen_map_some x e ek Hwf He) as [m Hg].
  unfold e2e_model. rewrite He, Hg.
  destruct (order_request m (ek, ik, cid)) as [[[e' n] cid']|err] eqn:E; [|reflexivity].
  exfalso. destruct (order_request_sound _ _ _ _ _ _ _ _ _ Hwf Hg E) as [_ [_ [_ Ho]]].
  apply (own_owner x e ik n Hwf) in Ho. congruence.
Qed.

Lemma e2e_ok_of : forall x l, indexed_wf x -> e2e_dom x l = true -> e2e_corr x [] l = true ->
  forallb (e2e_ok x) l = true.
Proof.
  intros x l Hwf. induction l as [|q t IH]; intros Hd Hc; [reflexivity|].
  destruct q as [[[[ek ik] cid] o1] o2]. cbn [e2e_corr fst snd memb existsb] in Hc.
  rewrite !andb_true_iff in Hc. destruct Hc as [[C1 C2] C3].
  apply oN4_sound in C1, C2.
  cbn [forallb]. apply andb_true_iff. split.
  - unfold e2e_ok. cbn [fst snd].
    destruct (find_exchange (x_exchanges x) ek) as [e|] eqn:He; [|reflexivity].
    destruct (name_of (own_instruments x e) ik) as [n|] eqn:Hn.
    + destruct (names_distinct_b x e) eqn:Hh; [|reflexivity].
      rewrite (e2e_model_own x ek ik cid e n Hwf He Hh Hn) in C1, C2. cbn [fst snd] in C1, C2.
      rewrite <- C1, <- C2. now rewrite !oN4_refl.
    + rewrite (e2e_model_foreign x ek ik cid e Hwf He Hn) in C1. cbn [fst] in C1. now rewrite <- C1.
  - destruct t as [|q' t']; [reflexivity|]. apply IH.
    + cbn [e2e_dom] in Hd. apply andb_true_iff in Hd. apply Hd.
    + cbn [e2e_dom] in Hd. apply andb_true_iff in Hd. destruct Hd as [Hr _].
      unfold well_routed in Hr. cbn [fst snd] in Hr.
      destruct (find_exchange (x_exchanges x) ek) as [e|] eqn:He; [|discriminate].
      apply andb_true_iff in Hr. destruct Hr as [Hh Hs]. apply is_some_true in Hs. destruct Hs as [n Hn].
      rewrite (e2e_model_own x ek ik cid e n Hwf He Hh Hn) in C3. cbn [fst] in C3. exact C3.
Qed.

(* ------------------------------------------------------------------------------------------ *)
(** * the link theorem *)

(** well-formed cases: the definition key is faithful, and in the end-to-end part only the last
    request may be one that its manager cannot translate (the harness sends the single misrouted
    request last; collections breaking the name hypothesis on a routed exchange are outside) *)
Definition wf_case04 (c : case) : bool :=
  match c with
  | CMap defs xo maps snaps e2e =>
      faithful_b defs && match xo with Some x => e2e_dom x e2e | None => true end
  end.

Theorem oracle_sound04 : forall c, wf_case04 c = true -> corr_b c = true -> prop_b c = true.
Proof.
  intros [defs xo maps snaps e2e] Hw Hc. cbn [wf_case04] in Hw. apply andb_true_iff in Hw.
  destruct Hw as [_ Hdom]. destruct (build_total defs) as [x Hb].
  pose proof (build_indexed_wf defs x Hb) as Hwf.
  cbn [corr_b] in Hc. rewrite Hb in Hc. cbv iota in Hc. rewrite !andb_true_iff in Hc.
  destruct Hc as [HA [[HM HS] HE]].
  destruct xo as [x'|]; [|discriminate HA]. cbn in HA. apply indexed_sound in HA. subst x'.
  rewrite forallb_forall in HM, HS.
  cbn [prop_b]. rewrite !andb_true_iff. repeat split.
  - apply forallb_forall. intros em Hem. specialize (HM em Hem).
    destruct (gen_map x (fst em)) as [m|] eqn:Hg; destruct (snd em) as [o|]; try discriminate.
    + apply andb_true_iff. split; [|now apply (map_ok_of x (fst em) m)].
      apply (memb_of_In N.eqb N_refl).
      destruct (in_dec N.eq_dec (fst em) (map snd (x_exchanges x))) as [Hin|Hn]; [assumption|].
      apply (proj1 (gen_map_exchange x (fst em) Hwf)) in Hn. congruence.
    + apply (not_memb N.eqb N_sound). now apply (proj1 (gen_map_exchange x (fst em) Hwf)).
  - apply forallb_forall. intros s Hs. specialize (HS s Hs). cbv zeta.
    destruct (gen_map x (fst (fst s))) as [m|] eqn:Hg; [|discriminate].
    apply andb_true_iff in HS. destruct HS as [S1 S2]. apply (list_eqb_sound _ N_sound) in S1, S2.
    rewrite (La x _ m Hwf Hg) in S1. rewrite (Li x _ m Hwf Hg) in S2.
    destruct (list_ok (filter_assets x (fst (fst s))) _ (eq_sym S1)) as [A1 [A2 _]].
    destruct (list_ok (filter_instruments x (fst (fst s))) _ (eq_sym S2)) as [I1 [I2 _]].
    rewrite !andb_true_iff. repeat split; assumption.
  - now apply e2e_ok_of.
Qed.
