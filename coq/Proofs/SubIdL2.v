(** Lemmas for the Binance OrderBooksL2 attribution model (Model/SubIdL2.v). *)
From Coq Require Import String List ZArith NArith Bool Lia.
From BV Require Import Model.SubId Proofs.SubId Model.SubIdL2.
From BV Require Model.BinanceSeq.
Import ListNotations.
Local Open Scope string_scope.

Lemma l2_channel_no_bar : has_bar l2_channel = false.
Proof. reflexivity. Qed.

Definition distinct_l2_symbols (e : exch) (subs : list sub) : Prop :=
  forall s1 s2, In s1 subs -> In s2 subs ->
    venue_symbol e (snd s1) = venue_symbol e (snd s2) -> fst s1 = fst s2.

(** the table built by [init] binds an id to the key of the mapper's table and to a sequencer
    seeded with the snapshot fetched for that key *)
Lemma l2_init_entry : forall e subs snaps t id,
  l2_init e subs snaps = Some t ->
  t id = match l2_map_subs e subs id with
         | Some k => match snap_of snaps k with
                     | Some sn => Some (k, BinanceSeq.seq_new (snd sn))
                     | None => None
                     end
         | None => None
         end.
Proof.
  intros e subs snaps t id H. unfold l2_init in H.
  destruct (forallb _ subs); [|discriminate]. now injection H as <-.
Qed.

Lemma first_valid_admitted : forall e l m,
  first_update_valid e l m = true ->
  BinanceSeq.validate_sequence (venue_of e) (BinanceSeq.seq_new l) (seq_msg m)
  = (BinanceSeq.advance (venue_of e) (BinanceSeq.seq_new l) (seq_msg m), BinanceSeq.VOk).
Proof.
  intros e l m H. unfold first_update_valid in H.
  unfold BinanceSeq.validate_sequence, BinanceSeq.is_stale, BinanceSeq.is_first_update, BinanceSeq.first_ok,
         BinanceSeq.seq_new, seq_msg.
  destruct (venue_of e); cbn [BinanceSeq.m_u BinanceSeq.m_U BinanceSeq.sq_last BinanceSeq.sq_ups] in *;
  apply andb_true_iff in H as [H1 H2]; apply N.leb_le in H1, H2.
  - assert (E : N.leb (l_u m) l = false) by (apply N.leb_gt; lia). rewrite E. cbn [N.eqb].
    assert (E1 : N.leb (l_U m) (l + 1) = true) by (apply N.leb_le; lia).
    assert (E2 : N.leb (l + 1) (l_u m) = true) by (apply N.leb_le; lia). now rewrite E1, E2.
  - assert (E : N.ltb (l_u m) l = false) by (apply N.ltb_ge; lia). rewrite E. cbn [N.eqb].
    assert (E1 : N.leb (l_U m) l = true) by (apply N.leb_le; lia).
    assert (E2 : N.leb l (l_u m) = true) by (apply N.leb_le; lia). now rewrite E1, E2.
Qed.

Lemma l2_attributed : forall e subs snaps t s l m,
  In s subs -> strikes_plain subs -> distinct_l2_symbols e subs ->
  l2_init e subs snaps = Some t ->
  snap_of snaps (fst s) = Some (fst s, l) ->
  l_sym m = venue_symbol e (snd s) ->
  first_update_valid e l m = true ->
  snd (l2_transform e t m) = L2Out [l2_event e (fst s) m].
Proof.
  intros e subs snaps t s l m Hin Hp Hd Hinit Hsnap Hsym Hvalid.
  unfold l2_transform. rewrite (l2_init_entry _ _ _ _ _ Hinit).
  rewrite Hsym, <- market_is_venue_symbol by (now apply Hp). fold (l2_sid e s).
  unfold l2_map_subs. rewrite map_ids_hit; [|assumption|].
  - rewrite Hsnap. cbn [snd fst]. rewrite (first_valid_admitted _ _ _ Hvalid). reflexivity.
  - intros s' Hin' E. unfold l2_sid in E. apply sub_id_inj_market in E.
    apply Hd; try assumption. now rewrite <- !market_is_venue_symbol by (now apply Hp).
Qed.

Lemma l2_rejected : forall e subs snaps t m,
  strikes_plain subs -> l2_init e subs snaps = Some t ->
  (forall s, In s subs -> venue_symbol e (snd s) <> l_sym m) ->
  l2_transform e t m = (t, L2Out [L2Unident (sub_id l2_channel (l_sym m))]).
Proof.
  intros e subs snaps t m Hp Hinit Hno. unfold l2_transform.
  rewrite (l2_init_entry _ _ _ _ _ Hinit). unfold l2_map_subs. rewrite map_ids_miss; [reflexivity|].
  intros s Hin E. unfold l2_sid in E. apply sub_id_inj_market in E.
  apply (Hno s Hin). now rewrite <- market_is_venue_symbol by (now apply Hp).
Qed.

(** invariant of the transformer's table: keys never change *)
Definition tab_keys_ok (e : exch) (subs : list sub) (t : l2tab) : Prop :=
  forall id k sq, t id = Some (k, sq) -> l2_map_subs e subs id = Some k.

Lemma l2_init_keys_ok : forall e subs snaps t, l2_init e subs snaps = Some t -> tab_keys_ok e subs t.
Proof.
  intros e subs snaps t H id k sq Ht. rewrite (l2_init_entry _ _ _ _ _ H) in Ht.
  destruct (l2_map_subs e subs id) as [k'|]; [|discriminate].
  destruct (snap_of snaps k'); [|discriminate]. now injection Ht as <- _.
Qed.

Lemma l2_transform_keys_ok : forall e subs t m,
  tab_keys_ok e subs t -> tab_keys_ok e subs (fst (l2_transform e t m)).
Proof.
  intros e subs t m H. unfold l2_transform.
  destruct (t (sub_id l2_channel (l_sym m))) as [[k s]|] eqn:E; [|exact H].
  cbn [fst]. intros id k' sq Ht. destruct (String.eqb id (sub_id l2_channel (l_sym m))) eqn:Eid.
  - apply String.eqb_eq in Eid. subst id. injection Ht as <- _. now apply (H _ _ _ E).
  - now apply (H _ _ _ Ht).
Qed.

Lemma l2_transform_event_key : forall e subs t m l k ex te sq ten bs as_,
  tab_keys_ok e subs t -> snd (l2_transform e t m) = L2Out l -> In (L2Ev k ex te sq ten bs as_) l ->
  ex = e /\ exists s, In s subs /\ fst s = k /\ l2_sid e s = sub_id l2_channel (l_sym m).
Proof.
  intros e subs t m l k ex te sq ten bs as_ H Ho Hin. unfold l2_transform in Ho.
  destruct (t (sub_id l2_channel (l_sym m))) as [[k0 s0]|] eqn:E.
  - cbn [snd] in Ho. apply H in E. apply map_ids_sound in E as (s & Hs & Hid & Hk).
    destruct (snd (BinanceSeq.validate_sequence (venue_of e) s0 (seq_msg m))) as [| |[p f|u]];
      injection Ho as <-; cbn in Hin; try contradiction; destruct Hin as [Hin|[]]; try discriminate.
    unfold l2_event in Hin. injection Hin as <- <- _ _ _ _ _. split; [reflexivity|]. now exists s.
  - cbn [snd] in Ho. injection Ho as <-. destruct Hin as [Hin|[]]. discriminate.
Qed.

(** over any sequence of updates: every emitted event carries the exchange id and the key of
    the subscription whose id the update names *)
Lemma l2_run_never_another : forall e subs ms t,
  tab_keys_ok e subs t ->
  Forall2 (fun m o => forall l k ex te sq ten bs as_, o = L2Out l -> In (L2Ev k ex te sq ten bs as_) l ->
             ex = e /\ exists s, In s subs /\ fst s = k /\ l2_sid e s = sub_id l2_channel (l_sym m))
          ms (l2_run e t ms).
Proof.
  intros e subs. induction ms as [|m ms IH]; intros t H; cbn [l2_run]; constructor.
  - intros l k ex te sq ten bs as_ Ho Hin. eapply l2_transform_event_key; eassumption.
  - apply IH. now apply l2_transform_keys_ok.
Qed.
