(** C10 — lemmas about the audit-stream / replica model (Model/Replica.v). *)
From Coq Require Import List ZArith NArith Bool Lia.
From BV Require Import Model.Replica.
Import ListNotations.

(* ------------------------------------------------------------------------------------------ *)
(** * the order map                                                                           *)
(* ------------------------------------------------------------------------------------------ *)

Lemma okey_eqb_spec (a b : okey) : reflect (a = b) (okey_eqb a b).
Proof.
  destruct a as [a1 a2], b as [b1 b2]. unfold okey_eqb. cbn [fst snd].
  destruct (Z.eqb_spec a1 b1) as [E1|E1]; destruct (Z.eqb_spec a2 b2) as [E2|E2]; cbn;
    constructor; congruence.
Qed.

Lemma okey_eqb_refl k : okey_eqb k k = true.
Proof. destruct (okey_eqb_spec k k); congruence. Qed.

Lemma ofind_oremove m k k' :
  ofind (oremove m k) k' = if okey_eqb k k' then None else ofind m k'.
Proof.
  induction m as [|[k0 o] t IH]; cbn [oremove filter ofind fst].
  - destruct (okey_eqb k k'); reflexivity.
  - fold (oremove t k). destruct (okey_eqb_spec k0 k) as [E|E]; cbn [negb].
    + subst k0. rewrite IH. destruct (okey_eqb_spec k k'); reflexivity.
    + cbn [ofind]. destruct (okey_eqb_spec k0 k') as [E'|E'].
      * subst k0. destruct (okey_eqb_spec k k'); [congruence|reflexivity].
      * exact IH.
Qed.

Lemma ofind_oset m k o k' :
  ofind (oset m k o) k' = if okey_eqb k k' then Some o else ofind m k'.
Proof.
  unfold oset. cbn [ofind]. destruct (okey_eqb_spec k k') as [E|E]; [reflexivity|].
  rewrite ofind_oremove. destruct (okey_eqb_spec k k'); [congruence|reflexivity].
Qed.

(** ** pointwise view of the order operations *)

Definition snap1 (cur : option order) (sf q : Z) (s : snap_state) : option order :=
  match cur with
  | None =>
      match s with
      | SInactive => None
      | SOpen m => if rem_zero q m then None else Some (mkOrder sf q (Open m))
      | SOIF => Some (mkOrder sf q OIF)
      | SCIF c => Some (mkOrder sf q (CIF c))
      end
  | Some o =>
      match s with
      | SInactive => None
      | SOIF => Some o
      | SOpen m =>
          match o_st o with
          | OIF => if rem_zero q m then None else Some (with_st o (Open m))
          | Open cur =>
              if Z.leb (m_t cur) (m_t m)
              then (if rem_zero q m then None else Some (with_st o (Open m)))
              else Some o
          | CIF cur =>
              if (match cur with None => true | Some c => Z.leb (m_t c) (m_t m) end)
              then (if rem_zero q m then None else Some (with_st o (CIF (Some m))))
              else Some o
          end
      | SCIF c =>
          match o_st o with
          | OIF => Some (with_st o (CIF c))
          | Open cur =>
              Some (with_st o (CIF (Some (match c with
                                          | Some u => if Z.leb (m_t cur) (m_t u) then u else cur
                                          | None => cur
                                          end))))
          | CIF _ => Some o
          end
      end
  end.

Definition cancel1 (cur : option order) (ok : bool) : option order :=
  match cur with
  | None => None
  | Some o =>
      if ok then None
      else match o_st o with
           | OIF | Open _ => Some o
           | CIF (Some m) => Some (with_st o (Open m))
           | CIF None => None
           end
  end.

Definition op_key (op : order_op) : okey :=
  match op with OSnap k _ _ _ => k | OCancelResp k _ => k end.

Definition op1 (cur : option order) (op : order_op) : option order :=
  match op with
  | OSnap _ sf q s => snap1 cur sf q s
  | OCancelResp _ ok => cancel1 cur ok
  end.

Ltac break_ifs :=
  repeat match goal with
         | |- context [if ?c then _ else _] => destruct c
         | |- context [match ?c with _ => _ end] => destruct c
         end.

Lemma apply_op_at m op : ofind (apply_op m op) (op_key op) = op1 (ofind m (op_key op)) op.
Proof.
  destruct op as [k sf q s|k ok]; cbn [apply_op op_key op1].
  - unfold apply_snap, snap1. destruct (ofind m k) as [o|] eqn:F.
    + destruct s as [|mm|c|]; rewrite ?F; try reflexivity.
      * destruct (o_st o) as [|cur|cur];
          repeat match goal with
                 | |- context [if ?c then _ else _] => destruct c
                 end;
          rewrite ?ofind_oset, ?ofind_oremove, ?okey_eqb_refl, ?F; reflexivity.
      * destruct (o_st o) as [|cur|cur];
          rewrite ?ofind_oset, ?ofind_oremove, ?okey_eqb_refl, ?F; reflexivity.
      * rewrite ofind_oremove, okey_eqb_refl. reflexivity.
    + destruct s as [|mm|c|]; rewrite ?F; try reflexivity;
        repeat match goal with
               | |- context [if ?c then _ else _] => destruct c
               end;
        rewrite ?ofind_oset, ?ofind_oremove, ?okey_eqb_refl, ?F; reflexivity.
  - unfold apply_cancel_resp, cancel1. destruct (ofind m k) as [o|] eqn:F; [|exact F].
    destruct ok.
    + rewrite ofind_oremove, okey_eqb_refl. reflexivity.
    + destruct (o_st o) as [|cur|[cur|]];
        rewrite ?ofind_oset, ?ofind_oremove, ?okey_eqb_refl, ?F; reflexivity.
Qed.

Lemma apply_op_frame m op k : op_key op <> k -> ofind (apply_op m op) k = ofind m k.
Proof.
  intro NE.
  assert (R1 : forall o, ofind (oset m (op_key op) o) k = ofind m k).
  { intro o. rewrite ofind_oset. destruct (okey_eqb_spec (op_key op) k); [congruence|reflexivity]. }
  assert (R2 : ofind (oremove m (op_key op)) k = ofind m k).
  { rewrite ofind_oremove. destruct (okey_eqb_spec (op_key op) k); [congruence|reflexivity]. }
  destruct op as [k0 sf q s|k0 ok]; cbn [apply_op op_key] in *.
  - unfold apply_snap. destruct (ofind m k0) as [o|].
    + destruct s as [|mm|c|]; try reflexivity; try apply R2.
      * destruct (o_st o) as [|cur|cur];
          repeat match goal with
                 | |- context [if ?c then _ else _] => destruct c
                 end; try reflexivity; try apply R1; apply R2.
      * destruct (o_st o) as [|cur|cur]; try reflexivity; apply R1.
    + destruct s as [|mm|c|]; try reflexivity; try apply R1.
      destruct (rem_zero q mm); [reflexivity|apply R1].
  - unfold apply_cancel_resp. destruct (ofind m k0) as [o|]; [|reflexivity].
    destruct ok; [apply R2|].
    destruct (o_st o) as [|cur|[cur|]]; try reflexivity; try apply R1; apply R2.
Qed.

(** [op_ok] only looks at the record of the operation's key *)
Definition op_ok1 (cur : option order) (op : order_op) : bool :=
  match op with
  | OSnap k sf q SOIF | OSnap k sf q (SCIF _) => false
  | OSnap k sf q (SOpen m) =>
      match cur with
      | Some o => match o_st o with
                  | OIF | CIF None => Z.eqb sf (o_sf o) && Z.eqb q (o_qty o)
                  | _ => true
                  end
      | None => true
      end
  | _ => true
  end.

Lemma op_ok_at m op : op_ok m op = op_ok1 (ofind m (op_key op)) op.
Proof. destruct op as [k sf q [|mm|c|]|k ok]; reflexivity. Qed.

(** ** the order relation: equal once in-flight markers are set aside (on both sides) *)
Definition Ro (a b : omap) : Prop := forall k, proj (ofind a k) = proj (ofind b k).

Lemma Ro_refl a : Ro a a.
Proof. intro k; reflexivity. Qed.

Lemma proj_record_cancel o :
  proj (Some (with_st o (CIF (open_meta (o_st o))))) = proj (Some o).
Proof. destruct o as [sf q [|m|[m|]]]; reflexivity. Qed.

Lemma record_cancel_proj a k0 k :
  proj (ofind (record_cancel a k0) k) = proj (ofind a k).
Proof.
  unfold record_cancel. destruct (ofind a k0) as [o|] eqn:F; [|reflexivity].
  rewrite ofind_oset. destruct (okey_eqb_spec k0 k) as [E|E]; [|reflexivity].
  subst k0. rewrite F. apply proj_record_cancel.
Qed.

Lemma record_cancels_proj ks : forall a k,
  proj (ofind (fold_left record_cancel ks a) k) = proj (ofind a k).
Proof.
  induction ks as [|k0 ks IH]; intros a k; cbn [fold_left]; [reflexivity|].
  rewrite IH. apply record_cancel_proj.
Qed.

Lemma record_opens_proj rs : forall a k,
  opens_ok a rs = true ->
  proj (ofind (fold_left record_open rs a) k) = proj (ofind a k).
Proof.
  induction rs as [|r rs IH]; intros a k H; cbn [fold_left]; [reflexivity|].
  cbn [opens_ok] in H. apply andb_prop in H. destruct H as [H1 H2].
  rewrite (IH _ _ H2). unfold record_open. rewrite ofind_oset.
  destruct (okey_eqb_spec (fst r) k) as [E|E]; [|reflexivity].
  subst k. cbn [proj o_st]. destruct (proj (ofind a (fst r))); [discriminate|reflexivity].
Qed.

Lemma record_sent_proj a s k :
  sent_ok a s = true -> proj (ofind (record_sent a s) k) = proj (ofind a k).
Proof.
  unfold sent_ok, record_sent. intro H. rewrite (record_opens_proj _ _ _ H).
  apply record_cancels_proj.
Qed.

Lemma Ro_record_sent a b s : Ro a b -> sent_ok a s = true -> Ro (record_sent a s) b.
Proof. intros H Hs k. rewrite (record_sent_proj _ _ _ Hs). apply H. Qed.

(** the heart of the simulation: one exchange report keeps the two order maps related *)
Lemma op1_proj x y op :
  proj x = proj y -> op_ok1 x op = true -> op_ok1 y op = true ->
  proj (op1 x op) = proj (op1 y op).
Proof.
  intros HP Hx Hy.
  destruct op as [k sf q [|mm|c|]|k ok]; cbn [op1 op_ok1] in *; try discriminate.
  - (* SOpen *)
    destruct x as [[sf1 q1 [|m1|[m1|]]]|], y as [[sf2 q2 [|m2|[m2|]]]|];
      cbn [proj o_st with_st o_sf o_qty snap1] in *;
      try discriminate;
      try (injection HP as -> -> ->);
      repeat match goal with
             | H : (_ && _)%bool = true |- _ => apply andb_prop in H; destruct H
             | H : Z.eqb _ _ = true |- _ => apply Z.eqb_eq in H; subst
             end;
      repeat match goal with
             | |- context [if ?c then _ else _] => destruct c
             end; try reflexivity; try discriminate.
  - (* SInactive *)
    destruct x, y; reflexivity.
  - (* cancel response *)
    destruct ok.
    + destruct x, y; reflexivity.
    + destruct x as [[sf1 q1 [|m1|[m1|]]]|], y as [[sf2 q2 [|m2|[m2|]]]|];
        cbn [proj o_st with_st o_sf o_qty cancel1] in *;
        try discriminate; try reflexivity; try exact HP.
Qed.

Lemma Ro_apply_op a b op :
  Ro a b -> op_ok a op = true -> op_ok b op = true -> Ro (apply_op a op) (apply_op b op).
Proof.
  intros H Ha Hb k. destruct (okey_eqb_spec (op_key op) k) as [E|E].
  - subst k. rewrite !apply_op_at. rewrite op_ok_at in Ha, Hb. apply op1_proj; auto.
  - rewrite !apply_op_frame by assumption. apply H.
Qed.

Lemma Ro_apply_ops ops : forall a b,
  Ro a b -> ops_ok a ops = true -> ops_ok b ops = true ->
  Ro (fold_left apply_op ops a) (fold_left apply_op ops b).
Proof.
  induction ops as [|op ops IH]; intros a b H Ha Hb; cbn [fold_left]; [exact H|].
  cbn [ops_ok] in Ha, Hb. apply andb_prop in Ha. apply andb_prop in Hb.
  destruct Ha as [Ha1 Ha2], Hb as [Hb1 Hb2]. apply IH; auto. apply Ro_apply_op; auto.
Qed.

(** a map without markers stays without under exchange reports *)
Lemma op1_marker_free x op :
  proj x = x -> op_ok1 x op = true -> proj (op1 x op) = op1 x op.
Proof.
  intros HP Hx.
  destruct op as [k sf q [|mm|c|]|k ok]; cbn [op1 op_ok1] in *; try discriminate.
  - destruct x as [[sf1 q1 [|m1|[m1|]]]|];
      cbn [proj o_st with_st o_sf o_qty snap1] in *; try discriminate;
      repeat match goal with
             | |- context [if ?c then _ else _] => destruct c
             end; reflexivity.
  - destruct x; reflexivity.
  - destruct ok; [destruct x; reflexivity|].
    destruct x as [[sf1 q1 [|m1|[m1|]]]|];
      cbn [proj o_st with_st o_sf o_qty cancel1] in *; try discriminate; reflexivity.
Qed.

Lemma marker_free_apply_op m op :
  marker_free m -> op_ok m op = true -> marker_free (apply_op m op).
Proof.
  intros H Hm k. destruct (okey_eqb_spec (op_key op) k) as [E|E].
  - subst k. rewrite apply_op_at. rewrite op_ok_at in Hm. apply op1_marker_free; auto.
  - rewrite apply_op_frame by assumption. apply H.
Qed.

Lemma marker_free_apply_ops ops : forall m,
  marker_free m -> ops_ok m ops = true -> marker_free (fold_left apply_op ops m).
Proof.
  induction ops as [|op ops IH]; intros m H Hm; cbn [fold_left]; [exact H|].
  cbn [ops_ok] in Hm. apply andb_prop in Hm. destruct Hm as [H1 H2].
  apply IH; auto. apply marker_free_apply_op; auto.
Qed.

Lemma seqN_length s n : length (seqN s n) = n.
Proof. revert s; induction n; intro s; cbn; [reflexivity|]. now rewrite IHn. Qed.

(* ------------------------------------------------------------------------------------------ *)
(** * engine, runner, replica                                                                 *)
(* ------------------------------------------------------------------------------------------ *)

Section Proofs.

Variables (rest P : Type).
Variable upd_acc_reconn : rest -> Z -> rest.
Variable upd_mkt_reconn : rest -> Z -> rest.
Variable upd_account : rest -> P -> rest.
Variable upd_market : rest -> P -> rest.

Notation stage1 := (stage1 rest P upd_acc_reconn upd_mkt_reconn upd_account upd_market).
Notation process := (process rest P upd_acc_reconn upd_mkt_reconn upd_account upd_market).
Notation process_with_audit :=
  (process_with_audit rest P upd_acc_reconn upd_mkt_reconn upd_account upd_market).
Notation run_loop := (run_loop rest P upd_acc_reconn upd_mkt_reconn upd_account upd_market).
Notation run_manual := (run_manual rest P upd_acc_reconn upd_mkt_reconn upd_account upd_market).
Notation replica_update_from_event :=
  (replica_update_from_event rest P upd_acc_reconn upd_mkt_reconn upd_account upd_market).
Notation replica_step :=
  (replica_step rest P upd_acc_reconn upd_mkt_reconn upd_account upd_market).
Notation replica_run :=
  (replica_run rest P upd_acc_reconn upd_mkt_reconn upd_account upd_market).
Notation apply_ticks :=
  (apply_ticks rest P upd_acc_reconn upd_mkt_reconn upd_account upd_market).
Notation step_ok := (step_ok rest P upd_acc_reconn upd_mkt_reconn upd_account upd_market).
Notation hyps := (hyps rest P upd_acc_reconn upd_mkt_reconn upd_account upd_market).
Notation lockstep := (lockstep rest P upd_acc_reconn upd_mkt_reconn upd_account upd_market).
Notation state := (state rest).
Notation engine := (engine rest).
Notation replica := (replica rest).

(** ** every process audit carries the processed event *)
Lemma process_carries (st : state) (ev : event P) sc :
  exists errs o, snd (process st ev sc) = AProcess ev errs o.
Proof.
  unfold Replica.process.
  destruct ev; try (eexists; eexists; reflexivity);
    match goal with
    | |- context [Replica.stage1 ?a ?b ?c ?d ?e ?f ?g ?h ?i] =>
        destruct (Replica.stage1 a b c d e f g h i) as [[st1 early] o1]
    end;
    destruct early; try (eexists; eexists; reflexivity);
    destruct (trading st1); try (eexists; eexists; reflexivity);
    destruct (sent_is_empty (sc_algo sc)); try (eexists; eexists; reflexivity);
    destruct (s_fatal (sc_algo sc)); eexists; eexists; reflexivity.
Qed.

Lemma process_with_audit_spec (e : engine) ev sc :
  exists errs o,
    process_with_audit e ev sc =
      (mkEngine (fst (process (e_state e) ev sc)) (e_seq e + 1), (e_seq e, AProcess ev errs o)).
Proof.
  destruct (process_carries (e_state e) ev sc) as (errs & o & H).
  exists errs, o. unfold Replica.process_with_audit.
  destruct (process (e_state e) ev sc) as [st' a]. cbn [fst snd] in *. now subst a.
Qed.

(** the state after [process], without the audit *)
Definition process_state (st : state) (ev : event P) (sc : script) : state :=
  match ev with
  | EvShutdown => st
  | _ => let '(st1, early, _) := stage1 st ev sc in
         if early then st1
         else if trading st1 then state_record st1 (sc_algo sc) else st1
  end.

Lemma process_state_eq st ev sc : fst (process st ev sc) = process_state st ev sc.
Proof.
  unfold Replica.process, process_state.
  destruct ev; try reflexivity;
    match goal with
    | |- context [Replica.stage1 ?a ?b ?c ?d ?e ?f ?g ?h ?i] =>
        destruct (Replica.stage1 a b c d e f g h i) as [[st1 early] o1]
    end;
    destruct early; try reflexivity;
    destruct (trading st1); try reflexivity;
    destruct (sent_is_empty (sc_algo sc)); try reflexivity;
    destruct (s_fatal (sc_algo sc)); reflexivity.
Qed.

(** ** sequence numbering and shape of a runner's audit stream *)

Lemma run_loop_numbering : forall (f : feed P) (e e' : engine) ts,
  run_loop e f = (e', ts) ->
  map fst ts = seqN (e_seq e) (length ts) /\
  e_seq e' = (e_seq e + N.of_nat (length ts))%N.
Proof.
  induction f as [|[ev sc] f IH]; intros e e' ts H; cbn [Replica.run_loop] in H.
  - unfold audit_feed_ended in H. injection H as <- <-. cbn. split; [reflexivity|lia].
  - destruct (process_with_audit_spec e ev sc) as (errs & o & Hp). rewrite Hp in H.
    cbn [snd] in H. destruct (is_terminal (AProcess ev errs o)).
    + injection H as <- <-. cbn. split; [reflexivity|lia].
    + destruct (run_loop _ f) as [e'' ts'] eqn:Hr. injection H as <- <-.
      destruct (IH _ _ _ Hr) as [I1 I2]. cbn [e_seq] in I1, I2.
      cbn [map fst length seqN]. split; [now rewrite I1|]. rewrite I2. lia.
Qed.

Lemma run_loop_shape : forall (f : feed P) (e e' : engine) ts,
  run_loop e f = (e', ts) ->
  exists pre last,
    ts = pre ++ [last] /\
    Forall (fun t => is_terminal (snd t) = false) pre /\
    is_terminal (snd last) = true /\
    map (fun t => carried (snd t)) pre = map Some (firstn (length pre) (map fst f)) /\
    ((snd last = AFeedEnded /\ length pre = length f) \/
     (exists ev, carried (snd last) = Some ev /\ nth_error (map fst f) (length pre) = Some ev)).
Proof.
  induction f as [|[ev sc] f IH]; intros e e' ts H; cbn [Replica.run_loop] in H.
  - unfold audit_feed_ended in H. injection H as <- <-.
    exists [], (e_seq e, AFeedEnded). cbn. repeat split; auto.
  - destruct (process_with_audit_spec e ev sc) as (errs & o & Hp). rewrite Hp in H.
    cbn [snd] in H. destruct (is_terminal (AProcess ev errs o)) eqn:Ht.
    + injection H as <- <-. exists [], (e_seq e, AProcess ev errs o). cbn [snd app length].
      repeat split; auto. right. exists ev. split; reflexivity.
    + destruct (run_loop _ f) as [e'' ts'] eqn:Hr. injection H as <- <-.
      destruct (IH _ _ _ Hr) as (pre & last & E & Hpre & Hlast & Hc & Hd).
      exists ((e_seq e, AProcess ev errs o) :: pre), last. subst ts'.
      split; [reflexivity|]. split; [constructor; [exact Ht|exact Hpre]|].
      split; [exact Hlast|]. split.
      * cbn [map length firstn snd carried fst]. now rewrite Hc.
      * destruct Hd as [[D1 D2]|(ev' & D1 & D2)].
        -- left. split; [exact D1|]. cbn [length]. now rewrite D2.
        -- right. exists ev'. split; [exact D1|exact D2].
Qed.

Lemma run_manual_numbering : forall (f : feed P) (e e' : engine) ts,
  run_manual e f = (e', ts) ->
  map fst ts = seqN (e_seq e) (length f) /\ length ts = length f /\
  map (fun t => carried (snd t)) ts = map Some (map fst f) /\
  e_seq e' = (e_seq e + N.of_nat (length f))%N.
Proof.
  induction f as [|[ev sc] f IH]; intros e e' ts H; cbn [Replica.run_manual] in H.
  - injection H as <- <-. cbn. repeat split; auto. lia.
  - destruct (process_with_audit_spec e ev sc) as (errs & o & Hp). rewrite Hp in H.
    destruct (run_manual _ f) as [e'' ts'] eqn:Hr. injection H as <- <-.
    destruct (IH _ _ _ Hr) as (I1 & I2 & I3 & I4). cbn [e_seq] in I1, I4.
    cbn [map fst snd length seqN carried]. repeat split.
    + now rewrite I1.
    + now rewrite I2.
    + now rewrite I3.
    + rewrite I4. lia.
Qed.

(** ** one tick keeps engine and replica related *)

Lemma Rst_record (e r : state) s :
  Rst e r -> sent_ok (orders e) s = true -> Rst (state_record e s) r.
Proof.
  intros (H1 & H2 & H3) Hs. unfold state_record. repeat split; cbn; auto.
  intro k. rewrite (record_sent_proj _ _ _ Hs). apply H3.
Qed.

Lemma Rst_step (e r : state) ev sc :
  Rst e r -> step_ok e r ev sc = true ->
  Rst (process_state e ev sc) (replica_update_from_event r ev).
Proof.
  intros HR Hok. unfold Replica.step_ok in Hok. apply andb_prop in Hok.
  destruct Hok as [Hok1 Hok2]. pose proof HR as (H1 & H2 & H3).
  (* the algo half, given the related state after the event-specific half *)
  assert (ALGO : forall st1 r1 : state, Rst st1 r1 ->
            (if trading st1 then sent_ok (orders st1) (sc_algo sc) else true) = true ->
            Rst (if trading st1 then state_record st1 (sc_algo sc) else st1) r1).
  { intros st1 r1 HR1 Hs. destruct (trading st1); [apply Rst_record; auto|exact HR1]. }
  destruct ev as [|c|b|x|p ops|x|p];
    cbn [process_state Replica.stage1 Replica.replica_update_from_event] in *.
  - exact HR.
  - (* command *)
    destruct (s_fatal (sc_cmd sc)).
    + apply Rst_record; auto.
    + apply ALGO; [apply Rst_record; auto|exact Hok2].
  - (* trading state update *)
    assert (HB : Rst (mkState b (srest e) (orders e)) (mkState b (srest r) (orders r))).
    { repeat split; cbn; auto. }
    destruct (trading e && negb b)%bool.
    + apply ALGO; [apply Rst_record; [exact HB|exact Hok1]|exact Hok2].
    + apply ALGO; [exact HB|exact Hok2].
  - (* account stream reconnecting *)
    apply ALGO; [|exact Hok2]. apply Rst_record; [|exact Hok1].
    repeat split; cbn; auto. now rewrite H2.
  - (* account item *)
    apply andb_prop in Hok1. destruct Hok1 as [Oe Or].
    apply ALGO; [|exact Hok2]. unfold state_update_from_account.
    repeat split; cbn; auto; [now rewrite H2|]. apply Ro_apply_ops; auto.
  - (* market stream reconnecting *)
    apply ALGO; [|exact Hok2]. apply Rst_record; [|exact Hok1].
    repeat split; cbn; auto. now rewrite H2.
  - (* market item *)
    apply ALGO; [|exact Hok2]. unfold state_update_from_market.
    repeat split; cbn; auto. now rewrite H2.
Qed.

Lemma marker_free_step (e r : state) ev sc :
  step_ok e r ev sc = true -> marker_free (orders r) ->
  marker_free (orders (replica_update_from_event r ev)).
Proof.
  intros Hok Hm. destruct ev as [|c|b|x|p ops|x|p];
    cbn [Replica.replica_update_from_event orders state_update_from_account
         state_update_from_market]; try exact Hm.
  unfold Replica.step_ok in Hok. apply andb_prop in Hok. destruct Hok as [Hok1 _].
  apply andb_prop in Hok1. destruct Hok1 as [_ Or]. apply marker_free_apply_ops; auto.
Qed.

Lemma replica_step_next (r : replica) s ev errs o :
  s = (r_seq r + 1)%N ->
  replica_step r (s, AProcess ev errs o) =
    (mkReplica (replica_update_from_event (r_state r) ev) s, RApplied).
Proof.
  intros ->. unfold Replica.replica_step. cbn [fst snd].
  destruct (N.leb_spec (r_seq r + 1) (r_seq r)) as [L|L]; [lia|].
  replace (r_seq r + 1 - 1)%N with (r_seq r) by lia. now rewrite N.eqb_refl.
Qed.

Lemma lockstep_holds : forall (f : feed P) (e : engine) (r : replica),
  Rel e r -> hyps (e_state e) (r_state r) f = true -> lockstep e r f.
Proof.
  induction f as [|[ev sc] f IH]; intros e r [HR Hs] Hh; cbn [Replica.lockstep]; [exact I|].
  cbn [Replica.hyps] in Hh. apply andb_prop in Hh. destruct Hh as [Hok Hh].
  destruct (process_with_audit_spec e ev sc) as (errs & o & Hp). rewrite Hp.
  rewrite (replica_step_next r (e_seq e) ev errs o Hs).
  assert (HR' : Rel (mkEngine (fst (process (e_state e) ev sc)) (e_seq e + 1))
                    (mkReplica (replica_update_from_event (r_state r) ev) (e_seq e))).
  { split; cbn [e_state r_state e_seq r_seq]; [|reflexivity].
    rewrite process_state_eq. apply Rst_step; auto. }
  split; [reflexivity|]. split; [exact HR'|]. split.
  - cbn [r_state]. apply (marker_free_step _ _ _ _ Hok).
  - apply IH; [exact HR'|exact Hh].
Qed.

(** ** the replica's sequence validation *)

Lemma gap_step (r : replica) (t : tick P) :
  carried (snd t) <> None -> (r_seq r + 1 < fst t)%N -> replica_step r t = (r, RErr).
Proof.
  intros Hc Hg. unfold Replica.replica_step. destruct (snd t) as [|ev errs o]; [now elim Hc|].
  destruct (N.leb_spec (fst t) (r_seq r)) as [L|L]; [lia|].
  destruct (N.eqb_spec (r_seq r) (fst t - 1)) as [E|E]; [lia|reflexivity].
Qed.

Lemma skip_step (r : replica) (t : tick P) :
  carried (snd t) <> None -> (fst t <= r_seq r)%N -> replica_step r t = (r, RSkipped).
Proof.
  intros Hc Hg. unfold Replica.replica_step. destruct (snd t) as [|ev errs o]; [now elim Hc|].
  destruct (N.leb_spec (fst t) (r_seq r)) as [L|L]; [reflexivity|lia].
Qed.

Lemma replica_step_seq (r r' : replica) (t : tick P) res :
  replica_step r t = (r', res) ->
  match res with
  | RApplied => r_seq r' = fst t /\ carried (snd t) <> None
  | _ => r' = r
  end.
Proof.
  unfold Replica.replica_step. destruct (snd t) as [|ev errs o].
  - intro H; injection H as <- <-. reflexivity.
  - destruct (N.leb (fst t) (r_seq r)); [intro H; injection H as <- <-; reflexivity|].
    destruct (negb (N.eqb (r_seq r) (fst t - 1))); intro H; injection H as <- <-;
      [reflexivity|]. split; [reflexivity|discriminate].
Qed.

Lemma gap_run (r : replica) (t : tick P) ts :
  carried (snd t) <> None -> (r_seq r + 1 < fst t)%N -> replica_run r (t :: ts) = (r, false).
Proof. intros Hc Hg. cbn [Replica.replica_run]. now rewrite gap_step. Qed.

Lemma skip_run (r : replica) (t : tick P) ts :
  carried (snd t) <> None -> (fst t <= r_seq r)%N -> replica_run r (t :: ts) = replica_run r ts.
Proof. intros Hc Hg. cbn [Replica.replica_run]. now rewrite skip_step. Qed.

Lemma repeated_tick_same : forall (pre : list (tick P)) (r : replica) t ts,
  replica_run r (pre ++ t :: t :: ts) = replica_run r (pre ++ t :: ts).
Proof.
  induction pre as [|x pre IH]; intros r t ts; cbn [app].
  - cbn [Replica.replica_run]. destruct (replica_step r t) as [r' res] eqn:Hs.
    pose proof (replica_step_seq _ _ _ _ Hs) as Hq. destruct res; try reflexivity.
    + destruct Hq as [Hq Hc]. destruct (is_terminal (snd t)); [reflexivity|].
      rewrite skip_step; [reflexivity|exact Hc|lia].
    + subst r'. now rewrite Hs.
  - cbn [Replica.replica_run]. destruct (replica_step r x) as [r' res]. destruct res;
      try reflexivity; [destruct (is_terminal (snd x)); [reflexivity|]|]; apply IH.
Qed.

Lemma valid_prefix_run : forall (pre : list (tick P)) (r : replica) ts,
  valid_from (r_seq r + 1) pre ->
  replica_run r (pre ++ ts) = replica_run (apply_ticks r pre) ts /\
  r_seq (apply_ticks r pre) = (r_seq r + N.of_nat (length pre))%N.
Proof.
  induction pre as [|x pre IH]; intros r ts [Hn Hq].
  - cbn. split; [reflexivity|lia].
  - inversion Hn as [|? ? Hx Hn']; subst. cbn [map length seqN] in Hq.
    injection Hq as Hx1 Hq'. destruct x as [s a]. cbn [fst snd] in *.
    destruct a as [|ev errs o]; [discriminate|].
    cbn [app Replica.replica_run]. unfold Replica.apply_ticks. cbn [fold_left].
    rewrite (replica_step_next r s ev errs o Hx1). cbn [fst snd]. rewrite Hx.
    set (r1 := mkReplica (replica_update_from_event (r_state r) ev) s).
    assert (V : valid_from (r_seq r1 + 1) pre).
    { split; [exact Hn'|]. cbn [r_seq r1]. subst s. exact Hq'. }
    destruct (IH r1 ts V) as [I1 I2]. split; [exact I1|].
    unfold Replica.apply_ticks in I2. rewrite I2. cbn [r_seq r1 length]. lia.
Qed.

Lemma gap_after_prefix (pre : list (tick P)) (r : replica) u ts :
  valid_from (r_seq r + 1) pre -> carried (snd u) <> None ->
  (r_seq r + N.of_nat (length pre) + 1 < fst u)%N ->
  replica_run r (pre ++ u :: ts) = (apply_ticks r pre, false).
Proof.
  intros V Hc Hg. destruct (valid_prefix_run pre r (u :: ts) V) as [E1 E2].
  rewrite E1. apply gap_run; [exact Hc|]. rewrite E2. exact Hg.
Qed.


(** a runner's whole audit stream is accepted by the replica, which ends related to the engine *)
Lemma run_loop_replica : forall (f : feed P) (e e' : engine) (r : replica) ts,
  Rel e r -> hyps (e_state e) (r_state r) f = true -> run_loop e f = (e', ts) ->
  exists r', replica_run r ts = (r', true) /\ Rst (e_state e') (r_state r').
Proof.
  induction f as [|[ev sc] f IH]; intros e e' r ts [HR Hs] Hh H; cbn [Replica.run_loop] in H.
  - unfold audit_feed_ended in H. injection H as <- <-. exists r. split; [reflexivity|exact HR].
  - cbn [Replica.hyps] in Hh. apply andb_prop in Hh. destruct Hh as [Hok Hh].
    destruct (process_with_audit_spec e ev sc) as (errs & o & Hp). rewrite Hp in H.
    cbn [snd] in H.
    assert (HR' : Rel (mkEngine (fst (process (e_state e) ev sc)) (e_seq e + 1))
                      (mkReplica (replica_update_from_event (r_state r) ev) (e_seq e))).
    { split; cbn [e_state r_state e_seq r_seq]; [|reflexivity].
      rewrite process_state_eq. apply Rst_step; auto. }
    destruct (is_terminal (AProcess ev errs o)) eqn:Ht.
    + injection H as <- <-. eexists. split.
      * cbn [Replica.replica_run]. rewrite (replica_step_next r (e_seq e) ev errs o Hs).
        cbn [snd]. rewrite Ht. reflexivity.
      * exact (proj1 HR').
    + destruct (run_loop _ f) as [e'' ts'] eqn:Hr. injection H as <- <-.
      destruct (IH _ _ _ _ HR' Hh Hr) as (r' & I1 & I2). exists r'. split; [|exact I2].
      cbn [Replica.replica_run]. rewrite (replica_step_next r (e_seq e) ev errs o Hs).
      cbn [snd]. rewrite Ht. exact I1.
Qed.

End Proofs.
