(** The C17 oracle is no stricter than the model: the summary the model computes for ANY
    non-empty dataset (completed with any non-negative number whose square is the variance as
    std_dev) is accepted by the whole-dataset oracle [batch_ok] of Corr/C17.v, at every
    tolerance scale.  Hence wherever the implementation agrees with the model, the observed
    behaviour satisfies the property oracle. *)
From Coq Require Import Lia.
From BV Require Import Base.Common Model.Stats Proofs.Stats Corr.C17.
Local Open Scope Q_scope.

Lemma Qeq_bool_refl' : forall x : Q, Qeq_bool x x = true.
Proof. intro x. apply Qeq_bool_iff. reflexivity. Qed.

Lemma Qabs'_nonneg : forall x : Q, 0 <= Qabs' x.
Proof.
  intro x. unfold Qabs'. destruct (Qle_bool 0 x) eqn:E.
  - apply Qle_bool_iff. exact E.
  - assert (H : ~ 0 <= x) by (intro H; apply Qle_bool_iff in H; congruence).
    apply Qnot_le_lt in H. apply Qlt_le_weak in H.
    apply (Qopp_le_compat x 0) in H. exact H.
Qed.

Lemma Qabs'_zero : forall x : Q, x == 0 -> Qabs' x == 0.
Proof.
  intros x H. unfold Qabs'. destruct (Qle_bool 0 x); [exact H|]. rewrite H. reflexivity.
Qed.

Lemma tol_nonneg : forall sc : Q, 0 <= tol_abs + tol_rel * Qabs' sc.
Proof.
  intro sc.
  assert (A : 0 <= tol_abs) by (unfold Qle; vm_compute; intro H; discriminate H).
  assert (B : 0 <= tol_rel) by (unfold Qle; vm_compute; intro H; discriminate H).
  pose proof (Qabs'_nonneg sc) as C.
  pose proof (Qmult_le_0_compat _ _ B C) as D.
  replace 0 with (0 + 0) by reflexivity. apply Qplus_le_compat; assumption.
Qed.

Lemma near_eq : forall sc a b : Q, a == b -> near sc a b = true.
Proof.
  intros sc a b H. unfold near. apply Qle_bool_iff.
  rewrite (Qabs'_zero (a - b)) by (rewrite H; ring). apply tol_nonneg.
Qed.

Lemma eq_or_near_eq : forall e sc a b, a == b -> eq_or_near e sc a b = true.
Proof.
  intros e sc a b H. unfold eq_or_near. destruct e; [apply Qeq_bool_iff; exact H|apply near_eq; exact H].
Qed.

Local Open Scope Qc_scope.

Lemma Qcleb_true : forall a b : Qc, Qcleb a b = true -> a <= b.
Proof. intros a b H. unfold Qcleb in H. apply Qle_bool_iff in H. exact H. Qed.

Lemma Qcleb_false : forall a b : Qc, Qcleb a b = false -> b <= a.
Proof.
  intros a b H. apply Qclt_le_weak. apply Qcnot_le_lt. intro L.
  unfold Qcleb in H. unfold Qcle in L. apply Qle_bool_iff in L. congruence.
Qed.

Lemma fold_max : forall t x,
  let m := fold_left (fun a y => if Qcleb a y then y else a) t x in
  In m (x :: t) /\ forall y, In y (x :: t) -> y <= m.
Proof.
  induction t as [|z t IH]; intro x; cbn [fold_left].
  - split; [left; reflexivity|]. intros y [<-|[]]. apply Qcle_refl.
  - destruct (IH (if Qcleb x z then z else x)) as [Hin Hle]. split.
    + destruct Hin as [E|Hin]; [|right; right; exact Hin].
      rewrite <- E. destruct (Qcleb x z); [right; left|left]; reflexivity.
    + intros y [<-|[<-|Hy]].
      * eapply Qcle_trans; [|apply Hle; left; reflexivity].
        destruct (Qcleb x z) eqn:E; [apply Qcleb_true; exact E|apply Qcle_refl].
      * eapply Qcle_trans; [|apply Hle; left; reflexivity].
        destruct (Qcleb x z) eqn:E; [apply Qcle_refl|apply Qcleb_false; exact E].
      * apply Hle. right. exact Hy.
Qed.

Lemma fold_min : forall t x,
  let m := fold_left (fun a y => if Qcleb y a then y else a) t x in
  In m (x :: t) /\ forall y, In y (x :: t) -> m <= y.
Proof.
  induction t as [|z t IH]; intro x; cbn [fold_left].
  - split; [left; reflexivity|]. intros y [<-|[]]. apply Qcle_refl.
  - destruct (IH (if Qcleb z x then z else x)) as [Hin Hle]. split.
    + destruct Hin as [E|Hin]; [|right; right; exact Hin].
      rewrite <- E. destruct (Qcleb z x); [right; left|left]; reflexivity.
    + intros y [<-|[<-|Hy]].
      * eapply Qcle_trans; [apply Hle; left; reflexivity|].
        destruct (Qcleb z x) eqn:E; [apply Qcleb_true; exact E|apply Qcle_refl].
      * eapply Qcle_trans; [apply Hle; left; reflexivity|].
        destruct (Qcleb z x) eqn:E; [apply Qcle_refl|apply Qcleb_false; exact E].
      * apply Hle. right. exact Hy.
Qed.

Lemma lmax_is_max : forall l, l <> [] -> is_max l (lmax l).
Proof. intros [|x t] H; [congruence|]. exact (fold_max t x). Qed.

Lemma lmin_is_min : forall l, l <> [] -> is_min l (lmin l).
Proof. intros [|x t] H; [congruence|]. exact (fold_min t x). Qed.

(** the observation the model itself would produce, completed with a std_dev *)
Definition obs_of_ds (s : ds) (sd : Q) : obs :=
  let r := d_range (s_disp s) in
  mkObs (uq (s_count s)) (uq (s_sum s)) (uq (s_mean s)) (r_act r) (uq (r_high r)) (uq (r_low r))
        (uq (range_span r)) (uq (d_m (s_disp s))) (uq (d_var (s_disp s))) sd.

Theorem oracle_accepts_model : forall (exact : bool) (sc1 sc2 : Q) (l : list Qc) (sd : Q),
  l <> [] -> (0 <= sd)%Q -> (sd * sd == uq (d_var (s_disp (ds_run l))))%Q ->
  batch_ok_gen exact sc1 sc2 l (obs_of_ds (ds_run l) sd) = true.
Proof.
  intros exact sc1 sc2 l sd Hne Hsd0 Hsd.
  destruct (run_equals_batch l) as (Hc & Hs & Hm & HM & Hv).
  destruct (run_range l Hne) as (Hact & Hmax & Hmin).
  destruct (run_mean_in_range l Hne) as (Hlo & Hhi).
  pose proof (run_var_nonneg l) as Hvar.
  pose proof (is_max_unique l l _ _ (Permutation.Permutation_refl l) Hmax (lmax_is_max l Hne)) as EH.
  pose proof (is_min_unique l l _ _ (Permutation.Permutation_refl l) Hmin (lmin_is_min l Hne)) as EL.
  unfold batch_ok_gen, obs_of_ds, sd_ok.
  cbn [o_count o_sum o_mean o_act o_high o_low o_span o_m o_var o_sd].
  unfold b_count, b_sum, b_var, b_M, b_mean in *. unfold range_span.
  rewrite Hc, Hs, Hm, HM, EH, EL, Hact.
  set (V := d_var (s_disp (ds_run l))) in *. rewrite <- Hv.
  repeat (apply andb_true_intro; split);
    try (apply Qeq_bool_refl'); try (apply eq_or_near_eq; reflexivity);
    try (apply near_eq; reflexivity); try reflexivity.
  - apply Qle_bool_iff. exact Hvar.
  - apply Qle_bool_iff. exact Hsd0.
  - apply near_eq. symmetry. exact Hsd.
  - apply Qle_bool_iff. exact Hsd0.
  - apply near_eq. symmetry. exact Hsd.
  - apply Qle_bool_iff. rewrite <- EL, <- Hm. exact Hlo.
  - apply Qle_bool_iff. rewrite <- EH, <- Hm. exact Hhi.
Qed.
