(** The C17 oracle is no stricter than the model: the summary the model computes for ANY
    non-empty dataset (completed with any non-negative number whose square is the variance as
    std_dev) is accepted by the whole-dataset oracle [batch_ok] of Corr/C17.v, at every
    tolerance scale.  Hence wherever the implementation agrees with the model, the observed
    behaviour satisfies the property oracle. *)
From Coq Require Import Lia.
From BV Require Import Base.Common Model.Stats Proofs.Stats Corr.C17.
Local Open Scope Q_scope.

Lemma Qeq_bool_refl' : forall x : Q, Qeq_bool x x = true.
Proof. intro x. apply Qeq_bool_iff. reflexivity. Qed.

Lemma Qabs'_nonneg : forall x : Q, 0 <= Qabs' x.
Proof.
  intro x. unfold Qabs'. destruct (Qle_bool 0 x) eqn:E.
  - apply Qle_bool_iff. exact E.
  - assert (H : ~ 0 <= x) by (intro H; apply Qle_bool_iff in H; congruence).
    apply Qnot_le_lt in H. apply Qlt_le_weak in H.
    apply (Qopp_le_compat x 0) in H. exact H.
Qed.

Lemma Qabs'_zero : forall x : Q, x == 0 -> Qabs' x == 0.
Proof.
  intros x H. unfold Qabs'. destruct (Qle_bool 0 x); [exact H|]. rewrite H. reflexivity.
Qed.

Lemma tol_nonneg : forall sc : Q, 0 <= tol_abs + tol_rel * Qabs' sc.
Proof.
  intro sc.
  assert (A : 0 <= tol_abs) by (unfold Qle; vm_compute; intro H; discriminate H).
  assert (B : 0 <= tol_rel) by (unfold Qle; vm_compute; intro H; discriminate H).
  pose proof (Qabs'_nonneg sc) as C.
  pose proof (Qmult_le_0_compat _ _ B C) as D.
  replace 0 with (0 + 0) by reflexivity. apply Qplus_le_compat; assumption.
Qed.

Lemma near_eq : forall sc a b : Q, a == b -> near sc a b = true.
Proof.
  intros sc a b H. unfold near. apply Qle_bool_iff.
  rewrite (Qabs'_zero (a - b)) by (rewrite H; ring). apply tol_nonneg.
Qed.

Lemma eq_or_near_eq : forall e sc a b, a == b -> eq_or_near e sc a b = true.
Proof.
  intros e sc a b H. unfold eq_or_near. destruct e; [apply Qeq_bool_iff; exact H|apply near_eq; exact H].
Qed.

Local Open Scope Qc_scope.

Lemma Qcleb_true : forall a b : Qc, Qcleb a b = true -> a <= b.
Proof. intros a b H. unfold Qcleb in H. apply Qle_bool_iff in H. exact H. Qed.

Lemma Qcleb_false : forall a b : Qc, Qcleb a b = false -> b <= a.
Proof.
  intros a b H. apply Qclt_le_weak. apply Qcnot_le_lt. intro L.
  unfold Qcleb in H. unfold Qcle in L. apply Qle_bool_iff in L. congruence.
Qed.

Lemma fold_max : forall t x,
  let m := fold_left (fun a y => if Qcleb a y then y else a) t x in
  In m (x :: t) /\ forall y, In y (x :: t) -> y <= m.
Proof.
  induction t as [|z t IH]; intro x; cbn [fold_left].
  - split; [left; reflexivity|]. intros y [<-|[]]. apply Qcle_refl.
  - destruct (IH (if Qcleb x z then z else x)) as [Hin Hle]. split.
    + destruct Hin as [E|Hin]; [|right; right; exact Hin].
      rewrite <- E. destruct (Qcleb x z); [right; left|left]; reflexivity.
    + intros y [<-|[<-|Hy]].
      * eapply Qcle_trans; [|apply Hle; left; reflexivity].
        destruct (Qcleb x z) eqn:E; [apply Qcleb_true; exact E|apply Qcle_refl].
      * eapply Qcle_trans; [|apply Hle; left; reflexivity].
        destruct (Qcleb x z) eqn:E; [apply Qcle_refl|apply Qcleb_false; exact E].
      * apply Hle. right. exact Hy.
Qed.

Lemma fold_min : forall t x,
  let m := fold_left (fun a y => if Qcleb y a then y else a) t x in
  In m (x :: t) /\ forall y, In y (x :: t) -> m <= y.
Proof.
  induction t as [|z t IH]; intro x; cbn [fold_left].
  - split; [left; reflexivity|]. intros y [<-|[]]. apply Qcle_refl.
  - destruct (IH (if Qcleb z x then z else x)) as [Hin Hle]. split.
    + destruct Hin as [E|Hin]; [|right; right; exact Hin].
      rewrite <- E. destruct (Qcleb z x); [right; left|left]; reflexivity.
    + intros y [<-|[<-|Hy]].
      * eapply Qcle_trans; [apply Hle; left; reflexivity|].
        destruct (Qcleb z x) eqn:E; [apply Qcleb_true; exact E|apply Qcle_refl].
      * eapply Qcle_trans; [apply Hle; left; reflexivity|].
        destruct (Qcleb z x) eqn:E; [apply Qcle_refl|apply Qcleb_false; exact E].
      * apply Hle. right. exact Hy.
Qed.

Lemma lmax_is_max : forall l, l <> [] -> is_max l (lmax l).
Proof. intros [|x t] H; [congruence|]. exact (fold_max t x). Qed.

Lemma lmin_is_min : forall l, l <> [] -> is_min l (lmin l).
Proof. intros [|x t] H; [congruence|]. exact (fold_min t x). Qed.

(** the observation the model itself would produce, completed with a std_dev *)
Definition obs_of_ds (s : ds) (sd : Q) : obs :=
  let r := d_range (s_disp s) in
  mkObs (uq (s_count s)) (uq (s_sum s)) (uq (s_mean s)) (r_act r) (uq (r_high r)) (uq (r_low r))
        (uq (range_span r)) (uq (d_m (s_disp s))) (uq (d_var (s_disp s))) sd.

Theorem oracle_accepts_model : forall (exact : bool) (sc1 sc2 : Q) (l : list Qc) (sd : Q),
  l <> [] -> (0 <= sd)%Q -> (sd * sd == uq (d_var (s_disp (ds_run l))))%Q ->
  batch_ok_gen exact sc1 sc2 l (obs_of_ds (ds_run l) sd) = true.
Proof.
  intros exact sc1 sc2 l sd Hne Hsd0 Hsd.
  destruct (run_equals_batch l) as (Hc & Hs & Hm & HM & Hv).
  destruct (run_range l Hne) as (Hact & Hmax & Hmin).
  destruct (run_mean_in_range l Hne) as (Hlo & Hhi).
  pose proof (run_var_nonneg l) as Hvar.
  pose proof (is_max_unique l l _ _ (Permutation.Permutation_refl l) Hmax (lmax_is_max l Hne)) as EH.
  pose proof (is_min_unique l l _ _ (Permutation.Permutation_refl l) Hmin (lmin_is_min l Hne)) as EL.
  unfold batch_ok_gen, obs_of_ds, sd_ok.
  cbn [o_count o_sum o_mean o_act o_high o_low o_span o_m o_var o_sd].
  unfold b_count, b_sum, b_var, b_M, b_mean in *. unfold range_span.
  rewrite Hc, Hs, Hm, HM, EH, EL, Hact.
  set (V := d_var (s_disp (ds_run l))) in *. rewrite <- Hv.
  repeat (apply andb_true_intro; split);
    try (apply Qeq_bool_refl'); try (apply eq_or_near_eq; reflexivity);
    try (apply near_eq; reflexivity); try reflexivity.
  - apply Qle_bool_iff. exact Hvar.
  - apply Qle_bool_iff. exact Hsd0.
  - apply near_eq. symmetry. exact Hsd.
  - apply Qle_bool_iff. exact Hsd0.
  - apply near_eq. symmetry. exact Hsd.
  - apply Qle_bool_iff. rewrite <- EL, <- Hm. exact Hlo.
  - apply Qle_bool_iff. rewrite <- EH, <- Hm. exact Hhi.
Qed.

(* =================================================================================================== *)
(** * The general link: whatever [corr_b] accepts, [prop_b] accepts                                     *)
(* =================================================================================================== *)
From Coq Require Import Qabs Permutation.
Local Open Scope Q_scope.

Definition tolq (sc : Q) : Q := tol_abs + tol_rel * Qabs' sc.

Lemma Qabs'_Qabs : forall x : Q, Qabs' x == Qabs x.
Proof.
  intro x. unfold Qabs'. destruct (Qle_bool 0 x) eqn:E.
  - apply Qle_bool_iff in E. symmetry. apply Qabs_pos. exact E.
  - assert (H : ~ 0 <= x) by (intro H; apply Qle_bool_iff in H; congruence).
    apply Qnot_le_lt, Qlt_le_weak in H. symmetry. apply Qabs_neg. exact H.
Qed.

Lemma near_iff : forall sc a b, near sc a b = true <-> Qabs (a - b) <= tolq sc.
Proof. intros. unfold near, tolq. rewrite Qle_bool_iff, Qabs'_Qabs. reflexivity. Qed.

Lemma near2_iff : forall sc a b, near2 sc a b = true <-> Qabs (a - b) <= (2 # 1) * tolq sc.
Proof. intros. unfold near2, tolq. rewrite Qle_bool_iff, Qabs'_Qabs. reflexivity. Qed.

Lemma near_morph : forall sc a a' b b', a == a' -> b == b' -> near sc a b = true -> near sc a' b' = true.
Proof. intros sc a a' b b' Ha Hb. rewrite !near_iff. rewrite Ha, Hb. exact (fun H => H). Qed.

(** two values within the tolerance of the same value are within twice the tolerance of each other *)
Lemma near_tri : forall sc x a b, near sc x a = true -> near sc x b = true -> near2 sc a b = true.
Proof.
  intros sc x a b. rewrite !near_iff, near2_iff. intros Ha Hb.
  setoid_replace (a - b) with ((a - x) + (x - b)) by ring.
  eapply Qle_trans; [apply Qabs_triangle|].
  rewrite (Qabs_Qminus a x).
  setoid_replace ((2 # 1) * tolq sc) with (tolq sc + tolq sc) by ring.
  apply Qplus_le_compat; assumption.
Qed.

Lemma Qeq_bool_sym' : forall a b, Qeq_bool a b = true -> Qeq_bool b a = true.
Proof. intros a b H. apply Qeq_bool_iff. symmetry. apply Qeq_bool_iff. exact H. Qed.

Lemma Qeq_bool_trans' : forall x a b, Qeq_bool x a = true -> Qeq_bool x b = true -> Qeq_bool a b = true.
Proof.
  intros x a b H1 H2. apply Qeq_bool_iff. apply Qeq_bool_iff in H1, H2. rewrite <- H1, <- H2. reflexivity.
Qed.

Ltac split_andb H :=
  repeat match type of H with
         | (_ && _ = true) =>
             let H1 := fresh "A" in let H2 := fresh "A" in
             apply andb_true_iff in H; destruct H as [H1 H2]; split_andb H1
         end.

(* ---- one observation ------------------------------------------------------------------------------- *)

(** an observation that agrees with the model's summary of the non-empty dataset [l] (and
    satisfies the exact facts [obs_inv]) passes the whole-dataset oracle, at the same tolerance *)
Lemma obs_sound : forall e sc1 sc2 l o, l <> [] ->
  obs_matches_gen e sc1 sc2 (ds_run l) o = true -> obs_inv o = true ->
  batch_ok_gen e sc1 sc2 l o = true.
Proof.
  intros e sc1 sc2 l o Hne H Hinv.
  destruct (run_equals_batch l) as (Hc & Hs & Hm & HM & Hv).
  destruct (run_range l Hne) as (Hact & Hmax & Hmin).
  pose proof (is_max_unique l l _ _ (Permutation_refl l) Hmax (lmax_is_max l Hne)) as EH.
  pose proof (is_min_unique l l _ _ (Permutation_refl l) Hmin (lmin_is_min l Hne)) as EL.
  unfold obs_matches_gen in H. unfold range_span in H.
  unfold b_count, b_sum, b_var, b_M, b_mean in *.
  rewrite Hc, Hs, Hm, HM, Hv, EH, EL, Hact in H.
  unfold obs_inv in Hinv.
  apply andb_true_iff in H. destruct H as [H H10].
  apply andb_true_iff in H. destruct H as [H H9].
  apply andb_true_iff in H. destruct H as [H H8].
  apply andb_true_iff in H. destruct H as [H H7].
  apply andb_true_iff in H. destruct H as [H H6].
  apply andb_true_iff in H. destruct H as [H H5].
  apply andb_true_iff in H. destruct H as [H H4].
  apply andb_true_iff in H. destruct H as [H H3].
  apply andb_true_iff in H. destruct H as [H1 H2].
  apply andb_true_iff in Hinv. destruct Hinv as [Hinv I4].
  apply andb_true_iff in Hinv. destruct Hinv as [Hinv I3].
  apply andb_true_iff in Hinv. destruct Hinv as [I1 I2].
  assert (Ho : o_act o = true) by (destruct (o_act o); [reflexivity|discriminate H4]).
  unfold batch_ok_gen.
  rewrite (Qeq_bool_sym' _ _ H1), H2, H3, H8, H9, I1, H10, I2, Ho,
          (Qeq_bool_sym' _ _ H5), (Qeq_bool_sym' _ _ H6), H7, I3, I4.
  reflexivity.
Qed.

(* ---- sequences --------------------------------------------------------------------------------------- *)

Lemma run_sound : forall sc1 sc2 rest seen os,
  corr_run sc1 sc2 (ds_run (map qc seen)) rest os = true ->
  prop_run sc1 sc2 (map qc seen) (map qc rest) os = true.
Proof.
  intros sc1 sc2. induction rest as [|v rest IH]; intros seen os H.
  - destruct os; [reflexivity|discriminate H].
  - destruct os as [|o os]; [discriminate H|].
    cbn [corr_run] in H. cbn [map prop_run].
    apply andb_true_iff in H. destruct H as [H Hrest].
    apply andb_true_iff in H. destruct H as [Hm Hinv].
    assert (E : ds_update (ds_run (map qc seen)) (qc v) = ds_run (map qc (seen ++ [v]))).
    { rewrite map_app. cbn [map]. symmetry. apply ds_run_snoc. }
    rewrite E in Hm, Hrest.
    assert (E2 : map qc seen ++ [qc v] = map qc (seen ++ [v])) by (rewrite map_app; reflexivity).
    rewrite E2. apply andb_true_intro. split.
    + apply obs_sound; [|exact Hm|exact Hinv].
      rewrite <- E2. intro Z. apply app_eq_nil in Z. destruct Z as [_ Z]. discriminate Z.
    + apply IH. exact Hrest.
Qed.

Lemma default_sound_gen : forall e sc1 sc2 o,
  obs_matches_gen e sc1 sc2 ds_default o = true -> empty_ok_gen e sc1 o = true.
Proof.
  intros e sc1 sc2 o H. unfold obs_matches_gen in H.
  cbn [ds_default disp_default range_default s_count s_sum s_mean s_disp d_range d_m d_var
       r_act r_high r_low] in H.
  apply andb_true_iff in H. destruct H as [H _]. apply andb_true_iff in H. destruct H as [H _].
  apply andb_true_iff in H. destruct H as [H _]. apply andb_true_iff in H. destruct H as [H _].
  apply andb_true_iff in H. destruct H as [H _]. apply andb_true_iff in H. destruct H as [H _].
  apply andb_true_iff in H. destruct H as [H H4]. apply andb_true_iff in H. destruct H as [H _].
  apply andb_true_iff in H. destruct H as [H1 H2].
  assert (Ho : negb (o_act o) = true) by (destruct (o_act o); [discriminate H4|reflexivity]).
  unfold empty_ok_gen. change (uq 0%Qc) with 0 in H1, H2. rewrite H1, H2, Ho. reflexivity.
Qed.

Lemma default_sound : forall sc1 sc2 o, obs_matches sc1 sc2 ds_default o = true -> empty_ok o = true.
Proof.
  intros sc1 sc2 o H. apply default_sound_gen in H. unfold empty_ok.
  unfold empty_ok_gen, eq_or_near in *. exact H.
Qed.

(* ---- permutations --------------------------------------------------------------------------------------- *)

Lemma qc_eq : forall x y, Qeq_bool x y = true -> qc x = qc y.
Proof.
  intros x y H. apply Qeq_bool_iff in H. unfold qc. apply Qc_is_canon.
  cbn [this Q2Qc]. rewrite !Qred_correct. exact H.
Qed.

Lemma remove_first_perm : forall x l l',
  remove_first x l = Some l' -> Permutation (map qc l) (qc x :: map qc l').
Proof.
  intros x l. induction l as [|y t IH]; intros l' H; [discriminate H|].
  cbn [remove_first] in H. destruct (Qeq_bool x y) eqn:E.
  - injection H as <-. cbn [map]. rewrite (qc_eq _ _ E). apply Permutation_refl.
  - destruct (remove_first x t) as [t'|]; [|discriminate H]. cbn in H. injection H as <-.
    cbn [map]. eapply perm_trans; [apply perm_skip; apply IH; reflexivity|apply perm_swap].
Qed.

Lemma is_perm_sound : forall l1 l2, is_perm_b l1 l2 = true -> Permutation (map qc l1) (map qc l2).
Proof.
  induction l1 as [|x t IH]; intros l2 H.
  - destruct l2; [apply perm_nil|discriminate H].
  - cbn [is_perm_b] in H. destruct (remove_first x l2) as [l2'|] eqn:E; [|discriminate H].
    cbn [map]. eapply perm_trans; [apply perm_skip; apply IH; exact H|].
    apply Permutation_sym. apply remove_first_perm. exact E.
Qed.

Lemma same_sound : forall sc1 sc2 S a b,
  obs_matches sc1 sc2 S a = true -> obs_matches sc1 sc2 S b = true ->
  same_summary sc1 sc2 (Qabs' sc2 + Qabs' (uq (d_var (s_disp S)))) a b = true.
Proof.
  intros sc1 sc2 S a b Ha Hb. unfold obs_matches, obs_matches_gen, eq_or_near, sd_ok in Ha, Hb.
  apply andb_true_iff in Ha. destruct Ha as [Ha A10].
  apply andb_true_iff in Ha. destruct Ha as [Ha A9].
  apply andb_true_iff in Ha. destruct Ha as [Ha A8].
  apply andb_true_iff in Ha. destruct Ha as [Ha A7].
  apply andb_true_iff in Ha. destruct Ha as [Ha A6].
  apply andb_true_iff in Ha. destruct Ha as [Ha A5].
  apply andb_true_iff in Ha. destruct Ha as [Ha A4].
  apply andb_true_iff in Ha. destruct Ha as [Ha A3].
  apply andb_true_iff in Ha. destruct Ha as [A1 A2].
  apply andb_true_iff in A10. destruct A10 as [_ A10].
  apply andb_true_iff in Hb. destruct Hb as [Hb B10].
  apply andb_true_iff in Hb. destruct Hb as [Hb B9].
  apply andb_true_iff in Hb. destruct Hb as [Hb B8].
  apply andb_true_iff in Hb. destruct Hb as [Hb B7].
  apply andb_true_iff in Hb. destruct Hb as [Hb B6].
  apply andb_true_iff in Hb. destruct Hb as [Hb B5].
  apply andb_true_iff in Hb. destruct Hb as [Hb B4].
  apply andb_true_iff in Hb. destruct Hb as [Hb B3].
  apply andb_true_iff in Hb. destruct Hb as [B1 B2].
  apply andb_true_iff in B10. destruct B10 as [_ B10].
  assert (Eact : eqb (o_act a) (o_act b) = true).
  { apply eqb_prop in A4, B4. rewrite <- A4, <- B4. apply eqb_reflx. }
  unfold same_summary.
  rewrite (Qeq_bool_trans' _ _ _ A1 B1), (Qeq_bool_trans' _ _ _ A2 B2), Eact,
          (Qeq_bool_trans' _ _ _ A5 B5), (Qeq_bool_trans' _ _ _ A6 B6),
          (near_tri _ _ _ _ A3 B3), (near_tri _ _ _ _ A8 B8), (near_tri _ _ _ _ A9 B9),
          (near_tri _ _ _ _ A10 B10).
  reflexivity.
Qed.

(* ---- Q <-> Qc for the single-function cases ------------------------------------------------------------------ *)

Lemma uq_qc : forall x, uq (qc x) == x.
Proof. intro x. unfold uq, qc. cbn [this Q2Qc]. apply Qred_correct. Qed.

Lemma uq_plus : forall a b : Qc, uq (a + b)%Qc == uq a + uq b.
Proof. intros. unfold uq, Qcplus. cbn [this Q2Qc]. apply Qred_correct. Qed.
Lemma uq_minus : forall a b : Qc, uq (a - b)%Qc == uq a - uq b.
Proof.
  intros. unfold uq, Qcminus, Qcplus, Qcopp. cbn [this Q2Qc]. rewrite !Qred_correct. reflexivity.
Qed.
Lemma uq_mult : forall a b : Qc, uq (a * b)%Qc == uq a * uq b.
Proof. intros. unfold uq, Qcmult. cbn [this Q2Qc]. apply Qred_correct. Qed.
Lemma uq_div : forall a b : Qc, uq (a / b)%Qc == uq a / uq b.
Proof.
  intros. unfold uq, Qcdiv, Qcmult, Qcinv. cbn [this Q2Qc]. rewrite !Qred_correct. reflexivity.
Qed.

Lemma Qcltb_qc : forall a b, Qcltb (qc a) (qc b) = negb (Qle_bool b a).
Proof.
  intros a b. unfold Qcltb, qc. cbn [this Q2Qc]. rewrite !Qred_correct. reflexivity.
Qed.

Lemma Qle_bool_false_lt : forall a b, Qle_bool a b = false -> b < a.
Proof.
  intros a b H. apply Qnot_le_lt. intro L. apply Qle_bool_iff in L. congruence.
Qed.

Lemma range_sound : forall act hi lo x act' hi' lo',
  range_matches (range_update (mkRange act (qc hi) (qc lo)) (qc x)) act' hi' lo' = true ->
  (if act then
     if Qle_bool lo hi then
       act' && Qeq_bool hi' (Qmaxq hi x) && Qeq_bool lo' (if Qle_bool lo x then lo else x)
     else true
   else act' && Qeq_bool hi' x && Qeq_bool lo' x) = true.
Proof.
  intros act hi lo x act' hi' lo' H. unfold range_matches, range_update in H.
  cbn [r_act r_high r_low] in H. destruct act; cbn [r_act r_high r_low] in H.
  - destruct (Qle_bool lo hi); [|reflexivity].
    rewrite !Qcltb_qc in H.
    apply andb_true_iff in H. destruct H as [H H3]. apply andb_true_iff in H. destruct H as [H1 H2].
    apply eqb_prop in H1. subst act'. cbn [andb].
    apply andb_true_intro. split; apply Qeq_bool_iff.
    + apply Qeq_bool_iff in H2. rewrite <- H2. unfold Qmaxq.
      destruct (Qle_bool x hi) eqn:E1; cbn [negb].
      * rewrite uq_qc. destruct (Qle_bool hi x) eqn:E2; [|reflexivity].
        apply Qle_bool_iff in E1, E2. apply Qle_antisym; assumption.
      * rewrite uq_qc. apply Qle_bool_false_lt, Qlt_le_weak in E1.
        apply Qle_bool_iff in E1. rewrite E1. reflexivity.
    + apply Qeq_bool_iff in H3. rewrite <- H3.
      destruct (Qle_bool lo x); cbn [negb]; rewrite uq_qc; reflexivity.
  - apply andb_true_iff in H. destruct H as [H H3]. apply andb_true_iff in H. destruct H as [H1 H2].
    apply eqb_prop in H1. subst act'. cbn [andb].
    apply Qeq_bool_iff in H2, H3. rewrite uq_qc in H2, H3.
    apply andb_true_intro. split; apply Qeq_bool_iff; symmetry; assumption.
Qed.

Lemma Qle_1_nonzero : forall c, Qle_bool 1 c = true -> ~ c == 0.
Proof.
  intros c H E. apply Qle_bool_iff in H. rewrite E in H. revert H. unfold Qle. cbn. lia.
Qed.

Lemma mean_sound : forall pm x c r sc, Qle_bool 1 c = true ->
  near sc (uq (calc_mean (qc pm) (qc x) (qc c))) r = true ->
  near sc ((pm * (c - 1) + x) / c) r = true.
Proof.
  intros pm x c r sc Hc H. pose proof (Qle_1_nonzero c Hc) as Hnz.
  refine (near_morph _ _ _ _ _ _ (Qeq_refl r) H).
  unfold calc_mean. rewrite uq_plus, uq_div, uq_minus, !uq_qc. field. exact Hnz.
Qed.

Lemma popvar_sound : forall m c r sc, Qle_bool 1 c = true ->
  near sc (uq (calc_pop_var (qc m) (qc c))) r = true -> near sc (m / c) r = true.
Proof.
  intros m c r sc Hc H.
  refine (near_morph _ _ _ _ _ _ (Qeq_refl r) H).
  unfold calc_pop_var. change 1%Qc with (qc 1). rewrite Qcltb_qc, Hc. cbn [negb].
  rewrite uq_div, !uq_qc. reflexivity.
Qed.

(* ---- the theorem ------------------------------------------------------------------------------------------------ *)

Theorem oracle_sound : forall c : case, corr_b c = true -> prop_b c = true.
Proof.
  induction c as [vals o0 os|base finals|st x res|act hi lo x act' hi' lo'|x act' hi' lo'|pm x c r|m pm x nm r|m c r
                  |pts ch c' IH]; intro H; cbn [corr_b prop_b] in *.
  9:{ apply andb_true_iff in H. destruct H as [H1 H2]. rewrite H1. cbn [andb]. exact (IH H2). }
  - (* CSeq *)
    apply andb_true_iff in H. destruct H as [H0 H]. apply andb_true_intro. split.
    + exact (default_sound _ _ _ H0).
    + apply (run_sound _ _ vals [] os). exact H.
  - (* CPerms *)
    rewrite forallb_forall in H.
    assert (HS : forall po, In po finals ->
              Permutation (map qc base) (map qc (fst po)) /\
              obs_matches (scale1 base) (scale2 base) (ds_run (map qc base)) (snd po) = true /\
              obs_inv (snd po) = true).
    { intros po Hin. specialize (H po Hin).
      apply andb_true_iff in H. destruct H as [H Hi]. apply andb_true_iff in H. destruct H as [Hp Hm].
      apply is_perm_sound in Hp. rewrite (run_perm _ _ Hp). auto. }
    destruct base as [|b0 base'].
    + apply forallb_forall. intros po Hin. destruct (HS po Hin) as (_ & Hm & _).
      cbn [map] in Hm. change (ds_run []) with ds_default in Hm.
      exact (default_sound _ _ _ Hm).
    + destruct finals as [|[p0 f0] finals']; [reflexivity|].
      apply forallb_forall. intros po Hin.
      destruct (HS po Hin) as (_ & Hm & Hi).
      destruct (HS (p0, f0) (or_introl eq_refl)) as (_ & Hm0 & _). cbn [snd] in Hm0.
      apply andb_true_intro. split.
      * apply obs_sound; [discriminate|exact Hm|exact Hi].
      * destruct (run_equals_batch (map qc (b0 :: base'))) as (_ & _ & _ & _ & Hv).
        rewrite <- Hv. apply same_sound; assumption.
  - reflexivity.
  - apply range_sound. exact H.
  - unfold range_matches, range_init in H. cbn [r_act r_high r_low] in H.
    apply andb_true_iff in H. destruct H as [H H3]. apply andb_true_iff in H. destruct H as [H1 H2].
    apply eqb_prop in H1. subst act'. cbn [andb].
    apply Qeq_bool_iff in H2, H3. rewrite uq_qc in H2, H3.
    apply andb_true_intro. split; apply Qeq_bool_iff; symmetry; assumption.
  - destruct (Qle_bool 1 c) eqn:Hc; [|reflexivity]. apply mean_sound; assumption.
  - reflexivity.
  - destruct (Qle_bool 1 c) eqn:Hc; [|reflexivity]. apply popvar_sound; assumption.
Qed.
