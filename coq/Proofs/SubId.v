(** Lemmas for the subscription-id protocol model (Model/SubId.v). *)
From Coq Require Import String Ascii List ZArith NArith Bool Lia DecimalString DecimalN DecimalPos DecimalFacts.
From BV Require Import Model.SubId.
Import ListNotations.
Local Open Scope string_scope.

(* ------------------------------------------------------------------------------------------ *)
(** * ASCII case maps *)

Lemma upper_ascii_idem : forall c, upper_ascii (upper_ascii c) = upper_ascii c.
Proof. intros c. destruct c as [[|] [|] [|] [|] [|] [|] [|] [|]]; reflexivity. Qed.

Lemma upper_lower_ascii : forall c, upper_ascii (lower_ascii c) = upper_ascii c.
Proof. intros c. destruct c as [[|] [|] [|] [|] [|] [|] [|] [|]]; reflexivity. Qed.

Lemma lower_upper_ascii : forall c, lower_ascii (upper_ascii c) = lower_ascii c.
Proof. intros c. destruct c as [[|] [|] [|] [|] [|] [|] [|] [|]]; reflexivity. Qed.

Lemma lower_ascii_idem : forall c, lower_ascii (lower_ascii c) = lower_ascii c.
Proof. intros c. destruct c as [[|] [|] [|] [|] [|] [|] [|] [|]]; reflexivity. Qed.

Lemma smap_app : forall f a b, smap f (a ++ b) = smap f a ++ smap f b.
Proof. intros f a b. induction a as [|c a IH]; cbn; [reflexivity|now rewrite IH]. Qed.

Lemma smap_smap : forall f g s, smap f (smap g s) = smap (fun c => f (g c)) s.
Proof. intros f g s. induction s as [|c s IH]; cbn; [reflexivity|now rewrite IH]. Qed.

Lemma smap_ext : forall f g s, (forall c, f c = g c) -> smap f s = smap g s.
Proof. intros f g s H. induction s as [|c s IH]; cbn; [reflexivity|now rewrite IH, H]. Qed.

Lemma upper_app : forall a b, upper (a ++ b) = upper a ++ upper b.
Proof. intros; apply smap_app. Qed.
Lemma lower_app : forall a b, lower (a ++ b) = lower a ++ lower b.
Proof. intros; apply smap_app. Qed.
Lemma upper_idem : forall s, upper (upper s) = upper s.
Proof. intros s. unfold upper. rewrite smap_smap. apply smap_ext, upper_ascii_idem. Qed.
Lemma lower_idem : forall s, lower (lower s) = lower s.
Proof. intros s. unfold lower. rewrite smap_smap. apply smap_ext, lower_ascii_idem. Qed.
Lemma upper_lower : forall s, upper (lower s) = upper s.
Proof. intros s. unfold upper, lower. rewrite smap_smap. apply smap_ext, upper_lower_ascii. Qed.
Lemma lower_upper : forall s, lower (upper s) = lower s.
Proof. intros s. unfold upper, lower. rewrite smap_smap. apply smap_ext, lower_upper_ascii. Qed.

(** strings without lower-case letters are fixed by [upper] *)
Definition no_lower (s : string) : Prop := upper s = s.
Lemma no_lower_app : forall a b, no_lower a -> no_lower b -> no_lower (a ++ b).
Proof. unfold no_lower; intros a b Ha Hb. now rewrite upper_app, Ha, Hb. Qed.
Lemma no_lower_upper : forall s, no_lower (upper s).
Proof. intros; apply upper_idem. Qed.

(* ------------------------------------------------------------------------------------------ *)
(** * Decimal printing *)

Lemma string_of_uint_digits : forall d (P : ascii -> bool),
  (forall c, In c ["0";"1";"2";"3";"4";"5";"6";"7";"8";"9"]%char -> P c = true) ->
  forall c, In c (list_ascii_of_string (NilEmpty.string_of_uint d)) -> P c = true.
Proof.
  intros d P HP. induction d; cbn; intros c Hc; try contradiction;
  (destruct Hc as [<-|Hc]; [apply HP; cbn; tauto|now apply IHd]).
Qed.

Lemma to_uint_nonnil : forall n, N.to_uint n <> Decimal.Nil.
Proof.
  intros [|p]; cbn; [discriminate|]. apply DecimalPos.Unsigned.to_uint_nonnil.
Qed.

Lemma dec_nilempty : forall n, dec n = NilEmpty.string_of_uint (N.to_uint n).
Proof.
  intros n. unfold dec, NilZero.string_of_uint. pose proof (to_uint_nonnil n) as H.
  destruct (N.to_uint n); [contradiction|reflexivity..].
Qed.

Lemma dec_chars : forall n (P : ascii -> bool),
  (forall c, In c ["0";"1";"2";"3";"4";"5";"6";"7";"8";"9"]%char -> P c = true) ->
  forall c, In c (list_ascii_of_string (dec n)) -> P c = true.
Proof. intros n P HP c. rewrite dec_nilempty. now apply string_of_uint_digits. Qed.

Lemma has_char_false : forall c s,
  (forall d, In d (list_ascii_of_string s) -> Ascii.eqb d c = false) -> has_char c s = false.
Proof.
  intros c s. induction s as [|d s IH]; cbn; intros H; [reflexivity|].
  rewrite (H d (or_introl eq_refl)). cbn. apply IH. intros; apply H; now right.
Qed.

Lemma dec_no_bar : forall n, has_bar (dec n) = false.
Proof.
  intros n. apply has_char_false. intros d Hd.
  apply (dec_chars n (fun x => negb (Ascii.eqb x bar))) in Hd.
  - now apply negb_true_iff in Hd.
  - intros c Hc. cbn in Hc. repeat (destruct Hc as [<-|Hc]; [reflexivity|]). contradiction.
Qed.

Lemma smap_fixed : forall f s,
  (forall c, In c (list_ascii_of_string s) -> f c = c) -> smap f s = s.
Proof.
  intros f s. induction s as [|c s IH]; cbn; intros H; [reflexivity|].
  rewrite (H c (or_introl eq_refl)), IH; [reflexivity|]. intros; apply H; now right.
Qed.

Lemma dec_no_lower : forall n, no_lower (dec n).
Proof.
  intros n. apply smap_fixed. intros c Hc.
  apply (dec_chars n (fun x => Ascii.eqb (upper_ascii x) x)) in Hc.
  - now apply Ascii.eqb_eq in Hc.
  - intros d Hd. cbn in Hd. repeat (destruct Hd as [<-|Hd]; [reflexivity|]). contradiction.
Qed.

Lemma dec_inj : forall n m, dec n = dec m -> n = m.
Proof.
  intros n m H. unfold dec in H. apply DecimalN.Unsigned.to_uint_inj.
  pose proof (NilZero.usu _ (to_uint_nonnil n)) as Hn.
  pose proof (NilZero.usu _ (to_uint_nonnil m)) as Hm.
  rewrite H in Hn. rewrite Hn in Hm. now injection Hm.
Qed.

Lemma pad2_no_lower : forall n, no_lower (pad2 n).
Proof. intros n. unfold pad2. destruct (N.ltb n 10); [apply no_lower_app; [reflexivity|]|]; apply dec_no_lower. Qed.
Lemma pad4_no_lower : forall n, no_lower (pad4 n).
Proof.
  intros n. unfold pad4.
  destruct (N.ltb n 10); [apply no_lower_app; [reflexivity|apply dec_no_lower]|].
  destruct (N.ltb n 100); [apply no_lower_app; [reflexivity|apply dec_no_lower]|].
  destruct (N.ltb n 1000); [apply no_lower_app; [reflexivity|apply dec_no_lower]|apply dec_no_lower].
Qed.
Lemma fmt_Ymd_no_lower : forall x, no_lower (fmt_Ymd x).
Proof. intros x. unfold fmt_Ymd. repeat apply no_lower_app; try apply pad2_no_lower; apply pad4_no_lower. Qed.
Lemma fmt_ymd_no_lower : forall x, no_lower (fmt_ymd x).
Proof. intros x. unfold fmt_ymd. repeat apply no_lower_app; apply pad2_no_lower. Qed.

(* ------------------------------------------------------------------------------------------ *)
(** * [channel ++ "|" ++ market] *)

Lemma has_bar_app : forall a b, has_bar (a ++ b) = has_bar a || has_bar b.
Proof.
  intros a b. unfold has_bar. induction a as [|c a IH]; cbn; [reflexivity|].
  rewrite IH. now rewrite orb_assoc.
Qed.

Lemma has_bar_sub_id : forall c m, has_bar (sub_id c m) = true.
Proof. intros c m. unfold sub_id. rewrite has_bar_app. cbn. apply orb_true_r. Qed.

(** the separator occurs in no channel name, so the id determines channel and market *)
Lemma sub_id_inj : forall c1 c2 m1 m2,
  has_bar c1 = false -> has_bar c2 = false ->
  sub_id c1 m1 = sub_id c2 m2 -> c1 = c2 /\ m1 = m2.
Proof.
  unfold sub_id, has_bar. induction c1 as [|a c1 IH]; intros [|b c2] m1 m2 H1 H2 E; cbn in *.
  - injection E as E. now split.
  - injection E as Ea E. subst b. cbn in H2. discriminate.
  - injection E as Ea E. subst a. cbn in H1. discriminate.
  - injection E as Ea E. subst b.
    apply orb_false_iff in H1 as [_ H1]. apply orb_false_iff in H2 as [_ H2].
    destruct (IH c2 m1 m2 H1 H2 E) as [-> ->]. now split.
Qed.

Lemma sub_id_inj_market : forall c m1 m2, sub_id c m1 = sub_id c m2 -> m1 = m2.
Proof.
  unfold sub_id. induction c as [|a c IH]; intros m1 m2 E; cbn in E.
  - now injection E.
  - injection E as E. now apply IH.
Qed.

Lemma sub_id_not_dec : forall c m n, sub_id c m <> dec n.
Proof.
  intros c m n E. pose proof (has_bar_sub_id c m) as H. rewrite E, dec_no_bar in H. discriminate.
Qed.

Lemma channel_no_bar : forall e sk k, has_bar (channel_of e sk k) = false.
Proof. intros e sk k. destruct e, sk, k; reflexivity. Qed.

(* ------------------------------------------------------------------------------------------ *)
(** * The mapper *)

Lemma insert_same : forall m id k, insert m id k id = Some k.
Proof. intros. unfold insert. now rewrite String.eqb_refl. Qed.
Lemma insert_other : forall m id k x, x <> id -> insert m id k x = m x.
Proof. intros m id k x H. unfold insert. apply String.eqb_neq in H. now rewrite H. Qed.
Lemma remove_same : forall m id, remove m id id = None.
Proof. intros. unfold remove. now rewrite String.eqb_refl. Qed.
Lemma remove_other : forall m id x, x <> id -> remove m id x = m x.
Proof. intros m id x H. unfold remove. apply String.eqb_neq in H. now rewrite H. Qed.

Section MapIds.
  Variable idf : sub -> string.

  Let step (m : imap) (s : sub) : imap := insert m (idf s) (fst s).

  (** the table holds, for an id, the key of the LAST subscription with that id *)
  Lemma fold_insert_spec : forall subs m x,
    fold_left step subs m x =
    match find (fun s => String.eqb (idf s) x) (rev subs) with
    | Some s => Some (fst s)
    | None => m x
    end.
  Proof.
    induction subs as [|s subs IH]; intros m x; cbn; [reflexivity|].
    rewrite IH. clear IH.
    assert (Hfind : forall (l : list sub) p, find p (l ++ [s]) =
              match find p l with Some y => Some y | None => if p s then Some s else None end).
    { induction l as [|a l IHl]; intros p; cbn; [reflexivity|]. destruct (p a); [reflexivity|apply IHl]. }
    rewrite Hfind. destruct (find _ (rev subs)); [reflexivity|].
    unfold step, insert. rewrite String.eqb_sym. now destruct (String.eqb (idf s) x).
  Qed.

  Lemma map_ids_spec : forall subs x,
    map_ids idf subs x = option_map fst (find (fun s => String.eqb (idf s) x) (rev subs)).
  Proof.
    intros subs x. unfold map_ids. change (fun m s => insert m (idf s) (fst s)) with step.
    rewrite fold_insert_spec. now destruct (find _ _).
  Qed.

  Lemma map_ids_sound : forall subs x k,
    map_ids idf subs x = Some k -> exists s, In s subs /\ idf s = x /\ fst s = k.
  Proof.
    intros subs x k H. rewrite map_ids_spec in H.
    destruct (find _ (rev subs)) as [s|] eqn:F; [|discriminate].
    apply find_some in F as [Hin Heq]. apply in_rev in Hin. apply String.eqb_eq in Heq.
    cbn in H. injection H as <-. now exists s.
  Qed.

  Lemma map_ids_miss : forall subs x,
    (forall s, In s subs -> idf s <> x) -> map_ids idf subs x = None.
  Proof.
    intros subs x H. destruct (map_ids idf subs x) as [k|] eqn:E; [|reflexivity].
    apply map_ids_sound in E as (s & Hin & Hs & _). now elim (H s Hin).
  Qed.

  Lemma map_ids_hit : forall subs s,
    In s subs ->
    (forall s', In s' subs -> idf s' = idf s -> fst s' = fst s) ->
    map_ids idf subs (idf s) = Some (fst s).
  Proof.
    intros subs s Hin Hd. rewrite map_ids_spec.
    destruct (find _ (rev subs)) as [s'|] eqn:F.
    - apply find_some in F as [Hin' Heq]. apply in_rev in Hin'. apply String.eqb_eq in Heq.
      cbn. f_equal. now apply Hd.
    - apply in_rev in Hin. apply (find_none _ _ F s) in Hin. rewrite String.eqb_refl in Hin. discriminate.
  Qed.
End MapIds.

Section Mapper.
  Variable e : exch.
  Variable sk : skind.

  Lemma map_subs_spec : forall subs x,
    map_subs e sk subs x =
    option_map fst (find (fun s => String.eqb (sid e sk s) x) (rev subs)).
  Proof. intros; apply map_ids_spec. Qed.

  (** every entry comes from a subscription *)
  Lemma map_subs_sound : forall subs x k,
    map_subs e sk subs x = Some k -> exists s, In s subs /\ sid e sk s = x /\ fst s = k.
  Proof. intros subs x k. apply map_ids_sound. Qed.

  Lemma map_subs_miss : forall subs x,
    (forall s, In s subs -> sid e sk s <> x) -> map_subs e sk subs x = None.
  Proof. intros subs x. apply map_ids_miss. Qed.

  Lemma map_subs_hit : forall subs s,
    In s subs ->
    (forall s', In s' subs -> sid e sk s' = sid e sk s -> fst s' = fst s) ->
    map_subs e sk subs (sid e sk s) = Some (fst s).
  Proof. intros subs s. apply (map_ids_hit (sid e sk)). Qed.

  Lemma map_subs_domain_bar : forall subs x k, map_subs e sk subs x = Some k -> has_bar x = true.
  Proof.
    intros subs x k H. apply map_subs_sound in H as (s & _ & <- & _). apply has_bar_sub_id.
  Qed.
End Mapper.

(* ------------------------------------------------------------------------------------------ *)
(** * Bitfinex' validator *)

Definition conf_cid (c : conf) : N := snd c.
Definition conf_sid (c : conf) : string := sub_id (fst (fst c)) (snd (fst c)).

Lemma bfx_step_frame : forall m c x,
  x <> conf_sid c -> x <> dec (conf_cid c) -> bfx_step m c x = m x.
Proof.
  intros m [[ch sy] cid] x H1 H2. unfold bfx_step, conf_sid, conf_cid in *. cbn in *.
  destruct (m (sub_id ch sy)); [|reflexivity].
  rewrite insert_other by assumption. now apply remove_other.
Qed.

Lemma bfx_validate_frame : forall confs m x,
  (forall c, In c confs -> x <> conf_sid c /\ x <> dec (conf_cid c)) ->
  bfx_validate m confs x = m x.
Proof.
  induction confs as [|c confs IH]; intros m x H; cbn; [reflexivity|].
  unfold bfx_validate in IH. rewrite IH by (intros; apply H; now right).
  destruct (H c (or_introl eq_refl)). now apply bfx_step_frame.
Qed.

(** with distinct channel ids and each market confirmed once, the entry of a confirmed market
    ends up under the decimal text of its channel id *)
Lemma bfx_validate_confirmed : forall confs m,
  NoDup (map conf_cid confs) -> NoDup (map conf_sid confs) ->
  (forall c, In c confs -> m (dec (conf_cid c)) = None) ->
  forall c, In c confs -> bfx_validate m confs (dec (conf_cid c)) = m (conf_sid c).
Proof.
  induction confs as [|c0 confs IH]; intros m Hc Hs Hm c Hin; [contradiction|].
  cbn in Hc, Hs. inversion Hc as [|? ? Hc0 Hc']; subst. inversion Hs as [|? ? Hs0 Hs']; subst.
  cbn. fold (bfx_validate (bfx_step m c0) confs).
  destruct Hin as [->|Hin].
  - (* the confirmation handled now; the remaining ones do not touch its channel id *)
    rewrite bfx_validate_frame.
    + destruct c as [[ch sy] cid]. unfold bfx_step, conf_sid, conf_cid. cbn [fst snd].
      destruct (m (sub_id ch sy)) eqn:E; [apply insert_same|].
      specialize (Hm _ (or_introl eq_refl)). unfold conf_cid in Hm. cbn [fst snd] in Hm. exact Hm.
    + intros c' Hc'in. split.
      * intros E. symmetry in E. destruct c' as [[ch' sy'] cid']. now apply sub_id_not_dec in E.
      * intros E. apply dec_inj in E. apply Hc0. rewrite E. now apply in_map.
  - assert (Hne : conf_sid c <> conf_sid c0) by (intros E; apply Hs0; rewrite <- E; now apply in_map).
    assert (Hnc : conf_cid c <> conf_cid c0) by (intros E; apply Hc0; rewrite <- E; now apply in_map).
    rewrite IH; try assumption.
    + apply bfx_step_frame; [assumption|].
      destruct c as [[ch sy] cid]. apply sub_id_not_dec.
    + intros c' Hc'in. rewrite bfx_step_frame.
      * apply Hm. now right.
      * destruct c0 as [[ch0 sy0] cid0]. intros E. symmetry in E. now apply sub_id_not_dec in E.
      * intros E. apply dec_inj in E. apply Hc0. rewrite <- E. now apply in_map.
Qed.

Lemma bfx_validate_unassigned : forall confs m cid,
  ~ In cid (map conf_cid confs) -> bfx_validate m confs (dec cid) = m (dec cid).
Proof.
  intros confs m cid H. apply bfx_validate_frame. intros c Hc. split.
  - intros E. symmetry in E. destruct c as [[ch sy] c']. now apply sub_id_not_dec in E.
  - intros E. apply dec_inj in E. apply H. rewrite E. now apply in_map.
Qed.

(** whatever the confirmations, a key in the validated table was a key of the mapper's table *)
Lemma bfx_step_sound : forall m c x k, bfx_step m c x = Some k -> exists y, m y = Some k.
Proof.
  intros m [[ch sy] cid] x k H. unfold bfx_step in H.
  destruct (m (sub_id ch sy)) as [k'|] eqn:E; [|now exists x].
  unfold insert in H. destruct (String.eqb x (dec cid)).
  - injection H as <-. now exists (sub_id ch sy).
  - unfold remove in H. destruct (String.eqb x (sub_id ch sy)); [discriminate|now exists x].
Qed.
Lemma bfx_validate_sound : forall confs m x k,
  bfx_validate m confs x = Some k -> exists y, m y = Some k.
Proof.
  induction confs as [|c confs IH]; intros m x k H; cbn in H; [now exists x|].
  apply IH in H as [y Hy]. now apply bfx_step_sound in Hy.
Qed.

(* ------------------------------------------------------------------------------------------ *)
(** * Messages *)

(** [m] is a data message of connector [e]'s [sk] stream, in the venue's format, about the
    market the venue calls [sym] on the channel whose subscription channel is [chan] *)
Definition msg_about (e : exch) (sk : skind) (chan sym : string) (m : msg) : Prop :=
  match m with
  | MControl _ => False
  | MData c s _ items =>
      match family_of e with
      | FBinance | FCoinbase => first_sym items = Some sym
      | FBitmex | FGateio => c = chan /\ first_sym items = Some sym
      | FBybit => c = chan /\ s = sym /\ has_char "."%char sym = false
      | FKraken => s = sym
      | FOkx => c = chan /\ s = sym
      | FBitfinex | FNone => False
      end
  end.

Lemma msg_id_about : forall e sk k sym m,
  msg_about e sk (channel_of e sk k) sym m ->
  msg_id e sk m = IdSome (sub_id (channel_of e sk k) sym).
Proof.
  intros e sk k sym [c s cid items|v] H; [|contradiction].
  unfold msg_about in H. unfold msg_id, channel_of in *.
  destruct (family_of e) eqn:F; try contradiction.
  - now rewrite H.
  - destruct H as [-> H]. now rewrite H.
  - destruct H as (-> & -> & Hd). cbn. now rewrite Hd.
  - now rewrite H.
  - destruct H as [-> H]. rewrite H. destruct e; try discriminate; reflexivity.
  - now subst s.
  - destruct H as [-> ->]. reflexivity.
Qed.

(** what one normalised event says, compared with the item of the message it stems from *)
Definition event_matches (e : exch) (sk : skind) (k : N) (it : item) (ev : event) : Prop :=
  e_key ev = k /\ e_exch ev = e /\ e_time ev = i_time it /\
  match sk, e_body ev with
  | PublicTrades, BTrade id p a sd =>
      id = i_id it /\ p = i_price it /\ sd = i_side it /\
      (a = i_amount it \/ (sd = Sell /\ a = (- i_amount it)%Z))
  | OrderBooksL1, BL1 t bid ask =>
      t = i_time it /\ bid = level_of (i_price it) (i_amount it) /\ ask = level_of (i_price2 it) (i_amount2 it)
  | Liquidations, BLiq sd p q t =>
      sd = i_side it /\ p = i_price it /\ q = i_amount it /\ t = i_time it
  | _, _ => False
  end.

Lemma event_of_item_matches : forall e sk k it, event_matches e sk k it (event_of_item e sk k it).
Proof.
  intros e sk k it. unfold event_matches, event_of_item. cbn. repeat split; destruct sk; cbn; repeat split.
  unfold trade_amount. destruct e; try (now left); destruct (i_side it); try (now left); now right.
Qed.

Lemma events_matches : forall e sk k c s cid items,
  Forall2 (event_matches e sk k) items (events e sk k (MData c s cid items)).
Proof.
  intros e sk k c s cid items. cbn. induction items as [|it items IH]; cbn; constructor;
  [apply event_of_item_matches|exact IH].
Qed.

(* ------------------------------------------------------------------------------------------ *)
(** * The transformer *)

Definition distinct_ids (e : exch) (sk : skind) (subs : list sub) : Prop :=
  forall s1 s2, In s1 subs -> In s2 subs -> sid e sk s1 = sid e sk s2 -> fst s1 = fst s2.

Lemma transform_attributed : forall e sk subs s m,
  In s subs -> distinct_ids e sk subs ->
  msg_about e sk (channel_of e sk (kind_of (snd s))) (market_of e (snd s)) m ->
  transform e sk (map_subs e sk subs) m = OOut (map OEv (events e sk (fst s) m)).
Proof.
  intros e sk subs s m Hin Hd Hm. unfold transform.
  rewrite (msg_id_about _ _ _ _ _ Hm). fold (sid e sk s).
  rewrite map_subs_hit; [reflexivity|assumption|]. intros s' Hin' E. now apply Hd.
Qed.

Lemma transform_rejected : forall e sk subs k sym m,
  msg_about e sk (channel_of e sk k) sym m ->
  (forall s, In s subs ->
     ~ (channel_of e sk (kind_of (snd s)) = channel_of e sk k /\ market_of e (snd s) = sym)) ->
  transform e sk (map_subs e sk subs) m = OOut [OUnident (sub_id (channel_of e sk k) sym)].
Proof.
  intros e sk subs k sym m Hm Hno. unfold transform. rewrite (msg_id_about _ _ _ _ _ Hm).
  rewrite map_subs_miss; [reflexivity|]. intros s Hin E. unfold sid in E.
  apply sub_id_inj in E; try apply channel_no_bar. now apply (Hno s Hin).
Qed.

(** never an event for an instrument subscribed under another id *)
Lemma transform_sound : forall e sk subs m l ev,
  transform e sk (map_subs e sk subs) m = OOut l -> In (OEv ev) l ->
  exists s, In s subs /\ fst s = e_key ev /\ msg_id e sk m = IdSome (sid e sk s).
Proof.
  intros e sk subs m l ev H Hin. unfold transform in H.
  destruct (msg_id e sk m) as [| |id] eqn:Hid; try discriminate.
  - injection H as <-. contradiction.
  - destruct (map_subs e sk subs id) as [k|] eqn:Hk.
    + injection H as <-. apply in_map_iff in Hin as (ev' & Hev & Hin'). injection Hev as ->.
      apply map_subs_sound in Hk as (s & Hs & <- & <-). exists s. split; [assumption|]. split; [|reflexivity].
      destruct m as [c sy cid items|v]; cbn in Hin'; [|contradiction].
      apply in_map_iff in Hin' as (it & <- & _). reflexivity.
    + injection H as <-. destruct Hin as [Hin|[]]. discriminate.
Qed.

(** ** Bitfinex *)

Lemma bitfinex_attributed : forall sk subs confs s c sy cid items,
  In s subs -> distinct_ids Bitfinex sk subs ->
  NoDup (map conf_cid confs) -> NoDup (map conf_sid confs) ->
  In (channel_of Bitfinex sk (kind_of (snd s)), market_of Bitfinex (snd s), cid) confs ->
  transform Bitfinex sk (transformer_map Bitfinex sk subs confs) (MData c sy cid items)
  = OOut (map OEv (events Bitfinex sk (fst s) (MData c sy cid items))).
Proof.
  intros sk subs confs s c sy cid items Hin Hd Hc Hs Hconf. unfold transform, transformer_map. cbn [msg_id family_of].
  assert (Hdom : forall c', In c' confs -> map_subs Bitfinex sk subs (dec (conf_cid c')) = None).
  { intros c' _. destruct (map_subs Bitfinex sk subs (dec (conf_cid c'))) as [k|] eqn:E; [|reflexivity].
    apply map_subs_domain_bar in E. rewrite dec_no_bar in E. discriminate. }
  pose proof (bfx_validate_confirmed confs (map_subs Bitfinex sk subs) Hc Hs Hdom _ Hconf) as H.
  unfold conf_cid, conf_sid in H. cbn [fst snd] in H. rewrite H. fold (sid Bitfinex sk s).
  rewrite map_subs_hit; [reflexivity|assumption|]. intros s' Hin' E. now apply Hd.
Qed.

Lemma bitfinex_rejected : forall sk subs confs c sy cid items,
  ~ In cid (map conf_cid confs) ->
  transform Bitfinex sk (transformer_map Bitfinex sk subs confs) (MData c sy cid items)
  = OOut [OUnident (dec cid)].
Proof.
  intros sk subs confs c sy cid items H. unfold transform, transformer_map. cbn [msg_id family_of].
  rewrite bfx_validate_unassigned by assumption.
  destruct (map_subs Bitfinex sk subs (dec cid)) as [k|] eqn:E; [|reflexivity].
  apply map_subs_domain_bar in E. rewrite dec_no_bar in E. discriminate.
Qed.

Lemma bitfinex_sound : forall sk subs confs m l ev,
  transform Bitfinex sk (transformer_map Bitfinex sk subs confs) m = OOut l -> In (OEv ev) l ->
  exists s, In s subs /\ fst s = e_key ev.
Proof.
  intros sk subs confs m l ev H Hin. unfold transform, transformer_map in H.
  destruct (msg_id Bitfinex sk m) as [| |id] eqn:Hid; try discriminate.
  - injection H as <-. contradiction.
  - destruct (bfx_validate _ confs id) as [k|] eqn:Hk.
    + injection H as <-. apply in_map_iff in Hin as (ev' & Hev & Hin'). injection Hev as ->.
      apply bfx_validate_sound in Hk as [y Hy]. apply map_subs_sound in Hy as (s & Hs & _ & <-).
      exists s. split; [assumption|].
      destruct m as [c sy cid items|v]; cbn in Hin'; [|contradiction].
      apply in_map_iff in Hin' as (it & <- & _). reflexivity.
    + injection H as <-. destruct Hin as [Hin|[]]. discriminate.
Qed.

(* ------------------------------------------------------------------------------------------ *)
(** * Code vs venue conventions *)

Definition strike_plain (k : ikind) : Prop :=
  match k with KOption _ _ strike => no_lower strike | _ => True end.

Lemma okind_letter_no_lower : forall o, no_lower (okind_letter o).
Proof. destruct o; reflexivity. Qed.

Ltac upper_norm :=
  repeat rewrite upper_app; repeat rewrite upper_lower;
  repeat match goal with
         | |- context [upper (fmt_Ymd ?x)] => rewrite (fmt_Ymd_no_lower x)
         | |- context [upper (fmt_ymd ?x)] => rewrite (fmt_ymd_no_lower x)
         | |- context [upper (okind_letter ?o)] => rewrite (okind_letter_no_lower o)
         end.

(** the code's market identifier IS the venue's symbol *)
Lemma market_is_venue_symbol : forall e d,
  strike_plain (kind_of d) -> market_of e d = venue_symbol e d.
Proof.
  intros e [b q k|n k] Hs; [|reflexivity].
  unfold market_of, venue_symbol. destruct (family_of e) eqn:F; try reflexivity.
  - now upper_norm.
  - now upper_norm.
  - now upper_norm.
  - now upper_norm.
  - now upper_norm.
  - unfold gateio_market. destruct k; upper_norm; try reflexivity.
    cbn in Hs. unfold no_lower in Hs. now rewrite Hs.
  - now upper_norm.
  - assert (e = Okx) by (destruct e; try discriminate; reflexivity). subst e.
    unfold okx_market, okx_expiry. destruct k; upper_norm; try reflexivity.
    cbn in Hs. unfold no_lower in Hs. now rewrite Hs.
Qed.

(** the subscription channel is the channel name the venue's payloads carry *)
Lemma channel_is_venue_channel : forall e sk k c,
  venue_channel e k = Some c -> channel_of e sk k = c.
Proof.
  intros e sk k c H. unfold venue_channel, channel_of in *.
  destruct (family_of e); try discriminate; now injection H.
Qed.

(* ------------------------------------------------------------------------------------------ *)
(** * The property, in venue terms *)

(** hypothesis of C13: within one channel the venue symbols of the subscribed instruments are
    pairwise distinct (two subscriptions with the same venue symbol are the same instrument) *)
Definition distinct_venue_symbols (e : exch) (sk : skind) (subs : list sub) : Prop :=
  forall s1 s2, In s1 subs -> In s2 subs ->
    channel_of e sk (kind_of (snd s1)) = channel_of e sk (kind_of (snd s2)) ->
    venue_symbol e (snd s1) = venue_symbol e (snd s2) -> fst s1 = fst s2.

Definition strikes_plain (subs : list sub) : Prop :=
  forall s, In s subs -> strike_plain (kind_of (snd s)).

Lemma distinct_venue_ids : forall e sk subs,
  strikes_plain subs -> distinct_venue_symbols e sk subs -> distinct_ids e sk subs.
Proof.
  intros e sk subs Hp Hd s1 s2 H1 H2 E. unfold sid in E.
  apply sub_id_inj in E as [Ec Em]; try apply channel_no_bar.
  apply Hd; try assumption.
  now rewrite <- !market_is_venue_symbol by (now apply Hp).
Qed.

Lemma msg_about_not_bitfinex : forall e sk chan sym m, msg_about e sk chan sym m -> e <> Bitfinex.
Proof. intros e sk chan sym [c s cid items|v] H ->; exact H. Qed.

Lemma transformer_map_other : forall e sk subs confs,
  e <> Bitfinex -> transformer_map e sk subs confs = map_subs e sk subs.
Proof. intros e sk subs confs H. destruct e; try reflexivity. now elim H. Qed.

Lemma attributed : forall e sk subs confs s m,
  In s subs -> strikes_plain subs -> distinct_venue_symbols e sk subs ->
  msg_about e sk (channel_of e sk (kind_of (snd s))) (venue_symbol e (snd s)) m ->
  exists c sy cid items evs,
    m = MData c sy cid items /\
    transform e sk (transformer_map e sk subs confs) m = OOut (map OEv evs) /\
    Forall2 (event_matches e sk (fst s)) items evs.
Proof.
  intros e sk subs confs s m Hin Hp Hd Hm.
  rewrite transformer_map_other by (eapply msg_about_not_bitfinex; eassumption).
  rewrite <- market_is_venue_symbol in Hm by (now apply Hp).
  destruct m as [c sy cid items|v]; [|contradiction].
  exists c, sy, cid, items, (events e sk (fst s) (MData c sy cid items)).
  split; [reflexivity|]. split; [|apply events_matches].
  apply transform_attributed; try assumption. now apply distinct_venue_ids.
Qed.

Lemma rejected : forall e sk subs confs k sym m,
  strikes_plain subs ->
  msg_about e sk (channel_of e sk k) sym m ->
  (forall s, In s subs ->
     ~ (channel_of e sk (kind_of (snd s)) = channel_of e sk k /\ venue_symbol e (snd s) = sym)) ->
  transform e sk (transformer_map e sk subs confs) m = OOut [OUnident (sub_id (channel_of e sk k) sym)].
Proof.
  intros e sk subs confs k sym m Hp Hm Hno.
  rewrite transformer_map_other by (eapply msg_about_not_bitfinex; eassumption).
  apply transform_rejected; [assumption|]. intros s Hin.
  rewrite market_is_venue_symbol by (now apply Hp). now apply Hno.
Qed.

Lemma events_exch : forall e sk k m ev, In ev (events e sk k m) -> e_exch ev = e /\ e_key ev = k.
Proof.
  intros e sk k [c sy cid items|v] ev H; cbn in H; [|contradiction].
  apply in_map_iff in H as (it & <- & _). now split.
Qed.

Lemma never_another : forall e sk subs confs m l ev,
  transform e sk (transformer_map e sk subs confs) m = OOut l -> In (OEv ev) l ->
  e_exch ev = e /\
  exists s, In s subs /\ fst s = e_key ev /\ (e <> Bitfinex -> msg_id e sk m = IdSome (sid e sk s)).
Proof.
  intros e sk subs confs m l ev H Hin. split.
  - unfold transform in H. destruct (msg_id e sk m); try discriminate.
    + injection H as <-. contradiction.
    + destruct (transformer_map e sk subs confs id); injection H as <-.
      * apply in_map_iff in Hin as (ev' & Hev & Hin'). injection Hev as ->. now apply events_exch in Hin'.
      * destruct Hin as [Hin|[]]. discriminate.
  - destruct (exch_eqb e Bitfinex) eqn:Eb.
    + assert (e = Bitfinex) by (destruct e; try discriminate; reflexivity). subst e.
      destruct (bitfinex_sound _ _ _ _ _ _ H Hin) as (s & Hs & Hk). exists s. repeat split; try assumption.
      intros Hne. now elim Hne.
    + assert (Hne : e <> Bitfinex) by (intros ->; discriminate).
      rewrite transformer_map_other in H by assumption.
      destruct (transform_sound _ _ _ _ _ _ H Hin) as (s & Hs & Hk & Hid). exists s. now repeat split.
Qed.

Lemma bitfinex_attributed_venue : forall sk subs confs s c sy cid items,
  In s subs -> distinct_venue_symbols Bitfinex sk subs ->
  NoDup (map conf_cid confs) -> NoDup (map conf_sid confs) ->
  In ("trades", venue_symbol Bitfinex (snd s), cid) confs ->
  exists evs,
    transform Bitfinex sk (transformer_map Bitfinex sk subs confs) (MData c sy cid items) = OOut (map OEv evs) /\
    Forall2 (event_matches Bitfinex sk (fst s)) items evs.
Proof.
  intros sk subs confs s c sy cid items Hin Hd Hc Hs Hconf.
  assert (Hp : strikes_plain subs -> distinct_ids Bitfinex sk subs) by (intros; now apply distinct_venue_ids).
  exists (events Bitfinex sk (fst s) (MData c sy cid items)). split; [|apply events_matches].
  assert (Hmv : forall d, market_of Bitfinex d = venue_symbol Bitfinex d).
  { intros [b q k|n k]; [|reflexivity]. cbn. now rewrite !upper_lower. }
  apply bitfinex_attributed; try assumption.
  - intros s1 s2 H1 H2 E. unfold sid in E. apply sub_id_inj in E as [Ec Em]; try apply channel_no_bar.
    apply Hd; try assumption. now rewrite <- !Hmv.
  - rewrite Hmv. exact Hconf.
Qed.
