(** Lemmas about Model/Position.v: the conservation laws behind property C02. *)
From Coq Require Import Lia Lqa Setoid Qcanon Qcabs.
From BV Require Import Model.Position.
Open Scope Qc_scope.

(* ---- linear reasoning on Qc by translation to Q ---------------------------------------- *)

Lemma this_plus (x y : Qc) : (this (x + y) == this x + this y)%Q.
Proof. unfold Qcplus. cbn [this Q2Qc]. apply Qred_correct. Qed.
Lemma this_mult (x y : Qc) : (this (x * y) == this x * this y)%Q.
Proof. unfold Qcmult. cbn [this Q2Qc]. apply Qred_correct. Qed.
Lemma this_opp (x : Qc) : (this (- x) == - this x)%Q.
Proof. unfold Qcopp. cbn [this Q2Qc]. apply Qred_correct. Qed.
Lemma this_minus (x y : Qc) : (this (x - y) == this x - this y)%Q.
Proof. unfold Qcminus. rewrite this_plus, this_opp. reflexivity. Qed.
Lemma Qc_eq_this (x y : Qc) : x = y <-> (this x == this y)%Q.
Proof. split; [intros ->; reflexivity|apply Qc_is_canon]. Qed.

Ltac qc_lin :=
  repeat match goal with
  | H : @eq Qc _ _ |- _ => apply Qc_eq_this in H
  | H : ~ @eq Qc _ _ |- _ => rewrite Qc_eq_this in H
  | |- @eq Qc _ _ => apply Qc_eq_this
  | |- ~ @eq Qc _ _ => rewrite Qc_eq_this
  end;
  unfold Qclt, Qcle in *;
  repeat (rewrite ?this_plus, ?this_minus, ?this_opp in * );
  change (this (Q2Qc 0)) with 0%Q in *; change (this (Q2Qc 1)) with 1%Q in *;
  try lra.

(* ---- basic facts ----------------------------------------------------------------------- *)

Lemma Qc_eqb_true (a b : Qc) : Qc_eqb a b = true <-> a = b.
Proof.
  unfold Qc_eqb. rewrite Qeq_bool_iff. split; [apply Qc_is_canon|intros ->; reflexivity].
Qed.

Lemma Qc_eqb_false_pos (a : Qc) : 0 < a -> Qc_eqb a 0 = false.
Proof.
  intros H. destruct (Qc_eqb a 0) eqn:E; [|reflexivity].
  apply Qc_eqb_true in E. subst a. exfalso. qc_lin.
Qed.

Lemma Qcabs_pos' (x : Qc) : 0 < x -> Qcabs x = x.
Proof. intros H. apply Qcabs_pos. qc_lin. Qed.

Lemma Qc_gtb_true (a b : Qc) : Qc_gtb a b = true <-> b < a.
Proof.
  unfold Qc_gtb. destruct (a ?= b) eqn:E.
  - apply Qceq_alt in E. subst. split; [discriminate|intros H; exfalso; qc_lin].
  - apply Qclt_alt in E. split; [discriminate|intros H; exfalso; qc_lin].
  - apply Qcgt_alt in E. split; [intros _; exact E|reflexivity].
Qed.

Lemma Qc_ltb_true (a b : Qc) : Qc_ltb a b = true <-> a < b.
Proof.
  unfold Qc_ltb. destruct (a ?= b) eqn:E.
  - apply Qceq_alt in E. subst. split; [discriminate|intros H; exfalso; qc_lin].
  - apply Qclt_alt in E. split; [intros _; exact E|reflexivity].
  - apply Qcgt_alt in E. split; [discriminate|intros H; exfalso; qc_lin].
Qed.

Lemma Qc_leb_true (a b : Qc) : Qc_leb a b = true <-> a <= b.
Proof.
  unfold Qc_leb. destruct (a ?= b) eqn:E.
  - apply Qceq_alt in E. subst. split; [intros _; qc_lin|reflexivity].
  - apply Qclt_alt in E. split; [intros _; qc_lin|reflexivity].
  - apply Qcgt_alt in E. split; [discriminate|intros H; exfalso; qc_lin].
Qed.

Lemma crosses_b_true n s : crosses_b n s = true <-> crosses n s.
Proof.
  unfold crosses_b, crosses.
  rewrite orb_true_iff, !andb_true_iff, !Qc_ltb_true, !Qc_leb_true. reflexivity.
Qed.

Lemma crosses_strictly_b_true n s : crosses_strictly_b n s = true <-> crosses_strictly n s.
Proof.
  unfold crosses_strictly_b, crosses_strictly.
  rewrite orb_true_iff, !andb_true_iff, !Qc_ltb_true. reflexivity.
Qed.

Lemma Qcsum_app l1 l2 : Qcsum (l1 ++ l2) = Qcsum l1 + Qcsum l2.
Proof.
  unfold Qcsum. induction l1 as [|a l IH]; cbn [fold_right app]; [ring|]. rewrite IH. ring.
Qed.

Lemma Qcsum_one a : Qcsum [a] = a.
Proof. unfold Qcsum. cbn [fold_right]. ring. Qed.

(* ---- which arm a valid fill takes ------------------------------------------------------ *)

(** invariant of every reachable open position *)
Definition good (i : N) (c : pm) : Prop :=
  match c with
  | None => True
  | Some p => p_inst p = i /\ 0 < p_qty p /\ 0 < p_qmax p
  end.

Lemma side_eqb_true a b : side_eqb a b = true <-> a = b.
Proof. destruct a, b; cbn; split; congruence. Qed.

Lemma arm_cases i p f : p_inst p = i -> valid_fill i f ->
  (p_side p = f_side f /\ arm_of p f = ArmIncrease) \/
  (p_side p <> f_side f /\ f_qty f < p_qty p /\ arm_of p f = ArmReduce) \/
  (p_side p <> f_side f /\ p_qty p = f_qty f /\ arm_of p f = ArmClose) \/
  (p_side p <> f_side f /\ p_qty p < f_qty f /\ arm_of p f = ArmFlip).
Proof.
  intros Hi [Hf Hq]. unfold arm_of. rewrite Hi, Hf, N.eqb_refl. cbn [negb].
  destruct (side_eqb (p_side p) (f_side f)) eqn:Es.
  - left. apply side_eqb_true in Es. auto.
  - right. assert (Hne : p_side p <> f_side f).
    { intros E. apply side_eqb_true in E. congruence. }
    rewrite (Qcabs_pos' _ Hq).
    destruct (p_qty p ?= f_qty f) eqn:E.
    + apply Qceq_alt in E. auto.
    + apply Qclt_alt in E. auto 6.
    + apply Qcgt_alt in E. auto.
Qed.

Ltac arms i p f Hi Hv :=
  let Hs := fresh "Hs" in let Hlt := fresh "Hlt" in let Ha := fresh "Ha" in
  destruct (arm_cases i p f Hi Hv) as [[Hs Ha]|[[Hs [Hlt Ha]]|[[Hs [Hlt Ha]]|[Hs [Hlt Ha]]]]];
  unfold pm_update, pos_update; rewrite Ha; cbn [fst snd].

(* ---- one step --------------------------------------------------------------------------- *)

Lemma step_good i c f : good i c -> valid_fill i f -> good i (fst (pm_update c f)).
Proof.
  intros Hg Hv. pose proof Hv as [Hfi Hq]. destruct c as [p|].
  - destruct Hg as [Hi [Hpq Hpm]]. arms i p f Hi Hv; cbn [good fst p_inst p_qty p_qmax pos_of_fill f_inst f_qty];
      rewrite ?(Qcabs_pos' _ Hq).
    + repeat split; [exact Hi|qc_lin|].
      destruct (Qc_gtb (p_qty p + f_qty f) (p_qmax p)); [qc_lin|exact Hpm].
    + repeat split; [exact Hi|qc_lin|exact Hpm].
    + exact I.
    + assert (H0 : 0 < f_qty f - p_qty p) by qc_lin.
      rewrite (Qcabs_pos' _ H0). repeat split; [exact Hfi|exact H0|exact H0].
  - cbn [pm_update fst good pos_of_fill p_inst p_qty p_qmax]. rewrite (Qcabs_pos' _ Hq). auto.
Qed.

Lemma step_net i c f : good i c -> valid_fill i f ->
  sq_pm (fst (pm_update c f)) = sq_pm c + sq_fill f.
Proof.
  intros Hg Hv. pose proof Hv as [Hfi Hq]. destruct c as [p|].
  - destruct Hg as [Hi [Hpq Hpm]].
    arms i p f Hi Hv; unfold sq_pm, sq_pos, sq_fill, pos_of_fill;
      cbn [fst p_side p_qty f_side f_qty]; rewrite ?(Qcabs_pos' _ Hq).
    + rewrite <- Hs. destruct (p_side p); ring.
    + destruct (p_side p), (f_side f); try congruence; ring.
    + rewrite Hlt. destruct (p_side p), (f_side f); try congruence; ring.
    + assert (H0 : 0 < f_qty f - p_qty p) by qc_lin. rewrite (Qcabs_pos' _ H0).
      destruct (p_side p), (f_side f); try congruence; ring.
  - unfold pm_update, sq_pm, sq_pos, sq_fill, pos_of_fill. cbn [fst p_side p_qty].
    rewrite (Qcabs_pos' _ Hq). destruct (f_side f); ring.
Qed.

(** "cash since the position was opened": realised PnL minus the open quantity at entry value *)
Definition phi (c : pm) : Qc := pnlr_pm c - sq_pm c * avg_pm c.
Definition pnlx (o : option exited) : Qc := match o with Some x => x_pnl_r x | None => 0 end.
Definition feesx (o : option exited) : Qc := match o with Some x => x_fin x + x_fout x | None => 0 end.

Lemma calc_avg_pos a q p tq : 0 < q -> calc_avg a q p tq = (a * q + p * tq) / (q + tq).
Proof. intros H. unfold calc_avg. rewrite (Qc_eqb_false_pos _ H). reflexivity. Qed.

Lemma step_cash i c f : good i c -> valid_fill i f ->
  pnlx (snd (pm_update c f)) + phi (fst (pm_update c f)) = phi c + cashflow f.
Proof.
  intros Hg Hv. pose proof Hv as [Hfi Hq]. destruct c as [p|].
  - destruct Hg as [Hi [Hpq Hpm]].
    assert (Hq0 : f_qty f <> 0) by qc_lin.
    arms i p f Hi Hv;
      unfold phi, pnlx, pnlr_pm, sq_pm, avg_pm, sq_pos, cashflow, pos_of_fill, exited_of, calc_pnl_r;
      cbn [fst snd p_side p_qty p_avg p_pnl_r p_fin p_fout x_pnl_r f_side f_qty f_price f_fee];
      rewrite ?(Qcabs_pos' _ Hq), ?(Qcabs_pos' _ Hpq).
    + rewrite (calc_avg_pos _ _ _ _ Hpq). rewrite <- Hs.
      assert (p_qty p + f_qty f <> 0) by qc_lin.
      destruct (p_side p); field; assumption.
    + destruct (p_side p), (f_side f); try congruence; ring.
    + rewrite Hlt. destruct (p_side p), (f_side f); try congruence; ring.
    + assert (H0 : 0 < f_qty f - p_qty p) by qc_lin. rewrite ?(Qcabs_pos' _ H0).
      destruct (p_side p), (f_side f); try congruence; field; assumption.
  - unfold pm_update, phi, pnlx, pnlr_pm, sq_pm, avg_pm, sq_pos, cashflow, pos_of_fill.
    cbn [fst snd p_side p_qty p_avg p_pnl_r]. rewrite (Qcabs_pos' _ Hq).
    destruct (f_side f); ring.
Qed.

Lemma step_fees i c f : good i c -> valid_fill i f ->
  feesx (snd (pm_update c f)) + fees_pm (fst (pm_update c f)) = fees_pm c + f_fee f.
Proof.
  intros Hg Hv. pose proof Hv as [Hfi Hq]. destruct c as [p|].
  - destruct Hg as [Hi [Hpq Hpm]].
    assert (Hq0 : f_qty f <> 0) by qc_lin.
    arms i p f Hi Hv; unfold feesx, fees_pm, pos_of_fill, exited_of;
      cbn [fst snd p_fin p_fout x_fin x_fout f_fee]; rewrite ?(Qcabs_pos' _ Hq); try ring.
    field; assumption.
  - unfold pm_update, feesx, fees_pm, pos_of_fill. cbn [fst snd p_fin p_fout]. ring.
Qed.

(** a position-closed record is emitted exactly when the net quantity reaches or crosses 0 *)
Lemma step_exit_iff i c f : good i c -> valid_fill i f ->
  (snd (pm_update c f) <> None <-> crosses (sq_pm c) (sq_fill f)).
Proof.
  intros Hg Hv. pose proof Hv as [Hfi Hq]. unfold crosses. destruct c as [p|].
  - destruct Hg as [Hi [Hpq Hpm]].
    arms i p f Hi Hv; unfold sq_pm, sq_pos, sq_fill.
    + rewrite <- Hs. split; [congruence|]. destruct (p_side p); intros [[A B]|[A B]]; exfalso; qc_lin.
    + split; [congruence|].
      destruct (p_side p), (f_side f); try congruence; intros [[A B]|[A B]]; exfalso; qc_lin.
    + split; [intros _|congruence].
      destruct (p_side p), (f_side f); try congruence; [left|right]; split; qc_lin.
    + split; [intros _|congruence].
      destruct (p_side p), (f_side f); try congruence; [left|right]; split; qc_lin.
  - unfold pm_update, sq_pm. cbn [snd]. split; [congruence|].
    intros [[A B]|[A B]]; exfalso; qc_lin.
Qed.

(** a crossing fill opens the opposite position with the remainder and a pro-rata fee share *)
Lemma step_flip i c f : good i c -> valid_fill i f ->
  crosses_strictly (sq_pm c) (sq_fill f) ->
  fst (pm_update c f) = Some (pos_of_fill (remainder_fill f (Qcabs (sq_pm c + sq_fill f)))).
Proof.
  intros Hg Hv. pose proof Hv as [Hfi Hq]. unfold crosses_strictly. destruct c as [p|].
  - destruct Hg as [Hi [Hpq Hpm]].
    arms i p f Hi Hv; unfold sq_pm, sq_pos, sq_fill.
    + rewrite <- Hs. destruct (p_side p); intros [[A B]|[A B]]; exfalso; qc_lin.
    + destruct (p_side p), (f_side f); try congruence; intros [[A B]|[A B]]; exfalso; qc_lin.
    + destruct (p_side p), (f_side f); try congruence; intros [[A B]|[A B]]; exfalso; qc_lin.
    + intros _. rewrite (Qcabs_pos' _ Hq). unfold remainder_fill. do 3 f_equal.
      * destruct (p_side p), (f_side f); try congruence.
        -- assert (E : p_qty p + - f_qty f = - (f_qty f - p_qty p)) by ring.
           rewrite E, Qcabs_opp. symmetry. apply Qcabs_pos'. qc_lin.
        -- assert (E : - p_qty p + f_qty f = f_qty f - p_qty p) by ring.
           rewrite E. symmetry. apply Qcabs_pos'. qc_lin.
      * f_equal. f_equal.
        destruct (p_side p), (f_side f); try congruence.
        -- assert (E : p_qty p + - f_qty f = - (f_qty f - p_qty p)) by ring.
           rewrite E, Qcabs_opp. symmetry. apply Qcabs_pos'. qc_lin.
        -- assert (E : - p_qty p + f_qty f = f_qty f - p_qty p) by ring.
           rewrite E. symmetry. apply Qcabs_pos'. qc_lin.
  - unfold sq_pm. intros [[A B]|[A B]]; exfalso; qc_lin.
Qed.

(** with no position, a fill opens one; a non-crossing fill keeps the position's side *)
Lemma step_open f : pm_update None f = (Some (pos_of_fill f), None).
Proof. reflexivity. Qed.

(** trade ids: the fill is appended to the trade list of the position it updates or closes,
    and it is the first trade of a position it opens *)
Lemma step_trades i c f : good i c -> valid_fill i f ->
  let r := pm_update c f in
  (* the record of the position that existed before *)
  (match c with
   | None => snd r = None /\ trades_pm (fst r) = [f_id f]%list
   | Some p =>
       match snd r with
       | Some x => x_trades x = p_trades p ++ [f_id f] /\
                   (fst r = None \/ trades_pm (fst r) = [f_id f]%list)
       | None => trades_pm (fst r) = p_trades p ++ [f_id f]
       end
   end).
Proof.
  intros Hg Hv. pose proof Hv as [Hfi Hq]. destruct c as [p|].
  - destruct Hg as [Hi [Hpq Hpm]]. cbv zeta.
    arms i p f Hi Hv; unfold trades_pm, exited_of, pos_of_fill; cbn [p_trades x_trades f_id]; auto.
  - cbv zeta. unfold pm_update. cbn [fst snd trades_pm pos_of_fill p_trades]. auto.
Qed.

(** concatenated trade ids of the exit record (if any) and of the resulting position *)
Lemma step_ids i c f : good i c -> valid_fill i f ->
  flat_map x_trades (olist (snd (pm_update c f))) ++ trades_pm (fst (pm_update c f)) =
  trades_pm c ++
  (if crosses_strictly_b (sq_pm c) (sq_fill f) then [f_id f; f_id f] else [f_id f])%list.
Proof.
  intros Hg Hv. pose proof Hv as [Hfi Hq].
  destruct (crosses_strictly_b (sq_pm c) (sq_fill f)) eqn:Ecs.
  - apply crosses_strictly_b_true in Ecs.
    rewrite (step_flip i c f Hg Hv Ecs).
    pose proof (step_trades i c f Hg Hv) as T. cbv zeta in T.
    destruct c as [p|].
    + destruct Hg as [Hi [Hpq Hpm]].
      destruct (snd (pm_update (Some p) f)) as [x|] eqn:Ex.
      * destruct T as [T1 _]. cbn [olist flat_map]. rewrite T1, app_nil_r.
        unfold trades_pm, pos_of_fill, remainder_fill. cbn [p_trades f_id].
        rewrite <- app_assoc. reflexivity.
      * exfalso. assert (crosses (sq_pm (Some p)) (sq_fill f)) as Hc.
        { destruct Ecs as [[A B]|[A B]]; [left|right]; split; qc_lin. }
        apply (step_exit_iff i (Some p) f (conj Hi (conj Hpq Hpm)) Hv) in Hc. congruence.
    + exfalso. unfold sq_pm in Ecs. destruct Ecs as [[A B]|[A B]]; qc_lin.
  - assert (Hn : ~ crosses_strictly (sq_pm c) (sq_fill f)).
    { intros H. apply crosses_strictly_b_true in H. congruence. }
    pose proof (step_trades i c f Hg Hv) as T. cbv zeta in T.
    destruct c as [p|].
    + destruct (snd (pm_update (Some p) f)) as [x|] eqn:Ex.
      * destruct T as [T1 [T2|T2]].
        -- rewrite T2. cbn [olist flat_map trades_pm]. rewrite T1, !app_nil_r. reflexivity.
        -- (* an exit with a new position is a strict crossing *)
           exfalso. apply Hn. destruct Hg as [Hi [Hpq Hpm]].
           revert Ex T2. arms i p f Hi Hv; intros Ex T2; try discriminate Ex.
           ++ cbn [trades_pm] in T2. discriminate T2.
           ++ unfold crosses_strictly, sq_pm, sq_pos, sq_fill.
              destruct (p_side p), (f_side f); try congruence; [left|right]; split; qc_lin.
      * cbn [olist flat_map app]. rewrite T. reflexivity.
    + destruct T as [T1 T2]. rewrite T1, T2. reflexivity.
Qed.

(* ---- histories -------------------------------------------------------------------------- *)

Lemma prun_snoc fs f : prun (fs ++ [f]) = pstep (prun fs) f.
Proof. unfold prun. rewrite fold_left_app. reflexivity. Qed.

Lemma net_snoc fs f : net (fs ++ [f]) = net fs + sq_fill f.
Proof. unfold net. rewrite map_app, Qcsum_app. cbn [map]. rewrite Qcsum_one. reflexivity. Qed.
Lemma cash_snoc fs f : cash (fs ++ [f]) = cash fs + cashflow f.
Proof. unfold cash. rewrite map_app, Qcsum_app. cbn [map]. rewrite Qcsum_one. reflexivity. Qed.
Lemma total_fees_snoc fs f : total_fees (fs ++ [f]) = total_fees fs + f_fee f.
Proof. unfold total_fees. rewrite map_app, Qcsum_app. cbn [map]. rewrite Qcsum_one. reflexivity. Qed.

Lemma net_cons f fs : net (f :: fs) = sq_fill f + net fs.
Proof. reflexivity. Qed.

Lemma expected_ids_snoc fs : forall n f,
  expected_ids n (fs ++ [f]) =
  (expected_ids n fs ++
   (if crosses_strictly_b (n + net fs) (sq_fill f) then [f_id f; f_id f] else [f_id f]))%list.
Proof.
  induction fs as [|a fs IH]; intros n f.
  - cbn [app expected_ids]. unfold net. cbn [map Qcsum fold_right].
    replace (n + 0) with n by ring. rewrite app_nil_r. reflexivity.
  - cbn [app expected_ids]. rewrite IH, net_cons.
    replace (n + sq_fill a + net fs) with (n + (sq_fill a + net fs)) by ring.
    rewrite app_assoc. reflexivity.
Qed.

Lemma cash_split fs : cash fs = proceeds fs - cost fs - total_fees fs.
Proof.
  unfold cash, proceeds, cost, total_fees, Qcsum.
  induction fs as [|f fs IH]; cbn [map fold_right]; [ring|].
  rewrite IH. unfold cashflow. destruct (f_side f); ring.
Qed.

Lemma sum_x_pnl_snoc xs o : sum_x_pnl (xs ++ olist o) = sum_x_pnl xs + pnlx o.
Proof.
  unfold sum_x_pnl. rewrite map_app, Qcsum_app. destruct o; cbn [olist map pnlx].
  - rewrite Qcsum_one. reflexivity.
  - unfold Qcsum. cbn [fold_right]. reflexivity.
Qed.
Lemma sum_x_fees_snoc xs o : sum_x_fees (xs ++ olist o) = sum_x_fees xs + feesx o.
Proof.
  unfold sum_x_fees. rewrite map_app, Qcsum_app. destruct o; cbn [olist map feesx].
  - rewrite Qcsum_one. reflexivity.
  - unfold Qcsum. cbn [fold_right]. reflexivity.
Qed.

(** the invariant carried along any valid history *)
Record run_inv (i : N) (fs : list fill) (s : pstate) : Prop := {
  ri_good : good i (fst s);
  ri_net : sq_pm (fst s) = net fs;
  ri_cash : sum_x_pnl (snd s) + phi (fst s) = cash fs;
  ri_fees : sum_x_fees (snd s) + fees_pm (fst s) = total_fees fs;
  ri_ids : (flat_map x_trades (snd s) ++ trades_pm (fst s))%list = expected_ids 0 fs }.

Lemma run_invariant i fs : Forall (valid_fill i) fs -> run_inv i fs (prun fs).
Proof.
  induction fs as [|f fs IH] using rev_ind; intros Hv.
  - unfold prun. cbn [fold_left]. constructor; cbn [fst snd]; try reflexivity; try exact I.
  - apply Forall_app in Hv. destruct Hv as [Hfs Hf]. inversion Hf as [|? ? Hvf _]; subst.
    specialize (IH Hfs). destruct IH as [G Nn C F I].
    rewrite prun_snoc. destruct (prun fs) as [c xs]. cbn [fst snd] in *.
    unfold pstep. cbn [fst snd]. constructor; cbn [fst snd].
    + exact (step_good i c f G Hvf).
    + rewrite (step_net i c f G Hvf), Nn, net_snoc. reflexivity.
    + rewrite sum_x_pnl_snoc, cash_snoc, <- C, <- Qcplus_assoc, (step_cash i c f G Hvf). ring.
    + rewrite sum_x_fees_snoc, total_fees_snoc, <- F, <- Qcplus_assoc, (step_fees i c f G Hvf). ring.
    + rewrite flat_map_app, <- app_assoc, (step_ids i c f G Hvf), app_assoc, I.
      rewrite expected_ids_snoc, Nn. replace (0 + net fs) with (net fs) by ring. reflexivity.
Qed.

(** (i) the open position is the net signed filled quantity *)
Lemma net_qty i fs : Forall (valid_fill i) fs ->
  match fst (prun fs) with
  | None => net fs = 0
  | Some p => 0 < p_qty p /\ p_qty p = Qcabs (net fs) /\
              (p_side p = Buy <-> 0 < net fs) /\ (p_side p = Sell <-> net fs < 0)
  end.
Proof.
  intros Hv. destruct (run_invariant i fs Hv) as [G Nn _ _ _].
  destruct (fst (prun fs)) as [p|]; cbn [sq_pm good] in *.
  - destruct G as [_ [Hq _]]. rewrite <- Nn. unfold sq_pos.
    destruct (p_side p).
    + split; [exact Hq|]. split; [symmetry; apply Qcabs_pos'; exact Hq|].
      split; split; try congruence; try solve [intros _; qc_lin]; intros H; exfalso; qc_lin.
    + split; [exact Hq|]. split; [rewrite Qcabs_opp; symmetry; apply Qcabs_pos'; exact Hq|].
      split; split; try congruence; try solve [intros _; qc_lin]; intros H; exfalso; qc_lin.
  - symmetry. exact Nn.
Qed.

(** (ii) exits are emitted exactly at the fills where the running net reaches or crosses zero *)
Lemma exit_iff_cross i fs f : Forall (valid_fill i) fs -> valid_fill i f ->
  (crosses (net fs) (sq_fill f) -> exists x, snd (prun (fs ++ [f])) = (snd (prun fs) ++ [x])%list) /\
  (~ crosses (net fs) (sq_fill f) -> snd (prun (fs ++ [f])) = snd (prun fs)) /\
  (crosses_strictly (net fs) (sq_fill f) ->
     fst (prun (fs ++ [f])) =
     Some (pos_of_fill (remainder_fill f (Qcabs (net fs + sq_fill f))))) /\
  (net fs = 0 -> fst (prun (fs ++ [f])) = Some (pos_of_fill f)).
Proof.
  intros Hv Hvf. destruct (run_invariant i fs Hv) as [G Nn _ _ _].
  rewrite prun_snoc. destruct (prun fs) as [c xs]. cbn [fst snd] in *.
  unfold pstep. cbn [fst snd]. rewrite <- Nn.
  pose proof (step_exit_iff i c f G Hvf) as E.
  repeat split.
  - intros Hc. apply E in Hc. destruct (snd (pm_update c f)) as [x|]; [|congruence].
    exists x. reflexivity.
  - intros Hc. destruct (snd (pm_update c f)) as [x|] eqn:Ex.
    + exfalso. apply Hc, E. congruence.
    + cbn [olist]. apply app_nil_r.
  - exact (step_flip i c f G Hvf).
  - intros H0. destruct c as [p|]; [|reflexivity].
    exfalso. cbn [good sq_pm] in *. destruct G as [_ [Hq _]]. unfold sq_pos in H0.
    destruct (p_side p); qc_lin.
Qed.

(** (iii) conservation of cash *)
Lemma cash_conservation i fs : Forall (valid_fill i) fs ->
  sum_x_pnl (snd (prun fs)) + pnlr_pm (fst (prun fs)) =
  proceeds fs - cost fs - total_fees fs + sq_pm (fst (prun fs)) * avg_pm (fst (prun fs)).
Proof.
  intros Hv. destruct (run_invariant i fs Hv) as [_ _ C _ _].
  rewrite <- cash_split, <- C. unfold phi. ring.
Qed.

(** (iv) conservation of fees *)
Lemma fee_conservation i fs : Forall (valid_fill i) fs ->
  sum_x_fees (snd (prun fs)) + fees_pm (fst (prun fs)) = total_fees fs.
Proof. intros Hv. exact (ri_fees _ _ _ (run_invariant i fs Hv)). Qed.

(** (v) trade ids *)
Lemma trade_ids i fs : Forall (valid_fill i) fs ->
  (flat_map x_trades (snd (prun fs)) ++ trades_pm (fst (prun fs)))%list = expected_ids 0 fs.
Proof. intros Hv. exact (ri_ids _ _ _ (run_invariant i fs Hv)). Qed.

Lemma expected_ids_in fs : forall n f, In f fs -> In (f_id f) (expected_ids n fs).
Proof.
  induction fs as [|a fs IH]; intros n f Hin; [destruct Hin|].
  destruct Hin as [H|H]; cbn [expected_ids]; apply in_or_app.
  - subst a. left. destruct (crosses_strictly_b n (sq_fill f)); left; reflexivity.
  - right. apply IH, H.
Qed.

Lemma every_fill_recorded i fs f : Forall (valid_fill i) fs -> In f fs ->
  In (f_id f) (flat_map x_trades (snd (prun fs)) ++ trades_pm (fst (prun fs)))%list.
Proof. intros Hv Hin. rewrite (trade_ids i fs Hv). apply expected_ids_in, Hin. Qed.

Lemma trade_ids_step i fs f : Forall (valid_fill i) fs -> valid_fill i f ->
  let s := prun fs in let s' := prun (fs ++ [f]) in
  match fst s with
  | None => snd s' = snd s /\ trades_pm (fst s') = [f_id f]%list
  | Some p =>
      (exists x, snd s' = (snd s ++ [x])%list /\ x_trades x = (p_trades p ++ [f_id f])%list /\
                 (fst s' = None \/ trades_pm (fst s') = [f_id f]%list)) \/
      (snd s' = snd s /\ trades_pm (fst s') = (p_trades p ++ [f_id f])%list)
  end.
Proof.
  intros Hv Hvf. cbv zeta. destruct (run_invariant i fs Hv) as [G _ _ _ _].
  rewrite prun_snoc. destruct (prun fs) as [c xs]. cbn [fst snd] in *.
  unfold pstep. cbn [fst snd].
  pose proof (step_trades i c f G Hvf) as T. cbv zeta in T.
  destruct c as [p|].
  - destruct (snd (pm_update (Some p) f)) as [x|].
    + left. exists x. destruct T as [T1 T2]. auto.
    + right. cbn [olist]. rewrite app_nil_r. auto.
  - destruct T as [T1 T2]. rewrite T1. cbn [olist]. rewrite app_nil_r. auto.
Qed.

(** runs are invariant under inserting persist / restore steps *)
Lemma prun_restore_invariant ops : prun_r ops = prun (fills_of_ops ops).
Proof.
  unfold prun_r, prun. generalize (@None position, @nil exited).
  induction ops as [|o ops IH]; intros s; [reflexivity|].
  destruct o as [f|]; cbn [fold_left pstep_r fills_of_ops flat_map app]; apply IH.
Qed.

(** a fill for another instrument is rejected by an open position: nothing changes *)
Lemma rejected_fill_noop p xs f : f_inst f <> p_inst p ->
  pm_update (Some p) f = (Some p, None) /\ pstep (Some p, xs) f = (Some p, xs).
Proof.
  intros Hne.
  assert (E : pm_update (Some p) f = (Some p, None)).
  { unfold pm_update, pos_update, arm_of.
    destruct (N.eqb (p_inst p) (f_inst f)) eqn:En; [apply N.eqb_eq in En; congruence|reflexivity]. }
  split; [exact E|]. unfold pstep. cbn [fst snd]. rewrite E. cbn [fst snd olist]. rewrite app_nil_r. reflexivity.
Qed.

Lemma rejected_fill_noop_history i fs g rest :
  Forall (valid_fill i) fs -> fst (prun fs) <> None -> f_inst g <> i ->
  prun (fs ++ g :: rest) = prun (fs ++ rest).
Proof.
  intros Hv Hopen Hne. unfold prun. rewrite !fold_left_app. cbn [fold_left]. fold (prun fs).
  destruct (run_invariant i fs Hv) as [G _ _ _ _].
  destruct (prun fs) as [[p|] xs] eqn:E; cbn [fst] in *; [|congruence].
  destruct G as [Hi _]. rewrite (proj2 (rejected_fill_noop p xs g (eq_ind_r (fun j => f_inst g <> j) Hne Hi))).
  reflexivity.
Qed.
