(** Lemmas about Model/Connectivity.v (property C14). *)
From BV Require Import Base.Common Model.Connectivity.
From Coq Require Import ZifyBool.

(* ---- association-list facts ---------------------------------------------------------------- *)

Definition keys (s : conn) : list N := map fst (exchanges s).

Lemma upd_key_keys : forall id f l, map fst (upd_key id f l) = map fst l.
Proof.
  induction l as [|[k c] t IH]; cbn; [reflexivity|].
  destruct (N.eqb k id); cbn; [reflexivity|now rewrite IH].
Qed.

Lemma upd_idx_keys : forall f l i, map fst (upd_idx i f l) = map fst l.
Proof.
  induction l as [|[k c] t IH]; intros [|j]; cbn; try reflexivity. now rewrite IH.
Qed.

Lemma get_upd_key_same : forall id f l, get_key id (upd_key id f l) = option_map f (get_key id l).
Proof.
  induction l as [|[k c] t IH]; cbn; [reflexivity|].
  destruct (N.eqb k id) eqn:E; cbn; rewrite E; [reflexivity|exact IH].
Qed.

Lemma get_upd_key_other : forall id id' f l, id' <> id -> get_key id' (upd_key id f l) = get_key id' l.
Proof.
  induction l as [|[k c] t IH]; intros Hne; cbn; [reflexivity|].
  destruct (N.eqb_spec k id) as [E|E]; cbn.
  - subst. destruct (N.eqb_spec id id'); [congruence|reflexivity].
  - destruct (N.eqb k id'); [reflexivity|now apply IH].
Qed.

Lemma get_key_in : forall id l, In id (map fst l) -> exists c, get_key id l = Some c.
Proof.
  induction l as [|[k c] t IH]; cbn; [tauto|]. intros [H|H].
  - subst. rewrite N.eqb_refl. eauto.
  - destruct (N.eqb k id); eauto.
Qed.

Lemma get_key_some_in : forall id l c, get_key id l = Some c -> In id (map fst l).
Proof.
  induction l as [|[k c'] t IH]; cbn; [discriminate|]. intros c.
  destruct (N.eqb_spec k id); [now left|]. intros H. right. eauto.
Qed.

(** positional access = keyed access when keys are distinct *)
Lemma idx_as_key : forall l i id, NoDup (map fst l) -> nth_error (map fst l) i = Some id ->
  get_idx i l = get_key id l /\ forall f, upd_idx i f l = upd_key id f l.
Proof.
  induction l as [|[k c] t IH]; intros [|j] id Hnd Hn; cbn in *; try discriminate.
  - inversion Hn; subst. rewrite N.eqb_refl. split; reflexivity.
  - inversion Hnd; subst.
    assert (Hin : In id (map fst t)) by (eapply nth_error_In; eauto).
    destruct (N.eqb_spec k id) as [E|E]; [subst; contradiction|].
    destruct (IH j id H2 Hn) as [A B]. split; [exact A|]. intros f. now rewrite B.
Qed.

Lemma all_healthy_get : forall l id c,
  all_states_healthy l = true -> get_key id l = Some c -> all_healthy c = true.
Proof.
  induction l as [|[k c'] t IH]; cbn; [discriminate|]. intros id c H G.
  apply andb_true_iff in H. destruct H as [H1 H2].
  destruct (N.eqb k id); [inversion G; subst; exact H1|eauto].
Qed.

Lemma all_healthy_of_get : forall l, NoDup (map fst l) ->
  (forall id c, get_key id l = Some c -> all_healthy c = true) -> all_states_healthy l = true.
Proof.
  induction l as [|[k c] t IH]; cbn; [reflexivity|]. intros Hnd H. inversion Hnd; subst.
  apply andb_true_iff. split.
  - apply (H k). now rewrite N.eqb_refl.
  - apply IH; [assumption|]. intros id c' G. apply (H id).
    destruct (N.eqb_spec k id) as [E|E]; [|exact G].
    subst. exfalso. apply H2. eapply get_key_some_in; eauto.
Qed.

Lemma existsb_in : forall id ids, existsb (N.eqb id) ids = true <-> In id ids.
Proof.
  intros. rewrite existsb_exists. split.
  - intros [x [Hi He]]. apply N.eqb_eq in He. now subst.
  - intros H. exists id. split; [assumption|apply N.eqb_refl].
Qed.

(* ---- the four update functions as one generic link update --------------------------------- *)

Definition setter (k : lkind) (h : health) : cstate -> cstate :=
  match k with KMarket => set_market h | KAccount => set_account h end.
Definition getter (k : lkind) (c : cstate) : health :=
  match k with KMarket => market_data c | KAccount => account c end.

Lemma link_get : forall s id k, link s id k = option_map (getter k) (get_key id (exchanges s)).
Proof. intros s id [|]; reflexivity. Qed.

Lemma getter_setter_same : forall k h c, getter k (setter k h c) = h.
Proof. intros [|] h [m a]; reflexivity. Qed.
Lemma getter_setter_other : forall k k' h c, k' <> k -> getter k' (setter k h c) = getter k' c.
Proof. intros [|] [|] h [m a] H; try reflexivity; congruence. Qed.

(** what a valid event does, written once for the four functions *)
Definition gen (s : conn) (id : N) (k : lkind) (item : bool) : conn :=
  if item then
    if is_healthy (global s) then s
    else match link s id k with
         | Some Healthy => s
         | _ => let l := upd_key id (setter k Healthy) (exchanges s) in
                mkConn (if all_states_healthy l then Healthy else global s) l
         end
  else mkConn Reconnecting (upd_key id (setter k Reconnecting) (exchanges s)).

Lemma link_of_in : forall ids ev i k item, link_of ids ev = Some (i, k, item) -> In i ids.
Proof.
  intros ids [id|idx|id|id] i k item; cbn.
  1,3,4: destruct (existsb (N.eqb id) ids) eqn:E; [|discriminate]; intros H; inversion H; subst;
         now apply existsb_in.
  destruct (nth_error ids (N.to_nat idx)) eqn:E; [|discriminate]. intros H; inversion H; subst.
  eapply nth_error_In; eauto.
Qed.

Lemma process_gen : forall ids e ev i k item,
  NoDup ids -> keys (econn e) = ids -> link_of ids ev = Some (i, k, item) ->
  process e ev = (mkEngine (gen (econn e) i k item) (calls e ++ spec_calls [ev]), spec_output ev).
Proof.
  intros ids [s cs] ev i k item Hnd Hk Hl. unfold keys in Hk. cbn [econn calls] in *.
  assert (Hin : In i ids) by (eapply link_of_in; eauto).
  destruct (get_key_in i (exchanges s)) as [c Hc]; [now rewrite Hk|].
  destruct ev as [id|idx|id|id]; cbn in Hl.
  - (* market item *)
    destruct (existsb (N.eqb id) ids); [|discriminate]. inversion Hl; subst i k item.
    cbn [process econn calls spec_calls flat_map spec_output]. rewrite app_nil_r.
    unfold update_from_market_event, gen. destruct (is_healthy (global s)); [reflexivity|].
    rewrite link_get, Hc. cbn [option_map getter setter].
    destruct (market_data c); reflexivity.
  - (* account item *)
    destruct (nth_error ids (N.to_nat idx)) as [id|] eqn:En; [|discriminate].
    inversion Hl; subst i k item.
    cbn [process econn calls spec_calls flat_map spec_output]. rewrite app_nil_r.
    rewrite <- Hk in Hnd, En.
    destruct (idx_as_key (exchanges s) (N.to_nat idx) id Hnd En) as [A B].
    unfold update_from_account_event, gen. destruct (is_healthy (global s)); [reflexivity|].
    rewrite A, B, link_get, Hc. cbn [option_map getter setter].
    destruct (account c); reflexivity.
  - (* market reconnecting *)
    destruct (existsb (N.eqb id) ids); [|discriminate]. inversion Hl; subst i k item.
    cbn [process econn calls spec_calls flat_map spec_output app].
    unfold update_from_market_reconnecting, gen. cbn [exchanges]. rewrite Hc. reflexivity.
  - (* account reconnecting *)
    destruct (existsb (N.eqb id) ids); [|discriminate]. inversion Hl; subst i k item.
    cbn [process econn calls spec_calls flat_map spec_output app].
    unfold update_from_account_reconnecting, gen. cbn [exchanges]. rewrite Hc. reflexivity.
Qed.

(* ---- invariant ------------------------------------------------------------------------------- *)

(** the flag says Healthy exactly when the table is all-healthy *)
Definition Inv (s : conn) : Prop := global s = Healthy <-> all_states_healthy (exchanges s) = true.

Lemma gen_keys : forall s i k item, keys (gen s i k item) = keys s.
Proof.
  intros s i k [|]; unfold gen, keys.
  - destruct (is_healthy (global s)); [reflexivity|].
    destruct (link s i k) as [[|]|]; cbn [exchanges]; try reflexivity; apply upd_key_keys.
  - cbn [exchanges]. apply upd_key_keys.
Qed.

Lemma is_healthy_true : forall h, is_healthy h = true <-> h = Healthy.
Proof. intros [|]; cbn; split; congruence. Qed.

Lemma gen_link_same : forall s i k item, In i (keys s) -> Inv s ->
  link (gen s i k item) i k = Some (if item then Healthy else Reconnecting).
Proof.
  intros s i k item Hin HI. destruct (get_key_in i (exchanges s) Hin) as [c Hc].
  destruct item; unfold gen.
  - destruct (is_healthy (global s)) eqn:Eg.
    + apply is_healthy_true in Eg. apply HI in Eg.
      pose proof (all_healthy_get _ _ _ Eg Hc) as Hh. unfold all_healthy in Hh.
      apply andb_true_iff in Hh. destruct Hh as [H1 H2]. apply is_healthy_true in H1, H2.
      rewrite link_get, Hc. cbn. destruct k; cbn; congruence.
    + destruct (link s i k) as [[|]|] eqn:El; [exact El| |];
        rewrite link_get; cbn [exchanges]; rewrite get_upd_key_same, Hc; cbn [option_map];
        now rewrite getter_setter_same.
  - rewrite link_get. cbn [exchanges]. rewrite get_upd_key_same, Hc. cbn [option_map].
    now rewrite getter_setter_same.
Qed.

Lemma gen_link_other : forall s i k item i' k', (i', k') <> (i, k) ->
  link (gen s i k item) i' k' = link s i' k'.
Proof.
  intros s i k item i' k' Hne.
  assert (H : forall h, option_map (getter k') (get_key i' (upd_key i (setter k h) (exchanges s)))
                        = link s i' k').
  { intros h. rewrite link_get. destruct (N.eq_dec i' i) as [E|E].
    - subst. rewrite get_upd_key_same. destruct (get_key i (exchanges s)); [|reflexivity].
      cbn [option_map]. rewrite getter_setter_other; [reflexivity|]. intros E; apply Hne; now subst.
    - now rewrite get_upd_key_other. }
  destruct item; unfold gen.
  - destruct (is_healthy (global s)); [reflexivity|].
    destruct (link s i k) as [[|]|]; try reflexivity; rewrite link_get; cbn [exchanges]; apply H.
  - rewrite link_get. cbn [exchanges]. apply H.
Qed.

Lemma gen_Inv : forall s i k item, In i (keys s) -> Inv s -> Inv (gen s i k item).
Proof.
  intros s i k item Hin HI. destruct (get_key_in i (exchanges s) Hin) as [c Hc].
  destruct item; unfold gen.
  - destruct (is_healthy (global s)) eqn:Eg; [exact HI|].
    destruct (link s i k) as [[|]|]; [exact HI| |];
      unfold Inv; cbn [global exchanges];
      destruct (all_states_healthy _); split; try congruence; try reflexivity;
      destruct (global s); cbn in Eg; congruence.
  - unfold Inv. cbn [global exchanges]. split; [discriminate|]. intros H. exfalso.
    assert (G : get_key i (upd_key i (setter k Reconnecting) (exchanges s))
                = Some (setter k Reconnecting c)) by (now rewrite get_upd_key_same, Hc).
    pose proof (all_healthy_get _ _ _ H G) as Hh. unfold all_healthy in Hh.
    destruct k, c; cbn in Hh; [discriminate|]. now rewrite andb_false_r in Hh.
Qed.

Lemma gen_notice_global : forall s i k, global (gen s i k false) = Reconnecting.
Proof. reflexivity. Qed.

Lemma init_keys : forall ids, keys (init_conn ids) = ids.
Proof.
  intros. unfold keys, init_conn. cbn [exchanges]. rewrite map_map. cbn. apply map_id.
Qed.

Lemma init_Inv : forall ids, ids <> [] -> Inv (init_conn ids).
Proof.
  intros [|a t] H; [congruence|]. unfold Inv. cbn. split; discriminate.
Qed.

Lemma init_link : forall ids id k, In id ids -> link (init_conn ids) id k = Some Reconnecting.
Proof.
  intros ids id k Hin. rewrite link_get. unfold init_conn. cbn [exchanges].
  induction ids as [|a t IH]; cbn in *; [tauto|].
  destruct (N.eqb_spec a id) as [E|E]; [destruct k; reflexivity|].
  destruct Hin as [Hin|Hin]; [congruence|auto].
Qed.

(** Inv, read link by link *)
Lemma Inv_links : forall s, NoDup (keys s) -> Inv s ->
  (global s = Healthy <->
   forall id, In id (keys s) -> link s id KMarket = Some Healthy /\ link s id KAccount = Some Healthy).
Proof.
  intros s Hnd HI. unfold Inv in HI. rewrite HI. split.
  - intros H id Hin. destruct (get_key_in id (exchanges s) Hin) as [c Hc].
    pose proof (all_healthy_get _ _ _ H Hc) as Hh. unfold all_healthy in Hh.
    apply andb_true_iff in Hh. destruct Hh as [H1 H2]. apply is_healthy_true in H1, H2.
    rewrite !link_get, Hc. cbn. now rewrite H1, H2.
  - intros H. apply all_healthy_of_get; [exact Hnd|]. intros id c Hc.
    destruct (H id (get_key_some_in _ _ _ Hc)) as [H1 H2]. rewrite link_get, Hc in H1, H2.
    cbn in H1, H2. injection H1 as H1. injection H2 as H2. unfold all_healthy. now rewrite H1, H2.
Qed.

(* ---- histories ------------------------------------------------------------------------------- *)

Lemma valid_event_link : forall ids ev, valid_event ids ev = true ->
  exists i k item, link_of ids ev = Some (i, k, item).
Proof.
  intros ids ev H. unfold valid_event in H. destruct (link_of ids ev) as [[[i k] item]|]; [|discriminate].
  eauto.
Qed.

(** one valid step from a good state *)
Lemma step_good : forall ids e ev i k item,
  NoDup ids -> keys (econn e) = ids -> Inv (econn e) -> link_of ids ev = Some (i, k, item) ->
  let e' := step e ev in
  keys (econn e') = ids /\ Inv (econn e') /\
  link (econn e') i k = Some (if item then Healthy else Reconnecting) /\
  (forall i' k', (i', k') <> (i, k) -> link (econn e') i' k' = link (econn e) i' k') /\
  calls e' = calls e ++ spec_calls [ev] /\ snd (process e ev) = spec_output ev /\
  (item = false -> global (econn e') = Reconnecting).
Proof.
  intros ids e ev i k item Hnd Hk HI Hl. unfold step. rewrite (process_gen ids e ev i k item Hnd Hk Hl).
  cbn [fst snd econn calls].
  assert (Hin : In i (keys (econn e))) by (rewrite Hk; eapply link_of_in; eauto).
  repeat split.
  - now rewrite gen_keys.
  - destruct (gen_Inv (econn e) i k item Hin HI) as [A _]. exact A.
  - destruct (gen_Inv (econn e) i k item Hin HI) as [_ A]. exact A.
  - now apply gen_link_same.
  - intros. now apply gen_link_other.
  - intros ->. reflexivity.
Qed.

Lemma spec_link_from_app : forall ids h0 h1 h2 id k,
  spec_link_from ids h0 (h1 ++ h2) id k = spec_link_from ids (spec_link_from ids h0 h1 id k) h2 id k.
Proof. intros. unfold spec_link_from. now rewrite fold_left_app. Qed.

Lemma spec_calls_app : forall h1 h2, spec_calls (h1 ++ h2) = spec_calls h1 ++ spec_calls h2.
Proof. intros. unfold spec_calls. now rewrite flat_map_app. Qed.

(** main refinement lemma, generalised over the start state *)
Lemma run_refines_from : forall ids h e,
  NoDup ids -> keys (econn e) = ids -> Inv (econn e) -> forallb (valid_event ids) h = true ->
  let e' := run e h in
  keys (econn e') = ids /\ Inv (econn e') /\
  (forall id k h0, link (econn e) id k = Some h0 ->
                   link (econn e') id k = Some (spec_link_from ids h0 h id k)) /\
  calls e' = calls e ++ spec_calls h /\
  outputs e h = map spec_output h.
Proof.
  intros ids h. induction h as [|ev t IH]; intros e Hnd Hk HI Hv.
  - cbn. repeat split; auto; [apply HI|apply HI|now rewrite app_nil_r].
  - cbn [forallb] in Hv. apply andb_true_iff in Hv. destruct Hv as [Hv1 Hv2].
    destruct (valid_event_link ids ev Hv1) as [i [k [item Hl]]].
    destruct (step_good ids e ev i k item Hnd Hk HI Hl) as [K1 [I1 [L1 [F1 [C1 [O1 _]]]]]].
    destruct (IH (step e ev) Hnd K1 I1 Hv2) as [K2 [I2 [L2 [C2 O2]]]].
    cbn [run fold_left outputs map]. fold (run (step e ev) t).
    split; [exact K2|]. split; [exact I2|]. split; [|split].
    + intros id k0 h0 Hh0. unfold spec_link_from. cbn [fold_left]. fold (spec_link_from ids).
      rewrite Hl.
      destruct (N.eqb_spec i id) as [E1|E1]; cbn [andb].
      * destruct (lkind_eqb k k0) eqn:E2.
        -- assert (k = k0) by (destruct k, k0; cbn in E2; congruence). subst.
           apply L2. exact L1.
        -- apply L2. rewrite F1; [exact Hh0|]. intros E. inversion E; subst.
           destruct k; cbn in E2; discriminate.
      * apply L2. rewrite F1; [exact Hh0|]. intros E. inversion E; subst. congruence.
    + rewrite C2, C1. change (ev :: t) with ([ev] ++ t). rewrite spec_calls_app. now rewrite app_assoc.
    + now rewrite O1, O2.
Qed.

(** ... from the initial all-reconnecting state *)
Theorem run_refines : forall ids h,
  NoDup ids -> ids <> [] -> forallb (valid_event ids) h = true ->
  let e := run (init_engine ids) h in
  keys (econn e) = ids /\
  (forall id k, In id ids -> link (econn e) id k = Some (spec_link ids h id k)) /\
  (global (econn e) = Healthy <->
     forall id, In id ids -> spec_link ids h id KMarket = Healthy /\ spec_link ids h id KAccount = Healthy) /\
  calls e = spec_calls h /\
  outputs (init_engine ids) h = map spec_output h.
Proof.
  intros ids h Hnd Hne Hv.
  destruct (run_refines_from ids h (init_engine ids) Hnd (init_keys ids) (init_Inv ids Hne) Hv)
    as [K [I [L [C O]]]].
  cbn zeta. split; [exact K|].
  assert (HL : forall id k, In id ids ->
            link (econn (run (init_engine ids) h)) id k = Some (spec_link ids h id k)).
  { intros id k Hin. apply L. cbn [init_engine econn]. now apply init_link. }
  split; [exact HL|]. split; [|split; [exact C|exact O]].
  rewrite (Inv_links _ (eq_ind_r (fun l => NoDup l) Hnd K) I). rewrite K. split.
  - intros H id Hin. destruct (H id Hin) as [H1 H2]. rewrite HL in H1, H2 by assumption.
    injection H1 as H1. injection H2 as H2. split; assumption.
  - intros H id Hin. destruct (H id Hin) as [H1 H2]. rewrite !HL by assumption. now rewrite H1, H2.
Qed.

(** spec_global is the boolean reading of the right-hand side above *)
Lemma spec_global_iff : forall ids h,
  spec_global ids h = Healthy <->
  forall id, In id ids -> spec_link ids h id KMarket = Healthy /\ spec_link ids h id KAccount = Healthy.
Proof.
  intros. unfold spec_global.
  destruct (forallb _ ids) eqn:E.
  - split; [|reflexivity]. intros _ id Hin. rewrite forallb_forall in E. specialize (E id Hin).
    apply andb_true_iff in E. destruct E as [E1 E2]. now apply is_healthy_true in E1, E2.
  - split; [discriminate|]. intros H. exfalso.
    assert (forallb (fun id => is_healthy (spec_link ids h id KMarket) && is_healthy (spec_link ids h id KAccount)) ids = true).
    { apply forallb_forall. intros id Hin. destruct (H id Hin) as [H1 H2]. now rewrite H1, H2. }
    congruence.
Qed.

(** the spec of a link that no event of [h] concerns is its starting value *)
Definition concerns (ids : list N) (id : N) (k : lkind) (ev : event) : bool :=
  match link_of ids ev with
  | Some (i, k', _) => N.eqb i id && lkind_eqb k' k
  | None => false
  end.

Lemma spec_link_untouched : forall ids h h0 id k,
  forallb (fun ev => negb (concerns ids id k ev)) h = true -> spec_link_from ids h0 h id k = h0.
Proof.
  induction h as [|ev t IH]; intros h0 id k H; [reflexivity|].
  cbn [forallb] in H. apply andb_true_iff in H. destruct H as [H1 H2].
  unfold spec_link_from. cbn [fold_left]. fold (spec_link_from ids).
  unfold concerns in H1. destruct (link_of ids ev) as [[[i k'] item]|]; [|now apply IH].
  apply negb_true_iff in H1. rewrite H1. now apply IH.
Qed.

Lemma spec_link_last : forall ids h ev id k item,
  link_of ids ev = Some (id, k, item) ->
  spec_link ids (h ++ [ev]) id k = if item then Healthy else Reconnecting.
Proof.
  intros. unfold spec_link. rewrite spec_link_from_app. unfold spec_link_from at 1. cbn [fold_left].
  rewrite H, N.eqb_refl. destruct k; reflexivity.
Qed.

(* ---- statements used by Props/C14.v ---------------------------------------------------------- *)

Definition valid_history (ids : list N) (h : list event) : Prop := forallb (valid_event ids) h = true.

Lemma reach_good : forall ids h, NoDup ids -> ids <> [] -> valid_history ids h ->
  keys (econn (run (init_engine ids) h)) = ids /\ Inv (econn (run (init_engine ids) h)).
Proof.
  intros ids h Hnd Hne Hv.
  destruct (run_refines_from ids h (init_engine ids) Hnd (init_keys ids) (init_Inv ids Hne) Hv)
    as [K [I _]]. split; assumption.
Qed.

Theorem global_iff_all : forall ids h, NoDup ids -> ids <> [] -> valid_history ids h ->
  let s := econn (run (init_engine ids) h) in
  global s = Healthy <->
  forall id, In id ids -> link s id KMarket = Some Healthy /\ link s id KAccount = Some Healthy.
Proof.
  intros ids h Hnd Hne Hv. destruct (reach_good ids h Hnd Hne Hv) as [K I]. cbn zeta.
  rewrite (Inv_links _ (eq_ind_r (fun l => NoDup l) Hnd K) I). now rewrite K.
Qed.

Lemma run_snoc : forall e h ev, run e (h ++ [ev]) = step (run e h) ev.
Proof. intros. unfold run. now rewrite fold_left_app. Qed.

Theorem event_exact : forall ids h ev i k item,
  NoDup ids -> ids <> [] -> valid_history ids h -> link_of ids ev = Some (i, k, item) ->
  let before := run (init_engine ids) h in
  let after := run (init_engine ids) (h ++ [ev]) in
  link (econn after) i k = Some (if item then Healthy else Reconnecting) /\
  (forall i' k', (i', k') <> (i, k) -> link (econn after) i' k' = link (econn before) i' k') /\
  (item = false -> global (econn after) = Reconnecting) /\
  calls after = calls before ++ (if item then [] else [i]) /\
  snd (process before ev) = (if item then ONone else
                             match k with KMarket => OMarketDisconnect i | KAccount => OAccountDisconnect i end).
Proof.
  intros ids h ev i k item Hnd Hne Hv Hl. cbn zeta. rewrite run_snoc.
  destruct (reach_good ids h Hnd Hne Hv) as [K I].
  destruct (step_good ids _ ev i k item Hnd K I Hl) as [_ [_ [L1 [F1 [C1 [O1 G1]]]]]].
  split; [exact L1|]. split; [exact F1|]. split; [exact G1|].
  rewrite C1, O1.
  destruct ev as [id|idx|id|id]; cbn in Hl.
  - destruct (existsb (N.eqb id) ids); [|discriminate]. inversion Hl; subst. split; reflexivity.
  - destruct (nth_error ids (N.to_nat idx)); [|discriminate]. inversion Hl; subst. split; reflexivity.
  - destruct (existsb (N.eqb id) ids); [|discriminate]. inversion Hl; subst. split; reflexivity.
  - destruct (existsb (N.eqb id) ids); [|discriminate]. inversion Hl; subst. split; reflexivity.
Qed.

Lemma valid_history_app : forall ids h1 h2,
  valid_history ids (h1 ++ h2) <-> valid_history ids h1 /\ valid_history ids h2.
Proof. intros. unfold valid_history. rewrite forallb_app. apply andb_true_iff. Qed.

Theorem down_until_next_event : forall ids h1 notice h2 item_ev i k,
  NoDup ids -> ids <> [] ->
  valid_history ids h1 -> valid_history ids h2 ->
  link_of ids notice = Some (i, k, false) -> link_of ids item_ev = Some (i, k, true) ->
  forallb (fun ev => negb (concerns ids i k ev)) h2 = true ->
  let down := econn (run (init_engine ids) (h1 ++ [notice] ++ h2)) in
  let up := econn (run (init_engine ids) ((h1 ++ [notice] ++ h2) ++ [item_ev])) in
  link down i k = Some Reconnecting /\ global down = Reconnecting /\ link up i k = Some Healthy.
Proof.
  intros ids h1 notice h2 item_ev i k Hnd Hne Hv1 Hv2 Hn Hi Hno. cbn zeta.
  assert (Hin : In i ids) by (eapply link_of_in; eauto).
  assert (Hvn : valid_history ids [notice]).
  { unfold valid_history, valid_event. cbn. now rewrite Hn. }
  assert (Hv : valid_history ids (h1 ++ [notice] ++ h2)).
  { apply valid_history_app. split; [assumption|]. apply valid_history_app. split; assumption. }
  assert (Hdown : link (econn (run (init_engine ids) (h1 ++ [notice] ++ h2))) i k = Some Reconnecting).
  { destruct (run_refines ids _ Hnd Hne Hv) as [_ [L _]]. rewrite (L i k Hin).
    unfold spec_link. rewrite app_assoc, spec_link_from_app.
    rewrite spec_link_untouched by assumption.
    fold (spec_link ids (h1 ++ [notice]) i k). now rewrite (spec_link_last ids h1 notice i k false Hn). }
  split; [exact Hdown|]. split.
  - destruct (global (econn (run (init_engine ids) (h1 ++ [notice] ++ h2)))) eqn:Eg; [|reflexivity].
    exfalso. pose proof (global_iff_all ids _ Hnd Hne Hv) as G. cbn zeta in G.
    destruct G as [G1 _]. destruct (G1 Eg i Hin) as [E1 E2].
    destruct k; congruence.
  - destruct (event_exact ids _ item_ev i k true Hnd Hne Hv Hi) as [L _]. exact L.
Qed.

Theorem on_disconnect_once_per_notice : forall ids h, NoDup ids -> ids <> [] -> valid_history ids h ->
  calls (run (init_engine ids) h) = spec_calls h /\
  outputs (init_engine ids) h = map spec_output h.
Proof.
  intros ids h Hnd Hne Hv. destruct (run_refines ids h Hnd Hne Hv) as [_ [_ [_ [C O]]]]. split; assumption.
Qed.

(* ---- persist / restore steps ----------------------------------------------------------------- *)

Theorem run_steps_events : forall l e, run_steps e l = run e (events_of l).
Proof.
  induction l as [|s t IH]; intros e; [reflexivity|].
  unfold run_steps, run in *. destruct s as [ev|]; cbn [fold_left apply_hstep events_of flat_map app].
  - apply IH.
  - apply IH.
Qed.
