(** Model of barter-data/src/books/mod.rs : OrderBook, OrderBookSide::{bids,asks,upsert,
    upsert_single}, OrderBook::{update,snapshot,mid_price,volume_weighed_mid_price}.
    Prices and amounts are integers at a fixed decimal scale (only order, equality and the
    zero test matter for the book itself); mid prices are exact rationals.
    Definitions only: this file still runs when a proof breaks. *)
From BV Require Import Base.Common.

Notation level := (Z * Z)%type (only parsing).   (* price, amount *)
Inductive side := Bid | Ask.

(** [before s p q]: price [p] sorts strictly before [q] on side [s]
    (bids descending, asks ascending). *)
Definition before (s : side) (p q : Z) : bool :=
  match s with Bid => Z.ltb q p | Ask => Z.ltb p q end.

(** Contract of [Vec::binary_search_by] + remove / replace / insert on a list strictly sorted
    for side [s]:  the unique position holding the price, or its insertion point. *)
Fixpoint upsert_single (s : side) (l : list level) (lv : level) : list level :=
  match l with
  | [] => if Z.eqb (snd lv) 0 then [] else [lv]
  | (p, a) :: tl =>
      if Z.eqb (fst lv) p then
        (if Z.eqb (snd lv) 0 then tl else (p, snd lv) :: tl)
      else if before s (fst lv) p then
        (if Z.eqb (snd lv) 0 then l else lv :: l)
      else (p, a) :: upsert_single s tl lv
  end.

Definition upsert (s : side) (l : list level) (lvs : list level) : list level :=
  fold_left (upsert_single s) lvs l.

(** [OrderBookSide::bids / asks] : sort the given levels (the result of [sort_unstable_by] is
    determined when prices are pairwise distinct). Insertion sort, ties keep insertion order. *)
Fixpoint insert_sorted (s : side) (lv : level) (l : list level) : list level :=
  match l with
  | [] => [lv]
  | x :: tl => if before s (fst x) (fst lv) then x :: insert_sorted s lv tl else lv :: l
  end.
Definition sort_levels (s : side) (l : list level) : list level :=
  fold_right (insert_sorted s) [] l.

Record book := mkBook {
  bseq  : N;
  btime : option Z;
  bids  : list level;
  asks  : list level }.

Definition empty_book : book := mkBook 0 None [] [].

Inductive event :=
| Snapshot (seq : N) (time : option Z) (bs as_ : list level)
| Update   (seq : N) (time : option Z) (bs as_ : list level).

(** [OrderBook::update] *)
Definition update (b : book) (e : event) : book :=
  match e with
  | Snapshot sq t bs as_ => mkBook sq t (sort_levels Bid bs) (sort_levels Ask as_)
  | Update sq t bs as_   =>
      (* the update travels as an [OrderBook] built by [OrderBook::new], i.e. its sides are
         sorted before [upsert_bids] / [upsert_asks] walk them *)
      mkBook sq t (upsert Bid (bids b) (sort_levels Bid bs)) (upsert Ask (asks b) (sort_levels Ask as_))
  end.

(** [OrderBook::snapshot(depth)] — taking a prefix of a sorted side and re-sorting it. *)
Definition snapshot (b : book) (d : nat) : book :=
  mkBook (bseq b) (btime b)
         (sort_levels Bid (firstn d (bids b))) (sort_levels Ask (firstn d (asks b))).

Definition zq (x : Z) : Q := inject_Z x.

(** [OrderBook::mid_price] (values at the book's integer scale, as exact rationals) *)
Definition mid_price (b : book) : option Q :=
  match bids b, asks b with
  | (bp, _) :: _, (ap, _) :: _ => Some ((zq bp + zq ap) / 2)%Q
  | (bp, _) :: _, [] => Some (zq bp)
  | [], (ap, _) :: _ => Some (zq ap)
  | [], [] => None
  end.

(** [OrderBook::volume_weighed_mid_price]; the implementation divides by
    [bid.amount + ask.amount] and panics when that is zero: modelled as [None] result of
    the inner option (outer option = "book empty"). *)
Inductive vw_result := VwNone | VwValue (q : Q) | VwDivZero.
Definition vw_mid_price (b : book) : vw_result :=
  match bids b, asks b with
  | (bp, ba) :: _, (ap, aa) :: _ =>
      if Z.eqb (ba + aa) 0 then VwDivZero
      else VwValue ((zq bp * zq aa + zq ap * zq ba) / zq (ba + aa))%Q
  | (bp, _) :: _, [] => VwValue (zq bp)
  | [], (ap, _) :: _ => VwValue (zq ap)
  | [], [] => VwNone
  end.

(* ------------------------------------------------------------------------------------------ *)
(** The abstract specification: a price -> amount map per side. *)

Definition pmap := Z -> option Z.
Definition pempty : pmap := fun _ => None.

Definition spec_upsert_single (m : pmap) (lv : level) : pmap :=
  fun p => if Z.eqb p (fst lv) then (if Z.eqb (snd lv) 0 then None else Some (snd lv)) else m p.
Definition spec_upsert (m : pmap) (lvs : list level) : pmap :=
  fold_left spec_upsert_single lvs m.

(** a snapshot *is* a map: the amount listed for the price (first occurrence) *)
Fixpoint lookup (l : list level) (p : Z) : option Z :=
  match l with
  | [] => None
  | (q, a) :: tl => if Z.eqb p q then Some a else lookup tl p
  end.

Record sbook := mkSBook { sseq : N; stime : option Z; sbids : pmap; sasks : pmap }.

Definition spec_update (b : sbook) (e : event) : sbook :=
  match e with
  | Snapshot sq t bs as_ => mkSBook sq t (lookup bs) (lookup as_)
  | Update sq t bs as_   =>
      mkSBook sq t (spec_upsert (sbids b) (sort_levels Bid bs)) (spec_upsert (sasks b) (sort_levels Ask as_))
  end.

(** abstraction function *)
Definition abs_book (b : book) : sbook :=
  mkSBook (bseq b) (btime b) (lookup (bids b)) (lookup (asks b)).

(** strict sortedness on side [s] (hence no price twice) *)
Fixpoint strict_sorted (s : side) (l : list level) : bool :=
  match l with
  | [] => true
  | x :: tl =>
      match tl with
      | [] => true
      | y :: _ => before s (fst x) (fst y) && strict_sorted s tl
      end
  end.

Fixpoint nodup_prices (l : list level) : bool :=
  match l with
  | [] => true
  | (p, _) :: tl => match lookup tl p with None => nodup_prices tl | Some _ => false end
  end.

(** input requirement: snapshots list each price once per side *)
Definition wf_event (e : event) : bool :=
  match e with
  | Snapshot _ _ bs as_ => nodup_prices bs && nodup_prices as_
  | Update _ _ _ _ => true
  end.

Definition book_inv (b : book) : Prop :=
  strict_sorted Bid (bids b) = true /\ strict_sorted Ask (asks b) = true.

Definition event_seq (e : event) : N :=
  match e with Snapshot s _ _ _ | Update s _ _ _ => s end.

(** [p] is the best price of map [m] on side [s] *)
Definition spec_best (s : side) (m : pmap) (p a : Z) : Prop :=
  m p = Some a /\ forall q, m q <> None -> q = p \/ before s p q = true.

(** number of prices of [m] among [l]'s that sort strictly before [p] *)
Definition rank (s : side) (l : list level) (p : Z) : nat :=
  length (filter (fun x => before s (fst x) p) l).

(* ------------------------------------------------------------------------------------------ *)
(** [OrderBookL2Manager::run] over an [OrderBookMapMulti]: every stream item is applied to the
    book of the instrument it names (books are numbered 0..n-1 here); reconnecting notices and
    items for a non-configured instrument are skipped. *)
Notation mgr_event := (option nat * event)%type (only parsing).   (* None = reconnecting notice *)

Fixpoint upd_nth (i : nat) (f : book -> book) (l : list book) : list book :=
  match l, i with
  | [], _ => []
  | b :: t, O => f b :: t
  | b :: t, S j => b :: upd_nth j f t
  end.

Definition mgr_step (bs : list book) (me : option nat * event) : list book :=
  match fst me with
  | None => bs
  | Some k => upd_nth k (fun b => update b (snd me)) bs
  end.

(** the events addressed to book [i], in stream order *)
Definition route (i : nat) (evs : list (option nat * event)) : list event :=
  flat_map (fun me => match fst me with
                      | Some k => if Nat.eqb k i then [snd me] else []
                      | None => []
                      end) evs.
