(** Model of barter-instrument/src/index/{builder,mod}.rs (IndexedInstrumentsBuilder::
    {add_instrument, build}, IndexedInstruments::find_xxx), Instrument::map_asset_key_with_lookup,
    and of the engine tables derived from an IndexedInstruments:
    barter/src/engine/state/{instrument,asset,connectivity}/mod.rs generate_xxx and
    barter/src/execution/builder.rs ExecutionBuilder::build (transmitter map).

    Conventions.  Names (ExchangeId, AssetNameInternal, AssetNameExchange,
    InstrumentNameInternal, InstrumentNameExchange) are natural numbers: the rank of the value,
    under Rust's own [Ord], among the values of that type occurring in the case (computed by the
    harness).  Only equality and order of names matter to the code modelled here.
    An ExchangeAsset<Asset> is the triple (exchange, (name_internal, name_exchange)); its derived
    [Ord] is the lexicographic order of the fields.  A whole Instrument<ExchangeId, Asset> is
    ordered by the abstract key [d_rank] (its rank under Rust's derived [Ord]; derived [PartialEq]
    agrees with derived [Ord], so [Vec::dedup] removes exactly adjacent equal keys).
    [Vec::sort] is a stable sort; [Vec::dedup] keeps the first element of every run.
    IndexMap (FromIterator): inserting an existing key replaces the value in place.
    Definitions only: this file still runs when a proof breaks. *)
From BV Require Import Base.Common.

Notation asset := (N * N)%type (only parsing).          (* (name_internal, name_exchange) *)
Notation akey  := (N * (N * N))%type (only parsing).    (* (exchange, asset) *)

(* ------------------------------------------------------------------------------------------ *)
(** * sort, dedup over an ordered key *)

Section SortDedup.
  Context {A K : Type}.
  Variable key : A -> K.
  Variable kltb keqb : K -> K -> bool.

  (** stable insertion: [x] (which precedes every element of [l] in the input) goes in front of
      the first element that is not strictly smaller *)
  Fixpoint insert (x : A) (l : list A) : list A :=
    match l with
    | [] => [x]
    | y :: t => if kltb (key y) (key x) then y :: insert x t else x :: l
    end.
  Definition sort (l : list A) : list A := fold_right insert [] l.

  (** [Vec::dedup]: every element is compared with the last element retained *)
  Fixpoint dedup_from (prev : A) (l : list A) : list A :=
    match l with
    | [] => []
    | y :: t => if keqb (key prev) (key y) then dedup_from prev t else y :: dedup_from y t
    end.
  Definition dedup (l : list A) : list A :=
    match l with [] => [] | x :: t => x :: dedup_from x t end.

  Definition sort_dedup (l : list A) : list A := dedup (sort l).
End SortDedup.

(** lexicographic order of a pair (derived [Ord] of a two-field struct) *)
Definition pair_ltb {A B} (lta eqa : A -> A -> bool) (ltb : B -> B -> bool) (x y : A * B) : bool :=
  lta (fst x) (fst y) || (eqa (fst x) (fst y) && ltb (snd x) (snd y)).

Definition asset_ltb : asset -> asset -> bool := pair_ltb N.ltb N.eqb N.ltb.
Definition asset_eqb : asset -> asset -> bool := pair_eqb N.eqb N.eqb.
Definition akey_ltb : akey -> akey -> bool := pair_ltb N.ltb N.eqb asset_ltb.
Definition akey_eqb : akey -> akey -> bool := pair_eqb N.eqb asset_eqb.

(** [iter().enumerate()] starting at [n] *)
Fixpoint enum_from {A} (n : N) (l : list A) : list (N * A) :=
  match l with [] => [] | x :: t => (n, x) :: enum_from (N.succ n) t end.

(** IndexMap::insert / FromIterator *)
Fixpoint im_insert {K V} (keqb : K -> K -> bool) (k : K) (v : V) (m : list (K * V)) : list (K * V) :=
  match m with
  | [] => [(k, v)]
  | (k', v') :: t => if keqb k' k then (k', v) :: t else (k', v') :: im_insert keqb k v t
  end.
Definition im_collect {K V} (keqb : K -> K -> bool) (l : list (K * V)) : list (K * V) :=
  fold_left (fun m kv => im_insert keqb (fst kv) (snd kv) m) l [].

(** all-or-nothing traversal ([collect::<Result<Vec<_>,_>>] / a panic inside [map]) *)
Fixpoint map_opt {A B} (f : A -> option B) (l : list A) : option (list B) :=
  match l with
  | [] => Some []
  | x :: t => match f x with
              | None => None
              | Some y => match map_opt f t with None => None | Some ys => Some (y :: ys) end
              end
  end.

(* ------------------------------------------------------------------------------------------ *)
(** * instruments *)

Inductive kind (AK : Type) :=
| KSpot | KPerpetual (settlement : AK) | KFuture (settlement : AK) | KOption (settlement : AK).
Arguments KSpot {AK}. Arguments KPerpetual {AK}. Arguments KFuture {AK}. Arguments KOption {AK}.

(** [spec.quantity.unit] *)
Inductive qunit (AK : Type) := UAsset (a : AK) | UContract | UQuote.
Arguments UAsset {AK}. Arguments UContract {AK}. Arguments UQuote {AK}.

(** [Instrument<ExchangeKey, AssetKey>]. [i_tail] identifies everything that carries no key
    (InstrumentQuoteAsset, contract size, expiry, option kind / exercise / strike, the numbers of
    the spec): it is copied unchanged by every function modelled here. *)
Record instr (EK AK : Type) := mkInstr {
  i_ex : EK; i_ni : N; i_ne : N; i_base : AK; i_quote : AK;
  i_kind : kind AK; i_spec : option (qunit AK); i_tail : N }.
Arguments mkInstr {EK AK}. Arguments i_ex {EK AK}. Arguments i_ni {EK AK}. Arguments i_ne {EK AK}.
Arguments i_base {EK AK}. Arguments i_quote {EK AK}. Arguments i_kind {EK AK}.
Arguments i_spec {EK AK}. Arguments i_tail {EK AK}.

(** an instrument definition handed to the builder, with its [Ord] key *)
Record def := mkDef { d_rank : N; d_ins : instr N asset }.

Definition settlement_asset {AK} (k : kind AK) : option AK :=
  match k with KSpot => None | KPerpetual s | KFuture s | KOption s => Some s end.

Record builder := mkBuilder {
  b_exchanges : list N; b_instruments : list def; b_assets : list akey }.
Definition empty_builder : builder := mkBuilder [] [] [].

(** the ExchangeAssets pushed by [add_instrument], in push order *)
Definition assets_of (d : def) : list akey :=
  let i := d_ins d in
  [(i_ex i, i_base i); (i_ex i, i_quote i)]
  ++ (match settlement_asset (i_kind i) with Some s => [(i_ex i, s)] | None => [] end)
  ++ (match i_spec i with Some (UAsset a) => [(i_ex i, a)] | _ => [] end).

Definition add_instrument (b : builder) (d : def) : builder :=
  mkBuilder (b_exchanges b ++ [i_ex (d_ins d)])
            (b_instruments b ++ [d])
            (b_assets b ++ assets_of d).

(** [IndexedInstruments]: every entry is (key, value) *)
Record indexed := mkIndexed {
  x_exchanges   : list (N * N);
  x_assets      : list (N * akey);
  x_instruments : list (N * instr (N * N) N) }.

Definition find_key {V} (p : V -> bool) (l : list (N * V)) : option N :=
  option_map fst (find (fun kv => p (snd kv)) l).
Definition find_value {V} (k : N) (l : list (N * V)) : option V :=
  option_map snd (find (fun kv => N.eqb (fst kv) k) l).

(** index/mod.rs lookups *)
Definition find_exchange_index (exs : list (N * N)) (e : N) : option N :=
  find_key (fun v => N.eqb v e) exs.
Definition find_exchange (exs : list (N * N)) (k : N) : option N := find_value k exs.
Definition find_asset_index (ass : list (N * akey)) (e ni : N) : option N :=
  find_key (fun v : akey => N.eqb (fst v) e && N.eqb (fst (snd v)) ni) ass.
Definition find_asset (ass : list (N * akey)) (k : N) : option akey := find_value k ass.
Definition find_instrument_index (ins : list (N * instr (N * N) N)) (e ni : N) : option N :=
  find_key (fun v : instr (N * N) N => N.eqb (snd (i_ex v)) e && N.eqb (i_ni v) ni) ins.
Definition find_instrument (ins : list (N * instr (N * N) N)) (k : N) : option (instr (N * N) N) :=
  find_value k ins.

(** [Instrument::map_asset_key_with_lookup] (the first failing lookup aborts) *)
Definition map_kind {AK BK} (f : AK -> option BK) (k : kind AK) : option (kind BK) :=
  match k with
  | KSpot => Some KSpot
  | KPerpetual s => option_map KPerpetual (f s)
  | KFuture s => option_map KFuture (f s)
  | KOption s => option_map KOption (f s)
  end.
Definition map_spec {AK BK} (f : AK -> option BK) (s : option (qunit AK)) : option (option (qunit BK)) :=
  match s with
  | None => Some None
  | Some (UAsset a) => option_map (fun b => Some (UAsset b)) (f a)
  | Some UContract => Some (Some UContract)
  | Some UQuote => Some (Some UQuote)
  end.
Definition map_asset_key {EK AK BK} (f : AK -> option BK) (i : instr EK AK) : option (instr EK BK) :=
  match f (i_base i) with None => None | Some b =>
  match f (i_quote i) with None => None | Some q =>
  match map_kind f (i_kind i) with None => None | Some k =>
  match map_spec f (i_spec i) with None => None | Some s =>
    Some (mkInstr (i_ex i) (i_ni i) (i_ne i) b q k s (i_tail i))
  end end end end.
Definition map_exchange_key {EK EK' AK} (e : EK') (i : instr EK AK) : instr EK' AK :=
  mkInstr e (i_ni i) (i_ne i) (i_base i) (i_quote i) (i_kind i) (i_spec i) (i_tail i).

(** the closure of [build] applied to one sorted instrument; [None] = one of the two [expect]s
    panics *)
Definition remap (exs : list (N * N)) (ass : list (N * akey)) (i : instr N asset)
  : option (instr (N * N) N) :=
  match find_exchange_index exs (i_ex i) with
  | None => None
  | Some ek =>
      map_asset_key (fun a : asset => find_asset_index ass (i_ex i) (fst a))
                    (map_exchange_key (ek, i_ex i) i)
  end.

Definition sd_exchanges (l : list N) : list N := sort_dedup (fun x => x) N.ltb N.eqb l.
Definition sd_assets (l : list akey) : list akey := sort_dedup (fun x => x) akey_ltb akey_eqb l.
Definition sd_instruments (l : list def) : list def := sort_dedup d_rank N.ltb N.eqb l.

(** [IndexedInstrumentsBuilder::build]; [None] = panic *)
Definition build_from (b : builder) : option indexed :=
  let exs := enum_from 0 (sd_exchanges (b_exchanges b)) in
  let ass := enum_from 0 (sd_assets (b_assets b)) in
  match map_opt (fun kd : N * def =>
                   option_map (fun i => (fst kd, i)) (remap exs ass (d_ins (snd kd))))
                (enum_from 0 (sd_instruments (b_instruments b))) with
  | Some ins => Some (mkIndexed exs ass ins)
  | None => None
  end.

(** [IndexedInstruments::new] *)
Definition build (l : list def) : option indexed :=
  build_from (fold_left add_instrument l empty_builder).

(* ------------------------------------------------------------------------------------------ *)
(** * tables derived from an IndexedInstruments *)

(** [generate_indexed_instrument_states]: IndexMap keyed by name_internal; the state carries the
    instrument key and the instrument with its exchange mapped to the exchange index *)
Definition instrument_states (x : indexed) : list (N * (N * instr N N)) :=
  im_collect N.eqb
    (map (fun kv : N * instr (N * N) N =>
            (i_ni (snd kv), (fst kv, map_exchange_key (fst (i_ex (snd kv))) (snd kv))))
         (x_instruments x)).

(** [generate_empty_indexed_asset_states]: IndexMap keyed by (exchange, name_internal); the state
    carries the Asset *)
Definition asset_state_key_eqb : N * N -> N * N -> bool := pair_eqb N.eqb N.eqb.
Definition asset_states (x : indexed) : list ((N * N) * asset) :=
  im_collect asset_state_key_eqb
    (map (fun kv : N * akey => ((fst (snd kv), fst (snd (snd kv))), snd (snd kv))) (x_assets x)).

(** [generate_empty_indexed_connectivity_states]: IndexMap keyed by ExchangeId (value: default) *)
Definition connectivity_states (x : indexed) : list (N * unit) :=
  im_collect N.eqb (map (fun kv : N * N => (snd kv, tt)) (x_exchanges x)).

(** [ExecutionBuilder::build]: one entry per indexed exchange, [true] = a transmitter was added
    for that ExchangeId ([added] = the exchanges for which add_mock / add_live succeeded) *)
Definition tx_map (x : indexed) (added : list N) : list (N * bool) :=
  im_collect N.eqb
    (map (fun kv : N * N => (snd kv, existsb (N.eqb (snd kv)) added)) (x_exchanges x)).

(* ------------------------------------------------------------------------------------------ *)
(** * specification side *)

(** index = position *)
Definition dense {V} (l : list (N * V)) : Prop :=
  forall i kv, nth_error l i = Some kv -> fst kv = N.of_nat i.

(** the instrument definitions in index order *)
Definition sources (l : list def) : list def := sd_instruments l.
Definition collect_exchanges (l : list def) : list N := map (fun d => i_ex (d_ins d)) l.
Definition collect_assets (l : list def) : list akey := flat_map assets_of l.

(** dereference the keys of an indexed instrument through the tables *)
Definition resolve (x : indexed) (i : instr (N * N) N) : option (instr N asset) :=
  match find_exchange (x_exchanges x) (fst (i_ex i)) with
  | None => None
  | Some e =>
      if negb (N.eqb e (snd (i_ex i))) then None else
      map_asset_key (fun k => match find_asset (x_assets x) k with
                              | Some (e', a) => if N.eqb e' e then Some a else None
                              | None => None
                              end)
                    (map_exchange_key e i)
  end.

(** hypotheses of the property (well-formed collections) *)
(** the abstract key is faithful: equal rank = equal definition *)
Definition faithful (l : list def) : Prop :=
  forall d d', In d l -> In d' l -> d_rank d = d_rank d' -> d = d'.
(** within one exchange an internal asset name has one exchange name *)
Definition assets_wf (l : list def) : Prop :=
  forall a a', In a (collect_assets l) -> In a' (collect_assets l) ->
    fst a = fst a' -> fst (snd a) = fst (snd a') -> a = a'.
(** distinct instruments of one exchange have distinct internal names *)
Definition inames_ex_wf (l : list def) : Prop :=
  forall d d', In d l -> In d' l -> i_ex (d_ins d) = i_ex (d_ins d') ->
    i_ni (d_ins d) = i_ni (d_ins d') -> d_rank d = d_rank d'.
(** distinct instruments have distinct internal names *)
Definition inames_wf (l : list def) : Prop :=
  forall d d', In d l -> In d' l -> i_ni (d_ins d) = i_ni (d_ins d') -> d_rank d = d_rank d'.

(* ------------------------------------------------------------------------------------------ *)
(** * boolean equalities and hypothesis checks (used by Corr) *)

Definition kind_eqb {AK} (eq : AK -> AK -> bool) (a b : kind AK) : bool :=
  match a, b with
  | KSpot, KSpot => true
  | KPerpetual s, KPerpetual t | KFuture s, KFuture t | KOption s, KOption t => eq s t
  | _, _ => false
  end.
Definition qunit_eqb {AK} (eq : AK -> AK -> bool) (a b : qunit AK) : bool :=
  match a, b with
  | UAsset s, UAsset t => eq s t
  | UContract, UContract | UQuote, UQuote => true
  | _, _ => false
  end.
Definition instr_eqb {EK AK} (eqe : EK -> EK -> bool) (eqa : AK -> AK -> bool) (a b : instr EK AK) : bool :=
  eqe (i_ex a) (i_ex b) && N.eqb (i_ni a) (i_ni b) && N.eqb (i_ne a) (i_ne b) &&
  eqa (i_base a) (i_base b) && eqa (i_quote a) (i_quote b) &&
  kind_eqb eqa (i_kind a) (i_kind b) && option_eqb (qunit_eqb eqa) (i_spec a) (i_spec b) &&
  N.eqb (i_tail a) (i_tail b).
Definition def_eqb (a b : def) : bool :=
  N.eqb (d_rank a) (d_rank b) && instr_eqb N.eqb asset_eqb (d_ins a) (d_ins b).

Definition forall2b {A} (p : A -> A -> bool) (l : list A) : bool :=
  forallb (fun a => forallb (fun b => p a b) l) l.
Definition faithful_b (l : list def) : bool :=
  forall2b (fun d d' => implb (N.eqb (d_rank d) (d_rank d')) (def_eqb d d')) l.
Definition assets_wf_b (l : list def) : bool :=
  forall2b (fun a a' : akey => implb (N.eqb (fst a) (fst a') && N.eqb (fst (snd a)) (fst (snd a')))
                                     (akey_eqb a a')) (collect_assets l).
Definition inames_wf_b (l : list def) : bool :=
  forall2b (fun d d' => implb (N.eqb (i_ni (d_ins d)) (i_ni (d_ins d')))
                              (N.eqb (d_rank d) (d_rank d'))) l.
Definition inames_ex_wf_b (l : list def) : bool :=
  forall2b (fun d d' => implb (N.eqb (i_ex (d_ins d)) (i_ex (d_ins d')) &&
                               N.eqb (i_ni (d_ins d)) (i_ni (d_ins d')))
                              (N.eqb (d_rank d) (d_rank d'))) l.
