(** Model of barter/src/statistic/summary/{pnl,instrument,mod,asset}.rs,
    barter/src/statistic/metric/{win_rate,profit_factor}.rs and
    engine/state/position.rs::calculate_pnl_return, in exact rational arithmetic ([Qc]).
    Definitions only.

    Left out on purpose: the drawdown generators of the tear sheets (property C18 covers them),
    the ratio metrics (Sharpe, Sortino, Calmar, rate of return) and [checked_div] overflow
    ([None] on overflow is not reachable with the magnitudes the harness generates). *)
From Coq Require Export String.
From BV Require Export Model.Stats.
Local Open Scope Qc_scope.

(** A closed position as far as the statistics read it. *)
Record pos := mkPos {
  p_pnl : Qc;        (* pnl_realised *)
  p_price : Qc;      (* price_entry_average *)
  p_qty : Qc;        (* quantity_abs_max *)
  p_time : Z }.      (* time_exit, ms *)

(** [calculate_pnl_return]: pnl_realised / (price_entry_average * quantity_abs_max).
    Rust panics when the divisor is zero; [pos_ok] is the input requirement. *)
Definition pnl_return (p : pos) : Qc := p_pnl p / (p_price p * p_qty p).
Definition Qceqb (a b : Qc) : bool := Qeq_bool a b.
Definition pos_ok (p : pos) : bool := negb (Qceqb (p_price p * p_qty p) 0).

(** [Decimal::is_sign_negative] on a quotient: a zero quotient never carries a sign *)
Definition is_neg (r : Qc) : bool := Qcltb r 0.
Definition qabs (x : Qc) : Qc := if Qcltb x 0 then - x else x.

(* ---- PnLReturns ------------------------------------------------------------------------------ *)

Record pnl_returns := mkPR { pr_raw : Qc; pr_total : ds; pr_losses : ds }.
Definition pr_default : pnl_returns := mkPR 0 ds_default ds_default.

(** [PnLReturns::update], given the position's realised PnL and its return [r] *)
Definition pr_update_r (s : pnl_returns) (pnl r : Qc) : pnl_returns :=
  mkPR (pr_raw s + pnl)
       (ds_update (pr_total s) r)
       (if is_neg r then ds_update (pr_losses s) r else pr_losses s).

Definition pr_update (s : pnl_returns) (p : pos) : pnl_returns :=
  pr_update_r s (p_pnl p) (pnl_return p).

(* ---- metrics ---------------------------------------------------------------------------------- *)

(** [WinRate::calculate(wins, total)] *)
Definition win_rate_calc (wins total : Qc) : option Qc :=
  if Qceqb total 0 then None else Some (qabs wins / qabs total).

(** [Decimal::MAX] / [Decimal::MIN] are distinguished constructors *)
Inductive pf_value := PFMax | PFMin | PFVal (q : Qc).

(** [ProfitFactor::calculate(profits_gross_abs, losses_gross_abs)] *)
Definition profit_factor_calc (profits losses : Qc) : option pf_value :=
  if Qceqb profits 0 && Qceqb losses 0 then None
  else Some (if Qceqb losses 0 then PFMax
             else if Qceqb profits 0 then PFMin
             else PFVal (qabs profits / qabs losses)).

(* ---- TearSheetGenerator (drawdown fields left to C18) --------------------------------------------- *)

Record tsg := mkTsg { g_start : Z; g_now : Z; g_pr : pnl_returns }.

Definition tsg_init (t : Z) : tsg := mkTsg t t pr_default.

(** [TearSheetGenerator::update_from_position] *)
Definition tsg_update (g : tsg) (p : pos) : tsg :=
  mkTsg (g_start g) (p_time p) (pr_update (g_pr g) p).

Record sheet := mkSheet { sh_pnl : Qc; sh_win_rate : option Qc; sh_profit_factor : option pf_value }.

(** [TearSheetGenerator::generate]: pnl, and the arguments it passes to WinRate / ProfitFactor *)
Definition tsg_generate (g : tsg) : sheet :=
  let pr := g_pr g in
  mkSheet (pr_raw pr)
          (win_rate_calc (s_count (pr_total pr) - s_count (pr_losses pr)) (s_count (pr_total pr)))
          (profit_factor_calc (s_sum (pr_total pr) - s_sum (pr_losses pr)) (s_sum (pr_losses pr))).

Definition tsg_run (ps : list pos) (g : tsg) : tsg := fold_left tsg_update ps g.

(** persist/restore steps in a history of a generator ([None]) are no-ops of the model *)
Definition tsg_step (g : tsg) (o : option pos) : tsg :=
  match o with Some p => tsg_update g p | None => g end.
Definition some_of {A} (l : list (option A)) : list A :=
  flat_map (fun o => match o with Some x => [x] | None => [] end) l.

(* ---- TradingSummaryGenerator ----------------------------------------------------------------------- *)

(** An [IndexMap]: association list in insertion order; a key is found by name (first match) or
    by position. *)
Notation imap V := (list (string * V)).

Fixpoint imap_insert {V} (m : imap V) (k : string) (v : V) : imap V :=
  match m with
  | [] => [(k, v)]
  | (k', v') :: t => if String.eqb k' k then (k', v) :: t else (k', v') :: imap_insert t k v
  end.

(** [FromIterator]: insert one by one *)
Definition imap_collect {V} (l : list (string * V)) : imap V :=
  fold_left (fun m kv => imap_insert m (fst kv) (snd kv)) l [].

Fixpoint imap_update_idx {V} (m : imap V) (i : nat) (f : V -> V) : option (imap V) :=
  match m, i with
  | [], _ => None
  | (k, v) :: t, O => Some ((k, f v) :: t)
  | kv :: t, S i' => option_map (cons kv) (imap_update_idx t i' f)
  end.

Fixpoint imap_update_key {V} (m : imap V) (key : string) (f : V -> V) : option (imap V) :=
  match m with
  | [] => None
  | (k, v) :: t => if String.eqb k key then Some ((k, f v) :: t)
                   else option_map (cons (k, v)) (imap_update_key t key f)
  end.

(** the part of [TearSheetAssetGenerator] outside the drawdowns: balance_now = (total, free) *)
Notation agen := (option (Qc * Qc)).

Record sgen := mkSgen {
  sg_start : Z; sg_now : Z;
  sg_insts : imap tsg;
  sg_assets : imap agen }.

(** [TradingSummaryGenerator::init] from the engine's instrument / asset states *)
Definition sgen_init (start now : Z) (insts : list (string * tsg)) (assets : list (string * agen)) : sgen :=
  mkSgen start now (imap_collect insts) (imap_collect assets).

Inductive sop :=
| SPosIdx (i : nat) (p : pos)              (* update_from_position, InstrumentIndex key *)
| SPosName (k : string) (p : pos)          (* update_from_position, InstrumentNameInternal key *)
| SBalIdx (i : nat) (total free : Qc) (t : Z)    (* update_from_balance, AssetIndex key *)
| SBalKey (k : string) (total free : Qc) (t : Z) (* update_from_balance, ExchangeAsset key *)
| STime (t : Z).                           (* update_time_now *)

Definition bump (now t : Z) : Z := if Z.ltb now t then t else now.

(** one update of the generator; [None] = the key lookup panics *)
Definition sgen_step (s : sgen) (o : sop) : option sgen :=
  match o with
  | SPosIdx i p =>
      option_map (fun m => mkSgen (sg_start s) (bump (sg_now s) (p_time p)) m (sg_assets s))
                 (imap_update_idx (sg_insts s) i (fun g => tsg_update g p))
  | SPosName k p =>
      option_map (fun m => mkSgen (sg_start s) (bump (sg_now s) (p_time p)) m (sg_assets s))
                 (imap_update_key (sg_insts s) k (fun g => tsg_update g p))
  | SBalIdx i total free t =>
      option_map (fun m => mkSgen (sg_start s) (bump (sg_now s) t) (sg_insts s) m)
                 (imap_update_idx (sg_assets s) i (fun _ => Some (total, free)))
  | SBalKey k total free t =>
      option_map (fun m => mkSgen (sg_start s) (bump (sg_now s) t) (sg_insts s) m)
                 (imap_update_key (sg_assets s) k (fun _ => Some (total, free)))
  | STime t => Some (mkSgen (sg_start s) t (sg_insts s) (sg_assets s))
  end.

Fixpoint sgen_run (ops : list sop) (s : sgen) : option sgen :=
  match ops with
  | [] => Some s
  | o :: t => match sgen_step s o with Some s' => sgen_run t s' | None => None end
  end.

Record summary := mkSummary {
  su_start : Z; su_end : Z;
  su_insts : list (string * sheet);
  su_assets : list (string * agen) }.

(** the same for the summary generator: [None] = persist/restore of every component *)
Fixpoint sgen_run_p (ops : list (option sop)) (s : sgen) : option sgen :=
  match ops with
  | [] => Some s
  | None :: t => sgen_run_p t s
  | Some o :: t => match sgen_step s o with Some s' => sgen_run_p t s' | None => None end
  end.

(** [TradingSummaryGenerator::generate] *)
Definition sgen_generate (s : sgen) : summary :=
  mkSummary (sg_start s) (sg_now s)
            (map (fun kg => (fst kg, tsg_generate (snd kg))) (sg_insts s))
            (sg_assets s).

(* ---- the specification: quantities of the whole history at once ----------------------------------------- *)

Definition returns (ps : list pos) : list Qc := map pnl_return ps.
Definition nonneg (r : Qc) : bool := negb (is_neg r).

(** fraction of closed positions whose return is not negative *)
Definition spec_win_rate (ps : list pos) : option Qc :=
  match ps with
  | [] => None
  | _ => Some (nQc (length (filter nonneg (returns ps))) / nQc (length ps))
  end.

(** gross winning returns / |gross losing returns| with the documented conventions *)
Definition spec_profit_factor (ps : list pos) : option pf_value :=
  let wins := sumQc (filter nonneg (returns ps)) in
  let losses := sumQc (filter is_neg (returns ps)) in
  if Qceqb wins 0 && Qceqb losses 0 then None          (* no positions / nothing won or lost *)
  else if Qceqb losses 0 then Some PFMax               (* no losses *)
  else if Qceqb wins 0 then Some PFMin                 (* no wins *)
  else Some (PFVal (wins / - losses)).

Definition spec_pnl (ps : list pos) : Qc := sumQc (map p_pnl ps).

(** the positions a list of generator updates addresses to instrument number [i] named [name] *)
Fixpoint ops_of (i : nat) (name : string) (ops : list sop) : list pos :=
  match ops with
  | [] => []
  | SPosIdx j p :: t => if Nat.eqb j i then p :: ops_of i name t else ops_of i name t
  | SPosName k p :: t => if String.eqb k name then p :: ops_of i name t else ops_of i name t
  | _ :: t => ops_of i name t
  end.
