(** Model of barter-execution/src/map.rs (ExecutionInstrumentMap, generate_execution_instrument_map,
    the find_xxx lookups as repaired by commit 8fd6a37) and barter-execution/src/indexer.rs
    (AccountEventIndexer: order_request outbound; account_event, snapshot, asset_balance,
    order_snapshot, order_response_cancel, order_key, api_error, order_error, trade inbound),
    over the IndexedInstruments model of Model/Index.v.

    Names are natural numbers (ranks, see Model/Index.v).  A FnvHashMap<Name, Index> is an
    association list holding one entry per key (inserting an existing key overwrites its value);
    its iteration order is never observed: the only iteration, [find_map] on the value, meets at
    most one entry because the values are pairwise distinct indices.  IndexMap / IndexSet keep
    first-insertion positions.  Everything in an event that carries no key (client order id,
    strategy, side, price, quantity, balances, times, trade ids) is an opaque tag copied through.
    Definitions only. *)
From BV Require Import Base.Common Model.Index.

(** IndexSet::from_iter *)
Fixpoint is_insert (k : N) (s : list N) : list N :=
  match s with
  | [] => [k]
  | k' :: t => if N.eqb k' k then s else k' :: is_insert k t
  end.
Definition is_collect (l : list N) : list N := fold_left (fun s k => is_insert k s) l [].

Record emap := mkEmap {
  m_exchange : N * N;                  (* Keyed<ExchangeIndex, ExchangeId> *)
  m_assets : list N;                   (* IndexSet<AssetNameExchange> *)
  m_instruments : list N;              (* IndexSet<InstrumentNameExchange> *)
  m_asset_names : list (N * N);        (* FnvHashMap<AssetNameExchange, AssetIndex> *)
  m_instrument_names : list (N * N) }. (* FnvHashMap<InstrumentNameExchange, InstrumentIndex> *)

Definition swap_pair (kv : N * N) : N * N := (snd kv, fst kv).

(** ExecutionInstrumentMap::new : the arguments are IndexMap<Index, Name> *)
Definition emap_new (ex : N * N) (assets instruments : list (N * N)) : emap :=
  mkEmap ex
         (is_collect (map snd assets)) (is_collect (map snd instruments))
         (im_collect N.eqb (map swap_pair assets)) (im_collect N.eqb (map swap_pair instruments)).

Definition filter_assets (x : indexed) (e : N) : list (N * N) :=
  flat_map (fun kv : N * akey =>
              if N.eqb (fst (snd kv)) e then [(fst kv, snd (snd (snd kv)))] else []) (x_assets x).
Definition filter_instruments (x : indexed) (e : N) : list (N * N) :=
  flat_map (fun kv : N * instr (N * N) N =>
              if N.eqb (snd (i_ex (snd kv))) e then [(fst kv, i_ne (snd kv))] else []) (x_instruments x).

(** generate_execution_instrument_map; None = Err(IndexError::ExchangeIndex) *)
Definition gen_map (x : indexed) (e : N) : option emap :=
  match find_exchange_index (x_exchanges x) e with
  | None => None
  | Some ek =>
      Some (emap_new (ek, e) (im_collect N.eqb (filter_assets x e))
                             (im_collect N.eqb (filter_instruments x e)))
  end.

(** lookups *)
Definition find_exchange_id (m : emap) (k : N) : option N :=
  if N.eqb (fst (m_exchange m)) k then Some (snd (m_exchange m)) else None.
Definition find_exchange_ix (m : emap) (e : N) : option N :=
  if N.eqb (snd (m_exchange m)) e then Some (fst (m_exchange m)) else None.
Definition name_of_index (names : list (N * N)) (k : N) : option N :=
  option_map fst (find (fun nv => N.eqb (snd nv) k) names).
Definition index_of_name (names : list (N * N)) (n : N) : option N :=
  option_map snd (find (fun nv => N.eqb (fst nv) n) names).
Definition find_asset_name (m : emap) (k : N) : option N := name_of_index (m_asset_names m) k.
Definition find_asset_ix (m : emap) (n : N) : option N := index_of_name (m_asset_names m) n.
Definition find_instrument_name (m : emap) (k : N) : option N := name_of_index (m_instrument_names m) k.
Definition find_instrument_ix (m : emap) (n : N) : option N := index_of_name (m_instrument_names m) n.

(** the lookups as they were before commit 8fd6a37: the global index used as a position in the
    per-exchange IndexSet (kept to state what the fix changed; not used by the model) *)
Definition find_asset_name_prefix (m : emap) (k : N) : option N := nth_error (m_assets m) (N.to_nat k).
Definition find_instrument_name_prefix (m : emap) (k : N) : option N :=
  nth_error (m_instruments m) (N.to_nat k).

(* ------------------------------------------------------------------------------------------ *)
(** * the indexer *)

Inductive res (E A : Type) := Ok (a : A) | Err (e : E).
Arguments Ok {E A}. Arguments Err {E A}.
Definition bind {E A B} (r : res E A) (f : A -> res E B) : res E B :=
  match r with Ok a => f a | Err e => Err e end.
Definition rmap {E A B} (f : A -> B) (r : res E A) : res E B :=
  match r with Ok a => Ok (f a) | Err e => Err e end.
(** [iter().map(f).collect::<Result<Vec<_>,_>>()] : stops at the first error *)
Fixpoint traverse {E A B} (f : A -> res E B) (l : list A) : res E (list B) :=
  match l with
  | [] => Ok []
  | x :: t => bind (f x) (fun y => rmap (cons y) (traverse f t))
  end.

Inductive kerr := KExchangeId | KAssetKey | KInstrumentKey.        (* KeyError variants *)
Inductive ierr := IExchangeIndex | IAssetIndex | IInstrumentIndex.  (* IndexError variants *)

Definition of_opt {E A} (e : E) (o : option A) : res E A :=
  match o with Some a => Ok a | None => Err e end.

(** order_request: (ExchangeIndex, InstrumentIndex, payload) -> (ExchangeId, name, payload) *)
Definition order_request (m : emap) (rq : N * N * N) : res kerr (N * N * N) :=
  let '(ek, ik, tag) := rq in
  bind (of_opt KExchangeId (find_exchange_id m ek)) (fun e =>
  bind (of_opt KInstrumentKey (find_instrument_name m ik)) (fun n => Ok (e, n, tag))).

Inductive api_error (AK IK : Type) :=
| AERateLimit | AEAssetInvalid (a : AK) | AEInstrumentInvalid (i : IK)
| AEBalanceInsufficient (a : AK)
| AEOther (tag : N).   (* OrderRejected / OrderAlreadyCancelled / OrderAlreadyFullyFilled *)
Arguments AERateLimit {AK IK}. Arguments AEAssetInvalid {AK IK}. Arguments AEInstrumentInvalid {AK IK}.
Arguments AEBalanceInsufficient {AK IK}. Arguments AEOther {AK IK}.

Inductive order_error (AK IK : Type) := OEConnectivity | OERejected (e : api_error AK IK).
Arguments OEConnectivity {AK IK}. Arguments OERejected {AK IK}.

Inductive order_state (AK IK : Type) :=
| OSActive | OSOpenFailed (e : order_error AK IK) | OSCancelled | OSFullyFilled | OSExpired.
Arguments OSActive {AK IK}. Arguments OSOpenFailed {AK IK}. Arguments OSCancelled {AK IK}.
Arguments OSFullyFilled {AK IK}. Arguments OSExpired {AK IK}.

(** OrderKey: exchange, instrument, (strategy, cid) as a tag *)
Notation okey EK IK := (EK * IK * N)%type (only parsing).
(** Order snapshot: key, state (side / price / quantity / kind / tif ride in the key tag) *)
Notation osnap EK AK IK := ((EK * IK * N) * order_state AK IK)%type (only parsing).

Inductive event_kind (EK AK IK : Type) :=
| EKSnapshot (ex : EK) (balances : list (AK * N))
             (instruments : list (IK * list ((EK * IK * N) * order_state AK IK)))
| EKBalance (b : AK * N)
| EKOrder (o : (EK * IK * N) * order_state AK IK)
| EKCancelled (k : EK * IK * N) (st : option (order_error AK IK))   (* None = Ok(Cancelled) *)
| EKTrade (t : IK * N).
Arguments EKSnapshot {EK AK IK}. Arguments EKBalance {EK AK IK}. Arguments EKOrder {EK AK IK}.
Arguments EKCancelled {EK AK IK}. Arguments EKTrade {EK AK IK}.

(** AccountEvent<ExchangeKey, AssetKey, InstrumentKey> *)
Notation event EK AK IK := (EK * event_kind EK AK IK)%type (only parsing).

Section Translate.
  Context {E EK AK IK EK' AK' IK' : Type}.
  Variable fe : EK -> res E EK'.
  Variable fa : AK -> res E AK'.
  Variable fi : IK -> res E IK'.

  Definition tr_api_error (e : api_error AK IK) : res E (api_error AK' IK') :=
    match e with
    | AERateLimit => Ok AERateLimit
    | AEAssetInvalid a => rmap AEAssetInvalid (fa a)
    | AEInstrumentInvalid i => rmap AEInstrumentInvalid (fi i)
    | AEBalanceInsufficient a => rmap AEBalanceInsufficient (fa a)
    | AEOther t => Ok (AEOther t)
    end.
  Definition tr_order_error (e : order_error AK IK) : res E (order_error AK' IK') :=
    match e with
    | OEConnectivity => Ok OEConnectivity
    | OERejected a => rmap OERejected (tr_api_error a)
    end.
  (** order_key: exchange first, then instrument *)
  Definition tr_order_key (k : EK * IK * N) : res E (EK' * IK' * N) :=
    let '(e, i, tag) := k in
    bind (fe e) (fun e' => bind (fi i) (fun i' => Ok (e', i', tag))).
  (** order_snapshot: key first, then the state *)
  Definition tr_order_state (s : order_state AK IK) : res E (order_state AK' IK') :=
    match s with
    | OSActive => Ok OSActive
    | OSOpenFailed e => rmap OSOpenFailed (tr_order_error e)
    | OSCancelled => Ok OSCancelled
    | OSFullyFilled => Ok OSFullyFilled
    | OSExpired => Ok OSExpired
    end.
  Definition tr_order_snapshot (o : (EK * IK * N) * order_state AK IK)
    : res E ((EK' * IK' * N) * order_state AK' IK') :=
    bind (tr_order_key (fst o)) (fun k => bind (tr_order_state (snd o)) (fun s => Ok (k, s))).
  Definition tr_balance (b : AK * N) : res E (AK' * N) :=
    bind (fa (fst b)) (fun a => Ok (a, snd b)).
  Definition tr_instrument_snapshot (s : IK * list ((EK * IK * N) * order_state AK IK))
    : res E (IK' * list ((EK' * IK' * N) * order_state AK' IK')) :=
    bind (fi (fst s)) (fun i => bind (traverse tr_order_snapshot (snd s)) (fun os => Ok (i, os))).
  Definition tr_kind (k : event_kind EK AK IK) : res E (event_kind EK' AK' IK') :=
    match k with
    | EKSnapshot ex bs ins =>
        bind (fe ex) (fun ex' =>
        bind (traverse tr_balance bs) (fun bs' =>
        bind (traverse tr_instrument_snapshot ins) (fun ins' => Ok (EKSnapshot ex' bs' ins'))))
    | EKBalance b => rmap EKBalance (tr_balance b)
    | EKOrder o => rmap EKOrder (tr_order_snapshot o)
    | EKCancelled k st =>
        bind (tr_order_key k) (fun k' =>
        match st with
        | None => Ok (EKCancelled k' None)
        | Some e => bind (tr_order_error e) (fun e' => Ok (EKCancelled k' (Some e')))
        end)
    | EKTrade t => bind (fi (fst t)) (fun i => Ok (EKTrade (i, snd t)))
    end.
  (** account_event: the event's exchange first *)
  Definition tr_event (ev : EK * event_kind EK AK IK) : res E (EK' * event_kind EK' AK' IK') :=
    bind (fe (fst ev)) (fun e' => bind (tr_kind (snd ev)) (fun k' => Ok (e', k'))).
End Translate.

(** AccountEventIndexer::account_event and the public pieces it is made of *)
Definition ix_exchange (m : emap) (e : N) : res ierr N := of_opt IExchangeIndex (find_exchange_ix m e).
Definition ix_asset (m : emap) (n : N) : res ierr N := of_opt IAssetIndex (find_asset_ix m n).
Definition ix_instrument (m : emap) (n : N) : res ierr N := of_opt IInstrumentIndex (find_instrument_ix m n).

Definition account_event (m : emap) (ev : event N N N) : res ierr (event N N N) :=
  tr_event (ix_exchange m) (ix_asset m) (ix_instrument m) ev.
Definition order_key (m : emap) (k : N * N * N) : res ierr (N * N * N) :=
  tr_order_key (ix_exchange m) (ix_instrument m) k.
Definition trade (m : emap) (t : N * N) : res ierr (N * N) :=
  bind (ix_instrument m (fst t)) (fun i => Ok (i, snd t)).
Definition asset_balance (m : emap) (b : N * N) : res ierr (N * N) :=
  tr_balance (ix_asset m) b.

(* ------------------------------------------------------------------------------------------ *)
(** * specification side *)

(** the exchange an index belongs to, and its exchange name, read from the global tables *)
Definition asset_owner (x : indexed) (k : N) : option (N * N) :=
  option_map (fun v : akey => (fst v, snd (snd v))) (find_asset (x_assets x) k).
Definition instrument_owner (x : indexed) (k : N) : option (N * N) :=
  option_map (fun i : instr (N * N) N => (snd (i_ex i), i_ne i)) (find_instrument (x_instruments x) k).

(** reading an indexed key back as the name exchange [e] gives it *)
Definition back_exchange (x : indexed) (e : N) (k : N) : res unit N :=
  match find_exchange (x_exchanges x) k with
  | Some e' => if N.eqb e' e then Ok e else Err tt
  | None => Err tt
  end.
Definition back_asset (x : indexed) (e : N) (k : N) : res unit N :=
  match asset_owner x k with
  | Some (e', n) => if N.eqb e' e then Ok n else Err tt
  | None => Err tt
  end.
Definition back_instrument (x : indexed) (e : N) (k : N) : res unit N :=
  match instrument_owner x k with
  | Some (e', n) => if N.eqb e' e then Ok n else Err tt
  | None => Err tt
  end.
Definition back_event (x : indexed) (e : N) (ev : event N N N) : res unit (event N N N) :=
  tr_event (back_exchange x e) (back_asset x e) (back_instrument x e) ev.

(** well-formed index tables (what Model/Index.v proves of every [build] result) *)
Definition keys_unique {V} (l : list (N * V)) : Prop := NoDup (map fst l).
Definition indexed_wf (x : indexed) : Prop :=
  keys_unique (x_exchanges x) /\ NoDup (map snd (x_exchanges x)) /\
  keys_unique (x_assets x) /\ keys_unique (x_instruments x).

(** hypothesis: exchange names are distinct within one exchange *)
Definition names_distinct (x : indexed) (e : N) : Prop :=
  (forall k k' n, asset_owner x k = Some (e, n) -> asset_owner x k' = Some (e, n) -> k = k') /\
  (forall k k' n, instrument_owner x k = Some (e, n) -> instrument_owner x k' = Some (e, n) -> k = k').

Definition names_distinct_b (x : indexed) (e : N) : bool :=
  forall2b (fun a b : N * akey =>
              implb (N.eqb (fst (snd a)) e && N.eqb (fst (snd b)) e &&
                     N.eqb (snd (snd (snd a))) (snd (snd (snd b)))) (N.eqb (fst a) (fst b)))
           (x_assets x) &&
  forall2b (fun a b : N * instr (N * N) N =>
              implb (N.eqb (snd (i_ex (snd a))) e && N.eqb (snd (i_ex (snd b))) e &&
                     N.eqb (i_ne (snd a)) (i_ne (snd b))) (N.eqb (fst a) (fst b)))
           (x_instruments x).
