(** C13 — executable model of the subscription-id protocol of barter-data: how a
    [Subscription] becomes a [SubscriptionId] ([WebSocketSubMapper::map], [ExchangeSub::id], the
    per-connector [channel.rs] / [market.rs]), how each connector derives a [SubscriptionId] from
    an incoming payload ([Identifier<Option<SubscriptionId>>] impls, [de_*_subscription_id]), how
    Bitfinex' validator re-keys the table by numeric channel id, and how
    [StatelessTransformer::transform] looks the id up and builds the [MarketEvent]s.
    Definitions only.  Strings are Coq [string]s (ASCII); Rust's [to_uppercase]/[to_lowercase]
    are modelled on ASCII letters only.

    Also the independent side of the property: the venue conventions ([venue_symbol],
    [venue_channel]) against which the oracle of Corr/C13.v is written. *)
From Coq Require Import String Ascii List ZArith NArith Bool DecimalString.
Import ListNotations.
Local Open Scope string_scope.

(* ------------------------------------------------------------------------------------------ *)
(** * ASCII case maps, decimal printing *)

Definition upper_ascii (c : ascii) : ascii :=
  let n := N_of_ascii c in
  if (N.leb 97 n && N.leb n 122)%bool then ascii_of_N (n - 32) else c.
Definition lower_ascii (c : ascii) : ascii :=
  let n := N_of_ascii c in
  if (N.leb 65 n && N.leb n 90)%bool then ascii_of_N (n + 32) else c.

Fixpoint smap (f : ascii -> ascii) (s : string) : string :=
  match s with
  | EmptyString => EmptyString
  | String c t => String (f c) (smap f t)
  end.
Definition upper : string -> string := smap upper_ascii.
Definition lower : string -> string := smap lower_ascii.

(** Rust [u32::to_string] / [format!("{n}")] *)
Definition dec (n : N) : string := NilZero.string_of_uint (N.to_uint n).
Definition pad2 (n : N) : string := if N.ltb n 10 then "0" ++ dec n else dec n.
Definition pad4 (n : N) : string :=
  if N.ltb n 10 then "000" ++ dec n else if N.ltb n 100 then "00" ++ dec n
  else if N.ltb n 1000 then "0" ++ dec n else dec n.

Definition bar : ascii := "|"%char.
Fixpoint has_char (c : ascii) (s : string) : bool :=
  match s with
  | EmptyString => false
  | String d t => Ascii.eqb d c || has_char c t
  end.
Definition has_bar : string -> bool := has_char bar.

(* ------------------------------------------------------------------------------------------ *)
(** * Calendar (chrono [DateTime<Utc>::date_naive().format(..)]) *)

Local Open Scope Z_scope.

(** days since 1970-01-01 of an epoch-millisecond instant (floor) *)
Definition days_of_ms (ms : Z) : Z := ms / 86400000.

(** proleptic Gregorian (year, month, day) of a day number *)
Definition civil (d0 : Z) : Z * Z * Z :=
  let z := d0 + 719468 in
  let era := z / 146097 in
  let doe := z - era * 146097 in
  let yoe := (doe - doe / 1460 + doe / 36524 - doe / 146096) / 365 in
  let y := yoe + era * 400 in
  let doy := doe - (365 * yoe + yoe / 4 - yoe / 100) in
  let mp := (5 * doy + 2) / 153 in
  let d := doy - (153 * mp + 2) / 5 + 1 in
  let m := if mp <? 10 then mp + 3 else mp - 9 in
  (if m <=? 2 then y + 1 else y, m, d).
Definition year_of (d0 : Z) : Z := fst (fst (civil d0)).
Definition month_of (d0 : Z) : Z := snd (fst (civil d0)).
Definition day_of (d0 : Z) : Z := snd (civil d0).

(** ["%Y%m%d"] *)
Definition fmt_Ymd (ms : Z) : string :=
  let d := days_of_ms ms in
  (pad4 (Z.to_N (year_of d)) ++ pad2 (Z.to_N (month_of d)) ++ pad2 (Z.to_N (day_of d)))%string.
(** ["%y%m%d"] (calendar year modulo 100) *)
Definition fmt_ymd (ms : Z) : string :=
  let d := days_of_ms ms in
  (pad2 (Z.to_N (year_of d mod 100)) ++ pad2 (Z.to_N (month_of d)) ++ pad2 (Z.to_N (day_of d)))%string.

Local Close Scope Z_scope.

(* ------------------------------------------------------------------------------------------ *)
(** * Subscriptions *)

(** the connectors of [DynamicStreams::init]; [ExOther] only ever appears in observations *)
Inductive exch :=
| BinanceSpot | BinanceFuturesUsd | Bitfinex | Bitmex | BybitSpot | BybitPerpetualsUsd | Coinbase
| GateioSpot | GateioFuturesUsd | GateioFuturesBtc | GateioPerpetualsUsd | GateioPerpetualsBtc
| GateioOptions | Kraken | Okx | ExOther.

Inductive skind := PublicTrades | OrderBooksL1 | Liquidations.
Inductive side := Buy | Sell.
Inductive okind := Call | Put.

(** [MarketDataInstrumentKind]; expiries in epoch milliseconds; [strike] is the [Display] text
    of the [Decimal] strike *)
Inductive ikind :=
| KSpot | KPerp | KFuture (expiry_ms : Z) | KOption (o : okind) (expiry_ms : Z) (strike : string).

(** the three [InstrumentData] flavours: [MarketDataInstrument] and
    [Keyed<K, MarketDataInstrument>] carry base / quote names ([IPair], names as given by the
    user: [AssetNameInternal::new] lower-cases them); [MarketInstrumentData<K>] carries the
    exchange's own instrument name verbatim ([INamed]). *)
Inductive idata :=
| IPair (base quote : string) (k : ikind)
| INamed (name_exchange : string) (k : ikind).

Definition kind_of (d : idata) : ikind := match d with IPair _ _ k | INamed _ k => k end.

(** a subscription: instrument key + instrument data (exchange and kind are per batch) *)
Notation sub := (N * idata)%type.

Definition exch_eqb (a b : exch) : bool :=
  match a, b with
  | BinanceSpot, BinanceSpot | BinanceFuturesUsd, BinanceFuturesUsd | Bitfinex, Bitfinex
  | Bitmex, Bitmex | BybitSpot, BybitSpot | BybitPerpetualsUsd, BybitPerpetualsUsd
  | Coinbase, Coinbase | GateioSpot, GateioSpot | GateioFuturesUsd, GateioFuturesUsd
  | GateioFuturesBtc, GateioFuturesBtc | GateioPerpetualsUsd, GateioPerpetualsUsd
  | GateioPerpetualsBtc, GateioPerpetualsBtc | GateioOptions, GateioOptions | Kraken, Kraken
  | Okx, Okx | ExOther, ExOther => true
  | _, _ => false
  end.

(** connector families (one Rust [Connector] impl each) *)
Inductive family := FBinance | FBitfinex | FBitmex | FBybit | FCoinbase | FGateio | FKraken | FOkx | FNone.
Definition family_of (e : exch) : family :=
  match e with
  | BinanceSpot | BinanceFuturesUsd => FBinance
  | Bitfinex => FBitfinex
  | Bitmex => FBitmex
  | BybitSpot | BybitPerpetualsUsd => FBybit
  | Coinbase => FCoinbase
  | GateioSpot | GateioFuturesUsd | GateioFuturesBtc | GateioPerpetualsUsd | GateioPerpetualsBtc
  | GateioOptions => FGateio
  | Kraken => FKraken
  | Okx => FOkx
  | ExOther => FNone
  end.

(** ** channel.rs : [Identifier<Channel> for Subscription<..>] *)
Definition binance_channel (sk : skind) : string :=
  match sk with
  | PublicTrades => "@trade"           (* BinanceChannel::TRADES *)
  | OrderBooksL1 => "@bookTicker"      (* BinanceChannel::ORDER_BOOK_L1 *)
  | Liquidations => "@forceOrder"      (* BinanceChannel::LIQUIDATIONS *)
  end.
Definition kraken_channel (sk : skind) : string :=
  match sk with
  | OrderBooksL1 => "spread"           (* KrakenChannel::ORDER_BOOK_L1 *)
  | _ => "trade"                       (* KrakenChannel::TRADES *)
  end.
Definition gateio_channel (k : ikind) : string :=
  match k with
  | KSpot => "spot.trades"
  | KFuture _ | KPerp => "futures.trades"
  | KOption _ _ _ => "options.trades"
  end.
Definition channel_of (e : exch) (sk : skind) (k : ikind) : string :=
  match family_of e with
  | FBinance => binance_channel sk
  | FBitfinex => "trades"
  | FBitmex => "trade"
  | FBybit => "publicTrade"
  | FCoinbase => "matches"
  | FGateio => gateio_channel k
  | FKraken => kraken_channel sk
  | FOkx => "trades"
  | FNone => ""
  end.

(** ** market.rs : [Identifier<Market> for Subscription<..>] *)
Definition okind_letter (o : okind) : string := match o with Call => "C" | Put => "P" end.

(** [gateio_market]: whole string upper-cased, expiry ["%Y%m%d"] *)
Definition gateio_market (b q : string) (k : ikind) : string :=
  upper (match k with
         | KSpot | KPerp => b ++ "_" ++ q
         | KFuture e => b ++ "_" ++ q ++ "_QUARTERLY_" ++ fmt_Ymd e
         | KOption o e strike => b ++ "_" ++ q ++ "-" ++ fmt_Ymd e ++ "-" ++ strike ++ "-" ++ okind_letter o
         end).

(** [okx::market::format_expiry]: ["%y%m%d"] (calendar year; commit 55f5c89 - it was the ISO
    week-based year ["%g"] before, see corpus/C13/okx_week_based_year_expiry.json) *)
Definition okx_expiry : Z -> string := fmt_ymd.

Definition okx_market (b q : string) (k : ikind) : string :=
  match k with
  | KSpot => upper (b ++ "-" ++ q)
  | KFuture e => upper (b ++ "-" ++ q ++ "-" ++ okx_expiry e)
  | KPerp => upper (b ++ "-" ++ q ++ "-SWAP")
  | KOption o e strike => upper (b ++ "-" ++ q ++ "-" ++ okx_expiry e ++ "-" ++ strike ++ "-" ++ okind_letter o)
  end.

Definition market_of (e : exch) (d : idata) : string :=
  match d with
  | INamed n _ => n                                  (* name_exchange verbatim, every connector *)
  | IPair base quote k =>
      let b := lower base in                         (* AssetNameInternal::new *)
      let q := lower quote in
      match family_of e with
      | FBinance | FBitmex | FBybit => upper (b ++ q)
      | FBitfinex => "t" ++ upper b ++ upper q
      | FCoinbase => upper (b ++ "-" ++ q)
      | FKraken => upper (b ++ "/" ++ q)
      | FGateio => gateio_market b q k
      | FOkx => okx_market b q k
      | FNone => ""
      end
  end.

(** ** [ExchangeSub::id] *)
Definition sub_id (channel market : string) : string := channel ++ "|" ++ market.

Definition sid (e : exch) (sk : skind) (s : sub) : string :=
  sub_id (channel_of e sk (kind_of (snd s))) (market_of e (snd s)).

(** ** the instrument map ([Map<InstrumentKey>], a hash map) as a total function *)
Notation imap := (string -> option N).
Definition empty_map : imap := fun _ => None.
Definition insert (m : imap) (id : string) (k : N) : imap :=
  fun x => if String.eqb x id then Some k else m x.
Definition remove (m : imap) (id : string) : imap :=
  fun x => if String.eqb x id then None else m x.

(** [WebSocketSubMapper::map]: one insert per subscription, in order (a later equal id
    overwrites) *)
Definition map_ids (idf : sub -> string) (subs : list sub) : imap :=
  fold_left (fun m s => insert m (idf s) (fst s)) subs empty_map.
Definition map_subs (e : exch) (sk : skind) (subs : list sub) : imap := map_ids (sid e sk) subs.

(** ** [BitfinexWebSocketSubValidator::validate], the [Subscribed] arm: each confirmation
    (channel, symbol, chanId) moves the entry stored under ["channel|symbol"] to the decimal
    text of the channel id; confirmations that match no entry are ignored *)
Notation conf := (string * string * N)%type.
Definition bfx_step (m : imap) (c : conf) : imap :=
  let '(ch, sym, cid) := c in
  match m (sub_id ch sym) with
  | Some k => insert (remove m (sub_id ch sym)) (dec cid) k
  | None => m
  end.
Definition bfx_validate (m : imap) (confs : list conf) : imap := fold_left bfx_step confs m.

(** the table the transformer is initialised with *)
Definition transformer_map (e : exch) (sk : skind) (subs : list sub) (confs : list conf) : imap :=
  match e with
  | Bitfinex => bfx_validate (map_subs e sk subs) confs
  | _ => map_subs e sk subs
  end.

(* ------------------------------------------------------------------------------------------ *)
(** * Messages *)

(** venue independent content of one trade / top of book / liquidation.  Prices and amounts
    are exact numbers at a fixed scale; [i_amount] is a magnitude, the side is explicit (venues
    that encode the side in the sign of the amount are encoded / decoded accordingly).
    L1: bid = ([i_price], [i_amount]), ask = ([i_price2], [i_amount2]). *)
Record item := mkItem {
  i_sym : string; i_id : string; i_time : option Z; i_side : side;
  i_price : Z; i_amount : Z; i_price2 : Z; i_amount2 : Z }.

(** [MData chan sym cid items]: [chan] = channel / table / topic prefix carried in the payload
    (Bitmex [table], Bybit topic prefix, Gateio [channel], Okx [arg.channel]); [sym] = envelope
    level symbol (Bybit topic suffix, Kraken pair, Okx [arg.instId]); [cid] = Bitfinex channel
    id; per item symbols are Binance [s], Bitmex [symbol], Coinbase [product_id], Gateio
    [currency_pair]/[contract] (and Bybit [s], Okx [instId], which the connectors ignore).
    [MControl]: heartbeat / pong / subscription response / Bitfinex ["tu"]. *)
Inductive msg :=
| MData (chan sym : string) (cid : N) (items : list item)
| MControl (variant : N).

Inductive idres := IdNone | IdDeser | IdSome (id : string).

Definition first_sym (items : list item) : option string :=
  match items with it :: _ => Some (i_sym it) | [] => None end.

(** [Identifier<Option<SubscriptionId>>] of each connector's message type (including the part
    of it that already happens during deserialisation) *)
Definition msg_id (e : exch) (sk : skind) (m : msg) : idres :=
  match m with
  | MControl _ => IdNone
  | MData chan sym cid items =>
      match family_of e with
      | FBinance =>                       (* de_*_subscription_id: channel constant | "s" *)
          match first_sym items with Some s => IdSome (sub_id (binance_channel sk) s) | None => IdDeser end
      | FBitfinex => IdSome (dec cid)     (* BitfinexPayload::Trade => channel_id.to_string() *)
      | FBitmex =>                        (* table | data[0].symbol, None for an empty batch *)
          match first_sym items with Some s => IdSome (sub_id chan s) | None => IdNone end
      | FBybit =>                         (* de_message_subscription_id: "publicTrade.<market>" *)
          if (String.eqb chan "publicTrade" && negb (has_char "."%char sym))%bool
          then IdSome (sub_id "publicTrade" sym) else IdDeser
      | FCoinbase =>
          match first_sym items with Some s => IdSome (sub_id "matches" s) | None => IdDeser end
      | FGateio =>
          match e with
          | GateioSpot =>                 (* channel | result.currency_pair *)
              match first_sym items with Some s => IdSome (sub_id chan s) | None => IdDeser end
          | _ =>                          (* channel | result[0].contract, None when empty *)
              match first_sym items with Some s => IdSome (sub_id chan s) | None => IdNone end
          end
      | FKraken => IdSome (sub_id (kraken_channel sk) sym)   (* constant | pair *)
      | FOkx => IdSome (sub_id chan sym)                     (* arg.channel | arg.instId *)
      | FNone => IdNone
      end
  end.

(* ------------------------------------------------------------------------------------------ *)
(** * Events *)

Inductive body :=
| BTrade (id : string) (price amount : Z) (sd : side)
| BL1 (t : option Z) (bid ask : option (Z * Z))
| BLiq (sd : side) (price qty : Z) (t : option Z).

(** [e_time] = [time_exchange]; [None] when the message carries no exchange time (the
    connector then stamps the receive time, which is not compared) *)
Record event := mkEv { e_key : N; e_exch : exch; e_time : option Z; e_body : body }.

Definition level_of (p a : Z) : option (Z * Z) := if Z.eqb p 0 then None else Some (p, a).

(** amount of the normalised trade: Gateio futures / perpetuals / options keep the signed size
    of the payload (negative = sell); every other connector yields the magnitude *)
Definition trade_amount (e : exch) (it : item) : Z :=
  match e with
  | GateioFuturesUsd | GateioFuturesBtc | GateioPerpetualsUsd | GateioPerpetualsBtc | GateioOptions =>
      match i_side it with Sell => Z.opp (i_amount it) | Buy => i_amount it end
  | _ => i_amount it
  end.

Definition event_of_item (e : exch) (sk : skind) (k : N) (it : item) : event :=
  mkEv k e (i_time it)
    (match sk with
     | PublicTrades => BTrade (i_id it) (i_price it) (trade_amount e it) (i_side it)
     | OrderBooksL1 => BL1 (i_time it) (level_of (i_price it) (i_amount it)) (level_of (i_price2 it) (i_amount2 it))
     | Liquidations => BLiq (i_side it) (i_price it) (i_amount it) (i_time it)
     end).

(** [MarketIter::from((exchange_id, instrument, message))] *)
Definition events (e : exch) (sk : skind) (k : N) (m : msg) : list event :=
  match m with
  | MData _ _ _ items => map (event_of_item e sk k) items
  | MControl _ => []
  end.

Inductive oitem := OEv (ev : event) | OUnident (id : string) | OErr (text : string).
Inductive outcome := ODeser | OOut (l : list oitem) | OPanic.

(** [StatelessTransformer::transform] (after [serde_json::from_str]) *)
Definition transform (e : exch) (sk : skind) (m : imap) (x : msg) : outcome :=
  match msg_id e sk x with
  | IdDeser => ODeser
  | IdNone => OOut []
  | IdSome id =>
      match m id with
      | Some k => OOut (map OEv (events e sk k x))
      | None => OOut [OUnident id]
      end
  end.

(* ------------------------------------------------------------------------------------------ *)
(** * Venue conventions (independent of the code: what the exchanges put in their payloads,
    as documented in the connectors' doc comments and unit tests) *)

(** symbol under which the venue reports the market of an instrument given by base / quote
    (any letter case) and kind.  An instrument given by exchange name is that name. *)
Definition venue_symbol (e : exch) (d : idata) : string :=
  match d with
  | INamed n _ => n
  | IPair base quote k =>
      let b := upper base in
      let q := upper quote in
      match family_of e with
      | FBinance | FBitmex | FBybit => b ++ q                       (* BTCUSDT, XBTUSD *)
      | FBitfinex => "t" ++ b ++ q                                   (* tBTCUSD *)
      | FCoinbase => b ++ "-" ++ q                                   (* BTC-USD *)
      | FKraken => b ++ "/" ++ q                                     (* XBT/USD *)
      | FGateio =>
          match k with
          | KSpot | KPerp => b ++ "_" ++ q                           (* GT_USDT, BTC_USD *)
          | KFuture x => b ++ "_" ++ q ++ "_QUARTERLY_" ++ fmt_Ymd x (* ETH_USDT_QUARTERLY_20201225 *)
          | KOption o x strike => b ++ "_" ++ q ++ "-" ++ fmt_Ymd x ++ "-" ++ strike ++ "-" ++ okind_letter o
          end
      | FOkx =>
          match k with
          | KSpot => b ++ "-" ++ q                                   (* BTC-USDT *)
          | KPerp => b ++ "-" ++ q ++ "-SWAP"
          | KFuture x => b ++ "-" ++ q ++ "-" ++ fmt_ymd x           (* BTC-USD-231229 *)
          | KOption o x strike => b ++ "-" ++ q ++ "-" ++ fmt_ymd x ++ "-" ++ strike ++ "-" ++ okind_letter o
          end                                                        (* BTC-USD-231229-35000-C *)
      | FNone => ""
      end
  end.

(** channel name the venue's payloads carry for this stream, where they carry one *)
Definition venue_channel (e : exch) (k : ikind) : option string :=
  match family_of e with
  | FBitmex => Some "trade"
  | FBybit => Some "publicTrade"
  | FOkx => Some "trades"
  | FGateio => Some (match k with
                     | KSpot => "spot.trades"
                     | KPerp | KFuture _ => "futures.trades"
                     | KOption _ _ _ => "options.trades"
                     end)
  | _ => None
  end.

(* ------------------------------------------------------------------------------------------ *)
(** * Which subscriptions the dynamic stream builder accepts
    ([streams::builder::dynamic::validate_subscriptions], [Subscription::validate]) *)

Inductive subkind :=
| SKPublicTrades | SKOrderBooksL1 | SKOrderBooksL2 | SKOrderBooksL3 | SKLiquidations | SKCandles.

(** [exchange_supports_instrument_kind_sub_kind]; every [ExchangeId] without a connector is
    [ExOther] *)
Definition supports_triple (e : exch) (k : ikind) (sk : subkind) : bool :=
  match e, k, sk with
  | BinanceSpot, KSpot, (SKPublicTrades | SKOrderBooksL1 | SKOrderBooksL2) => true
  | BinanceFuturesUsd, KPerp, (SKPublicTrades | SKOrderBooksL1 | SKOrderBooksL2 | SKLiquidations) => true
  | Bitfinex, KSpot, SKPublicTrades => true
  | Bitmex, KPerp, SKPublicTrades => true
  | BybitSpot, KSpot, SKPublicTrades => true
  | BybitPerpetualsUsd, KPerp, SKPublicTrades => true
  | Coinbase, KSpot, SKPublicTrades => true
  | GateioSpot, KSpot, SKPublicTrades => true
  | GateioFuturesUsd, KFuture _, SKPublicTrades => true
  | GateioFuturesBtc, KFuture _, SKPublicTrades => true
  | GateioPerpetualsUsd, KPerp, SKPublicTrades => true
  | GateioPerpetualsBtc, KPerp, SKPublicTrades => true
  | GateioOptions, KOption _ _ _, SKPublicTrades => true
  | Kraken, KSpot, (SKPublicTrades | SKOrderBooksL1) => true
  | Okx, _, SKPublicTrades => true
  | _, _, _ => false
  end.

(** [exchange_supports_instrument_kind] (used by the typed [Subscription<Exchange, ..>::validate]) *)
Definition supports_kind (e : exch) (k : ikind) : bool :=
  match k with
  | KSpot =>
      match e with
      | BinanceFuturesUsd | Bitmex | BybitPerpetualsUsd | GateioPerpetualsUsd | GateioPerpetualsBtc => false
      | _ => true
      end
  | KFuture _ => match e with GateioFuturesUsd | GateioFuturesBtc | Okx => true | _ => false end
  | KPerp =>
      match e with
      | BinanceFuturesUsd | Bitmex | Okx | BybitPerpetualsUsd | GateioPerpetualsUsd | GateioPerpetualsBtc => true
      | _ => false
      end
  | KOption _ _ _ => match e with GateioOptions | Okx => true | _ => false end
  end.

(** a dynamic subscription: (identity of the Rust value, exchange, instrument kind, kind) *)
Notation dsub := (N * exch * ikind * subkind)%type.

Fixpoint dedup_ids (l : list N) : list N :=
  match l with
  | [] => []
  | x :: t => x :: filter (fun y => negb (N.eqb x y)) (dedup_ids t)
  end.

(** [validate_subscriptions]: every subscription must be supported, then sort + dedup (the
    order is Rust's derived [Ord], not modelled: the result is a set of identities) *)
Definition validate_batch (l : list dsub) : option (list N) :=
  if forallb (fun s : dsub => match s with (_, e, k, sk) => supports_triple e k sk end) l
  then Some (dedup_ids (map (fun s : dsub => fst (fst (fst s))) l))
  else None.

(** ** independent side: the (exchange, kind) pairs [DynamicStreams::init] has a connector arm
    for, and the instrument kinds each venue endpoint serves *)
Definition routed_pair (e : exch) (sk : subkind) : bool :=
  match e, sk with
  | BinanceSpot, (SKPublicTrades | SKOrderBooksL1 | SKOrderBooksL2) => true
  | BinanceFuturesUsd, (SKPublicTrades | SKOrderBooksL1 | SKOrderBooksL2 | SKLiquidations) => true
  | Kraken, (SKPublicTrades | SKOrderBooksL1) => true
  | (Bitfinex | Bitmex | BybitSpot | BybitPerpetualsUsd | Coinbase | GateioSpot | GateioFuturesUsd
     | GateioFuturesBtc | GateioPerpetualsUsd | GateioPerpetualsBtc | GateioOptions | Okx), SKPublicTrades => true
  | _, _ => false
  end.
Definition venue_serves (e : exch) (k : ikind) : bool :=
  match e, k with
  | (BinanceSpot | Bitfinex | BybitSpot | Coinbase | GateioSpot | Kraken), KSpot => true
  | (BinanceFuturesUsd | Bitmex | BybitPerpetualsUsd | GateioPerpetualsUsd | GateioPerpetualsBtc), KPerp => true
  | (GateioFuturesUsd | GateioFuturesBtc), KFuture _ => true
  | GateioOptions, KOption _ _ _ => true
  | Okx, _ => true
  | _, _ => false
  end.
