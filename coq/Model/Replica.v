(** C10 — executable model of the engine's audit stream and of the state replica.

    Anchors (barter/src/engine): [audit/mod.rs] (Auditor::audit / audit_snapshot: the sequence is
    [fetch_add]ed once per tick), [mod.rs] (Engine::process, process_with_audit, action,
    update_from_account_stream etc.), [run.rs] (sync_run_with_audit / async_run_with_audit), [audit/state_replica.rs]
    (StateReplicaManager::run / validate_and_update_context / update_from_event),
    [state/order/mod.rs] (Orders: the order map both sides update with the same code).

    What is concrete here is what differs between the engine and the replica:
      - the sequence numbering and which ticks a runner emits;
      - the in-flight request markers: the engine records OpenInFlight / CancelInFlight on its own
        orders when it sends requests (commands, algo orders, hooks); the replica only replays
        the *event* carried by a tick ([update_from_event] ignores the tick's outputs);
      - the replica's sequence validation.
    What is the same code called on the same event on both sides (connectivity, balances,
    positions, market data, tear sheets, global data) is a [Section] variable: an arbitrary
    deterministic update function on an arbitrary state type.

    Definitions only (the proofs are in Proofs/Replica.v). *)
From Coq Require Import List ZArith NArith Bool.
Import ListNotations.

(* ------------------------------------------------------------------------------------------ *)
(** * Orders (state/order/mod.rs), keyed by (instrument index, client order id)               *)
(* ------------------------------------------------------------------------------------------ *)

(** [Open] meta data: exchange order id, exchange time (ms), filled quantity *)
Record meta := mkMeta { m_oid : Z; m_t : Z; m_filled : Z }.

Inductive ostate := OIF | Open (m : meta) | CIF (m : option meta).

(** [o_sf] encodes the static fields of the record (exchange, strategy, side, price, kind,
    time in force); [o_qty] is the order quantity. *)
Record order := mkOrder { o_sf : Z; o_qty : Z; o_st : ostate }.

Definition with_st (o : order) (s : ostate) : order := mkOrder (o_sf o) (o_qty o) s.

Notation okey := (Z * Z)%type.
Notation omap := (list (okey * order)).

Definition okey_eqb (a b : okey) : bool := Z.eqb (fst a) (fst b) && Z.eqb (snd a) (snd b).

Fixpoint ofind (m : omap) (k : okey) : option order :=
  match m with
  | [] => None
  | (k', o) :: t => if okey_eqb k' k then Some o else ofind t k
  end.

Definition oremove (m : omap) (k : okey) : omap :=
  filter (fun p => negb (okey_eqb (fst p) k)) m.

(** FnvHashMap::insert *)
Definition oset (m : omap) (k : okey) (o : order) : omap := (k, o) :: oremove m k.

Definition open_meta (s : ostate) : option meta :=
  match s with OIF => None | Open m => Some m | CIF c => c end.

(** what an account event says about one order *)
Inductive snap_state := SOIF | SOpen (m : meta) | SCIF (c : option meta) | SInactive.

Inductive order_op :=
| OSnap (k : okey) (sf q : Z) (s : snap_state)      (* order snapshot *)
| OCancelResp (k : okey) (ok : bool).               (* response to a cancel request *)

(** [open.quantity_remaining(update.quantity).is_zero()] — the quantity is the snapshot's *)
Definition rem_zero (q : Z) (m : meta) : bool := Z.eqb (q - m_filled m) 0.

(** Orders::update_from_order_snapshot, arm by arm *)
Definition apply_snap (om : omap) (k : okey) (sf q : Z) (s : snap_state) : omap :=
  match ofind om k with
  | None =>
      match s with
      | SInactive => om                                     (* untracked + finished: ignore *)
      | SOpen m => if rem_zero q m then om else oset om k (mkOrder sf q (Open m))
      | SOIF => oset om k (mkOrder sf q OIF)
      | SCIF c => oset om k (mkOrder sf q (CIF c))
      end
  | Some o =>
      match s with
      | SInactive => oremove om k                           (* tracked + finished: remove *)
      | SOIF => om                                          (* every (_, OpenInFlight) arm ignores *)
      | SOpen m =>
          match o_st o with
          | OIF => if rem_zero q m then oremove om k else oset om k (with_st o (Open m))
          | Open cur =>
              if Z.leb (m_t cur) (m_t m)
              then (if rem_zero q m then oremove om k else oset om k (with_st o (Open m)))
              else om
          | CIF cur =>
              let latest := match cur with None => true | Some c => Z.leb (m_t c) (m_t m) end in
              if latest
              then (if rem_zero q m then oremove om k else oset om k (with_st o (CIF (Some m))))
              else om
          end
      | SCIF c =>
          match o_st o with
          | OIF => oset om k (with_st o (CIF c))
          | Open cur =>
              let latest := match c with
                            | Some u => if Z.leb (m_t cur) (m_t u) then u else cur
                            | None => cur
                            end in
              oset om k (with_st o (CIF (Some latest)))
          | CIF _ => om
          end
      end
  end.

(** Orders::update_from_cancel_response *)
Definition apply_cancel_resp (om : omap) (k : okey) (ok : bool) : omap :=
  match ofind om k with
  | None => om
  | Some o =>
      if ok then oremove om k
      else match o_st o with
           | OIF | Open _ => om
           | CIF (Some m) => oset om k (with_st o (Open m))
           | CIF None => oremove om k
           end
  end.

Definition apply_op (om : omap) (op : order_op) : omap :=
  match op with
  | OSnap k sf q s => apply_snap om k sf q s
  | OCancelResp k ok => apply_cancel_resp om k ok
  end.

(** InFlightRequestRecorder for Orders *)
Notation oreq := (okey * (Z * Z))%type.            (* key, (static fields, quantity) *)

Definition record_cancel (om : omap) (k : okey) : omap :=
  match ofind om k with
  | None => om
  | Some o => oset om k (with_st o (CIF (open_meta (o_st o))))
  end.

Definition record_open (om : omap) (r : oreq) : omap :=
  oset om (fst r) (mkOrder (fst (snd r)) (snd (snd r)) OIF).

(** Requests the engine reports as *sent* by one action. [s_fatal]: some request of the action
    could not be delivered (every delivery failure is unrecoverable: terminated channel or no
    transmitter for the exchange). In every action the sent cancels are recorded before the
    sent opens. *)
Record sent := mkSent { s_cancels : list okey; s_opens : list oreq; s_fatal : bool }.
Definition no_sent : sent := mkSent [] [] false.

Definition record_sent (om : omap) (s : sent) : omap :=
  fold_left record_open (s_opens s) (fold_left record_cancel (s_cancels s) om).

Definition sent_is_empty (s : sent) : bool :=
  match s_cancels s, s_opens s with [], [] => negb (s_fatal s) | _, _ => false end.

(** setting the in-flight request markers aside *)
Definition proj (o : option order) : option order :=
  match o with
  | Some o' => match o_st o' with
               | OIF | CIF None => None
               | Open m | CIF (Some m) => Some (with_st o' (Open m))
               end
  | None => None
  end.

Definition is_none {A} (o : option A) : bool := match o with None => true | Some _ => false end.

(** [Order::to_request_cancel] is Some for OpenInFlight and Open orders *)
Definition cancellable (o : order) : bool :=
  match o_st o with OIF | Open _ => true | CIF _ => false end.

(* ------------------------------------------------------------------------------------------ *)
(** * Events, audits, engine and replica                                                      *)
(* ------------------------------------------------------------------------------------------ *)

(** InstrumentFilter as far as it is used here: everything, or a list of instrument indices *)
Inductive ifilter := FAll | FInstruments (is : list Z).

Inductive command :=
| CmdSendCancels (ks : list okey)
| CmdSendOpens (rs : list oreq)
| CmdClosePositions (f : ifilter)
| CmdCancelOrders (f : ifilter).

(** What the user code and the execution links contribute to one tick: the requests sent by the
    command action, by the on-disconnect / on-trading-disabled hook, and by algo generation.
    The engine model takes them as a script; the theorems quantify over all scripts. *)
Record script := mkScript { sc_cmd : sent; sc_hook : sent; sc_algo : sent }.

Section Replica.

(** everything of the engine state that both sides update by the same code on the same event *)
Variable rest : Type.
(** the content of a market / account item as far as that shared code looks at it *)
Variable P : Type.
Variable upd_acc_reconn : rest -> Z -> rest.     (* connectivity.update_from_account_reconnecting *)
Variable upd_mkt_reconn : rest -> Z -> rest.     (* connectivity.update_from_market_reconnecting *)
Variable upd_account : rest -> P -> rest.        (* EngineState::update_from_account minus orders *)
Variable upd_market : rest -> P -> rest.         (* EngineState::update_from_market *)

Inductive event :=
| EvShutdown
| EvCommand (c : command)
| EvTrading (enabled : bool)
| EvAccReconn (ex : Z)
| EvAccount (p : P) (ops : list order_op)
| EvMktReconn (ex : Z)
| EvMarket (p : P).

Definition is_shutdown (ev : event) : bool := match ev with EvShutdown => true | _ => false end.

Record state := mkState { trading : bool; srest : rest; orders : omap }.

(** EngineState::update_from_account / update_from_market: the code shared by both sides *)
Definition state_update_from_account (st : state) (p : P) (ops : list order_op) : state :=
  mkState (trading st) (upd_account (srest st) p) (fold_left apply_op ops (orders st)).
Definition state_update_from_market (st : state) (p : P) : state :=
  mkState (trading st) (upd_market (srest st) p) (orders st).
Definition state_record (st : state) (s : sent) : state :=
  mkState (trading st) (srest st) (record_sent (orders st) s).

(** outputs attached to a process audit *)
Record outs := mkOuts {
  out_cmd : option (list okey * list okey);      (* Commanded: sent cancels, sent opens *)
  out_hook : bool;                               (* OnTradingDisabled / Account- / MarketDisconnect *)
  out_algo : option (list okey * list okey) }.   (* AlgoOrders: sent cancels, sent opens *)
Definition no_outs : outs := mkOuts None false None.
Definition sent_keys (s : sent) : list okey * list okey := (s_cancels s, map fst (s_opens s)).

Inductive audit :=
| AFeedEnded
| AProcess (ev : event) (errors : bool) (o : outs).

Definition is_terminal (a : audit) : bool :=
  match a with
  | AFeedEnded => true
  | AProcess ev errors _ => is_shutdown ev || errors
  end.

Definition carried (a : audit) : option event :=
  match a with AFeedEnded => None | AProcess ev _ _ => Some ev end.

(** first half of Engine::process: the event-specific arm.
    Returns the state, whether process returns here (fatal command error), and the outputs. *)
Definition stage1 (st : state) (ev : event) (sc : script) : state * bool * outs :=
  match ev with
  | EvShutdown => (st, false, no_outs)
  | EvCommand _ =>
      (state_record st (sc_cmd sc), s_fatal (sc_cmd sc),
       mkOuts (Some (sent_keys (sc_cmd sc))) false None)
  | EvTrading b =>
      let st' := mkState b (srest st) (orders st) in
      if trading st && negb b                           (* transitioned_to_disabled *)
      then (state_record st' (sc_hook sc), false, mkOuts None true None)
      else (st', false, no_outs)
  | EvAccReconn x =>
      (state_record (mkState (trading st) (upd_acc_reconn (srest st) x) (orders st)) (sc_hook sc),
       false, mkOuts None true None)
  | EvAccount p ops => (state_update_from_account st p ops, false, no_outs)
  | EvMktReconn x =>
      (state_record (mkState (trading st) (upd_mkt_reconn (srest st) x) (orders st)) (sc_hook sc),
       false, mkOuts None true None)
  | EvMarket p => (state_update_from_market st p, false, no_outs)
  end.

(** Engine::process *)
Definition process (st : state) (ev : event) (sc : script) : state * audit :=
  match ev with
  | EvShutdown => (st, AProcess ev false no_outs)
  | _ =>
      let '(st1, early, o1) := stage1 st ev sc in
      if early then (st1, AProcess ev true o1)
      else if trading st1 then
        let st2 := state_record st1 (sc_algo sc) in
        if sent_is_empty (sc_algo sc) then (st2, AProcess ev false o1)
        else if s_fatal (sc_algo sc) then (st2, AProcess ev true o1)
        else (st2, AProcess ev false
                     (mkOuts (out_cmd o1) (out_hook o1) (Some (sent_keys (sc_algo sc)))))
      else (st1, AProcess ev false o1)
  end.

(** Engine + EngineMeta.sequence (the next sequence number to hand out) *)
Record engine := mkEngine { e_state : state; e_seq : N }.
Notation tick := (N * audit)%type.

(** Auditor::audit : [sequence.fetch_add()] *)
Definition process_with_audit (e : engine) (ev : event) (sc : script) : engine * tick :=
  let (st', a) := process (e_state e) ev sc in
  (mkEngine st' (e_seq e + 1), (e_seq e, a)).
Definition audit_feed_ended (e : engine) : engine * tick :=
  (mkEngine (e_state e) (e_seq e + 1), (e_seq e, AFeedEnded)).
Definition audit_snapshot (e : engine) : engine * (N * state) :=
  (mkEngine (e_state e) (e_seq e + 1), (e_seq e, e_state e)).

Notation feed := (list (event * script)).

(** sync_run_with_audit / async_run_with_audit: the list of ticks sent on the audit channel *)
Fixpoint run_loop (e : engine) (f : feed) : engine * list tick :=
  match f with
  | [] => let (e', t) := audit_feed_ended e in (e', [t])
  | (ev, sc) :: f' =>
      let (e', t) := process_with_audit e ev sc in
      if is_terminal (snd t) then (e', [t])
      else let (e'', ts) := run_loop e' f' in (e'', t :: ts)
  end.

(** process_with_audit called event by event, whatever the ticks say *)
Fixpoint run_manual (e : engine) (f : feed) : engine * list tick :=
  match f with
  | [] => (e, [])
  | (ev, sc) :: f' =>
      let (e', t) := process_with_audit e ev sc in
      let (e'', ts) := run_manual e' f' in (e'', t :: ts)
  end.

(** ** the replica: AuditTick<State, EngineContext> *)
Record replica := mkReplica { r_state : state; r_seq : N }.

Definition replica_init (snap : N * state) : replica := mkReplica (snd snap) (fst snap).

(** StateReplicaManager::update_from_event *)
Definition replica_update_from_event (st : state) (ev : event) : state :=
  match ev with
  | EvShutdown | EvCommand _ => st
  | EvTrading b => mkState b (srest st) (orders st)
  | EvAccReconn x => mkState (trading st) (upd_acc_reconn (srest st) x) (orders st)
  | EvAccount p ops => state_update_from_account st p ops
  | EvMktReconn x => mkState (trading st) (upd_mkt_reconn (srest st) x) (orders st)
  | EvMarket p => state_update_from_market st p
  end.

Inductive rres := RApplied | RSkipped | RErr | RStopped.

(** one iteration of StateReplicaManager::run's loop *)
Definition replica_step (r : replica) (t : tick) : replica * rres :=
  match snd t with
  | AFeedEnded => (r, RStopped)                                     (* let-else: break *)
  | AProcess ev _ _ =>
      if N.leb (fst t) (r_seq r) then (r, RSkipped)                  (* >= : continue *)
      else if negb (N.eqb (r_seq r) (fst t - 1)) then (r, RErr)      (* validate_and_update_context *)
      else (mkReplica (replica_update_from_event (r_state r) ev) (fst t), RApplied)
  end.

(** StateReplicaManager::run over a finite stream: final replica, and Ok (true) / Err (false) *)
Fixpoint replica_run (r : replica) (ts : list tick) : replica * bool :=
  match ts with
  | [] => (r, true)
  | t :: ts' =>
      match replica_step r t with
      | (r', RErr) => (r', false)
      | (r', RStopped) => (r', true)
      | (r', RSkipped) => replica_run r' ts'
      | (r', RApplied) => if is_terminal (snd t) then (r', true) else replica_run r' ts'
      end
  end.

(* ------------------------------------------------------------------------------------------ *)
(** * Hypotheses of the simulation theorem, as a decidable check along a history              *)
(* ------------------------------------------------------------------------------------------ *)

(** An exchange report never carries an in-flight marker, and an "open" report for a record that
    holds no exchange data yet repeats the record's static fields and quantity. *)
Definition op_ok (om : omap) (op : order_op) : bool :=
  match op with
  | OSnap k sf q SOIF | OSnap k sf q (SCIF _) => false
  | OSnap k sf q (SOpen m) =>
      match ofind om k with
      | Some o => match o_st o with
                  | OIF | CIF None => Z.eqb sf (o_sf o) && Z.eqb q (o_qty o)
                  | _ => true
                  end
      | None => true
      end
  | _ => true
  end.

Fixpoint ops_ok (om : omap) (ops : list order_op) : bool :=
  match ops with
  | [] => true
  | op :: t => op_ok om op && ops_ok (apply_op om op) t
  end.

(** open requests use client ids under which no exchange-confirmed order is currently tracked *)
Fixpoint opens_ok (om : omap) (rs : list oreq) : bool :=
  match rs with
  | [] => true
  | r :: t => is_none (proj (ofind om (fst r))) && opens_ok (record_open om r) t
  end.

Definition sent_ok (om : omap) (s : sent) : bool :=
  opens_ok (fold_left record_cancel (s_cancels s) om) (s_opens s).

(** [e] engine state, [r] replica state before the event *)
Definition step_ok (e r : state) (ev : event) (sc : script) : bool :=
  (match ev with
   | EvCommand _ => sent_ok (orders e) (sc_cmd sc)
   | EvTrading b => if trading e && negb b then sent_ok (orders e) (sc_hook sc) else true
   | EvAccReconn _ | EvMktReconn _ => sent_ok (orders e) (sc_hook sc)
   | EvAccount _ ops => ops_ok (orders e) ops && ops_ok (orders r) ops
   | _ => true
   end) &&
  (match ev with
   | EvShutdown => true
   | _ => let '(e1, early, _) := stage1 e ev sc in
          if early then true
          else if trading e1 then sent_ok (orders e1) (sc_algo sc) else true
   end).

Fixpoint hyps (e r : state) (f : feed) : bool :=
  match f with
  | [] => true
  | (ev, sc) :: f' =>
      step_ok e r ev sc &&
      hyps (fst (process e ev sc)) (replica_update_from_event r ev) f'
  end.

(** no in-flight marker in an order map *)
Definition marker_free (om : omap) : Prop := forall k, proj (ofind om k) = ofind om k.

(** ** the simulation relation *)
Definition Rst (a b : state) : Prop :=
  trading a = trading b /\ srest a = srest b /\
  forall k, proj (ofind (orders a) k) = proj (ofind (orders b) k).

Definition Rel (e : engine) (r : replica) : Prop :=
  Rst (e_state e) (r_state r) /\ e_seq e = (r_seq r + 1)%N.

(** engine and replica advance in lock-step over a feed: every tick is applied, the relation
    holds after it, and a replica without in-flight markers stays without *)
Fixpoint lockstep (e : engine) (r : replica) (f : feed) : Prop :=
  match f with
  | [] => True
  | (ev, sc) :: f' =>
      let (e', t) := process_with_audit e ev sc in
      let (r', res) := replica_step r t in
      res = RApplied /\ Rel e' r' /\
      (marker_free (orders (r_state r)) -> marker_free (orders (r_state r'))) /\
      lockstep e' r' f'
  end.

(** the replica after a list of ticks, and a stream the replica accepts tick by tick:
    numbered consecutively from [s], no terminal record (hence no feed-ended record) *)
Definition apply_ticks (r : replica) (ts : list tick) : replica :=
  fold_left (fun r t => fst (replica_step r t)) ts r.

End Replica.

Arguments EvShutdown {P}.
Arguments EvCommand {P} c.
Arguments EvTrading {P} enabled.
Arguments EvAccReconn {P} ex.
Arguments EvAccount {P} p ops.
Arguments EvMktReconn {P} ex.
Arguments EvMarket {P} p.
Arguments AFeedEnded {P}.
Arguments AProcess {P} ev errors o.
Arguments mkState {rest} trading srest orders.
Arguments trading {rest} s.
Arguments srest {rest} s.
Arguments orders {rest} s.
Arguments mkEngine {rest} e_state e_seq.
Arguments e_state {rest} e.
Arguments e_seq {rest} e.
Arguments mkReplica {rest} r_state r_seq.
Arguments r_state {rest} r.
Arguments r_seq {rest} r.
Arguments is_shutdown {P} ev.
Arguments is_terminal {P} a.
Arguments carried {P} a.
Arguments replica_init {rest} snap.
Arguments state_record {rest} st s.
Arguments audit_snapshot {rest} e.
Arguments audit_feed_ended {rest P} e.
Arguments Rst {rest} a b.
Arguments Rel {rest} e r.

Fixpoint seqN (s : N) (n : nat) : list N :=
  match n with O => [] | S n' => s :: seqN (s + 1) n' end.

Notation tick P := (N * audit P)%type.
Notation feed P := (list (event P * script))%type.

Definition valid_from {P} (s : N) (ts : list (tick P)) : Prop :=
  Forall (fun t => is_terminal (snd t) = false) ts /\ map fst ts = seqN s (length ts).
