(** Executable model of the market-data side of an instrument's state and of the engine path
    that refreshes the open position's unrealised PnL:
      barter/src/engine/state/instrument/data.rs   DefaultInstrumentMarketData::{price, process}
      barter-data/src/subscription/book.rs          OrderBookL1::volume_weighed_mid_price
      barter/src/engine/state/instrument/mod.rs     InstrumentState::{update_from_market, update_from_trade}
      barter/src/engine/state/mod.rs                EngineState::{update_from_market, update_from_account(Trade)}
    plus the history-level specification property C15 refines to. Definitions only. *)
From Coq Require Import Qcanon Qcabs.
From BV Require Export Model.Position.
Local Open Scope Qc_scope.

(* ---- DefaultInstrumentMarketData -------------------------------------------------------- *)

(** books::Level = (price, amount) *)
Notation level := (Qc * Qc)%type.

(** subscription::book::OrderBookL1 *)
Record l1book := mkL1 { l1_time : Z; l1_bid : option level; l1_ask : option level }.

(** DefaultInstrumentMarketData { l1, last_traded_price : Option<Timed<Decimal>> } *)
Record mdata := mkMD { md_l1 : l1book; md_last : option (Z * Qc) }.

(** Default: OrderBookL1::default() has last_update_time = DateTime::default() = epoch *)
Definition md0 : mdata := mkMD (mkL1 0 None None) None.

(** books::volume_weighted_mid_price(best_bid, best_ask) *)
Definition vw_mid (b a : level) : Qc := (fst b * snd a + fst a * snd b) / (snd b + snd a).

(** OrderBookL1::volume_weighed_mid_price *)
Definition l1_vw_mid (l : l1book) : option Qc :=
  match l1_ask l, l1_bid l with
  | Some a, Some b => Some (vw_mid b a)
  | _, _ => None
  end.

(** InstrumentDataState::price for DefaultInstrumentMarketData: L1 micro-price, else last trade *)
Definition md_price (m : mdata) : option Qc :=
  match l1_vw_mid (md_l1 m) with
  | Some p => Some p
  | None => option_map snd (md_last m)
  end.

(** MarketEvent<_, DataKind> as far as DefaultInstrumentMarketData reads it. [MTrade t p]:
    public trade at exchange time [t]; [p] = Decimal::from_f64(trade.price) (None for NaN / inf).
    [ML1 t l]: top-of-book at exchange time [t] carrying the book [l] (with its own
    last_update_time). [MOther t]: candle / liquidation / L2 book event. *)
Inductive mevent :=
| MTrade (t : Z) (price : option Qc)
| ML1 (t : Z) (l : l1book)
| MOther (t : Z).

(** Processor<&MarketEvent<_, DataKind>> for DefaultInstrumentMarketData *)
Definition md_process (m : mdata) (e : mevent) : mdata :=
  match e with
  | MTrade t op =>
      if match md_last m with None => true | Some (t0, _) => Z.ltb t0 t end
      then match op with Some p => mkMD (md_l1 m) (Some (t, p)) | None => m end
      else m
  | ML1 t l => if Z.ltb (l1_time (md_l1 m)) t then mkMD l (md_last m) else m
  | MOther _ => m
  end.

(* ---- InstrumentState: position + market data --------------------------------------------- *)

Record istate := mkIS { is_pos : pm; is_md : mdata }.
Definition is0 : istate := mkIS None md0.

Inductive ievent := IMarket (e : mevent) | IFill (f : fill).

(** InstrumentState::update_from_market: process the data, then (position open, price known)
    position.update_pnl_unrealised(price) *)
Definition is_market (s : istate) (e : mevent) : istate :=
  let md := md_process (is_md s) e in
  match is_pos s with
  | None => mkIS None md
  | Some p =>
      match md_price md with
      | None => mkIS (Some p) md
      | Some pr => mkIS (Some (update_pnl_u p pr)) md
      end
  end.

(** EngineState::update_from_account, AccountEventKind::Trade arm: data.process(event) is a no-op
    for DefaultInstrumentMarketData, then InstrumentState::update_from_trade *)
Definition is_fill (s : istate) (f : fill) : istate * option exited :=
  let r := pm_update (is_pos s) f in (mkIS (fst r) (is_md s), snd r).

Definition istep (s : istate) (e : ievent) : istate :=
  match e with
  | IMarket m => is_market s m
  | IFill f => fst (is_fill s f)
  end.

Definition irun (h : list ievent) : istate := fold_left istep h is0.

(* ---- EngineState: instruments addressed by index ------------------------------------------ *)

(** an engine event: a market item for instrument [i], or an account trade (routed by the
    trade's own instrument index) *)
Inductive eevent := EMarket (i : N) (e : mevent) | EFill (f : fill).

Definition route (e : eevent) : N := match e with EMarket i _ => i | EFill f => f_inst f end.
Definition payload (e : eevent) : ievent := match e with EMarket _ m => IMarket m | EFill f => IFill f end.

Notation estate := (N -> istate).
Definition eupd (s : estate) (i : N) (v : istate) : estate := fun j => if N.eqb j i then v else s j.

(** EngineState::update_from_market / update_from_account(Trade): look the instrument up by
    index and update it; nothing else is touched *)
Definition estep (s : estate) (e : eevent) : estate := eupd s (route e) (istep (s (route e)) (payload e)).
Definition erun (h : list eevent) : estate := fold_left estep h (fun _ => is0).

(** the events of instrument [i] *)
Definition proj (i : N) (h : list eevent) : list ievent :=
  flat_map (fun e => if N.eqb (route e) i then [payload e] else [])%list h.

(* ---- specification --------------------------------------------------------------------------- *)

(** the documented estimate: price move on the open quantity minus pro-rata estimated exit fees *)
Definition estimate (p : position) (price : Qc) : Qc :=
  calc_pnl_u (p_side p) (p_avg p) (p_qty p) (p_qmax p) (p_fin p) price.

(** what the history alone determines (no position arithmetic): the market data, the reference
    price the estimate must be evaluated at — the instrument's price after the last market event
    that yielded one, or the price of a later fill —, whether the position was freshly opened by
    the last fill (from flat, or as the remainder of a flip) with no priced market event since,
    and the net signed filled quantity *)
Record ghost := mkG { g_md : mdata; g_ref : option Qc; g_fresh : bool; g_net : Qc }.
Definition g0 : ghost := mkG md0 None false 0.

Definition gstep (g : ghost) (e : ievent) : ghost :=
  match e with
  | IMarket m =>
      let md := md_process (g_md g) m in
      match md_price md with
      | Some p => mkG md (Some p) false (g_net g)
      | None => mkG md (g_ref g) (g_fresh g) (g_net g)
      end
  | IFill f =>
      let n := g_net g in
      let s := sq_fill f in
      mkG (g_md g) (Some (f_price f)) (Qc_eqb n 0 || crosses_strictly_b n s) (n + s)
  end.

Definition grun (h : list ievent) : ghost := fold_left gstep h g0.

(** the property: an open position's unrealised PnL is the estimate at the reference price *)
Definition tracks (h : list ievent) : Prop :=
  match is_pos (irun h), g_ref (grun h) with
  | Some p, Some r => p_pnl_u p = estimate p r
  | _, _ => True
  end.

(** known-finding class: position freshly opened by the last fill, no priced market event since *)
Definition fresh_open (h : list ievent) : Prop := g_fresh (grun h) = true.

(** input requirement: the fills of this instrument slot carry its index and quantity > 0 *)
Definition valid_ievent (i : N) (e : ievent) : Prop :=
  match e with IMarket _ => True | IFill f => valid_fill i f end.
Definition valid_eevent (e : eevent) : Prop :=
  match e with EMarket _ _ => True | EFill f => 0 < f_qty f end.

(* ---- independent specification of the instrument's current price ------------------------------ *)

(** what was delivered, per kind: top-of-book updates and priced public trades with their
    exchange timestamps *)
Definition l1_deliveries (h : list mevent) : list (Z * l1book) :=
  flat_map (fun e => match e with ML1 t l => [(t, l)] | _ => [] end)%list h.
Definition trade_deliveries (h : list mevent) : list (Z * Qc) :=
  flat_map (fun e => match e with MTrade t (Some p) => [(t, p)] | _ => [] end)%list h.

(** both connectors that produce OrderBookL1 set last_update_time = time_exchange *)
Definition mevent_wf (e : mevent) : Prop :=
  match e with ML1 t l => l1_time l = t | _ => True end.

(** [d] is a delivery with the greatest timestamp (with equal timestamps any of them) *)
Definition is_latest {V} (ds : list (Z * V)) (d : Z * V) : Prop :=
  In d ds /\ forall d', In d' ds -> (fst d' <= fst d)%Z.

Definition l1_default : l1book := mkL1 0 None None.

(** reference price of a top-of-book register and a last-trade register: volume-weighted mid
    when both sides of the book are known, else the last trade price, else none *)
Definition ref_price (l : l1book) (last : option (Z * Qc)) : option Qc :=
  match l1_vw_mid l with
  | Some p => Some p
  | None => option_map snd last
  end.

Definition md_run (h : list mevent) : mdata := fold_left md_process h md0.

Definition market_events (h : list ievent) : list mevent :=
  flat_map (fun e => match e with IMarket m => [m] | IFill _ => [] end)%list h.

(* ---- local receive time ------------------------------------------------------------------------ *)

(** An engine event as delivered: a market item additionally carries MarketEvent.time_received,
    the local time at which it was observed. Neither DefaultInstrumentMarketData::process nor the
    re-marking of the position reads it (staleness guards and stored stamps use time_exchange
    only), so the model erases it: [unstamp]. *)
Inductive sevent := SMarket (i : N) (t_received : Z) (e : mevent) | SFill (f : fill).
Definition unstamp (e : sevent) : eevent :=
  match e with SMarket i _ m => EMarket i m | SFill f => EFill f end.
Definition srun (h : list sevent) : estate := erun (map unstamp h).

(** two deliveries that differ only in their receive times *)
Definition same_modulo_received (h h' : list sevent) : Prop :=
  Forall2 (fun a b => unstamp a = unstamp b) h h'.

(* ---- persist / restore ---------------------------------------------------------------------------- *)

(** a delivery in which the state of instrument [i] may be serialised and restored between two
    events: restoring gives back the same state, so it is a no-op of the model *)
Inductive pevent := PEv (e : sevent) | PRestoreI (i : N).
Definition pestep (s : estate) (p : pevent) : estate :=
  match p with PEv e => estep s (unstamp e) | PRestoreI _ => s end.
Definition perun (h : list pevent) : estate := fold_left pestep h (fun _ => is0).
Definition drop_restores (h : list pevent) : list sevent :=
  flat_map (fun p => match p with PEv e => [e] | PRestoreI _ => [] end)%list h.
