(** Executable model of the engine's order-request path (properties C03 and C19).

    Mirrors, arm by arm:
      barter/src/engine/mod.rs                       Engine::process, Engine::action,
                                                     update_from_trading_state_update,
                                                     update_from_account_stream, update_from_market_stream
      barter/src/engine/action/send_requests.rs      send_requests / send_request (+ error classes)
      barter/src/engine/action/generate_algo_orders.rs
      barter/src/engine/action/cancel_orders.rs
      barter/src/engine/action/close_positions.rs
      barter/src/engine/execution_tx.rs              MultiExchangeTxMap::find
      barter/src/engine/state/instrument/mod.rs      InstrumentStates::filtered
      barter/src/engine/state/order/mod.rs           record_in_flight_{cancel,open},
                                                     update_from_order_snapshot, update_from_cancel_response
      barter-execution/src/order/mod.rs              Order::to_request_cancel, Order::from(&OrderRequestOpen)
      barter/src/strategy/close_positions.rs         close_open_positions_with_market_orders,
                                                     build_ioc_market_order_to_close_position
      barter/src/engine/state/position.rs            side / quantity part of Position::update_from_trade

    User code and channels are *script* arguments, never axioms:
      - what the AlgoStrategy returns this tick and the RiskManager's verdict per request: [gscript];
      - what the ClosePositionsStrategy returns: a function argument [cs] of [process] / [action]
        ([default_close] is the library's close_open_positions_with_market_orders);
      - each exchange's execution link: [link] = open channel with its mailbox | closed channel |
        unhealthy (a Tx whose error is not unrecoverable) | no transmitter; an exchange index
        beyond the map is "no such index".
    Definitions only; lemmas are in Proofs/Engine.v. *)
From Coq Require Import List ZArith NArith Bool.
Import ListNotations.
Local Open Scope N_scope.

(* ---------------------------------------------------------------------------------------- *)
(** * Requests, orders *)

Inductive side := Buy | Sell.
Inductive okind := Market | Limit.
(** GoodUntilCancelled{post_only} | GoodUntilEndOfDay | FillOrKill | ImmediateOrCancel *)
Inductive tif := GTC (post_only : bool) | GTD | FOK | IOC.

(** OrderKey: exchange index, instrument index, strategy id, client order id *)
Record key := mkKey { k_ex : N; k_inst : N; k_strat : N; k_cid : N }.
Record ropen := mkROpen { ro_side : side; ro_price : Z; ro_qty : Z; ro_kind : okind; ro_tif : tif }.
(** OrderRequestOpen / OrderRequestCancel (exchange order id if known) *)
Record oreq := mkOReq { or_key : key; or_st : ropen }.
Record creq := mkCReq { cr_key : key; cr_id : option N }.
(** ExecutionRequest (Shutdown is never sent on the modelled paths) *)
Inductive xreq := XCancel (c : creq) | XOpen (o : oreq).

(** Open { id, time_exchange, filled_quantity } *)
Record meta := mkMeta { m_oid : N; m_time : Z; m_filled : Z }.
(** ActiveOrderState *)
Inductive ostate := OIF | OOpen (m : meta) | CIF (m : option meta).
Record order := mkOrder {
  o_key : key; o_side : side; o_price : Z; o_qty : Z; o_kind : okind; o_tif : tif; o_st : ostate }.

Definition with_st (o : order) (st : ostate) : order :=
  mkOrder (o_key o) (o_side o) (o_price o) (o_qty o) (o_kind o) (o_tif o) st.

(** ActiveOrderState::open_meta *)
Definition open_meta (st : ostate) : option meta :=
  match st with OIF => None | OOpen m => Some m | CIF m => m end.

(** Order::from(&OrderRequestOpen) *)
Definition order_of_req (r : oreq) : order :=
  let st := or_st r in
  mkOrder (or_key r) (ro_side st) (ro_price st) (ro_qty st) (ro_kind st) (ro_tif st) OIF.

(** Order::to_request_cancel *)
Definition to_request_cancel (o : order) : option creq :=
  match o_st o with
  | OIF => Some (mkCReq (o_key o) None)
  | OOpen m => Some (mkCReq (o_key o) (Some (m_oid m)))
  | CIF _ => None
  end.

Definition cr_ex (r : creq) : N := k_ex (cr_key r).
Definition or_ex (r : oreq) : N := k_ex (or_key r).
Definition xr_ex (x : xreq) : N := match x with XCancel c => cr_ex c | XOpen o => or_ex o end.

(* ---------------------------------------------------------------------------------------- *)
(** * Orders of one instrument: association list keyed by client order id.
    [oget] returns the first match; [oins] / [orem] keep a cid-sorted list sorted. The lookup
    laws (Proofs/Engine.v) hold for arbitrary lists. *)

Notation omap := (list (N * order)).

Fixpoint oget (m : omap) (c : N) : option order :=
  match m with
  | [] => None
  | (c', o) :: t => if N.eqb c c' then Some o else oget t c
  end.

Fixpoint oins (c : N) (o : order) (m : omap) : omap :=
  match m with
  | [] => [(c, o)]
  | (c', o') :: t =>
      if N.ltb c c' then (c, o) :: m
      else if N.eqb c c' then (c, o) :: t
      else (c', o') :: oins c o t
  end.

Definition orem (c : N) (m : omap) : omap := filter (fun p => negb (N.eqb c (fst p))) m.

(* ---------------------------------------------------------------------------------------- *)
(** * Engine state *)

Record pos := mkPos { p_inst : N; p_side : side; p_qty : Z }.

(** DefaultInstrumentMarketData: the L1 book (its own last_update_time, best bid and best ask as
    (price, amount)) and the last traded price (time, price).  Times are nanoseconds, decimals
    exact integers at scale 1e-8. *)
Record l1book := mkL1 { l1_time : Z; l1_bid : option (Z * Z); l1_ask : option (Z * Z) }.
Record mdata := mkMD { md_l1 : l1book; md_last : option (Z * Z) }.

(** volume_weighted_mid_price of the L1 book: needs both sides; exact integer division (inputs whose
    division is not exact, or whose amounts sum to 0 - the code panics -, are outside the input
    requirements, see [l1_ok]) *)
Definition l1_vwmid (b : l1book) : option Z :=
  match l1_bid b, l1_ask b with
  | Some (bp, ba), Some (ap, aa) => Some ((bp * aa + ap * ba) / (ba + aa))%Z
  | _, _ => None
  end.
Definition l1_ok (b : l1book) : bool :=
  match l1_bid b, l1_ask b with
  | Some (bp, ba), Some (ap, aa) =>
      Z.ltb 0 (ba + aa) && Z.eqb ((bp * aa + ap * ba) mod (ba + aa)) 0
  | _, _ => true
  end.

(** DefaultInstrumentMarketData::price(): L1 volume-weighted mid-price, else last traded price *)
Definition md_price (d : mdata) : option Z :=
  match l1_vwmid (md_l1 d) with Some p => Some p | None => option_map snd (md_last d) end.

(** One InstrumentState: exchange index, underlying (base, quote asset indices), orders,
    current position, market data. The instrument's key is its position; its kind (spot /
    perpetual / future / option, contract size, settlement asset) is not represented: nothing on
    the modelled paths reads it. *)
Record inst := mkInst {
  i_ex : N; i_base : N; i_quote : N;
  i_orders : omap; i_pos : option pos; i_data : mdata }.

Definition i_price (i : inst) : option Z := md_price (i_data i).

Inductive link := LOpen (mb : list xreq) | LClosed | LUnhealthy | LMissing.

(** [trading] = true for TradingState::Enabled *)
Record state := mkState { trading : bool; links : list link; insts : list inst }.

Definition with_orders (i : inst) (m : omap) : inst :=
  mkInst (i_ex i) (i_base i) (i_quote i) m (i_pos i) (i_data i).
Definition with_pos (i : inst) (p : option pos) : inst :=
  mkInst (i_ex i) (i_base i) (i_quote i) (i_orders i) p (i_data i).
Definition with_data (i : inst) (l : mdata) : inst :=
  mkInst (i_ex i) (i_base i) (i_quote i) (i_orders i) (i_pos i) l.

Fixpoint upd_nth {A} (l : list A) (n : nat) (f : A -> A) : list A :=
  match l, n with
  | [], _ => []
  | x :: t, O => f x :: t
  | x :: t, S k => x :: upd_nth t k f
  end.

Definition nthN {A} (l : list A) (n : N) : option A := nth_error l (N.to_nat n).
Definition updN {A} (l : list A) (n : N) (f : A -> A) : list A := upd_nth l (N.to_nat n) f.

(** orders of instrument [i], client order id [c] *)
Definition ord (is_ : list inst) (i c : N) : option order :=
  match nthN is_ i with Some x => oget (i_orders x) c | None => None end.

(* ---------------------------------------------------------------------------------------- *)
(** * Execution links: ExecutionTxMap::find + Tx::send *)

Inductive errk := KIndex | KTerminated | KUnhealthy.
Definition unrecoverable (k : errk) : bool := match k with KUnhealthy => false | _ => true end.

Inductive lstat := SOpen | SClosed | SUnhealthy | SMissing | SNoIndex.

Definition lstat_of (ls : list link) (e : N) : lstat :=
  match nthN ls e with
  | None => SNoIndex
  | Some (LOpen _) => SOpen
  | Some LClosed => SClosed
  | Some LUnhealthy => SUnhealthy
  | Some LMissing => SMissing
  end.

Definition mbox (ls : list link) (e : N) : list xreq :=
  match nthN ls e with Some (LOpen mb) => mb | _ => [] end.

Definition link_open (ls : list link) (e : N) : bool :=
  match lstat_of ls e with SOpen => true | _ => false end.

(** error class reported for a request to a link in the given condition *)
Definition err_of_stat (s : lstat) : errk :=
  match s with
  | SClosed => KTerminated
  | SUnhealthy => KUnhealthy
  | SOpen | SMissing | SNoIndex => KIndex
  end.

Definition push (x : xreq) (l : link) : link :=
  match l with LOpen mb => LOpen (mb ++ [x]) | other => other end.

(** send_request: find the transmitter (IndexError if the index is out of range or the entry is
    None), then send (ExecutionChannelTerminated if unrecoverable, ExecutionChannelUnhealthy
    otherwise). *)
Definition send_one (ls : list link) (x : xreq) : list link * option errk :=
  match nthN ls (xr_ex x) with
  | None => (ls, Some KIndex)
  | Some LMissing => (ls, Some KIndex)
  | Some LClosed => (ls, Some KTerminated)
  | Some LUnhealthy => (ls, Some KUnhealthy)
  | Some (LOpen _) => (updN ls (xr_ex x) (push x), None)
  end.

Record sendout (R : Type) := mkSendOut { so_sent : list R; so_errs : list (R * errk) }.
Arguments mkSendOut {R}. Arguments so_sent {R}. Arguments so_errs {R}.

(** send_requests: every request is attempted, in order; partition_result *)
Fixpoint send_requests {R} (inj : R -> xreq) (ls : list link) (rs : list R)
  : list link * sendout R :=
  match rs with
  | [] => (ls, mkSendOut [] [])
  | r :: t =>
      let '(ls1, res) := send_one ls (inj r) in
      let '(ls2, out) := send_requests inj ls1 t in
      match res with
      | None => (ls2, mkSendOut (r :: so_sent out) (so_errs out))
      | Some k => (ls2, mkSendOut (so_sent out) ((r, k) :: so_errs out))
      end
  end.

Definition so_empty {R} (o : sendout R) : bool :=
  match so_sent o, so_errs o with [], [] => true | _, _ => false end.

Definition so_unrec {R} (o : sendout R) : list errk :=
  filter unrecoverable (map snd (so_errs o)).

(** NoneOneOrMany::extend: a single left element is pushed BEHIND a right operand of two or more
    (the collection's own quirk; it only affects the order in which errors are listed) *)
Definition nom_extend {A} (l r : list A) : list A :=
  match l, r with
  | [x], _ :: _ :: _ => r ++ [x]
  | _, _ => l ++ r
  end.

(* ---------------------------------------------------------------------------------------- *)
(** * In-flight recording : EngineState record_in_flight_x then Orders record_in_flight_x.
    A request naming an instrument index that does not exist panics in the code; the model leaves
    the state unchanged (such requests are excluded by hypothesis). *)

Definition record_cancel (is_ : list inst) (r : creq) : list inst :=
  updN is_ (k_inst (cr_key r)) (fun x =>
    match oget (i_orders x) (k_cid (cr_key r)) with
    | None => x                                   (* untracked: ignored *)
    | Some o => with_orders x (oins (k_cid (cr_key r)) (with_st o (CIF (open_meta (o_st o)))) (i_orders x))
    end).

Definition record_open (is_ : list inst) (r : oreq) : list inst :=
  updN is_ (k_inst (or_key r)) (fun x =>
    with_orders x (oins (k_cid (or_key r)) (order_of_req r) (i_orders x))).

Definition record_cancels (is_ : list inst) (rs : list creq) : list inst := fold_left record_cancel rs is_.
Definition record_opens (is_ : list inst) (rs : list oreq) : list inst := fold_left record_open rs is_.

(* ---------------------------------------------------------------------------------------- *)
(** * Strategy / risk script and algorithmic order generation *)

(** what the AlgoStrategy returns this tick, and the RiskManager's verdict for each request
    (true = approved; a missing verdict counts as approved) *)
Record gscript := mkGScript {
  gs_cancels : list creq; gs_opens : list oreq; gs_cmask : list bool; gs_omask : list bool }.

Fixpoint split_mask {A} (m : list bool) (l : list A) : list A * list A :=
  match l with
  | [] => ([], [])
  | x :: t =>
      let '(a, r) := split_mask (tl m) t in
      if hd true m then (x :: a, r) else (a, x :: r)
  end.

Record algo_out := mkAlgo {
  ao_cancels : sendout creq; ao_opens : sendout oreq;
  ao_crefused : list creq; ao_orefused : list oreq }.

(** GenerateAlgoOrders::generate_algo_orders *)
Definition generate (s : state) (g : gscript) : state * algo_out :=
  let '(ac, rc) := split_mask (gs_cmask g) (gs_cancels g) in
  let '(ao, ro) := split_mask (gs_omask g) (gs_opens g) in
  let '(ls1, co) := send_requests XCancel (links s) ac in
  let '(ls2, oo) := send_requests XOpen ls1 ao in
  let is1 := record_cancels (insts s) (so_sent co) in
  let is2 := record_opens is1 (so_sent oo) in
  (mkState (trading s) ls2 is2, mkAlgo co oo rc ro).

Definition algo_empty (a : algo_out) : bool :=
  so_empty (ao_cancels a) && so_empty (ao_opens a) &&
  match ao_crefused a, ao_orefused a with [], [] => true | _, _ => false end.

Definition algo_unrec (a : algo_out) : list errk := nom_extend (so_unrec (ao_cancels a)) (so_unrec (ao_opens a)).

(* ---------------------------------------------------------------------------------------- *)
(** * Instrument filter and the two filter commands *)

Inductive ifilter :=
| FNone
| FExchanges (l : list N)
| FInstruments (l : list N)
| FUnderlyings (l : list (N * N)).

Definition memN (x : N) (l : list N) : bool := existsb (N.eqb x) l.
Definition memNN (x : N * N) (l : list (N * N)) : bool :=
  existsb (fun y => N.eqb (fst x) (fst y) && N.eqb (snd x) (snd y)) l.

(** InstrumentStates::filtered predicate for the instrument stored at index [idx] *)
Definition filter_match (f : ifilter) (idx : N) (i : inst) : bool :=
  match f with
  | FNone => true
  | FExchanges l => memN (i_ex i) l
  | FInstruments l => memN idx l
  | FUnderlyings l => memNN (i_base i, i_quote i) l
  end.

Fixpoint indexed_from {A} (n : N) (l : list A) : list (N * A) :=
  match l with [] => [] | x :: t => (n, x) :: indexed_from (N.succ n) t end.
Definition indexed {A} (l : list A) : list (N * A) := indexed_from 0 l.

Definition filtered (f : ifilter) (is_ : list inst) : list (N * inst) :=
  filter (fun p => filter_match f (fst p) (snd p)) (indexed is_).

Fixpoint filter_map {A B} (f : A -> option B) (l : list A) : list B :=
  match l with
  | [] => []
  | x :: t => match f x with Some y => y :: filter_map f t | None => filter_map f t end
  end.

(** the requests CancelOrders::cancel_orders builds (in the model: instruments in index order,
    orders in list order; the code iterates a hash map, so the order within an instrument is
    unspecified) *)
Definition cancel_requests (f : ifilter) (is_ : list inst) : list creq :=
  flat_map (fun p => filter_map to_request_cancel (map snd (i_orders (snd p)))) (filtered f is_).

Definition flip_side (s : side) : side := match s with Buy => Sell | Sell => Buy end.

(** build_ioc_market_order_to_close_position *)
Definition close_order (ex : N) (p : pos) (strat : N) (price : Z) (cid : N) : oreq :=
  mkOReq (mkKey ex (p_inst p) strat cid) (mkROpen (flip_side (p_side p)) price (p_qty p) Market IOC).

(** close_open_positions_with_market_orders: no cancels; one order per filtered instrument that
    has a position and a price. [gen_cid] is the user's client-order-id generator, applied to the
    instrument (its index here). *)
Definition default_close (strat : N) (gen_cid : N -> N) (s : state) (f : ifilter)
  : list creq * list oreq :=
  ([], filter_map (fun p =>
         match i_pos (snd p), i_price (snd p) with
         | Some ps, Some pr => Some (close_order (i_ex (snd p)) ps strat pr (gen_cid (fst p)))
         | _, _ => None
         end) (filtered f (insts s))).

Inductive command :=
| CSendCancels (l : list creq)
| CSendOpens (l : list oreq)
| CClosePositions (f : ifilter)
| CCancelOrders (f : ifilter).

(** ActionOutput (its GenerateAlgoOrders variant is never produced by [action]) *)
Inductive action_out :=
| AOCancel (o : sendout creq)
| AOOpen (o : sendout oreq)
| AOClose (c : sendout creq) (o : sendout oreq).

Definition action_unrec (a : action_out) : list errk :=
  match a with
  | AOCancel o => so_unrec o
  | AOOpen o => so_unrec o
  | AOClose c o => nom_extend (so_unrec c) (so_unrec o)
  end.

(** Engine::action.  [cs] is the ClosePositionsStrategy. *)
Definition action (cs : state -> ifilter -> list creq * list oreq) (s : state) (c : command)
  : state * action_out :=
  match c with
  | CSendCancels rs =>
      let '(ls1, out) := send_requests XCancel (links s) rs in
      (mkState (trading s) ls1 (record_cancels (insts s) (so_sent out)), AOCancel out)
  | CSendOpens rs =>
      let '(ls1, out) := send_requests XOpen (links s) rs in
      (mkState (trading s) ls1 (record_opens (insts s) (so_sent out)), AOOpen out)
  | CClosePositions f =>
      let '(cancels, opens) := cs s f in
      let '(ls1, co) := send_requests XCancel (links s) cancels in
      let '(ls2, oo) := send_requests XOpen ls1 opens in
      let is1 := record_cancels (insts s) (so_sent co) in
      let is2 := record_opens is1 (so_sent oo) in
      (mkState (trading s) ls2 is2, AOClose co oo)
  | CCancelOrders f =>
      let '(ls1, out) := send_requests XCancel (links s) (cancel_requests f (insts s)) in
      (mkState (trading s) ls1 (record_cancels (insts s) (so_sent out)), AOCancel out)
  end.

(* ---------------------------------------------------------------------------------------- *)
(** * Account and market updates (the part of the state the request path reads) *)

(** the state an order snapshot reports: Open{..}, inactive (Cancelled / FullyFilled / Expired /
    OpenFailed are treated alike), or an in-flight marker (OpenInFlight, CancelInFlight{order}) *)
Inductive snap := SnOpen (m : meta) | SnInactive | SnOIF | SnCIF (u : option meta).

Definition remaining (q : Z) (m : meta) : Z := (q - m_filled m)%Z.

(** Orders::update_from_order_snapshot; [o] carries the snapshot's own fields *)
Definition snapshot_orders (m : omap) (o : order) (sn : snap) : omap :=
  let c := k_cid (o_key o) in
  match oget m c with
  | None =>
      match sn with
      | SnInactive => m
      | SnOpen mt => if Z.eqb (remaining (o_qty o) mt) 0 then m else oins c (with_st o (OOpen mt)) m
      | SnOIF => oins c (with_st o OIF) m
      | SnCIF u => oins c (with_st o (CIF u)) m
      end
  | Some cur =>
      match sn with
      | SnInactive => orem c m
      | SnOIF => m                                                    (* duplicate / stale marker *)
      | SnOpen mt =>
          let fresh :=
            match o_st cur with
            | OIF => true
            | OOpen cm => Z.leb (m_time cm) (m_time mt)
            | CIF None => true
            | CIF (Some cm) => Z.leb (m_time cm) (m_time mt)
            end in
          if fresh then
            if Z.eqb (remaining (o_qty o) mt) 0 then orem c m
            else oins c (with_st cur (match o_st cur with CIF _ => CIF (Some mt) | _ => OOpen mt end)) m
          else m
      | SnCIF u =>
          match o_st cur with
          | OIF => oins c (with_st cur (CIF u)) m
          | OOpen cm =>
              let latest := match u with
                            | Some um => if Z.leb (m_time cm) (m_time um) then um else cm
                            | None => cm
                            end in
              oins c (with_st cur (CIF (Some latest))) m
          | CIF _ => m
          end
      end
  end.

(** Orders::update_from_cancel_response *)
Definition cancel_response_orders (m : omap) (c : N) (ok : bool) : omap :=
  match oget m c with
  | None => m
  | Some cur =>
      if ok then orem c m
      else match o_st cur with
           | CIF (Some mt) => oins c (with_st cur (OOpen mt)) m
           | CIF None => orem c m
           | _ => m
           end
  end.

(** side / quantity part of PositionManager::update_from_trade; result and "position exited" *)
Definition side_eqb (a b : side) : bool := match a, b with Buy, Buy | Sell, Sell => true | _, _ => false end.

Definition trade_pos (cur : option pos) (i : N) (sd : side) (q : Z) : option pos * bool :=
  let q := Z.abs q in
  match cur with
  | None => (Some (mkPos i sd q), false)
  | Some p =>
      if negb (N.eqb (p_inst p) i) then (Some p, false)          (* sanity check *)
      else if side_eqb (p_side p) sd then (Some (mkPos (p_inst p) (p_side p) (p_qty p + q)), false)
      else if Z.ltb q (p_qty p) then (Some (mkPos (p_inst p) (p_side p) (p_qty p - q)), false)
      else if Z.eqb q (p_qty p) then (None, true)
      else (Some (mkPos i sd (q - p_qty p)), true)
  end.

(** DefaultInstrumentMarketData::process for a public trade: strictly newer wins *)
Definition market_last (cur : option (Z * Z)) (t p : Z) : option (Z * Z) :=
  match cur with
  | None => Some (t, p)
  | Some (t0, _) => if Z.ltb t0 t then Some (t, p) else cur
  end.
Definition data_trade (d : mdata) (t p : Z) : mdata := mkMD (md_l1 d) (market_last (md_last d) t p).

(** ... for an OrderBookL1 event at exchange time [t]: the payload replaces the book iff the
    book's own last_update_time is strictly older than [t] *)
Definition data_l1 (d : mdata) (t : Z) (b : l1book) : mdata :=
  if Z.ltb (l1_time (md_l1 d)) t then mkMD b (md_last d) else d.

(* ---------------------------------------------------------------------------------------- *)
(** * Engine events and Engine::process *)

Inductive event :=
| EvShutdown
| EvCommand (c : command)
| EvTradingState (enabled : bool)
| EvOrderSnapshot (o : order) (sn : snap)     (* AccountEventKind::OrderSnapshot; o_st o is ignored *)
| EvAccountSnapshot (l : list (order * snap)) (* AccountEventKind::Snapshot: the order snapshots of all its
                                                 instrument groups, in order (each names its group's
                                                 instrument: input requirement); balances are not modelled *)
| EvCancelResponse (k : key) (ok : bool)       (* AccountEventKind::OrderCancelled *)
| EvTrade (i : N) (sd : side) (q : Z)          (* AccountEventKind::Trade *)
| EvAccountReconnecting
| EvMarketTrade (i : N) (t p : Z)              (* MarketEvent DataKind::Trade *)
| EvMarketL1 (i : N) (t : Z) (b : l1book)      (* MarketEvent DataKind::OrderBookL1 *)
| EvOther                                      (* events without effect on the modelled state: balance
                                                  snapshots; L2 book, candle, liquidation market events *)
| EvMarketReconnecting.

Inductive output :=
| OutCommanded (a : action_out)
| OutTradingDisabled
| OutAccountDisconnect
| OutPositionExit (i : N)
| OutMarketDisconnect
| OutAlgo (a : algo_out).

(** ProcessAudit outputs / errors *)
Record audit := mkAudit { au_outputs : list output; au_errors : list errk }.

Definition set_insts (s : state) (is_ : list inst) : state := mkState (trading s) (links s) is_.
Definition set_trading (s : state) (b : bool) : state := mkState b (links s) (insts s).

(** The state update an event performs by itself (no requests involved): what "the engine keeps
    updating its state" refers to. Commands and Shutdown update nothing here. *)
Definition update_state (s : state) (ev : event) : state * list output :=
  match ev with
  | EvShutdown | EvCommand _ => (s, [])
  | EvTradingState b =>
      (* TradingState::update + transitioned_to_disabled -> OnTradingDisabled strategy *)
      (set_trading s b, if trading s && negb b then [OutTradingDisabled] else [])
  | EvOrderSnapshot o sn =>
      (set_insts s (updN (insts s) (k_inst (o_key o))
                      (fun x => with_orders x (snapshot_orders (i_orders x) o sn))), [])
  | EvAccountSnapshot l =>
      (set_insts s (fold_left (fun is_ p =>
                      updN is_ (k_inst (o_key (fst p)))
                        (fun x => with_orders x (snapshot_orders (i_orders x) (fst p) (snd p)))) l (insts s)), [])
  | EvCancelResponse k ok =>
      (set_insts s (updN (insts s) (k_inst k)
                      (fun x => with_orders x (cancel_response_orders (i_orders x) (k_cid k) ok))), [])
  | EvTrade i sd q =>
      match nthN (insts s) i with
      | None => (s, [])
      | Some x =>
          let '(p, exited) := trade_pos (i_pos x) i sd q in
          (set_insts s (updN (insts s) i (fun x => with_pos x p)),
           if exited then [OutPositionExit i] else [])
      end
  | EvAccountReconnecting => (s, [OutAccountDisconnect])
  | EvMarketTrade i t p =>
      (set_insts s (updN (insts s) i (fun x => with_data x (data_trade (i_data x) t p))), [])
  | EvMarketL1 i t b =>
      (set_insts s (updN (insts s) i (fun x => with_data x (data_l1 (i_data x) t b))), [])
  | EvOther => (s, [])
  | EvMarketReconnecting => (s, [OutMarketDisconnect])
  end.

(** Everything Engine::process does, before the audit is assembled:
      final state, the command's ActionOutput (if the event is a command), the outputs of the
      event's own update, the GenerateAlgoOrdersOutput (if generation ran). *)
Record trace := mkTrace {
  tr_action : option action_out; tr_update : list output; tr_algo : option algo_out }.

Definition process_trace (cs : state -> ifilter -> list creq * list oreq)
    (s : state) (ev : event) (g : gscript) : state * trace :=
  match ev with
  | EvShutdown => (s, mkTrace None [] None)                       (* early return *)
  | EvCommand c =>
      let '(s1, out) := action cs s c in
      match action_unrec out with
      | _ :: _ => (s1, mkTrace (Some out) [] None)                (* early return: fatal *)
      | [] =>
          if trading s1 then
            let '(s2, a) := generate s1 g in (s2, mkTrace (Some out) [] (Some a))
          else (s1, mkTrace (Some out) [] None)
      end
  | _ =>
      let '(s1, outs) := update_state s ev in
      if trading s1 then
        let '(s2, a) := generate s1 g in (s2, mkTrace None outs (Some a))
      else (s1, mkTrace None outs None)
  end.

(** The audit Engine::process returns.  Note the asymmetry: a fatal error in the command keeps
    the command's output; a fatal error in generation adds only the errors and drops the
    GenerateAlgoOrdersOutput. *)
Definition audit_of (t : trace) : audit :=
  let base_out := match tr_action t with Some a => [OutCommanded a] | None => [] end ++ tr_update t in
  let base_err := match tr_action t with Some a => action_unrec a | None => [] end in
  match tr_algo t with
  | None => mkAudit base_out base_err
  | Some a =>
      if algo_empty a then mkAudit base_out base_err
      else match algo_unrec a with
           | [] => mkAudit (base_out ++ [OutAlgo a]) base_err
           | errs => mkAudit base_out (nom_extend base_err errs)
           end
  end.

Definition process (cs : state -> ifilter -> list creq * list oreq)
    (s : state) (ev : event) (g : gscript) : state * audit :=
  let '(s', t) := process_trace cs s ev g in (s', audit_of t).

(* ---------------------------------------------------------------------------------------- *)
(** * Abstract specification used by the theorems and the oracles *)

(** requests of a batch that an open link accepts / that fail, by the link table alone *)
Definition spec_sent {R} (ex : R -> N) (ls : list link) (rs : list R) : list R :=
  filter (fun r => link_open ls (ex r)) rs.
Definition spec_errs {R} (ex : R -> N) (ls : list link) (rs : list R) : list (R * errk) :=
  map (fun r => (r, err_of_stat (lstat_of ls (ex r))))
      (filter (fun r => negb (link_open ls (ex r))) rs).

(** requests addressed to exchange [e] *)
Definition to_ex (e : N) (xs : list xreq) : list xreq := filter (fun x => N.eqb (xr_ex x) e) xs.

Definition key_at (i c : N) (k : key) : bool := N.eqb (k_inst k) i && N.eqb (k_cid k) c.
Definition names_c (i c : N) (rs : list creq) : bool := existsb (fun r => key_at i c (cr_key r)) rs.
Definition names_o (i c : N) (rs : list oreq) : bool := existsb (fun r => key_at i c (or_key r)) rs.

Definition in_flight (st : ostate) : bool := match st with OOpen _ => false | _ => true end.

(** pointwise in-flight marks of one batch of sent requests (cancels are recorded before opens):
    the order held for instrument [i], client order id [c] afterwards, given [base] before *)
Fixpoint last_open (i c : N) (rs : list oreq) : option oreq :=
  match rs with
  | [] => None
  | r :: t =>
      match last_open i c t with
      | Some r' => Some r'
      | None => if key_at i c (or_key r) then Some r else None
      end
  end.
Definition mark_cancel (o : option order) : option order :=
  match o with Some o => Some (with_st o (CIF (open_meta (o_st o)))) | None => None end.
Definition marked (base : N -> N -> option order) (cs : list creq) (os : list oreq) (i c : N) : option order :=
  match last_open i c os with
  | Some r => Some (order_of_req r)
  | None => if names_c i c cs then mark_cancel (base i c) else base i c
  end.

Definition has_inst (is_ : list inst) (i : N) : bool :=
  match nthN is_ i with Some _ => true | None => false end.

(** the two request lists a command submits *)
Definition command_requests (cs : state -> ifilter -> list creq * list oreq) (s : state) (c : command)
  : list creq * list oreq :=
  match c with
  | CSendCancels rs => (rs, [])
  | CSendOpens rs => ([], rs)
  | CClosePositions f => cs s f
  | CCancelOrders f => (cancel_requests f (insts s), [])
  end.

Definition action_cancels (a : action_out) : sendout creq :=
  match a with AOCancel o => o | AOOpen _ => mkSendOut [] [] | AOClose c _ => c end.
Definition action_opens (a : action_out) : sendout oreq :=
  match a with AOCancel _ => mkSendOut [] [] | AOOpen o => o | AOClose _ o => o end.

(** everything a trace says was sent, in sending order *)
Definition action_sent (a : action_out) : list xreq :=
  match a with
  | AOCancel o => map XCancel (so_sent o)
  | AOOpen o => map XOpen (so_sent o)
  | AOClose c o => map XCancel (so_sent c) ++ map XOpen (so_sent o)
  end.
Definition algo_sent (a : algo_out) : list xreq :=
  map XCancel (so_sent (ao_cancels a)) ++ map XOpen (so_sent (ao_opens a)).
Definition trace_sent (t : trace) : list xreq :=
  match tr_action t with Some a => action_sent a | None => [] end ++
  match tr_algo t with Some a => algo_sent a | None => [] end.

Definition trace_unrec (t : trace) : list errk :=
  match tr_action t with Some a => action_unrec a | None => [] end ++
  match tr_algo t with Some a => algo_unrec a | None => [] end.

Definition output_sent (o : output) : list xreq :=
  match o with OutCommanded a => action_sent a | OutAlgo a => algo_sent a | _ => [] end.
Definition audit_sent (a : audit) : list xreq := flat_map output_sent (au_outputs a).

(** well-formed state: every instrument's orders are sorted by client order id (so no id occurs
    twice), stored under their own client order id and name that instrument; a position names its
    instrument.  Preserved by every engine step (Proofs/Engine.v, state_wf_process). *)
Fixpoint sorted_keys (m : omap) : bool :=
  match m with
  | [] => true
  | (c, _) :: t => match t with [] => true | (c', _) :: _ => N.ltb c c' end && sorted_keys t
  end.
Definition keys_ok (idx : N) (m : omap) : bool :=
  forallb (fun p => N.eqb (k_cid (o_key (snd p))) (fst p) && N.eqb (k_inst (o_key (snd p))) idx) m.
Definition inst_wf (idx : N) (i : inst) : bool :=
  sorted_keys (i_orders i) && keys_ok idx (i_orders i) &&
  match i_pos i with Some p => N.eqb (p_inst p) idx | None => true end.
Definition state_wf (s : state) : bool :=
  forallb (fun p => inst_wf (fst p) (snd p)) (indexed (insts s)).

(** C19 vocabulary: the cancel request addressing an order (exchange order id when known), orders
    not already being cancelled, instruments the default close strategy acts on *)
Definition cancel_of_order (o : order) : creq :=
  mkCReq (o_key o) (match o_st o with OOpen m => Some (m_oid m) | _ => None end).
Definition not_cif (o : order) : bool := match o_st o with CIF _ => false | _ => true end.
Definition closable (x : inst) : bool :=
  match i_pos x, i_price x with Some _, Some _ => true | _, _ => false end.
