(** C13 — Binance OrderBooksL2 (spot and USD futures): which instrument key a depth update is
    attributed to.  [Binance{Spot,FuturesUsd}OrderBooksL2Transformer::init] builds, for every
    (subscription id, key) entry of the mapper's table, the metadata (key, sequencer seeded with
    the lastUpdateId of the REST snapshot fetched for THAT key); [transform] looks the metadata
    up by the message's subscription id ("@depth@100ms|<s>"), lets the sequencer validate and
    emits the update with the metadata's key.  The sequencing rules themselves are C06's subject:
    they are reused from Model/BinanceSeq.v (qualified), not restated.  Definitions only. *)
From Coq Require Import String List ZArith NArith Bool.
From BV Require Import Model.SubId.
From BV Require Model.BinanceSeq.
Import ListNotations.
Local Open Scope string_scope.

(** [BinanceChannel::ORDER_BOOK_L2] *)
Definition l2_channel : string := "@depth@100ms".

Definition l2_sid (e : exch) (s : sub) : string := sub_id l2_channel (market_of e (snd s)).
(** [WebSocketSubMapper::map] for [Subscription<Binance<_>, _, OrderBooksL2>] *)
Definition l2_map_subs (e : exch) (subs : list sub) : imap := map_ids (l2_sid e) subs.

(** a depth update: "s", "U", "u", "pu" (futures), "E", "T" (futures), "b", "a" *)
Record l2msg := mkL2 {
  l_sym : string; l_U : N; l_u : N; l_pu : N; l_E : Z; l_T : Z;
  l_bids : list (Z * Z); l_asks : list (Z * Z) }.

Definition venue_of (e : exch) : BinanceSeq.venue :=
  match e with BinanceFuturesUsd => BinanceSeq.Fut | _ => BinanceSeq.Spot end.
Definition seq_msg (m : l2msg) : BinanceSeq.msg :=
  BinanceSeq.mkMsg (l_U m) (l_u m) (l_pu m) (l_E m) (l_T m) [] [].

(** REST snapshots as handed to [init]: (instrument key, lastUpdateId), in the given order *)
Notation snap := (N * N)%type.
Definition snap_of (snaps : list snap) (k : N) : option snap := find (fun sn => N.eqb (fst sn) k) snaps.

Notation l2tab := (string -> option (N * BinanceSeq.seqst)).

(** [init]: every table entry needs the snapshot of its key (else InitialSnapshotMissing) *)
Definition l2_init (e : exch) (subs : list sub) (snaps : list snap) : option l2tab :=
  let m := l2_map_subs e subs in
  if forallb (fun s => match m (l2_sid e s) with
                       | Some k => match snap_of snaps k with Some _ => true | None => false end
                       | None => true
                       end) subs
  then Some (fun id => match m id with
                       | Some k => match snap_of snaps k with
                                   | Some sn => Some (k, BinanceSeq.seq_new (snd sn))
                                   | None => None
                                   end
                       | None => None
                       end)
  else None.

Inductive l2item :=
| L2Ev (key : N) (ex : exch) (t_exchange : Z) (sequence : N) (t_engine : option Z) (bids asks : list (Z * Z))
| L2Unident (id : string)
| L2InvalidSeq (prev_last_update_id first_update_id : N)
| L2Err (text : string).
Inductive l2out := L2Deser | L2Out (l : list l2item) | L2Panic.

Definition l2_time_engine (e : exch) (m : l2msg) : option Z :=
  match venue_of e with BinanceSeq.Fut => Some (l_T m) | BinanceSeq.Spot => None end.

Definition l2_event (e : exch) (k : N) (m : l2msg) : l2item :=
  L2Ev k e (l_E m) (l_u m) (l2_time_engine e m) (l_bids m) (l_asks m).

(** [transform] *)
Definition l2_transform (e : exch) (t : l2tab) (m : l2msg) : l2tab * l2out :=
  let id := sub_id l2_channel (l_sym m) in
  match t id with
  | None => (t, L2Out [L2Unident id])
  | Some (k, s) =>
      let r := BinanceSeq.validate_sequence (venue_of e) s (seq_msg m) in
      (fun x => if String.eqb x id then Some (k, fst r) else t x,
       match snd r with
       | BinanceSeq.VDrop => L2Out []
       | BinanceSeq.VOk => L2Out [l2_event e k m]
       | BinanceSeq.VErr (BinanceSeq.InvalidSequence p f) => L2Out [L2InvalidSeq p f]
       | BinanceSeq.VErr _ => L2Out [L2Err ""]
       end)
  end.

Fixpoint l2_run (e : exch) (t : l2tab) (ms : list l2msg) : list l2out :=
  match ms with
  | [] => []
  | m :: tl => let r := l2_transform e t m in snd r :: l2_run e (fst r) tl
  end.

(** venue rule for the first depth update after a snapshot with lastUpdateId [l]
    (Binance docs, quoted in spot/l2.rs and futures/l2.rs) *)
Definition first_update_valid (e : exch) (l : N) (m : l2msg) : bool :=
  match venue_of e with
  | BinanceSeq.Spot => N.leb (l_U m) (l + 1) && N.leb (l + 1) (l_u m)
  | BinanceSeq.Fut => N.leb (l_U m) l && N.leb l (l_u m)
  end.
