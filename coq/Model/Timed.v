(** Model of the "latest exchange timestamp wins" state of the engine (property C09):
      barter/src/engine/state/asset/mod.rs        AssetState::update_from_balance  (time <= guard)
      barter/src/engine/state/instrument/data.rs  DefaultInstrumentMarketData::process
                                                  (last traded price and L1: time < guards)
      barter/src/engine/state/order/mod.rs        open-order details (Model/Orders.v, <= guards)
      barter/src/engine/state/mod.rs              EngineState::update_from_account /
                                                  update_from_market routing; a full account
                                                  snapshot is applied item by item
    and the abstract "register" specification it refines to.
    Timestamps are exact integer nanoseconds since the Unix epoch (the model only compares them), decimals integers at scale 1e-8.
    Definitions only: this file still runs when a proof breaks. *)
From BV Require Export Model.Orders.
Local Open Scope Z_scope.

(* ------------------------------------------------------------------------------------------ *)
(** * Abstract specification: a register holding a timestamped value *)

(** deliveries are (exchange time, value) *)
Notation reg V := (option (Z * V)).

(** equal timestamps overwrite *)
Definition put_le {V} (r : reg V) (d : Z * V) : reg V :=
  match r with
  | None => Some d
  | Some (t0, _) => if Z.leb t0 (fst d) then Some d else r
  end.

(** equal timestamps keep *)
Definition put_lt {V} (r : reg V) (d : Z * V) : reg V :=
  match r with
  | None => Some d
  | Some (t0, _) => if Z.ltb t0 (fst d) then Some d else r
  end.

(** everything the register has seen: its initial content, then the deliveries *)
Definition seen {V} (r0 : reg V) (ds : list (Z * V)) : list (Z * V) :=
  match r0 with Some d => d :: ds | None => ds end.

(* ------------------------------------------------------------------------------------------ *)
(** * The code *)

(** [Balance] : total, free *)
Notation balance := (Z * Z)%type.

(** [AssetBalance<AssetIndex>] : asset index, exchange time, balance *)
Record bmsg := BM { b_asset : Z; b_time : Z; b_val : balance }.

(** [AssetState::update_from_balance] on [AssetState.balance : Option<Timed<Balance>>] *)
Definition update_from_balance (cur : reg balance) (m : bmsg) : reg balance :=
  match cur with
  | None => Some (b_time m, b_val m)
  | Some (t0, v0) => if Z.leb t0 (b_time m) then Some (b_time m, b_val m) else Some (t0, v0)
  end.

(** [OrderBookL1] : last_update_time, best bid, best ask (price, amount) *)
Record l1 := L1 { lut : Z; best_bid : option (Z * Z); best_ask : option (Z * Z) }.
Definition l1_default : l1 := L1 0 None None.      (* OrderBookL1::default(): the Unix epoch *)

(** the [DataKind]s [DefaultInstrumentMarketData::process] distinguishes; the trade price is
    [None] when [Decimal::from_f64] fails (NaN / infinite / out of range) *)
Inductive mkind := MTrade (price : option Z) | ML1 (b : l1) | MOther.

(** [DefaultInstrumentMarketData] *)
Record mdata := MD { md_l1 : l1; md_last : reg Z }.
Definition mdata_default : mdata := MD l1_default None.

(** [DefaultInstrumentMarketData::process(&MarketEvent)] : [t] = event.time_exchange *)
Definition market_process (d : mdata) (t : Z) (k : mkind) : mdata :=
  match k with
  | MTrade p =>
      if (match md_last d with None => true | Some (t0, _) => Z.ltb t0 t end) then
        match p with
        | Some v => MD (md_l1 d) (Some (t, v))
        | None => d
        end
      else d
  | ML1 b => if Z.ltb (lut (md_l1 d)) t then MD b (md_last d) else d
  | MOther => d
  end.

(** the engine state the property talks about *)
Record engine := Eng {
  e_bal : Z -> reg balance;      (* AssetStates, by asset index *)
  e_md  : Z -> mdata;            (* instruments[i].data *)
  e_ord : estate }.              (* instruments[i].orders *)

Definition engine0 : engine := Eng (fun _ => None) (fun _ => mdata_default) eempty.

Definition fupd {A} (f : Z -> A) (i : Z) (v : A) : Z -> A :=
  fun j => if Z.eqb j i then v else f j.

Inductive ev :=
| ABalance (m : bmsg)                              (* AccountEventKind::BalanceSnapshot *)
| ASnapshot (bals : list bmsg) (insts : list isnap)(* AccountEventKind::Snapshot *)
| AOrd (o : op)                                    (* OrderSnapshot / OrderCancelled and the
                                                      in-flight recorders, see Model/Orders.v *)
| Market (inst t : Z) (k : mkind).                 (* MarketEvent<InstrumentIndex, DataKind> *)

Definition bal_step (b : Z -> reg balance) (m : bmsg) : Z -> reg balance :=
  fupd b (b_asset m) (update_from_balance (b (b_asset m)) m).

(** [EngineState::update_from_account] / [update_from_market] *)
Definition estep9 (e : engine) (x : ev) : engine :=
  match x with
  | ABalance m => Eng (bal_step (e_bal e) m) (e_md e) (e_ord e)
  | ASnapshot bals insts =>
      Eng (fold_left bal_step bals (e_bal e)) (e_md e) (estep (e_ord e) (EAcctSnapshot insts))
  | AOrd o => Eng (e_bal e) (e_md e) (estep (e_ord e) (EOrd o))
  | Market i t k => Eng (e_bal e) (fupd (e_md e) i (market_process (e_md e i) t k)) (e_ord e)
  end.

Definition erun9 (xs : list ev) (e : engine) : engine := fold_left estep9 xs e.

(* ------------------------------------------------------------------------------------------ *)
(** * What was delivered for one item, in delivery order *)

Definition bal_of (a : Z) (m : bmsg) : list (Z * balance) :=
  if Z.eqb (b_asset m) a then [(b_time m, b_val m)] else [].

(** balance deliveries for asset [a] (a full snapshot delivers its balances one by one) *)
Definition bal_deliveries (a : Z) (xs : list ev) : list (Z * balance) :=
  flat_map (fun x =>
    match x with
    | ABalance m => bal_of a m
    | ASnapshot bals _ => flat_map (bal_of a) bals
    | _ => []
    end) xs.

(** public-trade deliveries for instrument [i] (those carrying a usable price) *)
Definition trade_deliveries (i : Z) (xs : list ev) : list (Z * Z) :=
  flat_map (fun x =>
    match x with
    | Market j t (MTrade (Some p)) => if Z.eqb j i then [(t, p)] else []
    | _ => []
    end) xs.

(** L1 deliveries for instrument [i] *)
Definition l1_deliveries (i : Z) (xs : list ev) : list (Z * l1) :=
  flat_map (fun x =>
    match x with
    | Market j t (ML1 b) => if Z.eqb j i then [(t, b)] else []
    | _ => []
    end) xs.

(** connectors stamp an L1 event with the book's own update time *)
Definition l1_wf (xs : list ev) : Prop :=
  forall j t b, In (Market j t (ML1 b)) xs -> lut b = t.

(** the order reports a full account snapshot carries for instrument [i], in the order listed *)
Definition reports_at (i : Z) (l : list isnap) : list osnap :=
  flat_map is_orders (filter (fun x => Z.eqb (is_inst x) i) l).

(** order inputs applied to instrument [i] (a full snapshot delivers its reports one by one) *)
Definition inst_inputs (i : Z) (xs : list ev) : list op :=
  flat_map (fun x =>
    match x with
    | AOrd o => if Z.eqb (inst_of o) i then [o] else []
    | ASnapshot _ insts => map Snap (reports_at i insts)
    | _ => []
    end) xs.

(** ... those addressed to client order id [c] *)
Definition ord_inputs (i c : Z) (xs : list ev) : list op :=
  filter (fun o => Z.eqb (cid_of o) c) (inst_inputs i xs).

(** an "open" report with something left to fill: the open-order details it delivers *)
Definition open_report (o : op) : option (Z * meta) :=
  match o with
  | Snap sn =>
      match o_state sn with
      | SA (Open m) => if Z.eqb (rem (o_qty sn) m) 0 then None else Some (m_time m, m)
      | _ => None
      end
  | _ => None
  end.

Definition open_deliveries (ops : list op) : list (Z * meta) :=
  flat_map (fun o => match open_report o with Some d => [d] | None => [] end) ops.

(** the open-order details the engine holds for an id, with their exchange time *)
Definition oreg (x : option order) : reg meta :=
  match x with
  | Some o => option_map (fun m => (m_time m, m)) (held (o_state o))
  | None => None
  end.

(* ---- decidable equalities for the correspondence comparison --------------------------------- *)

Definition zz_eqb (a b : Z * Z) : bool := Z.eqb (fst a) (fst b) && Z.eqb (snd a) (snd b).
Definition ozz_eqb (a b : option (Z * Z)) : bool :=
  match a, b with Some x, Some y => zz_eqb x y | None, None => true | _, _ => false end.
Definition regb_eqb (a b : reg balance) : bool :=
  match a, b with
  | Some (t, v), Some (t', v') => Z.eqb t t' && zz_eqb v v'
  | None, None => true
  | _, _ => false
  end.
Definition l1_eqb (a b : l1) : bool :=
  Z.eqb (lut a) (lut b) && ozz_eqb (best_bid a) (best_bid b) && ozz_eqb (best_ask a) (best_ask b).
Definition mdata_eqb (a b : mdata) : bool :=
  l1_eqb (md_l1 a) (md_l1 b) && ozz_eqb (md_last a) (md_last b).
