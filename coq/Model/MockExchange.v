(** C08 — executable model of the simulated exchange
    (barter-execution/src/exchange/mock/{mod.rs,account.rs}, client/mock/mod.rs).
    Definitions only (no proofs): this file still runs when a proof breaks.

    Decimals are exact canonical rationals [Qc]; the harness prints a rust_decimal with mantissa
    [m] and scale [s] as [(qc m s)].  Assets, instruments, strategies and client order ids are
    numbers (the harness names them "a<n>", "i<n>", "s<n>", "c<n>"); order / trade ids are the
    decimal rendering of the [u64] id counter, i.e. numbers as well.  Times are milliseconds. *)
From Coq Require Export Qcanon.
From BV Require Export Base.Common.

Definition qc (m : Z) (s : N) : Qc := Q2Qc (dq m s).
Definition Qc_eqb (x y : Qc) : bool := Qeq_bool x y.
Definition Qc_leb (x y : Qc) : bool := Qle_bool x y.
(** [Decimal::abs] *)
Definition qabs (x : Qc) : Qc := if Qc_leb 0%Qc x then x else Qcopp x.

Inductive side := Buy | Sell.
Inductive okind := Market | Limit.

(** [AssetBalance] without its key: [Balance {total, free}] and [time_exchange] *)
Record bal := mkBal { b_total : Qc; b_free : Qc; b_time : Z }.

(** [OrderRequestOpen]: key (instrument, strategy, cid) and state (side, price, quantity, kind,
    time in force: 0 GTC{post_only=false} 1 GTC{post_only=true} 2 GTD 3 FOK 4 IOC) *)
Record request := mkReq {
  r_instr : N; r_strategy : N; r_cid : N; r_side : side; r_price : Qc; r_qty : Qc;
  r_kind : okind; r_tif : N }.

Record trade := mkTrade {
  t_id : N; t_order : N; t_instr : N; t_strategy : N; t_time : Z; t_side : side;
  t_price : Qc; t_qty : Qc; t_fees : Qc }.

(** orders carried by the initial account snapshot (the exchange never creates any: market
    orders fill at once). [o_filled] is meaningless for cancelled orders (0). *)
Record order := mkOrd {
  o_cid : N; o_instr : N; o_strategy : N; o_side : side; o_price : Qc; o_qty : Qc;
  o_kind : okind; o_tif : N; o_id : N; o_time : Z; o_filled : Qc }.

Inductive oerror :=
| EKind                (* Rejected(OrderRejected _): order kind not supported *)
| EInstr (i : N)       (* Rejected(InstrumentInvalid(i, _)) *)
| EFunds (a : N)       (* Rejected(BalanceInsufficient(a, _)) *)
| EOffline.            (* Connectivity(ExchangeOffline) — produced by the client only *)

Inductive result :=
| ROpen (id : N) (time : Z) (filled : Qc)     (* Ok(Open{id,time_exchange,filled_quantity}) *)
| RErr (e : oerror).

(** [OpenOrderNotifications] *)
Record notif := mkNotif { n_asset : N; n_bal : bal; n_trade : trade }.

(** the instrument's kind as configured: 0 spot, 1 perpetual, 2 future, 3 option; its
    [contract_size] (1 for spot) and settlement asset (none for spot).  The code under test never
    looks at it, and neither does the model: the property's amounts are price x quantity resp.
    quantity irrespective of the instrument kind (theorem C08_instrument_kind_irrelevant). *)
Record ikind := mkKind { ik_kind : N; ik_size : Qc; ik_settle : option N }.

Record config := mkCfg {
  c_instruments : list (N * (N * N));     (* instrument -> (base asset, quote asset) *)
  c_fee : Qc;                             (* fees_percent *)
  c_latency : N;                          (* latency_ms *)
  c_kinds : list (N * ikind) }.           (* instrument -> kind data; informational only *)

Definition with_kinds (cfg : config) (ks : list (N * ikind)) : config :=
  mkCfg (c_instruments cfg) (c_fee cfg) (c_latency cfg) ks.

(** [MockExchange] minus channels: [account.balances] (association list, asset -> balance),
    [order_sequence], [time_exchange_latest], [account.trades], [account.orders_open],
    [account.orders_cancelled] *)
Record state := mkState {
  s_bals : list (N * bal); s_seq : N; s_now : Z; s_trades : list trade;
  s_open : list order; s_canc : list order }.

Fixpoint lookup {A : Type} (l : list (N * A)) (k : N) : option A :=
  match l with
  | [] => None
  | (k', v) :: t => if N.eqb k' k then Some v else lookup t k
  end.

Fixpoint set_bal (l : list (N * bal)) (k : N) (v : bal) : list (N * bal) :=
  match l with
  | [] => []
  | (k', v') :: t => if N.eqb k' k then (k', v) :: t else (k', v') :: set_bal t k v
  end.

(** the asset an order spends: quote for a buy, base for a sell *)
Definition spent_asset (u : N * N) (s : side) : N :=
  match s with Buy => snd u | Sell => fst u end.

(** [order_value_quote = price * quantity.abs()] / [order_value_base = quantity.abs()] *)
Definition order_value (req : request) : Qc :=
  match r_side req with
  | Buy => (r_price req * qabs (r_qty req))%Qc
  | Sell => qabs (r_qty req)
  end.
(** [order_fees_* = order_value_* * fees_percent] *)
Definition order_fees (f : Qc) (req : request) : Qc := (order_value req * f)%Qc.
(** [*_required = order_value + order_fees] *)
Definition required (f : Qc) (req : request) : Qc := (order_value req + order_fees f req)%Qc.
(** the [AssetFees::quote_fees] of the fill: a sell converts its base fee at the order price *)
Definition fees_quote (f : Qc) (req : request) : Qc :=
  match r_side req with
  | Buy => order_fees f req
  | Sell => (order_fees f req * r_price req)%Qc
  end.

Inductive outcome :=
| OPanicNoBalance      (* .expect("MockExchange has Balance for all configured Instrument assets") *)
| OPanicTotalFree      (* assert_eq!(current.balance.total, current.balance.free) *)
| ODone (st : state) (r : result) (n : option notif).

(** [MockExchange::open_order], arm by arm *)
Definition open_order (cfg : config) (st : state) (req : request) : outcome :=
  match r_kind req with
  | Limit => ODone st (RErr EKind) None
  | Market =>
    match lookup (c_instruments cfg) (r_instr req) with
    | None => ODone st (RErr (EInstr (r_instr req))) None
    | Some u =>
      let a := spent_asset u (r_side req) in
      match lookup (s_bals st) a with
      | None => OPanicNoBalance
      | Some b =>
        if negb (Qc_eqb (b_total b) (b_free b)) then OPanicTotalFree else
        let nb := (b_free b - required (c_fee cfg) req)%Qc in
        if Qc_leb 0%Qc nb then
          let b' := mkBal nb nb (s_now st) in
          let id := s_seq st in
          let tr := mkTrade id id (r_instr req) (r_strategy req) (s_now st) (r_side req)
                            (r_price req) (r_qty req) (fees_quote (c_fee cfg) req) in
          ODone (mkState (set_bal (s_bals st) a b') (N.succ id) (s_now st) (s_trades st)
                         (s_open st) (s_canc st))
                (ROpen id (s_now st) (r_qty req)) (Some (mkNotif a b' tr))
        else ODone st (RErr (EFunds a)) None
      end
    end
  end.

(** state after an order; a panic unwinds before anything was written *)
Definition step_open (cfg : config) (st : state) (req : request) : state :=
  match open_order cfg st req with ODone st' _ _ => st' | _ => st end.

Definition accepted (r : result) : bool := match r with ROpen _ _ _ => true | RErr _ => false end.

(** [AccountState::update_time_exchange] *)
Definition set_o_time (o : order) (t : Z) : order :=
  mkOrd (o_cid o) (o_instr o) (o_strategy o) (o_side o) (o_price o) (o_qty o) (o_kind o)
        (o_tif o) (o_id o) t (o_filled o).
Definition account_set_time (st : state) (t : Z) : state :=
  mkState (map (fun kb => (fst kb, mkBal (b_total (snd kb)) (b_free (snd kb)) t)) (s_bals st))
          (s_seq st) (s_now st) (s_trades st) (map (fun o => set_o_time o t) (s_open st))
          (s_canc st).
Definition set_now (st : state) (t : Z) : state :=
  mkState (s_bals st) (s_seq st) t (s_trades st) (s_open st) (s_canc st).
(** [MockExchange::update_time_exchange(time_request)] *)
Definition tick (cfg : config) (st : state) (t : Z) : state :=
  let t' := (t + Z.of_N (N.div (c_latency cfg) 2))%Z in
  account_set_time (set_now st t') t'.
(** [AccountState::ack_trade] *)
Definition ack_trade (st : state) (t : trade) : state :=
  mkState (s_bals st) (s_seq st) (s_now st) (s_trades st ++ [t]) (s_open st) (s_canc st).
(** [AccountState::trades(time_since)] *)
Definition trades_since (st : state) (since : Z) : list trade :=
  filter (fun t => Z.leb since (t_time t)) (s_trades st).

(* ---- direct calls on the public API (harness "direct" mode) -------------------------------- *)

Inductive dop :=
| DSetTime (t : Z)        (* write the pub field time_exchange_latest *)
| DAccTime (t : Z)        (* account.update_time_exchange(t) *)
| DOpen (r : request).    (* open_order(r) *)

Definition dstep (cfg : config) (st : state) (op : dop) : state :=
  match op with
  | DSetTime t => set_now st t
  | DAccTime t => account_set_time st t
  | DOpen r => step_open cfg st r
  end.

(* ---- the request loop MockExchange::run behind the MockExecution client ------------------------ *)

Inductive rkind :=
| KSnapshot | KBalances | KOrdersOpen | KTrades (since : Z) | KCancel | KOpen (r : request).
Record rrequest := mkRq { rq_time : Z; rq_kind : rkind }.

Inductive event := EvBalance (a : N) (b : bal) | EvTrade (t : trade).

(** what the client call returns *)
Inductive rresp :=
| PSnapshot (bals : list (N * bal)) (oo oc : list order)
| PBalances (bals : list (N * bal))
| POrders (oo : list order)
| PTrades (ts : list trade)
| POpen (r : result)
| POffline.     (* oneshot sender dropped / request channel closed: ExchangeOffline *)

(** one iteration of [run]; the exchange task is [None] once it has panicked *)
Definition run_request (cfg : config) (ost : option state) (rq : rrequest)
  : option state * rresp * list event :=
  match ost with
  | None => (None, POffline, [])
  | Some st =>
    let st1 := tick cfg st (rq_time rq) in
    match rq_kind rq with
    | KSnapshot => (Some st1, PSnapshot (s_bals st1) (s_open st1) (s_canc st1), [])
    | KBalances => (Some st1, PBalances (s_bals st1), [])
    | KOrdersOpen => (Some st1, POrders (s_open st1), [])
    | KTrades since => (Some st1, PTrades (trades_since st1 since), [])
    | KCancel => (Some st1, POffline, [])      (* logged; response sender dropped *)
    | KOpen r =>
      match open_order cfg st1 r with
      | ODone st2 res None => (Some st2, POpen res, [])
      | ODone st2 res (Some n) =>
          (Some (ack_trade st2 (n_trade n)), POpen res,
           [EvBalance (n_asset n) (n_bal n); EvTrade (n_trade n)])
      | _ => (None, POffline, [])
      end
    end
  end.

Fixpoint run (cfg : config) (ost : option state) (rqs : list rrequest)
  : option state * list (rresp * list event) :=
  match rqs with
  | [] => (ost, [])
  | rq :: t =>
    let '(ost1, resp, evs) := run_request cfg ost rq in
    let '(ost2, out) := run cfg ost1 t in
    (ost2, (resp, evs) :: out)
  end.

(* ---- client behaviour per request: the exchange does not depend on it ---------------------------- *)

(** what the client does with its response receiver: await the response, drop the receiver at
    once, or give up after [ms] of (virtual) time *)
Inductive behaviour := BAwait | BDrop | BGiveUp (ms : N).
(** the response reaches the client iff it still waits when the latency has elapsed *)
Definition awaited (cfg : config) (b : behaviour) : bool :=
  match b with
  | BAwait => true
  | BDrop => false
  | BGiveUp ms => negb (N.ltb ms (c_latency cfg))
  end.
Definition mask (aw : bool) (p : rresp) : option rresp := if aw then Some p else None.

(** the request loop seen by clients that may not wait: the response is observed only when
    awaited; the exchange's processing and its notifications are those of [run_request] *)
Fixpoint run_b (cfg : config) (ost : option state) (brqs : list (rrequest * bool))
  : option state * list (option rresp * list event) :=
  match brqs with
  | [] => (ost, [])
  | (rq, aw) :: t =>
    let '(ost1, resp, evs) := run_request cfg ost rq in
    let '(ost2, out) := run_b cfg ost1 t in
    (ost2, (mask aw resp, evs) :: out)
  end.

(** the request loop seen through the account stream: an event reaches somebody only while a
    receiver is subscribed ([sub]); processing, responses and storage are those of [run_request] *)
Fixpoint run_s (cfg : config) (ost : option state) (srqs : list (rrequest * bool))
  : option state * list (rresp * list event) :=
  match srqs with
  | [] => (ost, [])
  | (rq, sub) :: t =>
    let '(ost1, resp, evs) := run_request cfg ost rq in
    let '(ost2, out) := run_s cfg ost1 t in
    (ost2, (resp, if sub then evs else []) :: out)
  end.

(* ---- guards ------------------------------------------------------------------------------------ *)

(** the inputs on which the code neither hits the [expect] nor the [assert_eq!]: every
    configured instrument's base and quote asset has a balance, and every balance has
    [total = free] *)
Definition bal_ok (b : bal) : bool := Qc_eqb (b_total b) (b_free b).
Definition wf_state (cfg : config) (st : state) : bool :=
  forallb (fun iu => match lookup (s_bals st) (fst (snd iu)), lookup (s_bals st) (snd (snd iu)) with
                     | Some _, Some _ => true | _, _ => false end) (c_instruments cfg)
  && forallb (fun kb => bal_ok (snd kb)) (s_bals st).

Definition nonneg_state (st : state) : bool :=
  forallb (fun kb => Qc_leb 0%Qc (b_free (snd kb)) && Qc_leb 0%Qc (b_total (snd kb)))
          (s_bals st).

(* ---- abstract specification: a ledger asset -> amount -------------------------------------------- *)

Notation ledger := (N -> option Qc).

Definition abs_ledger (st : state) : ledger :=
  fun a => option_map b_free (lookup (s_bals st) a).

(** the amount of the spent asset an order needs: price x quantity plus fees for a buy,
    quantity plus fees for a sell *)
Definition spec_need (f : Qc) (req : request) : Qc :=
  match r_side req with
  | Buy => (r_price req * qabs (r_qty req) * (1 + f))%Qc
  | Sell => (qabs (r_qty req) * (1 + f))%Qc
  end.
Definition spec_spent (cfg : config) (req : request) : option N :=
  match r_kind req with
  | Limit => None
  | Market => option_map (fun u => spent_asset u (r_side req)) (lookup (c_instruments cfg) (r_instr req))
  end.
Definition spec_accepts (cfg : config) (led : ledger) (req : request) : bool :=
  match spec_spent cfg req with
  | Some a => match led a with Some x => Qc_leb (spec_need (c_fee cfg) req) x | None => false end
  | None => false
  end.
Definition ledger_debit (led : ledger) (a : N) (amount : Qc) : ledger :=
  fun x => if N.eqb x a then option_map (fun v => (v - amount)%Qc) (led x) else led x.
Definition spec_step (cfg : config) (led : ledger) (req : request) : ledger :=
  if spec_accepts cfg led req then
    match spec_spent cfg req with
    | Some a => ledger_debit led a (spec_need (c_fee cfg) req)
    | None => led
    end
  else led.
(** fee reported by a fill, in the quote asset: percentage x price x quantity *)
Definition spec_fees (f : Qc) (req : request) : Qc := (f * r_price req * qabs (r_qty req))%Qc.

(** results / notifications of a whole order sequence *)
Fixpoint trace (cfg : config) (st : state) (reqs : list request) : list (result * option notif) :=
  match reqs with
  | [] => []
  | r :: t =>
    match open_order cfg st r with
    | ODone st' res n => (res, n) :: trace cfg st' t
    | _ => trace cfg st t
    end
  end.
Definition accepted_ids (tr : list (result * option notif)) : list N :=
  flat_map (fun rn => match fst rn with ROpen id _ _ => [id] | RErr _ => [] end) tr.
Fixpoint seqN (start : N) (len : nat) : list N :=
  match len with O => [] | S k => start :: seqN (N.succ start) k end.

(** total debit of asset [a] by the accepted orders of a sequence run on the spec *)
Fixpoint spec_debits (cfg : config) (led : ledger) (reqs : list request) (a : N) : Qc :=
  match reqs with
  | [] => 0%Qc
  | r :: t =>
    ((if spec_accepts cfg led r then
        match spec_spent cfg r with
        | Some x => if N.eqb a x then spec_need (c_fee cfg) r else 0%Qc
        | None => 0%Qc
        end
      else 0%Qc) + spec_debits cfg (spec_step cfg led r) t a)%Qc
  end.

(** events / trades of the run loop *)
Definition opens_of (rqs : list rrequest) : list request :=
  flat_map (fun rq => match rq_kind rq with KOpen r => [r] | _ => [] end) rqs.
Definition ev_bals (es : list event) : list (N * bal) :=
  flat_map (fun e => match e with EvBalance a b => [(a, b)] | _ => [] end) es.
Definition ev_trades (es : list event) : list trade :=
  flat_map (fun e => match e with EvTrade t => [t] | _ => [] end) es.
Definition is_ev_balance (e : event) : bool := match e with EvBalance _ _ => true | _ => false end.
Definition is_ev_trade (e : event) : bool := match e with EvTrade _ => true | _ => false end.
Definition resp_accepted (p : rresp) : bool := match p with POpen r => accepted r | _ => false end.
