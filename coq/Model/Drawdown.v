(** C18 — executable model of barter/src/statistic/metric/drawdown/{mod,max,mean}.rs and of the
    drawdown part of statistic/summary/{asset,instrument}.rs, plus the INDEPENDENT specification
    the property refines to (an index-based peak-to-trough decomposition of a timed curve, the
    "first largest" of a list of drawdowns, the arithmetic averages).

    Definitions only (lemmas live in Proofs/Drawdown.v).

    Conventions: Decimal = exact rational [Qc] (rounding of Decimal division is abstracted, the
    correspondence compares with a tolerance); DateTime<Utc> = [Z] NANOSECONDS since the epoch
    (chrono's resolution, kept exact); [TimeDelta::num_milliseconds] truncates the nanosecond
    difference towards zero = [Z.quot _ 1000000]; i64 / u64 = [Z] (no overflow); the i64 instance of
    welford_online::calculate_mean divides with Rust's truncating [/] = [Z.quot]. *)
From Coq Require Import List ZArith QArith Qcanon Bool.
Import ListNotations.
Local Open Scope Qc_scope.

(* ------------------------------------------------------------------------------------------ *)
(** * Decimal comparisons                                                                       *)

Definition Qceqb (x y : Qc) : bool := Qeq_bool (this x) (this y).
Definition Qcltb (x y : Qc) : bool := negb (Qle_bool (this y) (this x)).
Definition Qcleb (x y : Qc) : bool := Qle_bool (this x) (this y).
(** [Decimal::abs] *)
Definition Qcabs (x : Qc) : Qc := if Qcltb x 0 then - x else x.
(** the larger of two (the first on a tie) *)
Definition qmax (x y : Qc) : Qc := if Qcltb x y then y else x.
(** [Decimal::from(u64)] / integer -> rational *)
Definition QcofZ (z : Z) : Qc := Q2Qc (inject_Z z).
(** [Decimal::checked_div]: None when the divisor is zero (overflow is not modelled) *)
Definition checked_div (a b : Qc) : option Qc := if Qceqb b 0 then None else Some (a / b).

(* ------------------------------------------------------------------------------------------ *)
(** * Timed points and drawdowns                                                                *)

(** a point of the curve: (time in ns, value) *)
Notation pt := (Z * Qc)%type.

(** [Drawdown { value, time_start, time_end }] *)
Record drawdown := mkDD { dd_value : Qc; dd_start : Z; dd_end : Z }.
(** [Drawdown::duration().num_milliseconds()]: whole milliseconds of the nanosecond difference,
    truncated towards zero *)
Definition dd_ms (d : drawdown) : Z := Z.quot (dd_end d - dd_start d) 1000000.

(* ------------------------------------------------------------------------------------------ *)
(** * DrawdownGenerator (drawdown/mod.rs)                                                       *)

Record ddgen := mkGen {
  g_peak : option Qc;       (* peak *)
  g_ddmax : Qc;             (* drawdown_max *)
  g_tpeak : option Z;       (* time_peak *)
  g_now : Z }.              (* time_now *)

(** [DrawdownGenerator::default()] (DateTime default = the epoch) *)
Definition gen_default : ddgen := mkGen None 0 None 0.
(** [DrawdownGenerator::init(point)] *)
Definition gen_init (x : pt) : ddgen := mkGen (Some (snd x)) 0 (Some (fst x)) (fst x).

(** [DrawdownGenerator::generate]: [self.time_peak?] then [(drawdown_max != 0).then_some(..)] *)
Definition gen_generate (g : ddgen) : option drawdown :=
  match g_tpeak g with
  | None => None
  | Some tp => if Qceqb (g_ddmax g) 0 then None else Some (mkDD (g_ddmax g) tp (g_now g))
  end.

(** [DrawdownGenerator::update]: returns the new state and the returned [Option<Drawdown>] *)
Definition gen_update (g : ddgen) (x : pt) : ddgen * option drawdown :=
  let t := fst x in
  let v := snd x in
  (* self.time_now = point.time *)
  match g_peak g with
  | None =>
      (* first ever value *)
      (mkGen (Some v) (g_ddmax g) (Some t) t, None)
  | Some p =>
      if Qcltb p v then
        (* new peak: emit the ended drawdown (if any), reset *)
        (mkGen (Some v) 0 (Some t) t, gen_generate (mkGen (g_peak g) (g_ddmax g) (g_tpeak g) t))
      else
        match checked_div (p - v) p with
        | Some d => (mkGen (Some p) (if Qcltb (g_ddmax g) d then d else g_ddmax g) (g_tpeak g) t, None)
        | None => (mkGen (Some p) (g_ddmax g) (g_tpeak g) t, None)
        end
  end.

Definition opt_list {A} (o : option A) : list A := match o with Some a => [a] | None => [] end.

(** feed a curve, collecting the drawdowns returned by [update] in order *)
Definition gen_step (acc : ddgen * list drawdown) (x : pt) : ddgen * list drawdown :=
  let '(g', o) := gen_update (fst acc) x in (g', snd acc ++ opt_list o).
Definition gen_run (g : ddgen) (pts : list pt) : ddgen * list drawdown :=
  fold_left gen_step pts (g, []).

(* ------------------------------------------------------------------------------------------ *)
(** * MaxDrawdownGenerator (drawdown/max.rs): state = [max : Option<MaxDrawdown>]               *)

Definition max_update (m : option drawdown) (d : drawdown) : option drawdown :=
  Some match m with
       | Some c => if Qcltb (Qcabs (dd_value c)) (Qcabs (dd_value d)) then d else c
       | None => d
       end.
(** [MaxDrawdownGenerator::init(d)] = [Some d], [default()] = [None], [generate()] = the state *)
Definition max_run (m : option drawdown) (ds : list drawdown) : option drawdown :=
  fold_left max_update ds m.

(* ------------------------------------------------------------------------------------------ *)
(** * MeanDrawdownGenerator (drawdown/mean.rs)                                                  *)

Record meandd := mkMean { m_depth : Qc; m_ms : Z }.          (* MeanDrawdown *)
Record meangen := mkMG { mg_count : Z; mg_mean : option meandd }.

Definition mean_default : meangen := mkMG 0 None.
Definition mean_init (d : drawdown) : meangen := mkMG 1 (Some (mkMean (dd_value d) (dd_ms d))).

(** welford_online::calculate_mean at Decimal and at i64 (truncating division) *)
Definition welford_q (prev next count : Qc) : Qc := prev + (next - prev) / count.
Definition welford_z (prev next count : Z) : Z := (prev + Z.quot (next - prev) count)%Z.

Definition mean_update (g : meangen) (d : drawdown) : meangen :=
  let c := (mg_count g + 1)%Z in
  mkMG c (Some match mg_mean g with
               | Some m => mkMean (welford_q (m_depth m) (dd_value d) (QcofZ c))
                                  (welford_z (m_ms m) (dd_ms d) c)
               | None => mkMean (dd_value d) (dd_ms d)
               end).
Definition mean_run (g : meangen) (ds : list drawdown) : meangen := fold_left mean_update ds g.

(* ------------------------------------------------------------------------------------------ *)
(** * Tear-sheet glue (summary/asset.rs, summary/instrument.rs): the three generators together  *)

Record tearsheet := mkTS { ts_dd : ddgen; ts_mean : meangen; ts_max : option drawdown }.

(** the drawdown-related part of [TearSheetAsset] / [TearSheet] *)
Record report := mkRep { r_cur : option drawdown; r_mean : option meandd; r_max : option drawdown }.

(** body shared by [update_from_balance] and [update_from_position] *)
Definition ts_update (ts : tearsheet) (x : pt) : tearsheet :=
  let '(g', o) := gen_update (ts_dd ts) x in
  match o with
  | Some d => mkTS g' (mean_update (ts_mean ts) d) (max_update (ts_max ts) d)
  | None => mkTS g' (ts_mean ts) (ts_max ts)
  end.

(** [generate(&mut self)] (repaired code, commit 2faa27c): the in-progress drawdown is applied to
    CLONES of the mean / max generators; returns the state afterwards and the report *)
Definition ts_generate (ts : tearsheet) : tearsheet * report :=
  let cur := gen_generate (ts_dd ts) in
  let mean' := match cur with Some d => mean_update (ts_mean ts) d | None => ts_mean ts end in
  let max' := match cur with Some d => max_update (ts_max ts) d | None => ts_max ts end in
  (ts, mkRep cur (mg_mean mean') max').

(** TearSheetAssetGenerator: [balance_now] + the glue. A balance is (total, free); the curve is
    the TOTAL balance at [time_exchange]. *)
Notation balance := (Qc * Qc)%type.
Record asset_ts := mkATS { a_balance : option balance; a_ts : tearsheet }.
Definition asset_init (t : Z) (b : balance) : asset_ts :=
  mkATS (Some b) (mkTS (gen_init (t, fst b)) mean_default None).
Definition asset_update (a : asset_ts) (t : Z) (b : balance) : asset_ts :=
  mkATS (Some b) (ts_update (a_ts a) (t, fst b)).
Definition asset_generate (a : asset_ts) : asset_ts * (option balance * report) :=
  let '(ts', r) := ts_generate (a_ts a) in (mkATS (a_balance a) ts', (a_balance a, r)).

(** TearSheetGenerator: [time_engine_now], [pnl_returns.pnl_raw] + the glue. The curve is the
    cumulative realised PnL at the exit time of each closed position. *)
Record inst_ts := mkITS { i_now : Z; i_pnl : Qc; i_ts : tearsheet }.
Definition inst_init (t0 : Z) : inst_ts := mkITS t0 0 (mkTS gen_default mean_default None).
Definition inst_update (s : inst_ts) (t : Z) (pnl : Qc) : inst_ts :=
  let raw := i_pnl s + pnl in
  mkITS t raw (ts_update (i_ts s) (t, raw)).
Definition inst_generate (s : inst_ts) : inst_ts * report :=
  let '(ts', r) := ts_generate (i_ts s) in (mkITS (i_now s) (i_pnl s) ts', r).

(** operations on a tear sheet generator: an update with the next point of the curve, a call
    of [generate], or a persist / restore step (the state is serialised and the generator is
    replaced by the deserialised copy: on the unchanged code the identity, modelled as a no-op) *)
Inductive tsop := TUpd (x : pt) | TGen | TRt.
Definition ts_step (acc : tearsheet * list report) (op : tsop) : tearsheet * list report :=
  match op with
  | TUpd x => (ts_update (fst acc) x, snd acc)
  | TGen => let '(ts', r) := ts_generate (fst acc) in (ts', snd acc ++ [r])
  | TRt => acc
  end.
Definition ts_run (ts : tearsheet) (ops : list tsop) : tearsheet * list report :=
  fold_left ts_step ops (ts, []).
Definition updates_of (ops : list tsop) : list pt :=
  flat_map (fun op => match op with TUpd x => [x] | TGen | TRt => [] end) ops.

(* ------------------------------------------------------------------------------------------ *)
(** * The independent specification                                                             *)
(** Index based; shares nothing with the generator's step function.

    A curve is a list of points. Index [i] is a PEAK when its value strictly exceeds every
    earlier value (a new running maximum; index 0 always is). The curve is cut at its peaks.
    The segment that starts at peak [p] and ends before index [q] has depth

        max { (v_p - v_j) / v_p  |  p < j < q }      (0 when there is no such j)

    A COMPLETED drawdown is reported for two consecutive peaks [p], [q] when that depth is not
    zero: it starts at the time of [p] and ends at the time of [q] (the recovery). The CURRENT
    drawdown is the one of the last peak up to the end of the curve, ending at the time of the
    last point. *)

Definition val (pts : list pt) (i : nat) : Qc := nth i (map snd pts) 0.
Definition tim (pts : list pt) (i : nat) : Z := nth i (map fst pts) 0%Z.

(** value [i] strictly exceeds every earlier value *)
Definition is_peak_b (pts : list pt) (i : nat) : bool :=
  forallb (fun y => Qcltb y (val pts i)) (firstn i (map snd pts)).
Definition peaks (pts : list pt) : list nat := filter (is_peak_b pts) (seq 0 (length pts)).

(** relative decline of point [j] from peak [p] *)
Definition decline (pts : list pt) (p j : nat) : Qc := (val pts p - val pts j) / val pts p.
(** largest decline over the indices strictly between [p] and [q] *)
Definition depth (pts : list pt) (p q : nat) : Qc :=
  fold_left qmax (map (decline pts p) (seq (S p) (q - S p))) 0.

Definition seg_dd (pts : list pt) (p q : nat) (t_end : Z) : drawdown :=
  mkDD (depth pts p q) (tim pts p) t_end.
Definition nonzero (d : drawdown) : bool := negb (Qceqb (dd_value d) 0).

Fixpoint pairs_adj (l : list nat) : list (nat * nat) :=
  match l with
  | a :: ((b :: _) as t) => (a, b) :: pairs_adj t
  | _ => []
  end.
Fixpoint last_opt {A} (l : list A) : option A :=
  match l with
  | [] => None
  | [a] => Some a
  | _ :: t => last_opt t
  end.

(** the completed drawdowns of a curve, in order *)
Definition completed (pts : list pt) : list drawdown :=
  filter nonzero (map (fun pq => seg_dd pts (fst pq) (snd pq) (tim pts (snd pq)))
                      (pairs_adj (peaks pts))).
(** the drawdown in progress at the end of the curve *)
Definition current (pts : list pt) : option drawdown :=
  match last_opt (peaks pts) with
  | None => None
  | Some p =>
      let d := seg_dd pts p (length pts) (tim pts (length pts - 1)) in
      if nonzero d then Some d else None
  end.

(** every drawdown a tear sheet reports on at the end of the curve: completed ones, then the
    one in progress *)
Definition reported (pts : list pt) : list drawdown := completed pts ++ opt_list (current pts).

(** "the maximum drawdown is the largest": [d] is the FIRST element of [ds] whose |depth| is not
    exceeded by any element *)
Definition first_max (ds : list drawdown) (d : drawdown) : Prop :=
  exists l1 l2, ds = l1 ++ d :: l2 /\
    (forall e, In e l1 -> Qcabs (dd_value e) < Qcabs (dd_value d)) /\
    (forall e, In e l2 -> Qcabs (dd_value e) <= Qcabs (dd_value d)).
(** executable version: largest |depth| first, then the first element attaining it *)
Definition largest_abs (ds : list drawdown) : Qc :=
  fold_left qmax (map (fun d => Qcabs (dd_value d)) ds) 0.
Definition first_max_f (ds : list drawdown) : option drawdown :=
  find (fun d => Qceqb (Qcabs (dd_value d)) (largest_abs ds)) ds.

(** sums for the averages *)
Definition sum_depth (ds : list drawdown) : Qc := fold_right (fun d s => dd_value d + s) 0 ds.
Definition sum_ms (ds : list drawdown) : Z := fold_right (fun d s => dd_ms d + s)%Z 0%Z ds.
Definition len (ds : list drawdown) : Z := Z.of_nat (length ds).

(** a mean report [m] is the average of [ds] in depth (exactly) and in duration — the durations
    being the whole milliseconds [dd_ms] the code reports — up to the drift (n-1)/2 ms of the
    truncating integer recurrence *)
Definition is_mean_of (ds : list drawdown) (m : meandd) : Prop :=
  m_depth m * QcofZ (len ds) = sum_depth ds /\
  (2 * Z.abs (len ds * m_ms m - sum_ms ds) <= len ds * (len ds - 1))%Z.

(** hypothesis of the property: positive running maxima = the first value is positive *)
Definition positive_peaks (pts : list pt) : Prop :=
  match pts with x :: _ => 0 < snd x | [] => True end.
