(** Model of barter/src/statistic/algorithm.rs (welford_online) and
    barter/src/statistic/summary/dataset/{mod,dispersion}.rs in exact rational arithmetic
    ([Qc], canonical rationals).  Definitions only.

    Decimal rounding is modelled as absent; [Decimal::sqrt] (std_dev) is not a function of the
    model (the correspondence oracle checks [sd >= 0 /\ sd * sd ~ variance] on the observed
    value).  Division by zero ([x / 0 = 0] in [Qc], a panic in Rust) cannot occur on states
    reached through [DataSetSummary::update] from [default()] since the divisor is [count+1 >= 1]. *)
From Coq Require Export List ZArith QArith Qcanon Bool.
Export ListNotations.
Local Open Scope Qc_scope.

Definition Qcleb (a b : Qc) : bool := Qle_bool a b.
(** [a < b] *)
Definition Qcltb (a b : Qc) : bool := negb (Qle_bool b a).

(* ---- welford_online -------------------------------------------------------------------- *)

(** [calculate_mean(prev_mean, next_value, count)]: prev_mean += (next_value - prev_mean) / count *)
Definition calc_mean (prev_mean next_value count : Qc) : Qc :=
  prev_mean + (next_value - prev_mean) / count.

(** [calculate_recurrence_relation_m(prev_m, prev_mean, new_value, new_mean)] *)
Definition calc_m (prev_m prev_mean new_value new_mean : Qc) : Qc :=
  prev_m + (new_value - prev_mean) * (new_value - new_mean).

(** [calculate_population_variance(m, count)]: 0 when count < 1, else m / count *)
Definition calc_pop_var (m count : Qc) : Qc :=
  if Qcltb count 1 then 0 else m / count.

(* ---- Range ------------------------------------------------------------------------------ *)

Record range := mkRange { r_act : bool; r_high : Qc; r_low : Qc }.

Definition range_default : range := mkRange false 0 0.
Definition range_init (x : Qc) : range := mkRange true x x.

(** [Range::update]: two independent comparisons once activated, else initialise *)
Definition range_update (r : range) (x : Qc) : range :=
  if r_act r then
    mkRange true
      (if Qcltb (r_high r) x then x else r_high r)      (* new_value > self.high *)
      (if Qcltb x (r_low r) then x else r_low r)        (* new_value < self.low *)
  else mkRange true x x.

(** [Range::range] *)
Definition range_span (r : range) : Qc := r_high r - r_low r.

(* ---- Dispersion (std_dev left out) ------------------------------------------------------- *)

Record disp := mkDisp { d_range : range; d_m : Qc; d_var : Qc }.

Definition disp_default : disp := mkDisp range_default 0 0.

(** [Dispersion::update(prev_mean, new_mean, new_value, value_count)] *)
Definition disp_update (d : disp) (prev_mean new_mean new_value count : Qc) : disp :=
  let m := calc_m (d_m d) prev_mean new_value new_mean in
  mkDisp (range_update (d_range d) new_value) m (calc_pop_var m count).

(* ---- DataSetSummary ---------------------------------------------------------------------- *)

Record ds := mkDs { s_count : Qc; s_sum : Qc; s_mean : Qc; s_disp : disp }.

Definition ds_default : ds := mkDs 0 0 0 disp_default.

(** [DataSetSummary::update] *)
Definition ds_update (s : ds) (x : Qc) : ds :=
  let c := s_count s + 1 in
  let prev_mean := s_mean s in
  let new_mean := calc_mean prev_mean x c in
  mkDs c (s_sum s + x) new_mean (disp_update (s_disp s) prev_mean new_mean x c).

Definition ds_run (l : list Qc) : ds := fold_left ds_update l ds_default.

(** A history may contain persist/restore steps (the summary is serialised, deserialised and
    the history continues on the restored value): the model treats them as no-ops. *)
Inductive dop := DUpd (x : Qc) | DPersist.
Definition ds_step (s : ds) (o : dop) : ds := match o with DUpd x => ds_update s x | DPersist => s end.
Definition dvals (ops : list dop) : list Qc :=
  flat_map (fun o => match o with DUpd x => [x] | DPersist => [] end) ops.

(* ---- the specification: statistics of the whole dataset at once --------------------------- *)

Definition nQc (n : nat) : Qc := Q2Qc (inject_Z (Z.of_nat n)).

Fixpoint sumQc (l : list Qc) : Qc :=
  match l with [] => 0 | x :: t => x + sumQc t end.

Definition sq (x : Qc) : Qc := x * x.

Definition b_count (l : list Qc) : Qc := nQc (length l).
Definition b_sum (l : list Qc) : Qc := sumQc l.
Definition b_mean (l : list Qc) : Qc := sumQc l / nQc (length l).
(** sum of squared deviations from the mean of the whole dataset *)
Definition b_M (l : list Qc) : Qc := sumQc (map (fun x => sq (x - b_mean l)) l).
(** population variance *)
Definition b_var (l : list Qc) : Qc := b_M l / nQc (length l).

Definition is_min (l : list Qc) (m : Qc) : Prop := In m l /\ forall x, In x l -> m <= x.
Definition is_max (l : list Qc) (m : Qc) : Prop := In m l /\ forall x, In x l -> x <= m.
