(** Model of the bookkeeping of barter/src/execution/manager.rs (ExecutionManager::run and the
    four process_* functions) and barter/src/execution/request.rs (RequestFuture = the client's
    future wrapped in tokio::time::timeout, carrying the original request).

    What is modelled is the LOGIC: which in-flight set a request goes to, which handler turns a
    finished RequestFuture into which AccountEvent, with which key, and when (virtual time, ms).
    The tokio runtime (select!, FuturesUnordered wake-ups, the timer wheel) is NOT modelled: the
    model simply assumes every in-flight future is polled to completion at its completion time.
    The client is a script: per request a behaviour (responds ok / err after a delay, responds
    with a key the indexer does not know, or never).
    Definitions only: this file still runs when a proof breaks. *)
From BV Require Import Base.Common.
Local Open Scope N_scope.

Inductive rkind := KOpen | KCancel.

(** the OrderError values that can travel without naming an asset / instrument *)
Inductive err :=
| ERateLimit          (* Rejected(ApiError::RateLimit) *)
| ERejected           (* Rejected(ApiError::OrderRejected(_)) *)
| EAlreadyCancelled   (* Rejected(ApiError::OrderAlreadyCancelled) *)
| EAlreadyFilled      (* Rejected(ApiError::OrderAlreadyFullyFilled) *)
| EOffline            (* Connectivity(ExchangeOffline(_)) *)
| ESocket             (* Connectivity(Socket(_)) *)
| ETimeout.           (* Connectivity(ConnectivityError::Timeout) — what the manager itself reports *)

(** the client's answer: Ok (for an open: [full] = filled quantity equals the order quantity) or Err *)
Inductive resp := ROk (full : bool) | RErr (e : err).

Inductive behaviour :=
| Respond (delay : N) (r : resp)    (* answers after [delay] ms, echoing the request's key *)
| RespondBadKey (delay : N)         (* answers with an instrument / asset name the indexer cannot resolve *)
| Never.                            (* the client future stays pending for ever *)

(** one ExecutionRequest::{Open,Cancel} as it reaches the manager, with the scripted client
    behaviour for it. [r_arrival] = virtual time at which the manager takes it off its channel. *)
Record req := mkReq {
  r_kind : rkind; r_exchange : N; r_instr : N; r_cid : N; r_arrival : N; r_beh : behaviour }.

(** the AccountEvent sent on the response channel, reduced to what the property talks about:
    AccountEvent.exchange / order key (exchange index, instrument index, client order id), the
    state class, and the virtual time of delivery.
      OutActive / OutFullyFilled / OutOpenFailed  travel as AccountEventKind::OrderSnapshot,
      OutCancelled / OutCancelFailed              as AccountEventKind::OrderCancelled. *)
Inductive outcome :=
| OutActive | OutFullyFilled | OutOpenFailed (e : err)
| OutCancelled | OutCancelFailed (e : err).

Record event := mkEv { e_exchange : N; e_instr : N; e_cid : N; e_out : outcome; e_time : N }.

(** the manager: its exchange index, the instrument indices its ExecutionInstrumentMap knows,
    and the request timeout (ms) *)
Record mgr := mkMgr { m_exchange : N; m_instruments : list N; m_tau : N }.

(** indexer.order_request(&request) succeeds (otherwise run() panics: "non-configured key") *)
Definition accepted (m : mgr) (r : req) : bool :=
  N.eqb (r_exchange r) (m_exchange m) && existsb (N.eqb (r_instr r)) (m_instruments m).

(** RequestFuture::poll = Timeout<ResponseFut>::poll mapped: the client's output if it is ready
    strictly before the deadline, else Err(original request) at the deadline.  (Both timers on
    the same millisecond is a tie the model resolves as "timeout"; tokio polls the inner future
    first; the correspondence accepts either there.) *)
Inductive fut_result := FResponse (r : resp) | FBadKey | FTimeout.

Definition poll_result (tau : N) (b : behaviour) : fut_result * N :=
  match b with
  | Respond d r => if N.ltb d tau then (FResponse r, d) else (FTimeout, tau)
  | RespondBadKey d => if N.ltb d tau then (FBadKey, d) else (FTimeout, tau)
  | Never => (FTimeout, tau)
  end.

(** virtual time at which the RequestFuture of [r] completes *)
Definition ctime (tau : N) (r : req) : N := r_arrival r + snd (poll_result tau (r_beh r)).

(** process_open_response: key re-indexed from the RESPONSE (exchange id -> the manager's index,
    instrument name -> index; the scripted client echoes the request's names), state:
    Ok(open) with nothing remaining -> fully_filled, Ok(open) -> active, Err(e) -> inactive(e) *)
Definition process_open_response (m : mgr) (r : req) (rs : resp) (t : N) : event :=
  mkEv (m_exchange m) (r_instr r) (r_cid r)
       (match rs with ROk true => OutFullyFilled | ROk false => OutActive | RErr e => OutOpenFailed e end) t.

(** process_open_timeout: the ORIGINAL request's key, state inactive(Connectivity(Timeout)) *)
Definition process_open_timeout (r : req) (t : N) : event :=
  mkEv (r_exchange r) (r_instr r) (r_cid r) (OutOpenFailed ETimeout) t.

(** process_cancel_response *)
Definition process_cancel_response (m : mgr) (r : req) (rs : resp) (t : N) : event :=
  mkEv (m_exchange m) (r_instr r) (r_cid r)
       (match rs with ROk _ => OutCancelled | RErr e => OutCancelFailed e end) t.

(** process_cancel_timeout *)
Definition process_cancel_timeout (r : req) (t : N) : event :=
  mkEv (r_exchange r) (r_instr r) (r_cid r) (OutCancelFailed ETimeout) t.

(** the `response_open = next_open_response => ...` arm, for a future taken from in_flight_opens;
    an un-indexable response is logged and skipped (`continue`) *)
Definition complete_open (m : mgr) (r : req) : list event :=
  let t := ctime (m_tau m) r in
  match fst (poll_result (m_tau m) (r_beh r)) with
  | FResponse rs => [process_open_response m r rs t]
  | FBadKey => []
  | FTimeout => [process_open_timeout r t]
  end.

(** the `response_cancel = next_cancel_response => ...` arm, for a future from in_flight_cancels *)
Definition complete_cancel (m : mgr) (r : req) : list event :=
  let t := ctime (m_tau m) r in
  match fst (poll_result (m_tau m) (r_beh r)) with
  | FResponse rs => [process_cancel_response m r rs t]
  | FBadKey => []
  | FTimeout => [process_cancel_timeout r t]
  end.

Inductive endst := Running | Shutdown | Panicked.

(** the loop's state: the two FuturesUnordered sets (as the requests they carry) and everything
    sent on the response channel so far *)
Record state := mkSt {
  s_end : endst; s_opens : list req; s_cancels : list req; s_out : list event }.

Definition init_state : state := mkSt Running [] [] [].

(** "strictly before [t]"; [None] = no bound *)
Definition due (tau : N) (t : option N) (r : req) : bool :=
  match t with None => true | Some t => N.ltb (ctime tau r) t end.

(** everything in flight that completes before [t] is turned into events *)
Definition flush (m : mgr) (t : option N) (st : state) : state :=
  let d := due (m_tau m) t in
  mkSt (s_end st)
       (filter (fun r => negb (d r)) (s_opens st))
       (filter (fun r => negb (d r)) (s_cancels st))
       (s_out st ++ flat_map (complete_cancel m) (filter d (s_cancels st))
                 ++ flat_map (complete_open m) (filter d (s_opens st))).

Definition past_stop (stop : option N) (r : req) : bool :=
  match stop with Some s => N.ltb s (r_arrival r) | None => false end.

(** the `request = self.request_stream.next() => ...` arm.  [stop] = time at which
    ExecutionRequest::Shutdown was put on the channel (after the requests of that same ms). *)
Definition intake (m : mgr) (stop : option N) (st : state) (r : req) : state :=
  match s_end st with
  | Running =>
      if past_stop stop r then
        (* Shutdown is ahead of this request in the channel: break *)
        let st1 := flush m stop st in mkSt Shutdown (s_opens st1) (s_cancels st1) (s_out st1)
      else
        let st1 := flush m (Some (r_arrival r)) st in
        if accepted m r then
          match r_kind r with
          | KOpen => mkSt Running (s_opens st1 ++ [r]) (s_cancels st1) (s_out st1)
          | KCancel => mkSt Running (s_opens st1) (s_cancels st1 ++ [r]) (s_out st1)
          end
        else (* panic!("ExecutionManager received ... request for non-configured key") *)
          mkSt Panicked (s_opens st1) (s_cancels st1) (s_out st1)
  | _ => st
  end.

(** after the last scripted request the harness lets everything resolve ([stop] = None) or
    sends Shutdown at [stop] *)
Definition finish (m : mgr) (stop : option N) (st : state) : state :=
  match s_end st with
  | Running => let st1 := flush m stop st in mkSt Shutdown (s_opens st1) (s_cancels st1) (s_out st1)
  | _ => st
  end.

(** ExecutionManager::run over a whole script (requests in the order they were sent) *)
Definition run_manager (m : mgr) (stop : option N) (script : list req) : state :=
  finish m stop (fold_left (intake m stop) script init_state).

(* ---- abstract specification (the property, request by request) ------------------------------- *)

Definition timeout_outcome (k : rkind) : outcome :=
  match k with KOpen => OutOpenFailed ETimeout | KCancel => OutCancelFailed ETimeout end.

Definition response_outcome (k : rkind) (rs : resp) : outcome :=
  match k, rs with
  | KOpen, ROk true => OutFullyFilled
  | KOpen, ROk false => OutActive
  | KOpen, RErr e => OutOpenFailed e
  | KCancel, ROk _ => OutCancelled
  | KCancel, RErr e => OutCancelFailed e
  end.

(** The events the statement prescribes for ONE accepted request, independently of every other
    request: the client's own response at arrival+delay if it comes before the timeout,
    otherwise one timeout failure at arrival+tau — attributed to the manager's exchange, the
    request's instrument and client order id.  (A response the indexer cannot resolve is outside
    the statement's hypotheses; the code drops it.) *)
Definition spec_event (m : mgr) (r : req) : list event :=
  let ev o t := mkEv (m_exchange m) (r_instr r) (r_cid r) o t in
  let timeout := [ev (timeout_outcome (r_kind r)) (r_arrival r + m_tau m)] in
  match r_beh r with
  | Respond d rs => if N.ltb d (m_tau m) then [ev (response_outcome (r_kind r) rs) (r_arrival r + d)] else timeout
  | RespondBadKey d => if N.ltb d (m_tau m) then [] else timeout
  | Never => timeout
  end.

(** the requests the manager took off its channel while running *)
Fixpoint taken (m : mgr) (stop : option N) (script : list req) : list req :=
  match script with
  | [] => []
  | r :: t => if past_stop stop r then [] else if accepted m r then r :: taken m stop t else []
  end.

(** the time the manager stopped running: Shutdown, or the arrival of a request it panics on *)
Fixpoint eff_stop (m : mgr) (stop : option N) (script : list req) : option N :=
  match script with
  | [] => stop
  | r :: t => if past_stop stop r then stop
              else if accepted m r then eff_stop m stop t else Some (r_arrival r)
  end.

Fixpoint end_of (m : mgr) (stop : option N) (script : list req) : endst :=
  match script with
  | [] => Shutdown
  | r :: t => if past_stop stop r then Shutdown
              else if accepted m r then end_of m stop t else Panicked
  end.

(** all events the statement prescribes for a script: one [spec_event] per request taken whose
    resolution falls before the manager stopped *)
Definition spec_events (m : mgr) (stop : option N) (script : list req) : list event :=
  flat_map (spec_event m) (filter (due (m_tau m) (eff_stop m stop script)) (taken m stop script)).

(** requests are sent in time order *)
Fixpoint sorted_by_arrival (l : list req) : bool :=
  match l with
  | [] => true
  | r :: t => forallb (fun r' => N.leb (r_arrival r) (r_arrival r')) t && sorted_by_arrival t
  end.

(** the client echoes keys the indexer can resolve *)
Definition well_behaved (r : req) : bool :=
  match r_beh r with RespondBadKey _ => false | _ => true end.

(* ---- the account stream side of ExecutionManager::init ------------------------------------------ *)

(** ExecutionManager::init hands the engine ONE stream:
      merge(response channel, reconnecting account stream with backoff and reconnection events).
    The account stream is re-initialised whenever it ends; a failed (re-)initialisation is
    retried after a backoff sleep (ReconnectionState: sleep [cur], then cur := min(cur * mult, max);
    reset to [initial] on success).  Each successful (re-)connection starts with the account
    snapshot; each end of a connection is followed by a Reconnecting notice.
    [sched]: for every connection that ends, (time it ends, number of failed re-initialisations
    before the next one succeeds). *)
Record policy := mkPolicy { p_initial : N; p_mult : N; p_max : N }.

Inductive mevent :=
| MOrder (e : event)            (* an item of the response channel *)
| MSnapshot (t : N)             (* account snapshot of a (re-)connection established at t *)
| MReconnecting (t : N).        (* the connection ended at t *)

(** total time slept over [k] consecutive failed attempts, starting with backoff [cur] *)
Fixpoint backoff_sum (pol : policy) (cur : N) (k : nat) : N :=
  match k with
  | O => 0
  | S k' => cur + backoff_sum pol (N.min (cur * p_mult pol) (p_max pol)) k'
  end.

Fixpoint acct_events_from (pol : policy) (sched : list (N * N)) : list mevent :=
  match sched with
  | [] => []
  | (t_end, fails) :: rest =>
      MReconnecting t_end ::
      MSnapshot (t_end + backoff_sum pol (p_initial pol) (N.to_nat fails)) ::
      acct_events_from pol rest
  end.

Definition acct_events (pol : policy) (sched : list (N * N)) : list mevent :=
  MSnapshot 0 :: acct_events_from pol sched.

(** everything the merged stream carries while the manager runs: the manager's answers and the
    account stream's items.  The two sides share no state: the in-flight sets are untouched by
    account stream (re-)initialisation. *)
Definition merged (m : mgr) (stop : option N) (script : list req) (pol : policy) (sched : list (N * N))
  : list mevent :=
  map MOrder (s_out (run_manager m stop script)) ++ acct_events pol sched.

Definition orders_of (l : list mevent) : list event :=
  flat_map (fun x => match x with MOrder e => [e] | _ => [] end) l.

Definition notices_of (l : list mevent) : list N :=
  flat_map (fun x => match x with MReconnecting t => [t] | _ => [] end) l.
