(** C12 — model of the reconnecting-stream combinators of
    barter-data/src/streams/reconnect/stream.rs and of barter-integration/src/stream/merge.rs.
    Definitions only (no proofs).

    The user code (connection factory, exchange) enters as a SCRIPT: the outcome of every
    call of the init closure, in call order.  Virtual time is explicit ([N] milliseconds).
    The model is a total function from (policy, script) to the timed trace of everything an
    observer of the composed stream sees: calls of the init closure, events leaving the stream,
    calls of the error handler.  futures/tokio polling is NOT modelled: the model states what
    the combinators deliver when every future is polled as soon as it can make progress and
    virtual time advances only when nothing can (a paused-clock current-thread runtime). *)
From Coq Require Import List NArith Bool.
Import ListNotations.
Local Open Scope N_scope.

(** [ReconnectionBackoffPolicy] (backoff_ms_initial : u64, backoff_multiplier : u8,
    backoff_ms_max : u64). u64 arithmetic is modelled in [N]; the no-overflow side condition
    is [p_max * p_mult < 2^64] (Proofs: [no_overflow]). *)
Record policy := mkPolicy { p_initial : N; p_mult : N; p_max : N }.

(** One element produced by a connection's stream: [Ok v], an error for which
    [DataError::is_terminal] holds, any other error (with an id to tell them apart). *)
Inductive item := IOk (v : N) | IErrTerminal | IErrOther (e : N).

(** Outcome of one call of the init closure. [lat] = virtual ms until the init future resolves;
    an item is paired with the delay before the connection's stream yields it; [tail] = delay
    before the stream ends after its last item. *)
Inductive conn :=
| InitFail (lat : N)
| InitOk (lat : N) (items : list (N * item)) (tail : N).

(** What an observer sees. [TErrTerminal]/[THandledTerminal] are never produced by the model;
    they exist so that an implementation leaking a terminal error can be written down. *)
Inductive tev :=
| TAttempt                 (* the init closure is called *)
| TItem (v : N)            (* Event::Item(Ok v) / Event::Item(v) leaves the stream *)
| TErr (e : N)             (* Event::Item(Err e) leaves the stream (no error handler) *)
| TErrTerminal
| THandled (e : N)         (* with_error_handler: the handler is called with e, nothing leaves *)
| THandledTerminal
| TNotice (origin : N).    (* Event::Reconnecting(origin) leaves the stream *)

Notation trace := (list (N * tev)).

(* ---- ReconnectionState ------------------------------------------------------------------ *)

(** [reset_backoff]: backoff_ms_current = policy.backoff_ms_initial *)
Definition reset_backoff (pol : policy) (cur : N) : N := p_initial pol.

(** [multiply_backoff]: min(backoff_ms_current * multiplier, backoff_ms_max) *)
Definition multiply_backoff (pol : policy) (cur : N) : N :=
  N.min (cur * p_mult pol) (p_max pol).

(* ---- one connection: with_termination_on_error, then with_reconnection_events ----------- *)

(** The connection's stream is consumed through [map_while]: [Ok] and non-terminal errors pass,
    the first terminal error ends the stream and is itself swallowed (only logged); then the
    chained [once(Reconnecting(origin))] is delivered at the moment the (cut) stream ends. *)
Fixpoint conn_trace (o now : N) (items : list (N * item)) (tail : N) : trace :=
  match items with
  | [] => [(now + tail, TNotice o)]
  | (d, IOk v) :: t => (now + d, TItem v) :: conn_trace o (now + d) t tail
  | (d, IErrOther e) :: t => (now + d, TErr e) :: conn_trace o (now + d) t tail
  | (d, IErrTerminal) :: _ => [(now + d, TNotice o)]
  end.

(** virtual time at which the connection is over (= time of its notice) *)
Fixpoint conn_end (now : N) (items : list (N * item)) (tail : N) : N :=
  match items with
  | [] => now + tail
  | (d, IErrTerminal) :: _ => now + d
  | (d, _) :: t => conn_end (now + d) t tail
  end.

(* ---- init_reconnecting_stream + with_reconnect_backoff ------------------------------------ *)

(** [run pol o cur now s]: the init closure is called at [now] with current backoff [cur].
    - [Err]: [sleep(cur)] is created when the failure arrives (now + lat), THEN the backoff is
      multiplied; the failed attempt yields nothing (filter_map); the closure is called again
      when the sleep is over.
    - [Ok]: the backoff is reset; the connection is flattened into the output; the closure is
      called again when the connection is over (after its notice). *)
Fixpoint run (pol : policy) (o cur now : N) (s : list conn) : trace :=
  match s with
  | [] => []
  | InitFail lat :: t =>
      (now, TAttempt) :: run pol o (multiply_backoff pol cur) (now + lat + cur) t
  | InitOk lat items tail :: t =>
      (now, TAttempt) :: conn_trace o (now + lat) items tail
        ++ run pol o (reset_backoff pol cur) (conn_end (now + lat) items tail) t
  end.

(** backoff and time with which the closure is called after the script *)
Fixpoint end_cur (pol : policy) (cur : N) (s : list conn) : N :=
  match s with
  | [] => cur
  | InitFail _ :: t => end_cur pol (multiply_backoff pol cur) t
  | InitOk _ _ _ :: t => end_cur pol (reset_backoff pol cur) t
  end.
Fixpoint end_now (pol : policy) (cur now : N) (s : list conn) : N :=
  match s with
  | [] => now
  | InitFail lat :: t => end_now pol (multiply_backoff pol cur) (now + lat + cur) t
  | InitOk lat items tail :: t =>
      end_now pol (reset_backoff pol cur) (conn_end (now + lat) items tail) t
  end.

(** The stream built on a script: after the last scripted outcome the closure is called once
    more and that call never resolves (the stream is pending, it has not ended). *)
Definition stream_trace (pol : policy) (o : N) (s : list conn) : trace :=
  run pol o (p_initial pol) 0 s ++ [(end_now pol (p_initial pol) 0 s, TAttempt)].

(* ---- with_error_handler ------------------------------------------------------------------- *)

(** [Item(Err e)] -> handler called, filtered out; everything else passes. *)
Definition handle_ev (e : tev) : tev :=
  match e with
  | TErr x => THandled x
  | TErrTerminal => THandledTerminal
  | y => y
  end.
Definition handle_errors (tr : trace) : trace := map (fun p => (fst p, handle_ev (snd p))) tr.

(* ---- forward_to ----------------------------------------------------------------------------- *)

Definition is_output (e : tev) : bool :=
  match e with
  | TItem _ | TErr _ | TErrTerminal | TNotice _ => true
  | TAttempt | THandled _ | THandledTerminal => false
  end.

(** [forward_to tx]: every event leaving the stream is sent; the first failing send (receiver
    gone; here: after [k] events were received) ends the future, that event is lost and the
    stream is dropped (nothing further is observed). Result: what was observed, and the time at
    which the future completed ([None]: still running). *)
Fixpoint forward_to (k : nat) (tr : trace) : trace * option N :=
  match tr with
  | [] => ([], None)
  | (t, e) :: rest =>
      if is_output e then
        match k with
        | O => ([], Some t)
        | S k' => let r := forward_to k' rest in ((t, e) :: fst r, snd r)
        end
      else let r := forward_to k rest in ((t, e) :: fst r, snd r)
  end.

(** A consumer that stops polling after it has received [n] events (and keeps the stream
    without ever polling it again): the pipeline is pull based, so nothing further happens —
    no item is taken from the connection, no init call is made. With n = 0 the stream is never
    polled at all: only the first init call (made by init_reconnecting_stream itself) is seen. *)
Fixpoint take_upto (n : nat) (tr : trace) : trace :=
  match tr with
  | [] => []
  | (t, e) :: rest =>
      match n with
      | O => []
      | S n' => if is_output e then (t, e) :: take_upto n' rest
                else (t, e) :: take_upto n rest
      end
  end.
Definition consumer_take (n : nat) (tr : trace) : trace :=
  match n with O => firstn 1 tr | S _ => take_upto n tr end.

Inductive fwd := FwdNone | FwdOpen | FwdClose (k : N) | FwdTake (n : N).

(** Everything observed on one run. [RPanic] is never produced by the model. *)
Inductive robs :=
| RInitErr (t : N)                          (* init_reconnecting_stream returned Err at t *)
| RStream (tr : trace) (done : option N)    (* trace; time at which the consumer finished *)
| RPanic (tr : trace).

(** [init_reconnecting_stream(init).await?  .with_reconnect_backoff(policy)
     .with_termination_on_error(is_terminal) .with_reconnection_events(origin)
     [.with_error_handler(h)] [.forward_to(tx)]] *)
Definition reconnecting (pol : policy) (o : N) (handler : bool) (f : fwd) (s : list conn) : robs :=
  match s with
  | InitFail lat :: _ => RInitErr lat
  | _ =>
      let tr := stream_trace pol o s in
      let tr := if handler then handle_errors tr else tr in
      match f with
      | FwdNone | FwdOpen => RStream tr None
      | FwdClose k => let r := forward_to (N.to_nat k) tr in RStream (fst r) (snd r)
      | FwdTake n => RStream (consumer_take (N.to_nat n) tr) None
      end
  end.

(* ---- abstract specification ----------------------------------------------------------------- *)

(** items of a connection up to (excluding) its first terminal error *)
Fixpoint take_until_terminal (l : list item) : list item :=
  match l with
  | [] => []
  | IErrTerminal :: _ => []
  | x :: t => x :: take_until_terminal t
  end.

Definition ev_of_item (i : item) : tev :=
  match i with IOk v => TItem v | IErrOther e => TErr e | IErrTerminal => TErrTerminal end.

(** what one scripted outcome contributes to the output: a failed attempt nothing; a connection
    its items up to its end / first terminal error, then exactly one notice *)
Definition delivered (items : list (N * item)) : list tev :=
  map ev_of_item (take_until_terminal (map snd items)).
Definition conn_spec (o : N) (c : conn) : list tev :=
  match c with
  | InitFail _ => []
  | InitOk _ items _ => delivered items ++ [TNotice o]
  end.

Definition events (tr : trace) : list tev := map snd tr.
Definition outputs (tr : trace) : list tev := filter is_output (events tr).
Definition is_handled (e : tev) : bool :=
  match e with THandled _ | THandledTerminal => true | _ => false end.
Definition handled (tr : trace) : list tev := filter is_handled (events tr).
Definition is_attempt (e : tev) : bool := match e with TAttempt => true | _ => false end.
Definition attempt_times (tr : trace) : list N :=
  map fst (filter (fun p => is_attempt (snd p)) tr).

Definition is_err (e : tev) : bool := match e with TErr _ | TErrTerminal => true | _ => false end.

(** output split at the notices: the segments closed by a notice, and the unclosed rest *)
Fixpoint split_notices (l : list tev) : list (list tev) * list tev :=
  match l with
  | [] => ([], [])
  | TNotice _ :: t => let r := split_notices t in ([] :: fst r, snd r)
  | x :: t =>
      let r := split_notices t in
      match fst r with
      | [] => ([], x :: snd r)
      | seg :: segs => ((x :: seg) :: segs, snd r)
      end
  end.

Definition conn_items (c : conn) : option (list (N * item)) :=
  match c with InitFail _ => None | InitOk _ items _ => Some items end.
Fixpoint ok_conns (s : list conn) : list (list (N * item)) :=
  match s with
  | [] => []
  | InitFail _ :: t => ok_conns t
  | InitOk _ items _ :: t => items :: ok_conns t
  end.

(** closed form of the wait after the k-th consecutive failure (k = 0: first failure after a
    success / after the start) *)
Definition wait (pol : policy) (k : nat) : N :=
  match k with
  | O => p_initial pol
  | S _ => N.min (p_initial pol * p_mult pol ^ N.of_nat k) (p_max pol)
  end.
Fixpoint sum_waits (pol : policy) (k : nat) : N :=
  match k with O => 0 | S k' => sum_waits pol k' + wait pol k' end.
Definition sumN (l : list N) : N := fold_right N.add 0 l.

(** attempts made during a run of consecutive failures starting at [now] with the backoff
    sequence starting at index [k] *)
Fixpoint fail_attempts (pol : policy) (k : nat) (now : N) (lats : list N) : trace :=
  match lats with
  | [] => []
  | lat :: t => (now, TAttempt) :: fail_attempts pol (S k) (now + lat + wait pol k) t
  end.
Fixpoint fail_end (pol : policy) (k : nat) (now : N) (lats : list N) : N :=
  match lats with
  | [] => now
  | lat :: t => fail_end pol (S k) (now + lat + wait pol k) t
  end.

(** is [p] a prefix of [l] *)
Definition Prefix {A} (p l : list A) : Prop := exists rest, l = p ++ rest.

(* ---- merge ---------------------------------------------------------------------------------- *)

(** Untimed: [merge l r] ends as soon as either input ends. [merge_rel l r o]: [o] is obtained
    by repeatedly taking the head of either input until one of them is exhausted. *)
Inductive merge_rel {A} : list A -> list A -> list A -> Prop :=
| MR_end_l r : merge_rel [] r []
| MR_end_r l : merge_rel l [] []
| MR_take_l x l r o : merge_rel l r o -> merge_rel (x :: l) r (x :: o)
| MR_take_r x l r o : merge_rel l r o -> merge_rel l (x :: r) (x :: o).

(** [o] interleaves [l] and [r] (all of both, each in order) *)
Inductive interleave {A} : list A -> list A -> list A -> Prop :=
| IL_nil : interleave [] [] []
| IL_l x l r o : interleave l r o -> interleave (x :: l) r (x :: o)
| IL_r x l r o : interleave l r o -> interleave l (x :: r) (x :: o).

(** Timed. A scripted input: items with the delay before each, and the delay before the end
    ([None]: never ends). *)
Inductive side := SL | SR.
Record dstream := mkDStream { ds_items : list (N * N); ds_end : option N }.

Fixpoint abs_items (now : N) (l : list (N * N)) : list (N * N) :=
  match l with
  | [] => []
  | (d, v) :: t => (now + d, v) :: abs_items (now + d) t
  end.
Definition abs_end (s : dstream) : option N :=
  option_map (fun e => sumN (map fst (ds_items s)) + e) (ds_end s).

(** absolute-time stream: items with the time they become available, time of the end *)
Notation astream := (list (N * N) * option N)%type.
Definition to_abs (s : dstream) : astream := (abs_items 0 (ds_items s), abs_end s).

(** time at which the next thing (item or end) of an input becomes available; None = never *)
Definition head_time (s : astream) : option N :=
  match fst s with (t, _) :: _ => Some t | [] => snd s end.
Definition le_inf (t : N) (o : option N) : bool :=
  match o with None => true | Some u => t <=? u end.

(** The consumer polls as soon as something is available, so the merged stream always takes an
    available head that is not later than the other input's head (either one on a tie); it ends
    when the head it takes is an end. [tm_rel l r out e]: out = (time, side, value) list, e =
    time of the end ([None]: pending for ever because neither input ever ends). *)
Inductive tm_rel : astream -> astream -> list (N * side * N) -> option N -> Prop :=
| TM_pending : tm_rel ([], None) ([], None) [] None
| TM_end_l r e : le_inf e (head_time r) = true -> tm_rel ([], Some e) r [] (Some e)
| TM_end_r l e : le_inf e (head_time l) = true -> tm_rel l ([], Some e) [] (Some e)
| TM_take_l t x l el r o e :
    le_inf t (head_time r) = true -> tm_rel (l, el) r o e ->
    tm_rel ((t, x) :: l, el) r ((t, SL, x) :: o) e
| TM_take_r t x l r er o e :
    le_inf t (head_time l) = true -> tm_rel l (r, er) o e ->
    tm_rel l ((t, x) :: r, er) ((t, SR, x) :: o) e.

Definition onat_eqb (a b : option N) : bool :=
  match a, b with Some x, Some y => x =? y | None, None => true | _, _ => false end.
Definition is_nil {A} (l : list A) : bool := match l with [] => true | _ => false end.

(** decision procedure for [tm_rel] (the output is tagged with its side, so it is a walk) *)
Fixpoint tm_check (l r : list (N * N)) (el er : option N) (out : list (N * side * N))
                  (e : option N) : bool :=
  match out with
  | [] =>
      match e with
      | None => is_nil l && is_nil r && onat_eqb el None && onat_eqb er None
      | Some t =>
          (is_nil l && onat_eqb el (Some t) && le_inf t (head_time (r, er))) ||
          (is_nil r && onat_eqb er (Some t) && le_inf t (head_time (l, el)))
      end
  | (t, SL, v) :: out' =>
      match l with
      | (t', v') :: l' =>
          (t =? t') && (v =? v') && le_inf t (head_time (r, er)) && tm_check l' r el er out' e
      | [] => false
      end
  | (t, SR, v) :: out' =>
      match r with
      | (t', v') :: r' =>
          (t =? t') && (v =? v') && le_inf t (head_time (l, el)) && tm_check l r' el er out' e
      | [] => false
      end
  end.

Definition side_eqb (a b : side) : bool :=
  match a, b with SL, SL | SR, SR => true | _, _ => false end.
Definition of_side (s : side) (out : list (N * side * N)) : list (N * N) :=
  map (fun x => (fst (fst x), snd x)) (filter (fun x => side_eqb (snd (fst x)) s) out).
Definition untag (out : list (N * side * N)) : list (N * N) :=
  map (fun x => (fst (fst x), snd x)) out.

(** times never decrease along a stream and the end is not before the last item *)
Fixpoint wf_astream (lo : N) (l : list (N * N)) (e : option N) : Prop :=
  match l with
  | [] => match e with Some t => lo <= t | None => True end
  | (t, _) :: l' => lo <= t /\ wf_astream t l' e
  end.

Definition min_end (a b : option N) : option N :=
  match a, b with
  | Some x, Some y => Some (N.min x y)
  | Some x, None => Some x
  | None, Some y => Some y
  | None, None => None
  end.

(* ---- auxiliary notions used in the theorem statements ------------------------------------------ *)

Definition non_terminal (p : N * item) : Prop := snd p <> IErrTerminal.

(** times never go backwards along a trace (all >= lo) / all times <= hi *)
Fixpoint mono (lo : N) (tr : trace) : Prop :=
  match tr with
  | [] => True
  | (t, _) :: r => lo <= t /\ mono t r
  end.
Fixpoint bounded (hi : N) (tr : trace) : Prop :=
  match tr with [] => True | (t, _) :: r => t <= hi /\ bounded hi r end.

Inductive subseq {A} : list A -> list A -> Prop :=
| SS_nil l : subseq [] l
| SS_take x a b : subseq a b -> subseq (x :: a) (x :: b)
| SS_skip x a b : subseq a b -> subseq a (x :: b).
