(** Model of barter/src/engine/state/connectivity/mod.rs (ConnectivityStates and its four
    update functions, with their early returns exactly as coded) and of the two engine wrappers
    Engine::update_from_account_stream / update_from_market_stream (barter/src/engine/mod.rs)
    that call Strategy::on_disconnect on a disconnect notice.

    ConnectivityStates.exchanges is an IndexMap<ExchangeId, ConnectivityState>: an association
    list with pairwise distinct keys.  Market events and both kinds of disconnect notices address
    an exchange by its ExchangeId (key lookup, [connectivity_mut]); account events address it by
    its ExchangeIndex (position, [connectivity_index_mut]).  Both lookups panic on a miss.
    Exchange ids are numbers ([N]); the harness numbers the ExchangeId variants.
    Definitions only: this file still runs when a proof breaks. *)
From BV Require Import Base.Common.

Inductive health := Healthy | Reconnecting.

Definition is_healthy (h : health) : bool :=
  match h with Healthy => true | Reconnecting => false end.

Definition health_eqb (a b : health) : bool :=
  match a, b with Healthy, Healthy | Reconnecting, Reconnecting => true | _, _ => false end.

(** ConnectivityState { market_data, account } *)
Record cstate := mkCS { market_data : health; account : health }.

(** ConnectivityState::all_healthy *)
Definition all_healthy (c : cstate) : bool := is_healthy (market_data c) && is_healthy (account c).

Definition set_market (h : health) (c : cstate) : cstate := mkCS h (account c).
Definition set_account (h : health) (c : cstate) : cstate := mkCS (market_data c) h.

Notation xentry := (N * cstate)%type (only parsing).

(** ConnectivityStates { global, exchanges } *)
Record conn := mkConn { global : health; exchanges : list xentry }.

(** IndexMap::get / get_mut by key *)
Fixpoint get_key (id : N) (l : list xentry) : option cstate :=
  match l with
  | [] => None
  | (k, c) :: t => if N.eqb k id then Some c else get_key id t
  end.

Fixpoint upd_key (id : N) (f : cstate -> cstate) (l : list xentry) : list xentry :=
  match l with
  | [] => []
  | (k, c) :: t => if N.eqb k id then (k, f c) :: t else (k, c) :: upd_key id f t
  end.

(** IndexMap::get_index / get_index_mut by position *)
Definition get_idx (i : nat) (l : list xentry) : option cstate := option_map snd (nth_error l i).

Fixpoint upd_idx (i : nat) (f : cstate -> cstate) (l : list xentry) : list xentry :=
  match l, i with
  | [], _ => []
  | (k, c) :: t, O => (k, f c) :: t
  | x :: t, S j => x :: upd_idx j f t
  end.

(** self.exchange_states().all(ConnectivityState::all_healthy) *)
Definition all_states_healthy (l : list xentry) : bool := forallb (fun x => all_healthy (snd x)) l.

(** Result of one update function: it returns normally, or it panics
    ("ConnectivityStates does not contain: ...") leaving the given state behind. *)
Inductive result := Done (s : conn) | Panic (s : conn).

(** update_from_account_reconnecting(&ExchangeId):
      self.global = Reconnecting;  self.connectivity_mut(exchange).account = Reconnecting *)
Definition update_from_account_reconnecting (s : conn) (id : N) : result :=
  let s1 := mkConn Reconnecting (exchanges s) in
  match get_key id (exchanges s1) with
  | None => Panic s1                                     (* global was already assigned *)
  | Some _ => Done (mkConn Reconnecting (upd_key id (set_account Reconnecting) (exchanges s1)))
  end.

(** update_from_market_reconnecting(&ExchangeId) *)
Definition update_from_market_reconnecting (s : conn) (id : N) : result :=
  let s1 := mkConn Reconnecting (exchanges s) in
  match get_key id (exchanges s1) with
  | None => Panic s1
  | Some _ => Done (mkConn Reconnecting (upd_key id (set_market Reconnecting) (exchanges s1)))
  end.

(** update_from_account_event(&ExchangeIndex):
      if self.global == Healthy { return }
      let state = self.connectivity_index_mut(exchange);
      if state.account == Healthy { return }
      state.account = Healthy;
      if self.exchange_states().all(all_healthy) { self.global = Healthy } *)
Definition update_from_account_event (s : conn) (idx : N) : result :=
  if is_healthy (global s) then Done s
  else match get_idx (N.to_nat idx) (exchanges s) with
       | None => Panic s
       | Some st =>
           if is_healthy (account st) then Done s
           else let l := upd_idx (N.to_nat idx) (set_account Healthy) (exchanges s) in
                Done (mkConn (if all_states_healthy l then Healthy else global s) l)
       end.

(** update_from_market_event(&ExchangeId): the same with a key lookup and the market link *)
Definition update_from_market_event (s : conn) (id : N) : result :=
  if is_healthy (global s) then Done s
  else match get_key id (exchanges s) with
       | None => Panic s
       | Some st =>
           if is_healthy (market_data st) then Done s
           else let l := upd_key id (set_market Healthy) (exchanges s) in
                Done (mkConn (if all_states_healthy l then Healthy else global s) l)
       end.

(** generate_empty_indexed_connectivity_states: every link Reconnecting, global Reconnecting *)
Definition init_conn (ids : list N) : conn :=
  mkConn Reconnecting (map (fun id => (id, mkCS Reconnecting Reconnecting)) ids).

(* ---- engine wrapper ------------------------------------------------------------------------ *)

(** The four inputs the property quantifies over. *)
Inductive event :=
| MarketItem (id : N)            (* MarketStreamEvent::Item, event.exchange : ExchangeId     *)
| AccountItem (idx : N)          (* AccountStreamEvent::Item, event.exchange : ExchangeIndex *)
| MarketReconnecting (id : N)    (* MarketStreamEvent::Reconnecting(ExchangeId)              *)
| AccountReconnecting (id : N).  (* AccountStreamEvent::Reconnecting(ExchangeId)             *)

(** What the audit of Engine::process carries for such an event. *)
Inductive output :=
| ONone                          (* ProcessAudit::with_event: no output                      *)
| OMarketDisconnect (id : N)     (* EngineOutput::MarketDisconnect(on_disconnect(engine,id)) *)
| OAccountDisconnect (id : N)    (* EngineOutput::AccountDisconnect(..)                      *)
| OPanic.

(** Engine state as far as this property is concerned: the connectivity table and the log of
    Strategy::on_disconnect invocations (argument of each call, oldest first). *)
Record engine := mkEngine { econn : conn; calls : list N }.

Definition init_engine (ids : list N) : engine := mkEngine (init_conn ids) [].

(** Engine::process for Account / Market events:
      Reconnecting(exchange) => { connectivity.update_from_*_reconnecting(exchange);
                                  OnDisconnect(Strategy::on_disconnect(self, *exchange)) }
      Item(event)            => { state.update_from_*(event) ... }  (first thing it does is
                                  connectivity.update_from_*_event(&event.exchange)) *)
Definition process (e : engine) (ev : event) : engine * output :=
  match ev with
  | MarketItem id =>
      match update_from_market_event (econn e) id with
      | Done s => (mkEngine s (calls e), ONone)
      | Panic s => (mkEngine s (calls e), OPanic)
      end
  | AccountItem idx =>
      match update_from_account_event (econn e) idx with
      | Done s => (mkEngine s (calls e), ONone)
      | Panic s => (mkEngine s (calls e), OPanic)
      end
  | MarketReconnecting id =>
      match update_from_market_reconnecting (econn e) id with
      | Done s => (mkEngine s (calls e ++ [id]), OMarketDisconnect id)
      | Panic s => (mkEngine s (calls e), OPanic)
      end
  | AccountReconnecting id =>
      match update_from_account_reconnecting (econn e) id with
      | Done s => (mkEngine s (calls e ++ [id]), OAccountDisconnect id)
      | Panic s => (mkEngine s (calls e), OPanic)
      end
  end.

Definition step (e : engine) (ev : event) : engine := fst (process e ev).

(** the engine after a whole history, and the outputs it produced *)
Definition run (e : engine) (h : list event) : engine := fold_left step h e.

Fixpoint outputs (e : engine) (h : list event) : list output :=
  match h with
  | [] => []
  | ev :: t => snd (process e ev) :: outputs (step e ev) t
  end.

(* ---- abstract specification ---------------------------------------------------------------- *)

(** A link = (exchange id, which of its two connections). *)
Inductive lkind := KMarket | KAccount.
Definition lkind_eqb (a b : lkind) : bool :=
  match a, b with KMarket, KMarket | KAccount, KAccount => true | _, _ => false end.

(** What an event says about which link: [Some (id, kind, true)] = an item arrived on that link,
    [Some (id, kind, false)] = that link was reported disconnected; [None] = the event names no
    exchange of [ids] (outside the property). *)
Definition link_of (ids : list N) (ev : event) : option (N * lkind * bool) :=
  match ev with
  | MarketItem id => if existsb (N.eqb id) ids then Some (id, KMarket, true) else None
  | AccountItem idx =>
      match nth_error ids (N.to_nat idx) with Some id => Some (id, KAccount, true) | None => None end
  | MarketReconnecting id => if existsb (N.eqb id) ids then Some (id, KMarket, false) else None
  | AccountReconnecting id => if existsb (N.eqb id) ids then Some (id, KAccount, false) else None
  end.

Definition valid_event (ids : list N) (ev : event) : bool :=
  match link_of ids ev with Some _ => true | None => false end.

(** The specification of one link: Reconnecting initially, and afterwards whatever the LAST
    event concerning that link said (item => Healthy, disconnect notice => Reconnecting). *)
Definition spec_link_from (ids : list N) (h0 : health) (h : list event) (id : N) (k : lkind) : health :=
  fold_left (fun acc ev =>
    match link_of ids ev with
    | Some (i, k', item) =>
        if N.eqb i id && lkind_eqb k' k then (if item then Healthy else Reconnecting) else acc
    | None => acc
    end) h h0.
Definition spec_link (ids : list N) := spec_link_from ids Reconnecting.

(** The specification of the global flag: Healthy exactly when every link is. *)
Definition spec_global (ids : list N) (h : list event) : health :=
  if forallb (fun id => is_healthy (spec_link ids h id KMarket) && is_healthy (spec_link ids h id KAccount)) ids
  then Healthy else Reconnecting.

(** The specification of the on_disconnect log and of the audit outputs. *)
Definition spec_calls (h : list event) : list N :=
  flat_map (fun ev => match ev with
                      | MarketReconnecting id | AccountReconnecting id => [id]
                      | _ => [] end) h.
Definition spec_output (ev : event) : output :=
  match ev with
  | MarketReconnecting id => OMarketDisconnect id
  | AccountReconnecting id => OAccountDisconnect id
  | _ => ONone
  end.

(** reading one link of a state *)
Definition link (s : conn) (id : N) (k : lkind) : option health :=
  option_map (fun c => match k with KMarket => market_data c | KAccount => account c end)
             (get_key id (exchanges s)).

(** which arm of the modelled functions an event takes in a state (evidence / self-test) *)
Definition branch_of (s : conn) (ev : event) : N :=
  match ev with
  | MarketReconnecting id => match get_key id (exchanges s) with None => 1 | Some _ => 2 end
  | AccountReconnecting id => match get_key id (exchanges s) with None => 3 | Some _ => 4 end
  | MarketItem id =>
      if is_healthy (global s) then 5 else
      match get_key id (exchanges s) with
      | None => 6
      | Some st => if is_healthy (market_data st) then 7
                   else if all_states_healthy (upd_key id (set_market Healthy) (exchanges s)) then 8 else 9
      end
  | AccountItem idx =>
      if is_healthy (global s) then 10 else
      match get_idx (N.to_nat idx) (exchanges s) with
      | None => 11
      | Some st => if is_healthy (account st) then 12
                   else if all_states_healthy (upd_idx (N.to_nat idx) (set_account Healthy) (exchanges s)) then 13 else 14
      end
  end%N.

(* ---- persist / restore ------------------------------------------------------------------------ *)

(** A history may contain persist / restore steps: the engine's ConnectivityStates is written
    out (serde) and read back.  The round trip is the identity, so such a step leaves the
    engine unchanged. *)
Inductive hstep := SEvent (ev : event) | SPersist.

Definition apply_hstep (e : engine) (s : hstep) : engine :=
  match s with SEvent ev => step e ev | SPersist => e end.

Definition run_steps (e : engine) (l : list hstep) : engine := fold_left apply_hstep l e.

Definition events_of (l : list hstep) : list event :=
  flat_map (fun s => match s with SEvent ev => [ev] | SPersist => [] end) l.
