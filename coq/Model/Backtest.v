(** C20 — model of a backtest: the feed an engine sees, the run loop, the summary, and a system of
    several engines stepped under an arbitrary schedule.  Definitions only.

    Anchors (barter/src):
      backtest/mod.rs          backtest(): fresh clock, execution build, Engine::new(state.clone()),
                               SystemBuild::init, shutdown_after_backtest, summary from that engine
      backtest/market_data.rs  MarketDataInMemory::stream = the events in index order
      system/builder.rs        one unbounded FIFO feed; a market forwarder and an account forwarder
                               push into it
      system/mod.rs            shutdown_after_backtest awaits the market forwarder, THEN pushes
                               Shutdown on the same feed
      engine/run.rs            async_run: pop, process, stop at the first terminal audit
      engine/mod.rs            Engine::process: Shutdown returns at once (terminal); any other
                               event updates the state and is terminal only on an unrecoverable
                               error

    The engine step, the state and the summary function are Section variables (discharged when
    the Section closes): the theorems hold for every engine. *)
From Coq Require Import List Arith Bool.
Import ListNotations.

Section Backtest.
  Variables M A St R : Type.      (* market event, account event, engine state, summary *)

  Inductive ev := EMarket (m : M) | EAccount (a : A) | EShutdown.

  (** one non-shutdown tick: new state and whether the tick is fatal (unrecoverable error) *)
  Variable step : St -> ev -> St * bool.
  Variable summarise : St -> R.

  Inductive stop := FeedEnded | StopShutdown | StopFatal.

  (** engine/run.rs: process the feed until the first terminal tick.  Returns the final state,
      the list of processed events (including the terminal one) and why it stopped. *)
  Fixpoint run (s : St) (feed : list ev) : St * list ev * stop :=
    match feed with
    | [] => (s, [], FeedEnded)
    | EShutdown :: _ => (s, [EShutdown], StopShutdown)
    | e :: rest =>
        let '(s', fatal) := step s e in
        if fatal then (s', [e], StopFatal)
        else let '(sf, p, o) := run s' rest in (sf, e :: p, o)
    end.

  Definition final (r : St * list ev * stop) : St := fst (fst r).
  Definition processed (r : St * list ev * stop) : list ev := snd (fst r).
  Definition outcome (r : St * list ev * stop) : stop := snd r.

  (** the state reached by applying the ticks of [l] (Shutdown does not change the state) *)
  Definition tick_state (s : St) (e : ev) : St :=
    match e with EShutdown => s | _ => fst (step s e) end.
  Definition state_after (s : St) (l : list ev) : St := fold_left tick_state l s.

  (** a tick is terminal in state [s] *)
  Definition terminal (s : St) (e : ev) : bool :=
    match e with EShutdown => true | _ => snd (step s e) end.

  Definition markets (l : list ev) : list M :=
    flat_map (fun e => match e with EMarket m => [m] | _ => [] end) l.
  Definition accounts (l : list ev) : list A :=
    flat_map (fun e => match e with EAccount a => [a] | _ => [] end) l.
  Definition is_shutdown (e : ev) : bool := match e with EShutdown => true | _ => false end.

  (** [interleave l r o]: [o] is a merge of [l] and [r] keeping the order of both *)
  Inductive interleave {X : Type} : list X -> list X -> list X -> Prop :=
  | il_nil : interleave [] [] []
  | il_l x l r o : interleave l r o -> interleave (x :: l) r (x :: o)
  | il_r y l r o : interleave l r o -> interleave l (y :: r) (y :: o).

  (** The feed of a backtest: the dataset in order, then Shutdown (pushed only after the market
      forwarder has finished), merged in ANY way with the account events the execution side
      produced (whatever they are, whenever they arrive — also after Shutdown). *)
  Definition admissible (dataset : list M) (accts : list A) (feed : list ev) : Prop :=
    interleave (map EMarket dataset ++ [EShutdown]) (map EAccount accts) feed.

  (** backtest(): the summary is computed from the engine returned by the run *)
  Definition backtest (s0 : St) (feed : list ev) : R := summarise (final (run s0 feed)).

  (** run_backtests(): one backtest per argument set, results collected in ARGUMENT order
      (try_join_all): the summary at output position i is the summary of the i-th backtest *)
  Definition run_backtests (s0 : St) (feeds : list (list ev)) : list R :=
    map (backtest s0) feeds.

  (** executable merge used by the correspondence check: [choices] says, tick by tick, whether
      the next event came from the market side (true) or the account side (false); what is left
      over afterwards follows (market side first). None if a choice cannot be honoured. *)
  Fixpoint weave (ms acs : list ev) (choices : list bool) : option (list ev) :=
    match choices with
    | [] => Some (ms ++ acs)
    | true :: cs => match ms with
                    | m :: ms' => option_map (cons m) (weave ms' acs cs)
                    | [] => None
                    end
    | false :: cs => match acs with
                     | a :: acs' => option_map (cons a) (weave ms acs' cs)
                     | [] => None
                     end
    end.

  (* ------------------------------------------------------------------------------------- *)
  (** Several engines side by side.  Each engine owns its state and its feed; a scheduler
      decides which engine performs its next tick. *)

  Record eng := mkEng {
    e_state : St;
    e_feed : list ev;          (* not yet processed *)
    e_done : list ev;          (* processed, most recent first *)
    e_stop : option stop }.

  Definition start (s : St) (feed : list ev) : eng := mkEng s feed [] None.

  Definition tick (e : eng) : eng :=
    match e_stop e with
    | Some _ => e
    | None =>
        match e_feed e with
        | [] => mkEng (e_state e) [] (e_done e) (Some FeedEnded)
        | EShutdown :: rest => mkEng (e_state e) rest (EShutdown :: e_done e) (Some StopShutdown)
        | x :: rest =>
            let '(s', fatal) := step (e_state e) x in
            mkEng s' rest (x :: e_done e) (if fatal then Some StopFatal else None)
        end
    end.

  Fixpoint tick_at (i : nat) (sys : list eng) : list eng :=
    match sys, i with
    | [], _ => []
    | e :: t, O => tick e :: t
    | e :: t, S j => e :: tick_at j t
    end.

  Definition run_schedule (sched : list nat) (sys : list eng) : list eng :=
    fold_left (fun sy i => tick_at i sy) sched sys.

  Definition ticks_of (i : nat) (sched : list nat) : nat := count_occ Nat.eq_dec sched i.

End Backtest.

Arguments EMarket {M A} m.
Arguments EAccount {M A} a.
Arguments EShutdown {M A}.
Arguments run {M A St} step s feed.
Arguments final {M A St} r.
Arguments processed {M A St} r.
Arguments outcome {M A St} r.
Arguments tick_state {M A St} step s e.
Arguments state_after {M A St} step s l.
Arguments terminal {M A St} step s e.
Arguments markets {M A} l.
Arguments accounts {M A} l.
Arguments is_shutdown {M A} e.
Arguments admissible {M A} dataset accts feed.
Arguments backtest {M A St R} step summarise s0 feed.
Arguments run_backtests {M A St R} step summarise s0 feeds.
Arguments weave {M A} ms acs choices.
Arguments mkEng {M A St} e_state e_feed e_done e_stop.
Arguments e_state {M A St} e.
Arguments e_feed {M A St} e.
Arguments e_done {M A St} e.
Arguments e_stop {M A St} e.
Arguments start {M A St} s feed.
Arguments tick {M A St} step e.
Arguments tick_at {M A St} step i sys.
Arguments run_schedule {M A St} step sched sys.
