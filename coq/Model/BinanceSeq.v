(** Model of the Binance L2 order-book sequencing code:
      barter-data/src/exchange/binance/spot/l2.rs     BinanceSpotOrderBookL2Sequencer,
                                                      BinanceSpotOrderBooksL2Transformer
      barter-data/src/exchange/binance/futures/l2.rs  BinanceFuturesUsdOrderBookL2Sequencer,
                                                      BinanceFuturesUsdOrderBooksL2Transformer
      barter-data/src/error.rs                        DataError::is_terminal
      barter-data/src/streams/reconnect/stream.rs     with_termination_on_error (map_while)
    composed with the local book of Model/Book.v (OrderBook::update), plus the abstract
    exchange the property is stated against.  Update ids are [N] (u64 without overflow: the
    code computes [last_update_id + 1], ids are assumed < 2^64 - 1).
    Definitions only: this file still runs when a proof breaks. *)
From BV Require Import Base.Common Model.Book.

(** the two rule sets *)
Inductive venue := Spot | Fut.

(** [Binance{Spot,Futures}OrderBookL2Update]: U = first_update_id, u = last_update_id,
    pu = prev_last_update_id (futures only; spot messages do not have it, the model carries
    a value that the spot arms never read), E = time_exchange, T = time_engine (futures only). *)
Record msg := mkMsg {
  m_U : N; m_u : N; m_pu : N; m_E : Z; m_T : Z;
  m_bids : list level; m_asks : list level }.

(** sequencer state.  [sq_prev] is [prev_last_update_id] of the spot sequencer (written, never
    read); the futures sequencer has no such field: the futures arms leave it untouched. *)
Record seqst := mkSeq { sq_ups : N; sq_last : N; sq_prev : N }.

(** [Sequencer::new(last_update_id)] / the struct literal in the futures [init] *)
Definition seq_new (l : N) : seqst := mkSeq 0 l l.

(** the error kinds that can leave the transformer *)
Inductive data_error :=
| InvalidSequence (prev_last_update_id first_update_id : N)
| SocketUnidentifiable (sub : N).          (* DataError::Socket(..) from SocketError::Unidentifiable *)

(** [DataError::is_terminal] *)
Definition is_terminal (e : data_error) : bool :=
  match e with
  | InvalidSequence _ _ => true
  | _ => false
  end.

(** step 4: "drop any event where u is <= (spot) / < (futures) lastUpdateId" *)
Definition is_stale (v : venue) (s : seqst) (m : msg) : bool :=
  match v with
  | Spot => N.leb (m_u m) (sq_last s)
  | Fut  => N.ltb (m_u m) (sq_last s)
  end.

(** [is_first_update] *)
Definition is_first_update (s : seqst) : bool := N.eqb (sq_ups s) 0.

(** [validate_first_update] (true = Ok) *)
Definition first_ok (v : venue) (s : seqst) (m : msg) : bool :=
  match v with
  | Spot => let expected_next_id := (sq_last s + 1)%N in
            N.leb (m_U m) expected_next_id && N.leb expected_next_id (m_u m)
  | Fut  => N.leb (m_U m) (sq_last s) && N.leb (sq_last s) (m_u m)
  end.

(** [validate_next_update] (true = Ok) *)
Definition next_ok (v : venue) (s : seqst) (m : msg) : bool :=
  match v with
  | Spot => N.eqb (m_U m) (sq_last s + 1)
  | Fut  => N.eqb (m_pu m) (sq_last s)
  end.

(** "Update metadata" *)
Definition advance (v : venue) (s : seqst) (m : msg) : seqst :=
  match v with
  | Spot => mkSeq (sq_ups s + 1) (m_u m) (sq_last s)
  | Fut  => mkSeq (sq_ups s + 1) (m_u m) (sq_prev s)
  end.

(** result of [validate_sequence]: Ok(None) | Ok(Some(update)) | Err(e) *)
Inductive vres := VDrop | VOk | VErr (e : data_error).

Definition seq_error (s : seqst) (m : msg) : data_error := InvalidSequence (sq_last s) (m_U m).

(** [validate_sequence]: the state advances only on success *)
Definition validate_sequence (v : venue) (s : seqst) (m : msg) : seqst * vres :=
  if is_stale v s m then (s, VDrop)
  else if is_first_update s then
    (if first_ok v s m then (advance v s m, VOk) else (s, VErr (seq_error s m)))
  else
    (if next_ok v s m then (advance v s m, VOk) else (s, VErr (seq_error s m))).

(** [MarketIter::from((exchange, key, update))]: the admitted update becomes
    OrderBookEvent::Update(OrderBook::new(update.last_update_id, time_engine, bids, asks)) with
    time_engine = None (spot) / Some(T) (futures) *)
Definition event_of (v : venue) (m : msg) : event :=
  Update (m_u m) (match v with Spot => None | Fut => Some (m_T m) end) (m_bids m) (m_asks m).

(* ------------------------------------------------------------------------------------------ *)
(** The transformer: [Map<BinanceOrderBookL2Meta<InstrumentKey, Sequencer>>] keyed by
    subscription id.  Subscription ids and instrument keys are numbered by the harness
    (distinct strings <-> distinct numbers). *)

Record meta := mkMeta { mt_key : N; mt_seq : seqst }.
Notation tmap := (list (N * meta)) (only parsing).

Fixpoint tfind (sid : N) (t : tmap) : option meta :=
  match t with
  | [] => None
  | (k, x) :: tl => if N.eqb sid k then Some x else tfind sid tl
  end.

(** write through the [&mut] obtained by [find_mut] *)
Fixpoint tset (sid : N) (x : meta) (t : tmap) : tmap :=
  match t with
  | [] => []
  | (k, y) :: tl => if N.eqb sid k then (k, x) :: tl else (k, y) :: tset sid x tl
  end.

(** [ExchangeTransformer::init]: one sequencer per subscription, at the snapshot's sequence *)
Inductive init_result :=
| InitOk (t : tmap)
| InitSnapshotMissing (sid : N)
| InitSnapshotInvalid.

Fixpoint find_snapshot (key : N) (snaps : list (N * event)) : option event :=
  match snaps with
  | [] => None
  | (k, e) :: tl => if N.eqb k key then Some e else find_snapshot key tl
  end.

Fixpoint init (imap : list (N * N)) (snaps : list (N * event)) : init_result :=
  match imap with
  | [] => InitOk []
  | (sid, key) :: tl =>
      match find_snapshot key snaps with
      | None => InitSnapshotMissing sid
      | Some (Update _ _ _ _) => InitSnapshotInvalid
      | Some (Snapshot sq _ _ _) =>
          match init tl snaps with
          | InitOk t => InitOk ((sid, mkMeta key (seq_new sq)) :: t)
          | err => err
          end
      end
  end.

(** items of [Transformer::transform]'s output vector (it has at most one element) *)
Inductive tout :=
| TNone
| TErr (e : data_error)
| TEvent (key : N) (time_exchange : Z) (ev : event).

Definition transform (v : venue) (t : tmap) (sid : N) (m : msg) : tmap * tout :=
  match tfind sid t with
  | None => (t, TErr (SocketUnidentifiable sid))
  | Some mt =>
      let '(s', r) := validate_sequence v (mt_seq mt) m in
      let t' := tset sid (mkMeta (mt_key mt) s') t in
      match r with
      | VDrop => (t', TNone)
      | VErr e => (t', TErr e)
      | VOk => (t', TEvent (mt_key mt) (m_E m) (event_of v m))
      end
  end.

(** the consumer: one local [OrderBook] per instrument key, events applied by key *)
Notation books := (list (N * book)) (only parsing).

Fixpoint bfind (key : N) (bs : books) : option book :=
  match bs with
  | [] => None
  | (k, b) :: tl => if N.eqb key k then Some b else bfind key tl
  end.

Fixpoint bapply (key : N) (e : event) (bs : books) : books :=
  match bs with
  | [] => []
  | (k, b) :: tl => if N.eqb key k then (k, update b e) :: tl else (k, b) :: bapply key e tl
  end.

Definition consume (bs : books) (o : tout) : books :=
  match o with
  | TEvent key _ ev => bapply key ev bs
  | _ => bs
  end.

(** a connection: every delivered (subscription id, message) goes through [transform], its
    output into the books *)
Definition tstep (v : venue) (st : tmap * books) (d : N * msg) : (tmap * books) * tout :=
  let '(t', o) := transform v (fst st) (fst d) (snd d) in ((t', consume (snd st) o), o).

Fixpoint trun (v : venue) (st : tmap * books) (ds : list (N * msg)) : (tmap * books) * list tout :=
  match ds with
  | [] => (st, [])
  | d :: tl => let '(st', o) := tstep v st d in
               let '(st'', os) := trun v st' tl in (st'', o :: os)
  end.

(** [with_termination_on_error(|e| e.is_terminal())] = [map_while]: the connection's stream
    ends at (and swallows) the first terminal error *)
Definition tout_terminal (o : tout) : bool :=
  match o with TErr e => is_terminal e | _ => false end.

Fixpoint with_termination (os : list tout) : list tout :=
  match os with
  | [] => []
  | o :: tl => if tout_terminal o then [] else o :: with_termination tl
  end.

(* ------------------------------------------------------------------------------------------ *)
(** One instrument in isolation: sequencer + its book. *)

Record ist := mkIst { i_seq : seqst; i_book : book }.

Definition step1 (v : venue) (st : ist) (m : msg) : ist * vres :=
  let '(s', r) := validate_sequence v (i_seq st) m in
  (mkIst s' (match r with VOk => update (i_book st) (event_of v m) | _ => i_book st end), r).

Fixpoint run1 (v : venue) (st : ist) (ms : list msg) : ist * list vres :=
  match ms with
  | [] => (st, [])
  | m :: tl => let '(st', r) := step1 v st m in
               let '(st'', rs) := run1 v st' tl in (st'', r :: rs)
  end.

(** state after the REST snapshot [(l, bs, as_)] *)
Definition ist_init (l : N) (bs as_ : list level) : ist :=
  mkIst (seq_new l) (update empty_book (Snapshot l None bs as_)).

(** the messages that were admitted, in order *)
Fixpoint admitted (ms : list msg) (rs : list vres) : list msg :=
  match ms, rs with
  | m :: ms', VOk :: rs' => m :: admitted ms' rs'
  | _ :: ms', _ :: rs' => admitted ms' rs'
  | _, _ => []
  end.

(* ------------------------------------------------------------------------------------------ *)
(** The venue's published rule, as a predicate on a list of messages relative to the snapshot
    id [l] (independent of the sequencer state machine). *)

Definition first_rule (v : venue) (l : N) (m : msg) : Prop :=
  match v with
  | Spot => (m_U m <= l + 1 /\ l + 1 <= m_u m)%N      (* first covers snapshot id + 1 *)
  | Fut  => (m_U m <= l /\ l <= m_u m)%N              (* first covers snapshot id *)
  end.

Definition next_rule (v : venue) (prev_u : N) (m : msg) : Prop :=
  match v with
  | Spot => m_U m = (prev_u + 1)%N
  | Fut  => m_pu m = prev_u
  end.

Fixpoint chain_from (v : venue) (prev_u : N) (ms : list msg) : Prop :=
  match ms with
  | [] => True
  | m :: tl => next_rule v prev_u m /\ chain_from v (m_u m) tl
  end.

Definition chain_ok (v : venue) (l : N) (ms : list msg) : Prop :=
  match ms with
  | [] => True
  | m :: tl => first_rule v l m /\ chain_from v (m_u m) tl
  end.

(** "strictly older" than the snapshot: what step 4 of the venue's procedure discards *)
Definition older (v : venue) (l : N) (m : msg) : Prop :=
  match v with
  | Spot => (m_u m <= l)%N
  | Fut  => (m_u m < l)%N
  end.

(** id sanity of a real message: U <= u, and for futures pu < U *)
Definition ids_wf (v : venue) (m : msg) : Prop :=
  (m_U m <= m_u m)%N /\ match v with Spot => True | Fut => (m_pu m < m_U m)%N end.

(* ------------------------------------------------------------------------------------------ *)
(** The exchange. [delta n] = the absolute-quantity level changes made by update id [n]
    (bids, asks); the exchange's book after all ids <= n is [B n]. *)

(** what a list of absolute-quantity writes says about price [p]: [None] = not mentioned,
    [Some None] = deleted, [Some (Some a)] = set to [a] (the last mention wins) *)
Fixpoint last_write (l : list level) (p : Z) : option (option Z) :=
  match l with
  | [] => None
  | (q, a) :: tl =>
      match last_write tl p with
      | Some w => Some w
      | None => if Z.eqb p q then Some (if Z.eqb a 0 then None else Some a) else None
      end
  end.

Section Exchange.
  Variable delta : N -> list level * list level.

  Definition dside (sd : side) (n : N) : list level :=
    match sd with Bid => fst (delta n) | Ask => snd (delta n) end.

  (** changes of ids lo, lo+1, ..., lo+len-1 in order *)
  Fixpoint cat (sd : side) (lo : N) (len : nat) : list level :=
    match len with
    | O => []
    | S k => dside sd lo ++ cat sd (N.succ lo) k
    end.

  (** the changes of ids U..u (empty when u < U) *)
  Definition payload (sd : side) (U u : N) : list level := cat sd U (N.to_nat (u + 1 - U)).

  (** the exchange's book after every id <= n *)
  Definition B (sd : side) (n : N) : pmap := spec_upsert pempty (payload sd 0 n).

  (** a genuine depth-update message: its level lists say, price by price, what the changes of
      ids U..u say (the concatenation itself, or one level per price with the final quantity);
      a futures message with previous id pu additionally asserts that nothing changed strictly
      between pu and U *)
  Definition genuine (v : venue) (m : msg) : Prop :=
    (m_U m <= m_u m)%N /\
    (forall p, last_write (m_bids m) p = last_write (payload Bid (m_U m) (m_u m)) p) /\
    (forall p, last_write (m_asks m) p = last_write (payload Ask (m_U m) (m_u m)) p) /\
    match v with
    | Spot => True
    | Fut => (m_pu m < m_U m)%N /\
             forall n, (m_pu m < n)%N -> (n < m_U m)%N -> delta n = ([], [])
    end.

  (** the local book [b] is the exchange's book as of id [n] *)
  Definition book_is (b : book) (n : N) : Prop :=
    bseq b = n /\ book_inv b /\
    (forall p, lookup (bids b) p = B Bid n p) /\ (forall p, lookup (asks b) p = B Ask n p).
End Exchange.

(** one level per price, the last quantity (what the venue actually sends) *)
Fixpoint net (l : list level) : list level :=
  match l with
  | [] => []
  | (q, a) :: tl => match last_write tl q with Some _ => net tl | None => (q, a) :: net tl end
  end.
