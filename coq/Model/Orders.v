(** Model of the active-order tracking of barter:
      barter/src/engine/state/order/mod.rs      Orders::{update_from_order_snapshot,
                                                update_from_cancel_response,
                                                record_in_flight_open, record_in_flight_cancel}
      barter-execution/src/order/{mod,state}.rs Order, OrderKey, ActiveOrderState, Open,
                                                CancelInFlight, InactiveOrderState,
                                                Order::to_active, Open::quantity_remaining,
                                                ActiveOrderState::open_meta
      barter/src/engine/state/mod.rs            EngineState::update_from_account routing of
                                                OrderSnapshot / OrderCancelled / Snapshot
      barter/src/engine/state/order/in_flight_recorder.rs  routing for EngineState
    and the abstract specification (the documented per-order lifecycle) it refines to.

    Decimals are integers at scale 1e-8 (only [-] and the zero test are used), exchange
    timestamps are exact integers: nanoseconds since the Unix epoch (chrono's
    resolution; the model only compares them), client order ids / order ids / strategy ids are
    integers (the harness names them "c<n>", "o<n>", "s<n>").
    Definitions only: this file still runs when a proof breaks. *)
From Coq Require Export List ZArith Bool.
Export ListNotations.
Local Open Scope Z_scope.

(* ------------------------------------------------------------------------------------------ *)
(** * Data *)

Inductive side := Buy | Sell.
Inductive okind := Market | Limit.
Inductive tif := GTC (post_only : bool) | GTD | FOK | IOC.

(** [OrderKey] *)
Record key := mkK { k_exch : Z; k_inst : Z; k_strat : Z; k_cid : Z }.

(** [Open] : exchange order id, exchange timestamp, filled quantity *)
Record meta := mkM { m_oid : Z; m_time : Z; m_filled : Z }.

(** [ActiveOrderState] *)
Inductive astate := OIF | Open (m : meta) | CIF (m : option meta).

(** [InactiveOrderState] (the payload of [OpenFailed] is never inspected) *)
Inductive istate := Cancelled (oid t : Z) | FullyFilled | OpenFailed | Expired.

(** [OrderState] *)
Inductive sstate := SA (a : astate) | SI (i : istate).

(** [Order<_, _, State>] *)
Record ord (S : Type) := mkO {
  o_key : key; o_side : side; o_price : Z; o_qty : Z; o_kind : okind; o_tif : tif;
  o_state : S }.
Arguments mkO {S}.
Arguments o_key {S}. Arguments o_side {S}. Arguments o_price {S}. Arguments o_qty {S}.
Arguments o_kind {S}. Arguments o_tif {S}. Arguments o_state {S}.

Notation order := (ord astate).        (* a tracked order *)
Notation osnap := (ord sstate).        (* an order snapshot reported by the exchange *)
Notation oreq  := (ord unit).          (* OrderRequestOpen = key + RequestOpen *)

Definition with_state {S T} (o : ord S) (t : T) : ord T :=
  mkO (o_key o) (o_side o) (o_price o) (o_qty o) (o_kind o) (o_tif o) t.

(** the inputs of the four tracked entry points *)
Inductive op :=
| RecOpen (r : oreq)                 (* record_in_flight_open *)
| RecCancel (k : key)                (* record_in_flight_cancel (only the key is read) *)
| Snap (s : osnap)                   (* update_from_order_snapshot *)
| CancelResp (k : key) (ok : bool).  (* update_from_cancel_response, Ok(Cancelled) / Err(_) *)

Definition key_of (o : op) : key :=
  match o with
  | RecOpen r => o_key r | RecCancel k => k | Snap s => o_key s | CancelResp k _ => k
  end.
Definition cid_of (o : op) : Z := k_cid (key_of o).

(** [Orders.0] : FnvHashMap<ClientOrderId, Order<..,ActiveOrderState>> as a total function *)
Notation orders := (Z -> option order).
Definition empty : orders := fun _ => None.
Definition upd (s : orders) (c : Z) (v : option order) : orders :=
  fun c' => if Z.eqb c' c then v else s c'.

(* ------------------------------------------------------------------------------------------ *)
(** * The code, arm by arm *)

(** [Open::quantity_remaining(initial_quantity)] *)
Definition rem (q : Z) (m : meta) : Z := q - m_filled m.

(** [ActiveOrderState::open_meta] *)
Definition held (a : astate) : option meta :=
  match a with OIF => None | Open m => Some m | CIF x => x end.

(** [Order::to_active] *)
Definition to_active (s : osnap) : option order :=
  match o_state s with SA a => Some (with_state s a) | SI _ => None end.

(** [Order::from(&OrderRequestOpen)] *)
Definition order_of_request (r : oreq) : order := with_state r OIF.

(** [OrderManager::update_from_order_snapshot] *)
Definition snapshot_step (s : orders) (sn : osnap) : orders :=
  let c := k_cid (o_key sn) in
  match s c, to_active sn with
  | None, None => s                                     (* untracked + inactive : ignore *)
  | None, Some u =>                                     (* untracked + active : insert ... *)
      match o_state u with
      | Open m => if Z.eqb (rem (o_qty u) m) 0 then s   (* ... unless actually fully filled *)
                  else upd s c (Some u)
      | _ => upd s c (Some u)
      end
  | Some _, None => upd s c None                        (* tracked + inactive : remove *)
  | Some cur, Some u =>
      let uq := o_qty u in                              (* update_quantity *)
      match o_state cur, o_state u with
      | OIF, OIF => s
      | OIF, Open m =>
          if Z.eqb (rem uq m) 0 then upd s c None
          else upd s c (Some (with_state cur (Open m)))
      | OIF, CIF x => upd s c (Some (with_state cur (CIF x)))
      | Open _, OIF => s
      | Open cm, Open m =>
          if Z.leb (m_time cm) (m_time m) then
            (if Z.eqb (rem uq m) 0 then upd s c None
             else upd s c (Some (with_state cur (Open m))))
          else s
      | Open cm, CIF x =>
          let latest :=
            match x with
            | Some um => if Z.leb (m_time cm) (m_time um) then um else cm
            | None => cm
            end in
          upd s c (Some (with_state cur (CIF (Some latest))))
      | CIF _, OIF => s
      | CIF x, Open m =>
          let update_open_is_latest :=
            match x with None => true | Some cm => Z.leb (m_time cm) (m_time m) end in
          if update_open_is_latest then
            (if Z.eqb (rem uq m) 0 then upd s c None
             else upd s c (Some (with_state cur (CIF (Some m)))))
          else s
      | CIF _, CIF _ => s
      end
  end.

(** [OrderManager::update_from_cancel_response] *)
Definition cancel_response_step (s : orders) (k : key) (ok : bool) : orders :=
  let c := k_cid k in
  match s c with
  | None => s
  | Some cur =>
      match o_state cur, ok with
      | (OIF | Open _), true => upd s c None
      | CIF _, true => upd s c None
      | (OIF | Open _), false => s
      | CIF (Some m), false => upd s c (Some (with_state cur (Open m)))
      | CIF None, false => upd s c None
      end
  end.

(** [InFlightRequestRecorder::record_in_flight_cancel] *)
Definition record_cancel_step (s : orders) (k : key) : orders :=
  let c := k_cid k in
  match s c with
  | None => s
  | Some cur => upd s c (Some (with_state cur (CIF (held (o_state cur)))))
  end.

(** [InFlightRequestRecorder::record_in_flight_open] : insert, overwriting a duplicate cid *)
Definition record_open_step (s : orders) (r : oreq) : orders :=
  upd s (k_cid (o_key r)) (Some (order_of_request r)).

Definition step (s : orders) (o : op) : orders :=
  match o with
  | RecOpen r => record_open_step s r
  | RecCancel k => record_cancel_step s k
  | Snap sn => snapshot_step s sn
  | CancelResp k ok => cancel_response_step s k ok
  end.

Definition run (ops : list op) (s : orders) : orders := fold_left step ops s.

(** exchange timestamp of the exchange-reported data held for [c] *)
Definition ts (s : orders) (c : Z) : option Z :=
  match s c with
  | Some o => option_map m_time (held (o_state o))
  | None => None
  end.

(** the fields that are fixed when tracking starts *)
Definition static {S} (o : ord S) : ord unit := with_state o tt.

(* ------------------------------------------------------------------------------------------ *)
(** * Engine level: one [Orders] per instrument, routed by the instrument index *)

(** [InstrumentAccountSnapshot] : instrument + its order snapshots *)
Record isnap := IS { is_inst : Z; is_orders : list osnap }.

Inductive eop :=
| EOrd (o : op)                    (* EngineState::record_in_flight_* and AccountEventKind::
                                      OrderSnapshot / OrderCancelled : routed by key.instrument *)
| EAcctSnapshot (l : list isnap).  (* AccountEventKind::Snapshot : every listed instrument's
                                      orders are applied to THAT instrument's Orders *)

Notation estate := (Z -> orders).
Definition eempty : estate := fun _ => empty.
Definition eupd (e : estate) (i : Z) (s : orders) : estate :=
  fun i' => if Z.eqb i' i then s else e i'.

Definition inst_of (o : op) : Z := k_inst (key_of o).

(** [InstrumentState::update_from_account_snapshot] *)
Definition isnap_step (e : estate) (x : isnap) : estate :=
  eupd e (is_inst x) (fold_left snapshot_step (is_orders x) (e (is_inst x))).

Definition estep (e : estate) (x : eop) : estate :=
  match x with
  | EOrd o => eupd e (inst_of o) (step (e (inst_of o)) o)
  | EAcctSnapshot l => fold_left isnap_step l e
  end.

Definition erun (xs : list eop) (e : estate) : estate := fold_left estep xs e.

(* ------------------------------------------------------------------------------------------ *)
(** * Abstract specification: the documented lifecycle of ONE client order id

    Written independently of [step], from the doc comment of [Orders] ("OpenInFlight -> Open ->
    CancelInFlight -> Cancelled/Expired/FullyFilled, once achieved order is no longer tracked"),
    the doc comments of the update functions and the text of property C01.  The abstract state of
    a client order id is "untracked" or its [ActiveOrderState]. *)

Notation pstate := (option astate).

Inductive aop :=
| ARecOpen                     (* an open request for this id was sent *)
| ARecCancel                   (* a cancel request for this id was sent *)
| ASnap (q : Z) (s : sstate)   (* the exchange reported the order: quantity and state *)
| ACancelResp (ok : bool).     (* the exchange answered a cancel request *)

Definition abs_op (o : op) : aop :=
  match o with
  | RecOpen _ => ARecOpen
  | RecCancel _ => ARecCancel
  | Snap s => ASnap (o_qty s) (o_state s)
  | CancelResp _ ok => ACancelResp ok
  end.

(** [fresh a m]: the report [m] is at least as recent as what is held; [stale]: strictly older;
    [tie]: the same exchange timestamp *)
Definition fresh (a : astate) (m : meta) : Prop :=
  match held a with None => True | Some cm => m_time cm <= m_time m end.
Definition stale (a : astate) (m : meta) : Prop :=
  match held a with None => False | Some cm => m_time m < m_time cm end.
Definition tie (a : astate) (m : meta) : Prop :=
  match held a with None => False | Some cm => m_time cm = m_time m end.

(** an open report refreshes the held data without changing the phase:
    in-flight/open becomes (stays) open, cancel-in-flight stays cancel-in-flight *)
Definition refresh (a : astate) (m : meta) : astate :=
  match a with CIF _ => CIF (Some m) | _ => Open m end.

Definition not_cif (a : astate) : Prop := match a with CIF _ => False | _ => True end.

(** most recent of the held open data [cm] and the optional [x]; either one on a tie *)
Definition newest (cm : meta) (x : option meta) (m : meta) : Prop :=
  match x with
  | None => m = cm
  | Some um => (m_time cm <= m_time um /\ m = um) \/ (m_time um <= m_time cm /\ m = cm)
  end.

Inductive lifecycle : pstate -> aop -> pstate -> Prop :=
(* requests *)
| L_open_sent s : lifecycle s ARecOpen (Some OIF)
| L_cancel_sent a : lifecycle (Some a) ARecCancel (Some (CIF (held a)))
| L_cancel_sent_untracked : lifecycle None ARecCancel None
(* the exchange reports the order finished: cancelled / fully filled / failed / expired *)
| L_inactive s q i : lifecycle s (ASnap q (SI i)) None
(* the exchange reports the order open *)
| L_open_new q m : rem q m <> 0 -> lifecycle None (ASnap q (SA (Open m))) (Some (Open m))
| L_open_new_full q m : rem q m = 0 -> lifecycle None (ASnap q (SA (Open m))) None
| L_open_full a q m : fresh a m -> rem q m = 0 ->
    lifecycle (Some a) (ASnap q (SA (Open m))) None
| L_open_newer a q m : fresh a m -> rem q m <> 0 ->
    lifecycle (Some a) (ASnap q (SA (Open m))) (Some (refresh a m))
| L_open_tie_kept a q m : tie a m -> rem q m <> 0 ->       (* same timestamp: keeping is fine *)
    lifecycle (Some a) (ASnap q (SA (Open m))) (Some a)
| L_open_stale a q m : stale a m -> lifecycle (Some a) (ASnap q (SA (Open m))) (Some a)
| L_open_stale_full a q m : stale a m -> rem q m = 0 ->    (* the text is silent: both allowed *)
    lifecycle (Some a) (ASnap q (SA (Open m))) None
(* cancel responses *)
| L_cancel_ok s : lifecycle s (ACancelResp true) None
| L_cancel_err_open m : lifecycle (Some (CIF (Some m))) (ACancelResp false) (Some (Open m))
| L_cancel_err_none : lifecycle (Some (CIF None)) (ACancelResp false) None
| L_cancel_err_other a : not_cif a -> lifecycle (Some a) (ACancelResp false) (Some a)
| L_cancel_err_untracked : lifecycle None (ACancelResp false) None
(* reports that themselves carry an in-flight marker (engine-internal / replicated state) *)
| L_mark_oif_new q : lifecycle None (ASnap q (SA OIF)) (Some OIF)
| L_mark_oif_ignored a q : lifecycle (Some a) (ASnap q (SA OIF)) (Some a)
| L_mark_cif_new q x : lifecycle None (ASnap q (SA (CIF x))) (Some (CIF x))
| L_mark_cif_oif q x : lifecycle (Some OIF) (ASnap q (SA (CIF x))) (Some (CIF x))
| L_mark_cif_open cm q x m : newest cm x m ->
    lifecycle (Some (Open cm)) (ASnap q (SA (CIF x))) (Some (CIF (Some m)))
| L_mark_cif_dup y q x : lifecycle (Some (CIF y)) (ASnap q (SA (CIF x))) (Some (CIF y)).

(** the same table as a function: the list of states the lifecycle allows next
    (proved equivalent to [lifecycle] in Proofs/Orders.v); this is the executable oracle *)
Definition allowed (s : pstate) (o : aop) : list pstate :=
  match o with
  | ARecOpen => [Some OIF]
  | ARecCancel => match s with Some a => [Some (CIF (held a))] | None => [None] end
  | ACancelResp true => [None]
  | ACancelResp false =>
      match s with
      | None => [None]
      | Some (CIF (Some m)) => [Some (Open m)]
      | Some (CIF None) => [None]
      | Some a => [Some a]
      end
  | ASnap _ (SI _) => [None]
  | ASnap _ (SA OIF) => match s with None => [Some OIF] | Some a => [Some a] end
  | ASnap _ (SA (CIF x)) =>
      match s with
      | None | Some OIF => [Some (CIF x)]
      | Some (CIF y) => [Some (CIF y)]
      | Some (Open cm) =>
          match x with
          | None => [Some (CIF (Some cm))]
          | Some um =>
              (if Z.leb (m_time cm) (m_time um) then [Some (CIF (Some um))] else []) ++
              (if Z.leb (m_time um) (m_time cm) then [Some (CIF (Some cm))] else [])
          end
      end
  | ASnap q (SA (Open m)) =>
      let full := Z.eqb (rem q m) 0 in
      match s with
      | None => if full then [None] else [Some (Open m)]
      | Some a =>
          match held a with
          | None => if full then [None] else [Some (refresh a m)]
          | Some cm =>
              if Z.ltb (m_time cm) (m_time m) then
                (if full then [None] else [Some (refresh a m)])
              else if Z.eqb (m_time cm) (m_time m) then
                (if full then [None] else [Some (refresh a m); Some a])
              else
                (if full then [Some a; None] else [Some a])
          end
      end
  end.

(** several reports in a row (one instrument's part of a full account snapshot): the id [c]
    takes one lifecycle step per report that concerns it, in the order listed *)
Inductive lifecycle_seq (c : Z) : pstate -> list osnap -> pstate -> Prop :=
| LS_nil s : lifecycle_seq c s [] s
| LS_hit s sn sns s1 s2 :
    k_cid (o_key sn) = c -> lifecycle s (ASnap (o_qty sn) (o_state sn)) s1 ->
    lifecycle_seq c s1 sns s2 -> lifecycle_seq c s (sn :: sns) s2
| LS_miss s sn sns s2 :
    k_cid (o_key sn) <> c -> lifecycle_seq c s sns s2 -> lifecycle_seq c s (sn :: sns) s2.

(** executable form: every state the lifecycle allows after the reports *)
Fixpoint reach (c : Z) (sns : list osnap) (s : pstate) : list pstate :=
  match sns with
  | [] => [s]
  | sn :: rest =>
      if Z.eqb (k_cid (o_key sn)) c
      then flat_map (reach c rest) (allowed s (ASnap (o_qty sn) (o_state sn)))
      else reach c rest s
  end.

(* ---- decidable equalities (used by the oracle and the correspondence comparison) ---------- *)

Definition side_eqb (a b : side) : bool :=
  match a, b with Buy, Buy | Sell, Sell => true | _, _ => false end.
Definition okind_eqb (a b : okind) : bool :=
  match a, b with Market, Market | Limit, Limit => true | _, _ => false end.
Definition tif_eqb (a b : tif) : bool :=
  match a, b with
  | GTC x, GTC y => Bool.eqb x y
  | GTD, GTD | FOK, FOK | IOC, IOC => true
  | _, _ => false
  end.
Definition key_eqb (a b : key) : bool :=
  Z.eqb (k_exch a) (k_exch b) && Z.eqb (k_inst a) (k_inst b) &&
  Z.eqb (k_strat a) (k_strat b) && Z.eqb (k_cid a) (k_cid b).
Definition meta_eqb (a b : meta) : bool :=
  Z.eqb (m_oid a) (m_oid b) && Z.eqb (m_time a) (m_time b) && Z.eqb (m_filled a) (m_filled b).
Definition ometa_eqb (a b : option meta) : bool :=
  match a, b with
  | Some x, Some y => meta_eqb x y
  | None, None => true
  | _, _ => false
  end.
Definition astate_eqb (a b : astate) : bool :=
  match a, b with
  | OIF, OIF => true
  | Open x, Open y => meta_eqb x y
  | CIF x, CIF y => ometa_eqb x y
  | _, _ => false
  end.
Definition pstate_eqb (a b : pstate) : bool :=
  match a, b with
  | Some x, Some y => astate_eqb x y
  | None, None => true
  | _, _ => false
  end.
Definition ord_eqb {S} (eqs : S -> S -> bool) (a b : ord S) : bool :=
  key_eqb (o_key a) (o_key b) && side_eqb (o_side a) (o_side b) &&
  Z.eqb (o_price a) (o_price b) && Z.eqb (o_qty a) (o_qty b) &&
  okind_eqb (o_kind a) (o_kind b) && tif_eqb (o_tif a) (o_tif b) &&
  eqs (o_state a) (o_state b).
Definition order_eqb : order -> order -> bool := ord_eqb astate_eqb.
Definition oorder_eqb (a b : option order) : bool :=
  match a, b with
  | Some x, Some y => order_eqb x y
  | None, None => true
  | _, _ => false
  end.

Definition lifecycle_b (s : pstate) (o : aop) (s' : pstate) : bool :=
  existsb (pstate_eqb s') (allowed s o).

(** projection of the tracked map to the abstract per-id state *)
Definition pst (x : option order) : pstate := option_map o_state x.

(** monotone exchange timestamp between two abstract states (when both hold data) *)
Definition pts (s : pstate) : option Z :=
  match s with Some a => option_map m_time (held a) | None => None end.
Definition mono_b (s s' : pstate) : bool :=
  match pts s, pts s' with Some t, Some t' => Z.leb t t' | _, _ => true end.
