(** Executable model of barter/src/engine/state/position.rs (Position, PositionManager,
    PositionExited and the calculate_* helpers) in exact rational arithmetic (Qc), plus the
    abstract fill-level specification that properties C02 and C15 refine to.
    Definitions only. *)
From Coq Require Export List ZArith NArith QArith Bool.
(* Qcanon opens Qc_scope globally: imported, not re-exported, so that it does not leak into the
   files that merely use the model's types *)
From Coq Require Import Qcanon Qcabs.
Export ListNotations.
Local Open Scope Qc_scope.

(* ---- values --------------------------------------------------------------------------- *)

Inductive side := Buy | Sell.

Definition side_eqb (a b : side) : bool :=
  match a, b with Buy, Buy | Sell, Sell => true | _, _ => false end.

(** barter_execution::trade::Trade<QuoteAsset, InstrumentKey>; trade ids are numbered, the
    instrument key is a number, times are milliseconds. order_id / strategy are not modelled
    (never read by the position code). *)
Record fill := mkFill {
  f_id : N; f_inst : N; f_time : Z; f_side : side; f_price : Qc; f_qty : Qc; f_fee : Qc }.

(** Position<QuoteAsset, InstrumentKey>: every field. *)
Record position := mkPos {
  p_inst : N; p_side : side; p_avg : Qc; p_qty : Qc; p_qmax : Qc;
  p_pnl_u : Qc; p_pnl_r : Qc; p_fin : Qc; p_fout : Qc;
  p_tenter : Z; p_tupdate : Z; p_trades : list N }.

(** PositionExited<QuoteAsset, InstrumentKey>: every field. *)
Record exited := mkExit {
  x_inst : N; x_side : side; x_avg : Qc; x_qmax : Qc; x_pnl_r : Qc; x_fin : Qc; x_fout : Qc;
  x_tenter : Z; x_texit : Z; x_trades : list N }.

Definition Qc_eqb (a b : Qc) : bool := Qeq_bool (this a) (this b).
Definition Qc_gtb (a b : Qc) : bool := match a ?= b with Gt => true | _ => false end.

(* ---- calculate_* ---------------------------------------------------------------------- *)

(** calculate_price_entry_average *)
Definition calc_avg (cur_avg cur_q tp tq : Qc) : Qc :=
  if Qc_eqb cur_q 0 && Qc_eqb tq 0 then 0
  else (cur_avg * cur_q + tp * tq) / (cur_q + tq).

(** approximate_remaining_exit_fees *)
Definition exit_fees (q qmax fin : Qc) : Qc := (q / qmax) * fin.

(** calculate_pnl_unrealised *)
Definition calc_pnl_u (s : side) (avg q qmax fin price : Qc) : Qc :=
  match s with
  | Buy => q * price - q * avg - exit_fees q qmax fin
  | Sell => q * avg - q * price - exit_fees q qmax fin
  end.

(** calculate_pnl_realised *)
Definition calc_pnl_r (s : side) (avg closed_q closed_p closed_fee : Qc) : Qc :=
  let cq := Qcabs closed_q in
  match s with
  | Buy => cq * closed_p - cq * avg - closed_fee
  | Sell => cq * avg - cq * closed_p - closed_fee
  end.

(* ---- Position ------------------------------------------------------------------------- *)

(** impl From<&Trade> for Position: note pnl_unrealised = 0 *)
Definition pos_of_fill (f : fill) : position :=
  let q := Qcabs (f_qty f) in
  mkPos (f_inst f) (f_side f) (f_price f) q q 0 (- f_fee f) (f_fee f) 0
        (f_time f) (f_time f) [f_id f].

(** impl From<Position> for PositionExited *)
Definition exited_of (p : position) : exited :=
  mkExit (p_inst p) (p_side p) (p_avg p) (p_qmax p) (p_pnl_r p) (p_fin p) (p_fout p)
         (p_tenter p) (p_tupdate p) (p_trades p).

(** Position::update_pnl_unrealised *)
Definition update_pnl_u (p : position) (price : Qc) : position :=
  mkPos (p_inst p) (p_side p) (p_avg p) (p_qty p) (p_qmax p)
        (calc_pnl_u (p_side p) (p_avg p) (p_qty p) (p_qmax p) (p_fin p) price)
        (p_pnl_r p) (p_fin p) (p_fout p) (p_tenter p) (p_tupdate p) (p_trades p).

Inductive arm := ArmIgnore | ArmIncrease | ArmReduce | ArmClose | ArmFlip.

(** which arm of Position::update_from_trade a trade takes *)
Definition arm_of (p : position) (f : fill) : arm :=
  if negb (N.eqb (p_inst p) (f_inst f)) then ArmIgnore
  else if side_eqb (p_side p) (f_side f) then ArmIncrease
  else match p_qty p ?= Qcabs (f_qty f) with
       | Gt => ArmReduce
       | Eq => ArmClose
       | Lt => ArmFlip
       end.

(** Position::update_from_trade, statement by statement *)
Definition pos_update (p : position) (f : fill) : option position * option exited :=
  let q := Qcabs (f_qty f) in
  let trades := p_trades p ++ [f_id f] in
  match arm_of p f with
  | ArmIgnore => (Some p, None)
  | ArmIncrease =>
      let avg := calc_avg (p_avg p) (p_qty p) (f_price f) q in
      let qty := p_qty p + q in
      let qmax := if Qc_gtb qty (p_qmax p) then qty else p_qmax p in
      let pnl_r := p_pnl_r p - f_fee f in
      let fin := p_fin p + f_fee f in
      (Some (mkPos (p_inst p) (p_side p) avg qty qmax
                   (calc_pnl_u (p_side p) avg qty qmax fin (f_price f))
                   pnl_r fin (p_fout p) (p_tenter p) (f_time f) trades), None)
  | ArmReduce =>
      let pnl_r := p_pnl_r p + calc_pnl_r (p_side p) (p_avg p) (f_qty f) (f_price f) (f_fee f) in
      let qty := p_qty p - q in
      let fout := p_fout p + f_fee f in
      (Some (mkPos (p_inst p) (p_side p) (p_avg p) qty (p_qmax p)
                   (calc_pnl_u (p_side p) (p_avg p) qty (p_qmax p) (p_fin p) (f_price f))
                   pnl_r (p_fin p) fout (p_tenter p) (f_time f) trades), None)
  | ArmClose =>
      let qty := p_qty p - q in
      let fout := p_fout p + f_fee f in
      let pnl_r := p_pnl_r p + calc_pnl_r (p_side p) (p_avg p) (f_qty f) (f_price f) (f_fee f) in
      (None,
       Some (exited_of
         (mkPos (p_inst p) (p_side p) (p_avg p) qty (p_qmax p)
                (calc_pnl_u (p_side p) (p_avg p) qty (p_qmax p) (p_fin p) (f_price f))
                pnl_r (p_fin p) fout (p_tenter p) (f_time f) trades)))
  | ArmFlip =>
      let next_q := q - p_qty p in
      let next_fee := f_fee f * (next_q / q) in
      let next_fill := mkFill (f_id f) (f_inst f) (f_time f) (f_side f) (f_price f) next_q next_fee in
      let fee_exit := f_fee f * (p_qty p / q) in
      let fout := p_fout p + fee_exit in
      let pnl_r := p_pnl_r p + calc_pnl_r (p_side p) (p_avg p) (p_qty p) (f_price f) fee_exit in
      (Some (pos_of_fill next_fill),
       Some (exited_of
         (mkPos (p_inst p) (p_side p) (p_avg p) 0 (p_qmax p)
                (calc_pnl_u (p_side p) (p_avg p) 0 (p_qmax p) (p_fin p) (f_price f))
                pnl_r (p_fin p) fout (p_tenter p) (f_time f) trades)))
  end.

(* ---- PositionManager ------------------------------------------------------------------ *)

Notation pm := (option position).

(** PositionManager::update_from_trade *)
Definition pm_update (c : pm) (f : fill) : pm * option exited :=
  match c with
  | Some p => pos_update p f
  | None => (Some (pos_of_fill f), None)
  end.

Definition olist {A} (o : option A) : list A := match o with Some a => [a] | None => [] end.

(** a history: current position and the PositionExited records emitted so far, in order *)
Notation pstate := (pm * list exited)%type.

Definition pstep (s : pstate) (f : fill) : pstate :=
  let r := pm_update (fst s) f in (fst r, snd s ++ olist (snd r)).

Definition prun (fs : list fill) : pstate := fold_left pstep fs (None, []).

(* ---- abstract specification: what the fills alone determine ---------------------------- *)

(** signed quantity of a fill / of the open position *)
Definition sq_fill (f : fill) : Qc := match f_side f with Buy => f_qty f | Sell => - f_qty f end.
Definition sq_pos (p : position) : Qc := match p_side p with Buy => p_qty p | Sell => - p_qty p end.
Definition sq_pm (c : pm) : Qc := match c with Some p => sq_pos p | None => 0 end.
Definition avg_pm (c : pm) : Qc := match c with Some p => p_avg p | None => 0 end.
Definition pnlr_pm (c : pm) : Qc := match c with Some p => p_pnl_r p | None => 0 end.
Definition fees_pm (c : pm) : Qc := match c with Some p => p_fin p + p_fout p | None => 0 end.
Definition trades_pm (c : pm) : list N := match c with Some p => p_trades p | None => [] end.

Definition Qcsum (l : list Qc) : Qc := fold_right Qcplus 0 l.

(** net signed filled quantity *)
Definition net (fs : list fill) : Qc := Qcsum (map sq_fill fs).

(** cash flow of a fill: sell proceeds are received, buy cost and the fee are paid *)
Definition cashflow (f : fill) : Qc :=
  match f_side f with
  | Sell => f_price f * f_qty f - f_fee f
  | Buy => - (f_price f * f_qty f) - f_fee f
  end.
Definition cash (fs : list fill) : Qc := Qcsum (map cashflow fs).
Definition proceeds (fs : list fill) : Qc :=
  Qcsum (map (fun f => match f_side f with Sell => f_price f * f_qty f | Buy => 0 end) fs).
Definition cost (fs : list fill) : Qc :=
  Qcsum (map (fun f => match f_side f with Buy => f_price f * f_qty f | Sell => 0 end) fs).
Definition total_fees (fs : list fill) : Qc := Qcsum (map f_fee fs).

(** the running net [n] reaches or crosses zero when [s] is added *)
Definition crosses (n s : Qc) : Prop := (0 < n /\ n + s <= 0) \/ (n < 0 /\ 0 <= n + s).
Definition crosses_strictly (n s : Qc) : Prop := (0 < n /\ n + s < 0) \/ (n < 0 /\ 0 < n + s).

Definition Qc_ltb (a b : Qc) : bool := match a ?= b with Lt => true | _ => false end.
Definition Qc_leb (a b : Qc) : bool := match a ?= b with Gt => false | _ => true end.
Definition crosses_b (n s : Qc) : bool :=
  (Qc_ltb 0 n && Qc_leb (n + s) 0) || (Qc_ltb n 0 && Qc_leb 0 (n + s)).
Definition crosses_strictly_b (n s : Qc) : bool :=
  (Qc_ltb 0 n && Qc_ltb (n + s) 0) || (Qc_ltb n 0 && Qc_ltb 0 (n + s)).

(** the theoretical trade that opens the opposite position on a flip: remainder quantity [r]
    and the pro-rata share of the fee *)
Definition remainder_fill (f : fill) (r : Qc) : fill :=
  mkFill (f_id f) (f_inst f) (f_time f) (f_side f) (f_price f) r (f_fee f * (r / f_qty f)).

(** trade ids expected over all position records, in order: a fill that flips the position
    is recorded twice (in the position it closes and in the one it opens) *)
Fixpoint expected_ids (n : Qc) (fs : list fill) : list N :=
  match fs with
  | [] => []
  | f :: tl =>
      (if crosses_strictly_b n (sq_fill f) then [f_id f; f_id f] else [f_id f])
      ++ expected_ids (n + sq_fill f) tl
  end.

Definition sum_x_pnl (xs : list exited) : Qc := Qcsum (map x_pnl_r xs).
Definition sum_x_fees (xs : list exited) : Qc := Qcsum (map (fun x => x_fin x + x_fout x) xs).

(** input requirement of the property: one instrument, quantity > 0 *)
Definition valid_fill (i : N) (f : fill) : Prop := f_inst f = i /\ 0 < f_qty f.

(** literals *)
Definition qcz (z : Z) : Qc := Q2Qc (inject_Z z).
Definition qcq (q : Q) : Qc := Q2Qc q.

(* ---- persist / restore ---------------------------------------------------------------------------- *)

(** a history in which the state may be serialised and restored between fills: restoring gives
    back the same state, so it is a no-op of the model *)
Inductive pop := PFill (f : fill) | PRestore.
Definition pstep_r (s : pstate) (o : pop) : pstate :=
  match o with PFill f => pstep s f | PRestore => s end.
Definition prun_r (ops : list pop) : pstate := fold_left pstep_r ops (None, []).
Definition fills_of_ops (ops : list pop) : list fill :=
  flat_map (fun o => match o with PFill f => [f] | PRestore => [] end)%list ops.
