(** C18 correspondence: case type, [corr_b] (the model of Model/Drawdown.v run on the input
    reproduces everything observed on the implementation) and [prop_b] (the OBSERVED reports
    satisfy the property's executable oracle, written against the independent decomposition
    [completed] / [current] / [first_max_f] / the averages — never by calling the model's step
    functions). *)
From BV Require Export Base.Common Model.Drawdown.
From Coq Require Import Qcanon String.

(** all times are nanoseconds since the epoch.
    observed values: a drawdown is (value, time_start, time_end); a DrawdownGenerator state is
    (peak, drawdown_max, time_peak, time_now); a MeanDrawdownGenerator state is
    (count, mean_drawdown) with MeanDrawdown = (mean_drawdown, mean_drawdown_ms) *)
Notation ddq := (Q * Z * Z)%type.
Notation gstate := (option Q * Q * option Z * Z)%type.
Notation meanq := (Q * Z)%type.
Notation meanstate := (Z * option (Q * Z))%type.
Notation three := (gstate * meanstate * option ddq)%type.
Notation repq := (option ddq * option meanq * option ddq)%type.   (* current, mean, max *)
Notation balq := (Q * Q)%type.

(** [GR]/[AR]/[IR]/[SRI]/[SRA]: persist / restore — the generator is replaced by the serde_json
    round trip of itself; [changed] = the harness found restored <> original (PartialEq) *)
Inductive gop := GU (t : Z) (v : Q) | GG | GR (changed : bool).
Record gobs := mkGObs { go_ret : option ddq; go_state : gstate; go_gen : option ddq }.
Inductive aop := AU (t : Z) (total free : Q) | AG | AR (changed : bool).
Inductive iop := IU (t : Z) (pnl : Q) | IG | IR (changed : bool).
(** TradingSummaryGenerator: a closed position of instrument [k], a balance of asset [k],
    generate() *)
Inductive sop := SP (k : nat) (t : Z) (pnl : Q) | SB (k : nat) (t : Z) (total free : Q) | SG
               | SRI (k : nat) (changed : bool) | SRA (k : nat) (changed : bool).
Notation istate := (Z * Q * three)%type.        (* time_engine_now, pnl_raw, the three generators *)
Notation astate := (option balq * three)%type.  (* balance_now, the three generators *)
Notation iobs := (option (Q * repq) * istate)%type.
Notation aobs := (option (option balq * repq) * astate)%type.
Notation sobs := (option (list (Q * repq) * list (option balq * repq)) * (list istate * list astate))%type.

Inductive case :=
| CGen (start : option (Z * Q)) (ops : list gop) (obs0 : gobs) (obs : list gobs)
    (* DrawdownGenerator::default() / init(start); per op: value returned by update / generate,
       all fields afterwards, generate() of a clone *)
| CMax (init : option ddq) (ds : list ddq) (rts : list bool) (rt_changed : bool)
       (obs0 : option ddq * option ddq) (obs : list (option ddq * option ddq))
    (* MaxDrawdownGenerator: field [max] and generate() after every update; [rts] = after which
       updates the generator went through persist / restore before being observed (a no-op for
       the model), [rt_changed] = some restored generator differed from the original *)
| CMean (init : option ddq) (ds : list ddq) (rts : list bool) (rt_changed : bool)
        (obs0 : meanstate * option meanq) (obs : list (meanstate * option meanq))
| CAsset (start : Z * Q * Q) (ops : list aop) (obs0 : option balq * three)
         (obs : list (option (option balq * repq) * (option balq * three)))
    (* TearSheetAssetGenerator: per op the sheet returned by generate() (if the op is one) and
       balance_now + the three generators afterwards *)
| CInst (t0 : Z) (ops : list iop) (obs0 : Z * Q * three)
        (obs : list (option (Q * repq) * (Z * Q * three)))
    (* TearSheetGenerator: sheet = (pnl, drawdown fields); state = (time_engine_now, pnl_raw,
       the three generators) *)
| CSummary (t0 : Z) (n_inst : nat) (starts : list (Z * Q * Q)) (ops : list sop)
           (obs0 : list istate * list astate) (obs : list sobs)
    (* TradingSummaryGenerator over [n_inst] instruments (TearSheetGenerator::init t0) and the
       assets [starts] (TearSheetAssetGenerator::init), fed interleaved; per op: every sheet of
       the summary returned by generate() (if the op is one) and the state of EVERY tear sheet
       generator afterwards *)
| CPanic (scope : bool) (what : string).
    (* the implementation panicked; [scope] = the input met the property's requirement *)

(* ---- comparing model values (exact rationals) with observed decimals ------------------------ *)

Definition qc (x : Q) : Qc := Q2Qc x.
Definition close (m : Qc) (o : Q) : bool := Qclose tol18 (this m) o.
Definition exact (m : Qc) (o : Q) : bool := Qeq_bool (this m) o.
Definition opt_b {A B} (f : A -> B -> bool) (x : option A) (y : option B) : bool :=
  match x, y with Some a, Some b => f a b | None, None => true | _, _ => false end.
Fixpoint list_b {A B} (f : A -> B -> bool) (l1 : list A) (l2 : list B) : bool :=
  match l1, l2 with
  | [], [] => true
  | a :: t1, b :: t2 => f a b && list_b f t1 t2
  | _, _ => false
  end.

Definition dd_of (d : ddq) : drawdown := mkDD (qc (fst (fst d))) (snd (fst d)) (snd d).
Definition dd_close (m : drawdown) (o : ddq) : bool :=
  close (dd_value m) (fst (fst o)) && Z.eqb (dd_start m) (snd (fst o)) && Z.eqb (dd_end m) (snd o).
Definition dd_exact (m : drawdown) (o : ddq) : bool :=
  exact (dd_value m) (fst (fst o)) && Z.eqb (dd_start m) (snd (fst o)) && Z.eqb (dd_end m) (snd o).
Definition mean_close (m : meandd) (o : meanq) : bool :=
  close (m_depth m) (fst o) && Z.eqb (m_ms m) (snd o).

Definition gstate_close (g : ddgen) (o : gstate) : bool :=
  let '(pk, ddm, tp, now) := o in
  opt_b exact (g_peak g) pk && close (g_ddmax g) ddm &&
  option_eqb Z.eqb (g_tpeak g) tp && Z.eqb (g_now g) now.
Definition meanstate_close (g : meangen) (o : meanstate) : bool :=
  Z.eqb (mg_count g) (fst o) && opt_b mean_close (mg_mean g) (snd o).
Definition three_close (ts : tearsheet) (o : three) : bool :=
  let '(g, m, x) := o in
  gstate_close (ts_dd ts) g && meanstate_close (ts_mean ts) m && opt_b dd_close (ts_max ts) x.
Definition report_close (r : report) (o : repq) : bool :=
  let '(c, m, x) := o in
  opt_b dd_close (r_cur r) c && opt_b mean_close (r_mean r) m && opt_b dd_close (r_max r) x.
Definition bal_exact (b : balance) (o : balq) : bool := exact (fst b) (fst o) && exact (snd b) (snd o).

(* ---- corr_b : the model reproduces the observations ------------------------------------------ *)

Definition gobs_matches (ret : option drawdown) (g : ddgen) (o : gobs) : bool :=
  opt_b dd_close ret (go_ret o) && gstate_close g (go_state o) &&
  opt_b dd_close (gen_generate g) (go_gen o).

Fixpoint gen_corr (g : ddgen) (ops : list gop) (obs : list gobs) : bool :=
  match ops, obs with
  | [], [] => true
  | op :: ops', o :: obs' =>
      let '(g', ret) := match op with
                        | GU t v => gen_update g (t, qc v)
                        | GG => (g, gen_generate g)
                        | GR _ => (g, None)
                        end in
      negb (match op with GR c => c | _ => false end) && gobs_matches ret g' o && gen_corr g' ops' obs'
  | _, _ => false
  end.

Fixpoint max_corr (m : option drawdown) (ds : list ddq) (obs : list (option ddq * option ddq)) : bool :=
  match ds, obs with
  | [], [] => true
  | d :: ds', o :: obs' =>
      let m' := max_update m (dd_of d) in
      opt_b dd_exact m' (fst o) && opt_b dd_exact m' (snd o) && max_corr m' ds' obs'
  | _, _ => false
  end.

Fixpoint mean_corr (g : meangen) (ds : list ddq) (obs : list (meanstate * option meanq)) : bool :=
  match ds, obs with
  | [], [] => true
  | d :: ds', o :: obs' =>
      let g' := mean_update g (dd_of d) in
      meanstate_close g' (fst o) && opt_b mean_close (mg_mean g') (snd o) && mean_corr g' ds' obs'
  | _, _ => false
  end.

Definition astate_close (a : asset_ts) (o : option balq * three) : bool :=
  opt_b bal_exact (a_balance a) (fst o) && three_close (a_ts a) (snd o).
Fixpoint asset_corr (a : asset_ts) (ops : list aop)
         (obs : list (option (option balq * repq) * (option balq * three))) : bool :=
  match ops, obs with
  | [], [] => true
  | AU t tot fr :: ops', (None, st) :: obs' =>
      let a' := asset_update a t (qc tot, qc fr) in
      astate_close a' st && asset_corr a' ops' obs'
  | AR c :: ops', (None, st) :: obs' => negb c && astate_close a st && asset_corr a ops' obs'
  | AG :: ops', (Some (bal, rep), st) :: obs' =>
      let '(a', (b, r)) := asset_generate a in
      opt_b bal_exact b bal && report_close r rep && astate_close a' st && asset_corr a' ops' obs'
  | _, _ => false
  end.

Definition istate_close (s : inst_ts) (o : Z * Q * three) : bool :=
  let '(now, pnl, th) := o in
  Z.eqb (i_now s) now && exact (i_pnl s) pnl && three_close (i_ts s) th.
Fixpoint inst_corr (s : inst_ts) (ops : list iop)
         (obs : list (option (Q * repq) * (Z * Q * three))) : bool :=
  match ops, obs with
  | [], [] => true
  | IU t pnl :: ops', (None, st) :: obs' =>
      let s' := inst_update s t (qc pnl) in
      istate_close s' st && inst_corr s' ops' obs'
  | IR c :: ops', (None, st) :: obs' => negb c && istate_close s st && inst_corr s ops' obs'
  | IG :: ops', (Some (pnl, rep), st) :: obs' =>
      let '(s', r) := inst_generate s in
      exact (i_pnl s) pnl && report_close r rep && istate_close s' st && inst_corr s' ops' obs'
  | _, _ => false
  end.

(* ---- TradingSummaryGenerator: per key projection + frame --------------------------------------- *)
(** The summary routes every update to one tear sheet generator and leaves the others alone. The
    history of key [i] is projected out of the interleaved operations (its own updates and every
    generate()), and judged like a stand-alone tear sheet; the FRAME check says that an
    operation addressed to another key leaves the observed state of key [i] exactly unchanged. *)

Definition oq_same (x y : option Q) : bool := option_eqb Qeq_bool x y.
Definition ddq_same (x y : ddq) : bool :=
  Qeq_bool (fst (fst x)) (fst (fst y)) && Z.eqb (snd (fst x)) (snd (fst y)) && Z.eqb (snd x) (snd y).
Definition three_same (x y : three) : bool :=
  let '(pk, ddm, tp, now, (cnt, mean), mx) := x in
  let '(pk', ddm', tp', now', (cnt', mean'), mx') := y in
  oq_same pk pk' && Qeq_bool ddm ddm' && option_eqb Z.eqb tp tp' && Z.eqb now now' &&
  Z.eqb cnt cnt' &&
  option_eqb (fun a b => Qeq_bool (fst a) (fst b) && Z.eqb (snd a) (snd b)) mean mean' &&
  option_eqb ddq_same mx mx'.
Definition istate_same (x y : istate) : bool :=
  let '(now, pnl, th) := x in let '(now', pnl', th') := y in
  Z.eqb now now' && Qeq_bool pnl pnl' && three_same th th'.
Definition astate_same (x y : astate) : bool :=
  option_eqb (fun a b => Qeq_bool (fst a) (fst b) && Qeq_bool (snd a) (snd b)) (fst x) (fst y) &&
  three_same (snd x) (snd y).

Fixpoint proj_inst (i : nat) (ops : list sop) (obs : list sobs) : option (list iop * list iobs) :=
  match ops, obs with
  | [], [] => Some ([], [])
  | op :: ops', (rep, (ist, _)) :: obs' =>
      match proj_inst i ops' obs', nth_error ist i with
      | Some (po, pb), Some st =>
          match op, rep with
          | SP k t pnl, None =>
              if Nat.eqb k i then Some (IU t pnl :: po, (None, st) :: pb) else Some (po, pb)
          | SB _ _ _ _, None | SRI _ _, None | SRA _ _, None => Some (po, pb)
          | SG, Some (ireps, _) =>
              match nth_error ireps i with
              | Some r => Some (IG :: po, (Some r, st) :: pb)
              | None => None
              end
          | _, _ => None
          end
      | _, _ => None
      end
  | _, _ => None
  end.
Fixpoint proj_asset (j : nat) (ops : list sop) (obs : list sobs) : option (list aop * list aobs) :=
  match ops, obs with
  | [], [] => Some ([], [])
  | op :: ops', (rep, (_, ast)) :: obs' =>
      match proj_asset j ops' obs', nth_error ast j with
      | Some (po, pb), Some st =>
          match op, rep with
          | SB k t tot fr, None =>
              if Nat.eqb k j then Some (AU t tot fr :: po, (None, st) :: pb) else Some (po, pb)
          | SP _ _ _, None | SRI _ _, None | SRA _ _, None => Some (po, pb)
          | SG, Some (_, areps) =>
              match nth_error areps j with
              | Some r => Some (AG :: po, (Some r, st) :: pb)
              | None => None
              end
          | _, _ => None
          end
      | _, _ => None
      end
  | _, _ => None
  end.

Fixpoint frame_inst (i : nat) (prev : istate) (ops : list sop) (obs : list sobs) : bool :=
  match ops, obs with
  | op :: ops', (_, (ist, _)) :: obs' =>
      match nth_error ist i with
      | Some st =>
          match op with
          | SP k _ _ => Nat.eqb k i || istate_same prev st
          | SB _ _ _ _ | SRI _ _ | SRA _ _ => istate_same prev st
          | SG => true
          end && frame_inst i st ops' obs'
      | None => false
      end
  | _, _ => true
  end.
Fixpoint frame_asset (j : nat) (prev : astate) (ops : list sop) (obs : list sobs) : bool :=
  match ops, obs with
  | op :: ops', (_, (_, ast)) :: obs' =>
      match nth_error ast j with
      | Some st =>
          match op with
          | SB k _ _ _ => Nat.eqb k j || astate_same prev st
          | SP _ _ _ | SRI _ _ | SRA _ _ => astate_same prev st
          | SG => true
          end && frame_asset j st ops' obs'
      | None => false
      end
  | _, _ => true
  end.

Definition sum_inst_corr (t0 : Z) (ops : list sop) (obs0 : list istate * list astate) (obs : list sobs)
           (i : nat) : bool :=
  match nth_error (fst obs0) i, proj_inst i ops obs with
  | Some st0, Some (po, pb) =>
      istate_close (inst_init t0) st0 && inst_corr (inst_init t0) po pb && frame_inst i st0 ops obs
  | _, _ => false
  end.
Definition sum_asset_corr (starts : list (Z * Q * Q)) (ops : list sop) (obs0 : list istate * list astate)
           (obs : list sobs) (j : nat) : bool :=
  match nth_error starts j, nth_error (snd obs0) j, proj_asset j ops obs with
  | Some (t, tot, fr), Some st0, Some (po, pb) =>
      let a := asset_init t (qc tot, qc fr) in
      astate_close a st0 && asset_corr a po pb && frame_asset j st0 ops obs
  | _, _, _ => false
  end.

Definition gen_start (start : option (Z * Q)) : ddgen :=
  match start with None => gen_default | Some (t, v) => gen_init (t, qc v) end.
Definition max_start (init : option ddq) : option drawdown := option_map dd_of init.
Definition mean_start (init : option ddq) : meangen :=
  match init with None => mean_default | Some d => mean_init (dd_of d) end.

Definition corr_b (c : case) : bool :=
  match c with
  | CGen start ops obs0 obs =>
      gobs_matches None (gen_start start) obs0 && gen_corr (gen_start start) ops obs
  | CMax init ds _ chg obs0 obs =>
      negb chg && opt_b dd_exact (max_start init) (fst obs0) && opt_b dd_exact (max_start init) (snd obs0) &&
      max_corr (max_start init) ds obs
  | CMean init ds _ chg obs0 obs =>
      negb chg && meanstate_close (mean_start init) (fst obs0) &&
      opt_b mean_close (mg_mean (mean_start init)) (snd obs0) &&
      mean_corr (mean_start init) ds obs
  | CAsset (t, tot, fr) ops obs0 obs =>
      let a := asset_init t (qc tot, qc fr) in
      astate_close a obs0 && asset_corr a ops obs
  | CInst t0 ops obs0 obs =>
      istate_close (inst_init t0) obs0 && inst_corr (inst_init t0) ops obs
  | CSummary t0 n starts ops obs0 obs =>
      forallb (fun op => match op with SRI _ c | SRA _ c => negb c | _ => true end) ops &&
      Nat.eqb (List.length (fst obs0)) n && Nat.eqb (List.length (snd obs0)) (List.length starts) &&
      forallb (sum_inst_corr t0 ops obs0 obs) (seq 0 n) &&
      forallb (sum_asset_corr starts ops obs0 obs) (seq 0 (List.length starts))
  | CPanic _ _ => false
  end.

(* ---- prop_b : the observed reports satisfy the property --------------------------------------- *)
(** Everything below is computed from the INPUT curve with the index-based decomposition. *)

(** oracle for the mean report over the drawdowns [ds]: None iff there are none; depth = the
    arithmetic average (tolerance for Decimal rounding); duration within (n-1)/2 ms of the
    average (drift of the truncating integer recurrence) *)
Definition mean_ok (ds : list drawdown) (o : option meanq) : bool :=
  match ds, o with
  | [], None => true
  | _ :: _, Some (dep, ms) =>
      close (sum_depth ds / QcofZ (len ds)) dep &&
      Z.leb (2 * Z.abs (len ds * ms - sum_ms ds)) (len ds * (len ds - 1))
  | _, _ => false
  end.
(** oracle for the max report: the first of the largest *)
Definition max_ok (cmp : drawdown -> ddq -> bool) (ds : list drawdown) (o : option ddq) : bool :=
  opt_b cmp (first_max_f ds) o.

Fixpoint gen_prop (pts : list pt) (em : list ddq) (ops : list gop) (obs : list gobs) : bool :=
  match ops, obs with
  | [], [] => true
  | GU t v :: ops', o :: obs' =>
      let pts' := pts ++ [(t, qc v)] in
      let em' := em ++ opt_list (go_ret o) in
      (* every drawdown returned so far, in order = the completed drawdowns of the curve so far;
         generate() = the drawdown in progress *)
      list_b dd_close (completed pts') em' && opt_b dd_close (current pts') (go_gen o) &&
      gen_prop pts' em' ops' obs'
  | GR _ :: ops', o :: obs' =>
      opt_b dd_close (current pts) (go_gen o) && gen_prop pts em ops' obs'
  | GG :: ops', o :: obs' =>
      opt_b dd_close (current pts) (go_ret o) && opt_b dd_close (current pts) (go_gen o) &&
      gen_prop pts em ops' obs'
  | _, _ => false
  end.

Fixpoint max_prop (seen : list drawdown) (ds : list ddq) (obs : list (option ddq * option ddq)) : bool :=
  match ds, obs with
  | [], [] => true
  | d :: ds', o :: obs' =>
      let seen' := seen ++ [dd_of d] in
      max_ok dd_exact seen' (fst o) && max_ok dd_exact seen' (snd o) && max_prop seen' ds' obs'
  | _, _ => false
  end.
Fixpoint mean_prop (seen : list drawdown) (ds : list ddq) (obs : list (meanstate * option meanq)) : bool :=
  match ds, obs with
  | [], [] => true
  | d :: ds', o :: obs' =>
      let seen' := seen ++ [dd_of d] in
      mean_ok seen' (snd (fst o)) && mean_ok seen' (snd o) && mean_prop seen' ds' obs'
  | _, _ => false
  end.

(** a tear sheet generated at the end of the curve [pts] *)
Definition sheet_ok (pts : list pt) (rep : repq) : bool :=
  let '(c, m, x) := rep in
  opt_b dd_close (current pts) c && mean_ok (reported pts) m && max_ok dd_close (reported pts) x.

Fixpoint asset_prop (pts : list pt) (ops : list aop)
         (obs : list (option (option balq * repq) * (option balq * three))) : bool :=
  match ops, obs with
  | [], [] => true
  | AU t tot _ :: ops', (None, _) :: obs' => asset_prop (pts ++ [(t, qc tot)]) ops' obs'
  | AR _ :: ops', (None, _) :: obs' => asset_prop pts ops' obs'
  | AG :: ops', (Some (_, rep), _) :: obs' => sheet_ok pts rep && asset_prop pts ops' obs'
  | _, _ => false
  end.
Fixpoint inst_prop (raw : Qc) (pts : list pt) (ops : list iop)
         (obs : list (option (Q * repq) * (Z * Q * three))) : bool :=
  match ops, obs with
  | [], [] => true
  | IU t pnl :: ops', (None, _) :: obs' =>
      let raw' := (raw + qc pnl)%Qc in inst_prop raw' (pts ++ [(t, raw')]) ops' obs'
  | IR _ :: ops', (None, _) :: obs' => inst_prop raw pts ops' obs'
  | IG :: ops', (Some (_, rep), _) :: obs' => sheet_ok pts rep && inst_prop raw pts ops' obs'
  | _, _ => false
  end.

(** the property's input requirement: positive running maxima = the first value of the curve is
    positive (cases outside it are exercised by the harness but not judged) *)
Definition first_gen_value (start : option (Z * Q)) (ops : list gop) : option Q :=
  match start with
  | Some (_, v) => Some v
  | None => match filter (fun op => match op with GU _ _ => true | _ => false end) ops with
            | GU _ v :: _ => Some v
            | _ => None
            end
  end.
Definition first_inst_value (ops : list iop) : option Q :=
  match filter (fun op => match op with IU _ _ => true | _ => false end) ops with
  | IU _ v :: _ => Some v
  | _ => None
  end.
Definition positive (o : option Q) : bool :=
  match o with Some v => negb (Qle_bool v 0) | None => true end.
(** a key of a summary is judged when ITS curve starts positive *)
Definition sum_inst_prop (ops : list sop) (obs : list sobs) (i : nat) : bool :=
  match proj_inst i ops obs with
  | Some (po, pb) => if positive (first_inst_value po) then inst_prop 0%Qc [] po pb else true
  | None => false
  end.
Definition sum_asset_prop (starts : list (Z * Q * Q)) (ops : list sop) (obs : list sobs) (j : nat) : bool :=
  match nth_error starts j, proj_asset j ops obs with
  | Some (t, tot, _), Some (po, pb) =>
      if positive (Some tot) then asset_prop [(t, qc tot)] po pb else true
  | _, _ => false
  end.

Definition start_list (init : option ddq) : list drawdown := opt_list (option_map dd_of init).

Definition prop_b (c : case) : bool :=
  match c with
  | CGen start ops obs0 obs =>
      let pts0 := match start with None => [] | Some (t, v) => [(t, qc v)] end in
      opt_b dd_close None (go_ret obs0) && opt_b dd_close (current pts0) (go_gen obs0) &&
      gen_prop pts0 [] ops obs
  | CMax init ds _ _ obs0 obs =>
      max_ok dd_exact (start_list init) (fst obs0) && max_ok dd_exact (start_list init) (snd obs0) &&
      max_prop (start_list init) ds obs
  | CMean init ds _ _ obs0 obs =>
      mean_ok (start_list init) (snd (fst obs0)) && mean_ok (start_list init) (snd obs0) &&
      mean_prop (start_list init) ds obs
  | CAsset (t, tot, _) ops _ obs => asset_prop [(t, qc tot)] ops obs
  | CInst _ ops _ obs => inst_prop 0%Qc [] ops obs
  | CSummary _ n starts ops _ obs =>
      forallb (sum_inst_prop ops obs) (seq 0 n) &&
      forallb (sum_asset_prop starts ops obs) (seq 0 (List.length starts))
  | CPanic _ _ => false
  end.

Definition in_scope (c : case) : bool :=
  match c with
  | CGen start ops _ _ => positive (first_gen_value start ops)
  | CAsset (_, tot, _) _ _ _ => positive (Some tot)
  | CInst _ ops _ _ => positive (first_inst_value ops)
  | CPanic scope _ => scope
  | _ => true
  end.

Definition known_b (c : case) : N := 0%N.

Definition judge (c : case) : N :=
  if in_scope c then judge_code (corr_b c) (prop_b c) (known_b c) else 0%N.
