(** C02 correspondence: case type, [corr_b] (the Gallina model of PositionManager reproduces
    what the implementation did on this fill sequence) and [prop_b] (the OBSERVED positions and
    PositionExited records satisfy the property's identities, evaluated from the fills alone:
    net quantity, reach-or-cross, cash and fee conservation, trade-id recording). *)
From Coq Require Import Qcanon.
From BV Require Export Base.Common Model.Position Corr.PosObs.
Local Close Scope Qc_scope.
Local Open Scope Q_scope.

(** after one PositionManager::update_from_trade: [current] and the returned record *)
Record ostep := mkOS { os_cur : option opos; os_exit : option oexit }.

(** [CFills fills obs inst_agrees ts ik]:
    fills applied one by one to PositionManager::default(); [obs] = observation after each;
    [inst_agrees] = the same fills through InstrumentState::update_from_trade gave the same
    returned records and the same position.current after every fill;
    [ts] = (tear_sheet.pnl_returns.total.count, tear_sheet.pnl_returns.pnl_raw) of that
    InstrumentState at the end (None if the tear sheet statistics panicked);
    [ik] = (kind: 0 spot, 1 perpetual, 2 future, 3 option; contract size) of the instrument that
    InstrumentState was built for - printed for the record: the position code does not read it and
    neither does the model (see [meta] for the persist / restore steps). *)
(** [mkMeta kind size restores rt_ok]: kind / contract size of the instrument the InstrumentState
    path was built for; [restores] = the fill numbers after which every state (PositionManager
    keyed by index, PositionManager keyed by name, InstrumentState) was serialised to JSON and
    restored from it before continuing; [rt_ok] = every such round trip gave back a value equal
    (Rust ==) to the original. The model treats persist/restore as a no-op. *)
Record meta := mkMeta { m_kind : N; m_size : Q; m_restores : list N; m_rt_ok : bool;
                       m_rejects : list N; m_rej_ok : bool }.

Inductive case :=
| CFills (fills : list ofill) (obs : list ostep) (inst_agrees : bool) (ts : option (N * Q))
         (ik : meta).

(* ---- corr_b: model = implementation ---------------------------------------------------------- *)

Fixpoint corr_run (t : tols) (c : pm) (fs : list ofill) (os : list ostep) : bool :=
  match fs, os with
  | [], [] => true
  | f :: fs', o :: os' =>
      let r := pm_update c (fill_of f) in
      omatch (pos_matches t) (fst r) (os_cur o) && omatch (exit_matches t) (snd r) (os_exit o) &&
      corr_run t (fst r) fs' os'
  | _, _ => false
  end.

Definition corr_b (c : case) : bool :=
  match c with
  | CFills fs os agrees ts ik =>
      let t := tols_of fs in
      corr_run t None fs os && (agrees && m_rt_ok ik && m_rej_ok ik) &&
      match ts with
      | None => true
      | Some (cnt, pnl) =>
          let xs := snd (prun (map fill_of fs)) in
          N.eqb cnt (N.of_nat (length xs)) && near (t_pnl t) (this (sum_x_pnl xs)) pnl
      end
  end.

(* ---- prop_b: the observed behaviour satisfies the property --------------------------------- *)

(** running totals of the abstract specification and of the observed records *)
Record acc := mkAcc {
  a_net : Q;            (* net signed filled quantity *)
  a_cash : Q;           (* sell proceeds - buy cost - fees *)
  a_fees : Q;           (* fees of the fills *)
  a_xpnl : Q;           (* realised PnL summed over the observed closed records *)
  a_xfees : Q;          (* entry + exit fees summed over the observed closed records *)
  a_nexits : N;
  a_prev : option opos  (* observed position before this fill *) }.

(** number of observations summed so far, as a rational factor for tolerances: a sum of k
    observed amounts, each within t of its exact value, is within k*t of the exact sum *)
Definition qn (n : N) : Q := inject_Z (Z.of_N n).

Definition opened_ok (t : tols) (f : ofill) (rem : Q) (p : opos) : bool :=
  (* position opened by the (remainder [rem] of the) fill with the pro-rata fee share; only what
     the property text fixes is required here (side, size, entry price, fee share, trade id);
     timestamps and quantity_abs_max are compared by corr_b only *)
  let fee := of_fee f * (rem / of_qty f) in
  side_eqb (op_side p) (of_side f) && near (t_price t) (of_price f) (op_avg p) &&
  exact (op_qty p) rem &&
  near (2 * t_fee t) fee (op_fin p + op_fout p) && near (t_pnl t) (- fee) (op_pnl_r p) &&
  N_list_eqb (op_trades p) [of_id f] &&
  N.eqb (op_inst p) (of_inst f).

Definition ox_pnl (o : option oexit) : Q := match o with Some x => ox_pnl_r x | None => 0 end.
Definition ox_fees (o : option oexit) : Q := match o with Some x => ox_fin x + ox_fout x | None => 0 end.
Definition ox_cnt (o : option oexit) : N := match o with Some _ => 1%N | None => 0%N end.
Definition op_pnl (o : option opos) : Q := match o with Some p => op_pnl_r p | None => 0 end.
Definition op_avg' (o : option opos) : Q := match o with Some p => op_avg p | None => 0 end.
Definition op_fees (o : option opos) : Q := match o with Some p => op_fin p + op_fout p | None => 0 end.

(** (i) side and size = sign and magnitude of the net quantity *)
Definition chk_size (n' : Q) (cur : option opos) : bool :=
  match cur with
  | None => exact n' 0
  | Some p => exact (osq_pos (Some p)) n' && negb (Qle_bool (op_qty p) 0)
  end.

(** (ii) a closed record exactly when the net reaches or crosses zero ... *)
Definition chk_exit_iff (n s : Q) (ex : option oexit) : bool :=
  Bool.eqb (match ex with Some _ => true | None => false end) (qcrosses n s).

(** ... what a crossing or an opening fill opens ... *)
Definition chk_opened (t : tols) (n s : Q) (f : ofill) (cur : option opos) : bool :=
  if qcrosses_strictly n s then
    match cur with Some p => opened_ok t f (Qabs' (n + s)) p | None => false end
  else if exact n 0 then
    match cur with Some p => opened_ok t f (of_qty f) p | None => false end
  else true.

(** ... and the closed record is that of the position that was open *)
Definition chk_exit_fields (prev : option opos) (ex : option oexit) : bool :=
  match ex, prev with
  | Some x, Some p => side_eqb (ox_side x) (op_side p) && N.eqb (ox_inst x) (op_inst p)
  | Some _, None => false
  | None, _ => true
  end.

(** (iii) cash conservation. [k] closed records have been summed: tolerance (k+1) x t_pnl, plus
    |open quantity| x t_price for the average entry price that multiplies it *)
Definition chk_cash (t : tols) (k : N) (xpnl cash' : Q) (cur : option opos) : bool :=
  near ((qn k + 1) * t_pnl t + Qabs' (osq_pos cur) * t_price t)
       (xpnl + op_pnl cur) (cash' + osq_pos cur * op_avg' cur).

(** (iv) fee conservation: entry and exit fees of [k] closed records and of the open position *)
Definition chk_fees (t : tols) (k : N) (xfees fees' : Q) (cur : option opos) : bool :=
  near ((2 * qn k + 2) * t_fee t) (xfees + op_fees cur) fees'.

(** (v) the fill id is recorded against every position it affected *)
Definition chk_ids (id : N) (prev : option opos) (ex : option oexit) (cur : option opos) : bool :=
  match prev, ex, cur with
  | None, None, Some p => N_list_eqb (op_trades p) [id]
  | Some q, None, Some p => N_list_eqb (op_trades p) (op_trades q ++ [id])
  | Some q, Some x, None => N_list_eqb (ox_trades x) (op_trades q ++ [id])
  | Some q, Some x, Some p =>
      N_list_eqb (ox_trades x) (op_trades q ++ [id]) && N_list_eqb (op_trades p) [id]
  | _, _, _ => false
  end.

Definition step_ok (t : tols) (a : acc) (f : ofill) (o : ostep) : bool :=
  let n := a_net a in
  let s := osq f in
  let k := (a_nexits a + ox_cnt (os_exit o))%N in
  chk_size (n + s) (os_cur o) &&
  chk_exit_iff n s (os_exit o) &&
  chk_opened t n s f (os_cur o) &&
  chk_exit_fields (a_prev a) (os_exit o) &&
  chk_cash t k (a_xpnl a + ox_pnl (os_exit o)) (a_cash a + ocashflow f) (os_cur o) &&
  chk_fees t k (a_xfees a + ox_fees (os_exit o)) (a_fees a + of_fee f) (os_cur o) &&
  chk_ids (of_id f) (a_prev a) (os_exit o) (os_cur o).

Definition acc_next (a : acc) (f : ofill) (o : ostep) : acc :=
  mkAcc (Qred (a_net a + osq f)) (Qred (a_cash a + ocashflow f)) (Qred (a_fees a + of_fee f))
        (Qred (a_xpnl a + ox_pnl (os_exit o)))
        (Qred (a_xfees a + ox_fees (os_exit o)))
        (a_nexits a + ox_cnt (os_exit o))%N
        (os_cur o).

Fixpoint prop_run (t : tols) (a : acc) (fs : list ofill) (os : list ostep) : bool * acc :=
  match fs, os with
  | [], [] => (true, a)
  | f :: fs', o :: os' =>
      if step_ok t a f o then prop_run t (acc_next a f o) fs' os' else (false, a)
  | _, _ => (false, a)
  end.

Definition acc0 : acc := mkAcc 0 0 0 0 0 0 None.

Definition prop_b (c : case) : bool :=
  match c with
  | CFills fs os agrees ts ik =>
      let t := tols_of fs in
      let r := prop_run t acc0 fs os in
      fst r && (agrees && m_rt_ok ik && m_rej_ok ik) &&
      match ts with
      | None => true
      | Some (cnt, pnl) =>
          N.eqb cnt (a_nexits (snd r)) &&
          near ((qn (a_nexits (snd r)) + 1) * t_pnl t) (a_xpnl (snd r)) pnl
      end
  end.

(** input requirement of the property: fills of one instrument with price > 0, quantity > 0,
    fee >= 0 *)
Definition wf_case (c : case) : bool :=
  match c with
  | CFills fs _ _ _ _ =>
      match fs with
      | [] => true
      | f0 :: _ =>
          forallb (fun f => N.eqb (of_inst f) (of_inst f0) && negb (Qle_bool (of_qty f) 0) &&
                            negb (Qle_bool (of_price f) 0) && Qle_bool 0 (of_fee f)) fs
      end
  end.

Definition judge (c : case) : N :=
  if wf_case c then judge_code (corr_b c) (prop_b c) 0 else 0%N.

(* ---- self-test: the oracle accepts what the model itself produces ----------------------------- *)

Definition opos_of (p : position) : opos :=
  mkOP (p_inst p) (p_side p) (this (p_avg p)) (this (p_qty p)) (this (p_qmax p)) (this (p_pnl_u p))
       (this (p_pnl_r p)) (this (p_fin p)) (this (p_fout p)) (p_tenter p) (p_tupdate p) (p_trades p).
Definition oexit_of (x : exited) : oexit :=
  mkOX (x_inst x) (x_side x) (this (x_avg x)) (this (x_qmax x)) (this (x_pnl_r x)) (this (x_fin x))
       (this (x_fout x)) (x_tenter x) (x_texit x) (x_trades x).
Fixpoint model_obs (c : pm) (fs : list ofill) : list ostep :=
  match fs with
  | [] => []
  | f :: fs' =>
      let r := pm_update c (fill_of f) in
      mkOS (option_map opos_of (fst r)) (option_map oexit_of (snd r)) :: model_obs (fst r) fs'
  end.
(** the case the implementation would have produced if it were the model; depends on the input
    only. [prop_b (model_case c) = true] for every well-formed input is the executable form of
    "the oracle is no stricter than the model" *)
Definition model_case (c : case) : case :=
  match c with
  | CFills fs _ _ _ ik =>
      let xs := snd (prun (map fill_of fs)) in
      CFills fs (model_obs None fs) true (Some (N.of_nat (length xs), this (sum_x_pnl xs)))
             (mkMeta (m_kind ik) (m_size ik) (m_restores ik) true (m_rejects ik) true)
  end.
Definition oracle_accepts_model (c : case) : bool :=
  negb (wf_case c) || (prop_b (model_case c) && corr_b (model_case c)).
