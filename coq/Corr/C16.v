(** C16 correspondence: case type, [corr_b] (the Gallina model of PnLReturns / TearSheetGenerator /
    WinRate / ProfitFactor / TradingSummaryGenerator reproduces what the implementation returned)
    and [prop_b] (the OBSERVED tear sheets are what the closed positions say: PnL = sum, win rate
    = share of non-negative returns, profit factor with its conventions, one history per key —
    computed from the list of positions by filtering and summing, never by running the model's
    update functions). *)
From BV Require Export Base.Common Model.TearSheet.
From BV Require Corr.C17.
Local Open Scope Q_scope.

Notation dsobs := C17.obs.
Definition mkDs := C17.mkObs.
Definition near := C17.near.
Definition qc := C17.qc.
Definition uq := C17.uq.

Inductive pf_obs := OPFMax | OPFMin | OPFVal (q : Q).
Record sheet_obs := mkSheetObs { so_pnl : Q; so_wr : option Q; so_pf : option pf_obs }.
Record gen_obs := mkGenObs {
  go_start : Z; go_now : Z; go_raw : Q; go_total : dsobs; go_losses : dsobs }.

(** a closed position as given to the implementation; [pi_ret] is what the public
    [calculate_pnl_return] returned for it (None = it panicked) *)
Record pos_in := mkPosIn { pi_pnl : Q; pi_price : Q; pi_qty : Q; pi_time : Z; pi_ret : option Q }.

Inductive sop_in :=
| IPosIdx (i : N) (p : pos_in)
| IPosName (k : string) (p : pos_in)
| IBalIdx (i : N) (total free : Q) (t : Z)
| IBalKey (k : string) (total free : Q) (t : Z)
| ITime (t : Z).

Record sum_obs := mkSumObs {
  uo_start : Z; uo_end : Z;
  uo_insts : list (string * sheet_obs);
  uo_assets : list (string * option (Q * Q)) }.

Inductive case :=
| CSheet (t0 : Z) (ps : list pos_in) (g0 : gen_obs) (sh0 : sheet_obs)
         (steps : list (option (sheet_obs * gen_obs)))
    (* TearSheetGenerator::init(t0) observed + generate(); then for each position
       update_from_position, generate(), observe the generator. None = panic *)
| CSummary (mode : N) (t0 : Z) (insts : list string) (assets : list (string * option (Q * Q)))
           (ops : list sop_in) (s0 : sum_obs) (steps : list (option sum_obs))
           (final : list (string * gen_obs))
    (* mode 0: TradingSummaryGenerator::init on a fresh EngineState, updates applied to the
       generator, generate() after each.  mode 1: updates applied to the EngineState's
       instrument / asset states, Engine::trading_summary_generator(..).generate(..) after each
       (clock times not compared).  [final]: the generators held at the end, in map order *)
| CWinRate (wins total : Q) (r : option Q)
| CProfitFactor (profits losses : Q) (r : option pf_obs)
| CReturn (pnl price qty : Q) (r : option Q)
| CPersist (points : list N) (changed : bool) (c : case).
    (* the history of [c] with persist/restore steps inserted after the listed step numbers: every
       TearSheetGenerator (with its PnLReturns) and asset generator held at that point is serialised
       with serde_json, deserialised and the history continues on the restored values.  The model
       treats such a step as a no-op; [changed] = some restored value differed from the original *)

(* ---- conversions --------------------------------------------------------------------------------- *)

Definition pos_of (p : pos_in) : pos := mkPos (qc (pi_pnl p)) (qc (pi_price p)) (qc (pi_qty p)) (pi_time p).
Definition pos_in_ok (p : pos_in) : bool := pos_ok (pos_of p).

Definition wr_close (m : option Qc) (o : option Q) : bool :=
  match m, o with
  | None, None => true
  | Some a, Some b => near 1 (uq a) b
  | _, _ => false
  end.

(** relative error of the quotient of two rounded sums: see the assumptions in C16.json *)
Definition pf_close (m : option pf_value) (o : option pf_obs) : bool :=
  match m, o with
  | None, None => true
  | Some PFMax, Some OPFMax => true
  | Some PFMin, Some OPFMin => true
  | Some (PFVal a), Some (OPFVal b) => near (uq a + 1) (uq a) b
  | _, _ => false
  end.

(** [scp]: scale of the realised-PnL sum (0 = the inputs are short decimals, the sum is exact) *)
Definition sheet_matches (scp : Q) (m : sheet) (o : sheet_obs) : bool :=
  near scp (uq (sh_pnl m)) (so_pnl o) && wr_close (sh_win_rate m) (so_wr o) &&
  pf_close (sh_profit_factor m) (so_pf o).

(** comparison of a dataset whose inputs are the observed returns themselves (28-digit
    quotients: their Decimal sum may round, see C17.obs_matches_gen) *)
Definition gen_matches (sc1 sc2 : Q) (g : tsg) (o : gen_obs) : bool :=
  Z.eqb (g_start g) (go_start o) && Z.eqb (g_now g) (go_now o) &&
  Qeq_bool (uq (pr_raw (g_pr g))) (go_raw o) &&
  C17.obs_matches_gen false sc1 sc2 (pr_total (g_pr g)) (go_total o) &&
  C17.obs_matches_gen false sc1 sc2 (pr_losses (g_pr g)) (go_losses o) &&
  C17.obs_inv (go_total o) && C17.obs_inv (go_losses o).

(** tolerant comparison of a dataset (inputs are exact returns, the implementation's are rounded) *)
Definition ds_close (sc1 sc2 : Q) (s : ds) (o : dsobs) : bool :=
  let r := d_range (s_disp s) in
  Qeq_bool (uq (s_count s)) (C17.o_count o) && near sc1 (uq (s_sum s)) (C17.o_sum o) &&
  near sc1 (uq (s_mean s)) (C17.o_mean o) && Bool.eqb (r_act r) (C17.o_act o) &&
  near sc1 (uq (r_high r)) (C17.o_high o) && near sc1 (uq (r_low r)) (C17.o_low o) &&
  near sc2 (uq (d_m (s_disp s))) (C17.o_m o) && near sc2 (uq (d_var (s_disp s))) (C17.o_var o) &&
  C17.sd_ok sc2 (uq (d_var (s_disp s))) (C17.o_sd o).

Definition gen_close (scp sc1 sc2 : Q) (g : tsg) (o : gen_obs) : bool :=
  Z.eqb (g_start g) (go_start o) && Z.eqb (g_now g) (go_now o) &&
  near scp (uq (pr_raw (g_pr g))) (go_raw o) &&
  ds_close sc1 sc2 (pr_total (g_pr g)) (go_total o) &&
  ds_close sc1 sc2 (pr_losses (g_pr g)) (go_losses o).

(* ---- CSheet: model vs implementation ------------------------------------------------------------------ *)

Definition ret_close (p : pos_in) : bool :=
  match pi_ret p with
  | Some r => pos_in_ok p && near (uq (pnl_return (pos_of p))) (uq (pnl_return (pos_of p))) r
  | None => negb (pos_in_ok p)
  end.

(** the generator model fed with the return the implementation computed *)
Definition tsg_update_obs (g : tsg) (p : pos_in) (r : Q) : tsg :=
  mkTsg (g_start g) (pi_time p) (pr_update_r (g_pr g) (qc (pi_pnl p)) (qc r)).

(** [gx]: the model generator fed with the positions themselves (exact returns): the generated
    sheet is compared with its sheet, within tolerance.  [g]: the model generator fed with the
    returns the implementation computed: the stored datasets are compared with its datasets. *)
Fixpoint corr_sheet (sc1 sc2 : Q) (gx g : tsg) (ps : list pos_in)
         (steps : list (option (sheet_obs * gen_obs))) : bool :=
  match ps, steps with
  | [], [] => true
  | p :: ps', Some (sh, go) :: steps' =>
      match pi_ret p with
      | Some r =>
          let gx' := tsg_update gx (pos_of p) in
          let g' := tsg_update_obs g p r in
          ret_close p && sheet_matches 0 (tsg_generate gx') sh && gen_matches sc1 sc2 g' go &&
          corr_sheet sc1 sc2 gx' g' ps' steps'
      | None => false
      end
  | p :: _, [None] => negb (pos_in_ok p)          (* division by zero panics; nothing follows *)
  | _, _ => false
  end.

Definition obs_rets (ps : list pos_in) : list Q :=
  flat_map (fun p => match pi_ret p with Some r => [r] | None => [] end) ps.

(* ---- CSummary: model vs implementation ------------------------------------------------------------------ *)

Definition sop_of (o : sop_in) : sop :=
  match o with
  | IPosIdx i p => SPosIdx (N.to_nat i) (pos_of p)
  | IPosName k p => SPosName k (pos_of p)
  | IBalIdx i tot fr t => SBalIdx (N.to_nat i) (qc tot) (qc fr) t
  | IBalKey k tot fr t => SBalKey k (qc tot) (qc fr) t
  | ITime t => STime t
  end.

Definition op_pos (o : sop_in) : list pos_in :=
  match o with IPosIdx _ p | IPosName _ p => [p] | _ => [] end.

Definition bal_eqb (m : option (Qc * Qc)) (o : option (Q * Q)) : bool :=
  match m, o with
  | None, None => true
  | Some (a, b), Some (c, d) => Qeq_bool (uq a) c && Qeq_bool (uq b) d
  | _, _ => false
  end.

Fixpoint list_match {A B} (f : A -> B -> bool) (l1 : list A) (l2 : list B) : bool :=
  match l1, l2 with
  | [], [] => true
  | a :: t1, b :: t2 => f a b && list_match f t1 t2
  | _, _ => false
  end.

Definition summary_matches (scp : Q) (times : bool) (m : summary) (o : sum_obs) : bool :=
  (negb times || (Z.eqb (su_start m) (uo_start o) && Z.eqb (su_end m) (uo_end o))) &&
  list_match (fun a b => String.eqb (fst a) (fst b) && sheet_matches scp (snd a) (snd b))
             (su_insts m) (uo_insts o) &&
  list_match (fun a b => String.eqb (fst a) (fst b) && bal_eqb (snd a) (snd b))
             (su_assets m) (uo_assets o).

(** result: the final model state, or [Some None] when the run ended in the expected panic *)
Fixpoint corr_summary (scp : Q) (times : bool) (s : sgen) (ops : list sop_in) (steps : list (option sum_obs))
  : option (option sgen) :=
  match ops, steps with
  | [], [] => Some (Some s)
  | o :: ops', Some so :: steps' =>
      match sgen_step s (sop_of o) with
      | Some s' => if forallb pos_in_ok (op_pos o) && summary_matches scp times (sgen_generate s') so
                   then corr_summary scp times s' ops' steps' else None
      | None => None
      end
  | o :: _, [None] =>
      (* the update panicked: unknown key, or a position with zero cost *)
      match sgen_step s (sop_of o) with
      | None => Some None
      | Some _ => if forallb pos_in_ok (op_pos o) then None else Some None
      end
  | _, _ => None
  end.

Definition all_pos (ops : list sop_in) : list pos_in := flat_map op_pos ops.
(** in mode 1 the realised PnL of a closed position is itself a rounded 28-digit Decimal, so
    their running sum rounds too: scale = sum of magnitudes *)
Definition pnl_scale (ps : list pos_in) : Q := fold_left (fun a p => a + Qabs' (pi_pnl p)) ps 0.
Definition exact_rets (ps : list pos_in) : list Q := map (fun p => uq (pnl_return (pos_of p))) ps.

Definition init_sgen (t0 : Z) (insts : list string) (assets : list (string * option (Q * Q))) : sgen :=
  sgen_init t0 t0 (map (fun k => (k, tsg_init t0)) insts)
            (map (fun ka => (fst ka, option_map (fun b => (qc (fst b), qc (snd b))) (snd ka))) assets).

Fixpoint nodup_str (l : list string) : bool :=
  match l with
  | [] => true
  | x :: t => negb (existsb (String.eqb x) t) && nodup_str t
  end.

(* ---- corr_b ----------------------------------------------------------------------------------------------- *)

Definition pf_of_obs (v : option pf_value) : option pf_obs :=
  match v with
  | None => None | Some PFMax => Some OPFMax | Some PFMin => Some OPFMin
  | Some (PFVal x) => Some (OPFVal (uq x))
  end.

Fixpoint corr_b (c : case) : bool :=
  match c with
  | CSheet t0 ps g0 sh0 steps =>
      let rs := obs_rets ps in
      gen_matches 0 0 (tsg_init t0) g0 && sheet_matches 0 (tsg_generate (tsg_init t0)) sh0 &&
      corr_sheet (C17.scale1 rs) (C17.scale2 rs) (tsg_init t0) (tsg_init t0) ps steps
  | CSummary mode t0 insts assets ops s0 steps final =>
      let times := N.eqb mode 0 in
      let s := init_sgen t0 insts assets in
      let rs := exact_rets (all_pos ops) in
      let scp := pnl_scale (all_pos ops) in
      summary_matches scp times (sgen_generate s) s0 &&
      match corr_summary scp times s ops steps with
      | Some (Some s') =>
          list_match (fun a b => String.eqb (fst a) (fst b) &&
                                 gen_close scp (C17.scale1 rs) (C17.scale2 rs) (snd a) (snd b))
                     (sg_insts s') final
      | Some None => true
      | None => false
      end
  | CWinRate wins total r => wr_close (win_rate_calc (qc wins) (qc total)) r
  | CProfitFactor profits losses r =>
      match profit_factor_calc (qc profits) (qc losses), r with
      | Some (PFVal a), Some (OPFVal b) => near (uq a) (uq a) b
      | m, o => pf_close m o
      end
  | CReturn pnl price qty r => ret_close (mkPosIn pnl price qty 0 r)
  | CPersist _ changed c' => negb changed && corr_b c'
  end.

(* ---- the oracle ---------------------------------------------------------------------------------------------- *)

(** what a tear sheet must say about the closed positions [ps] (spec_* : Model/TearSheet.v,
    "the specification" section: filter + sum over the whole list) *)
Definition sheet_ok (scp : Q) (ps : list pos) (o : sheet_obs) : bool :=
  near scp (uq (spec_pnl ps)) (so_pnl o) &&
  wr_close (spec_win_rate ps) (so_wr o) &&
  pf_close (spec_profit_factor ps) (so_pf o).

(** the generator's datasets are the whole-dataset statistics (C17 oracle) of the observed
    returns and of the negative ones *)
Definition dataset_ok (sc1 sc2 : Q) (rs : list Q) (o : dsobs) : bool :=
  match rs with
  | [] => C17.empty_ok_gen false sc1 o
  | _ => C17.batch_ok_gen false sc1 sc2 (map qc rs) o
  end.

Definition is_neg_q (r : Q) : bool := negb (Qle_bool 0 r).

Fixpoint prop_sheet (t0 : Z) (sc1 sc2 : Q) (seen : list pos_in) (rest : list pos_in)
         (steps : list (option (sheet_obs * gen_obs))) : bool :=
  match rest, steps with
  | [], [] => true
  | p :: rest', Some (sh, go) :: steps' =>
      let seen' := seen ++ [p] in
      let rs := obs_rets seen' in
      ret_close p &&
      sheet_ok 0 (map pos_of seen') sh &&
      Z.eqb (go_start go) t0 && Z.eqb (go_now go) (pi_time p) &&
      Qeq_bool (go_raw go) (uq (spec_pnl (map pos_of seen'))) &&
      dataset_ok sc1 sc2 rs (go_total go) &&
      dataset_ok sc1 sc2 (filter is_neg_q rs) (go_losses go) &&
      prop_sheet t0 sc1 sc2 seen' rest' steps'
  | _, _ => false
  end.

(** positions among [ops] addressed to instrument number [i] named [k] *)
Definition addressed (i : nat) (k : string) (ops : list sop_in) : list pos :=
  flat_map (fun o => match o with
                     | IPosIdx j p => if Nat.eqb (N.to_nat j) i then [pos_of p] else []
                     | IPosName k' p => if String.eqb k' k then [pos_of p] else []
                     | _ => [] end) ops.

(** last balance among [ops] addressed to asset number [i] with key [k], else [a0] *)
Definition last_balance (i : nat) (k : string) (a0 : option (Q * Q)) (ops : list sop_in) : option (Q * Q) :=
  fold_left (fun a o => match o with
                        | IBalIdx j tot fr _ => if Nat.eqb (N.to_nat j) i then Some (tot, fr) else a
                        | IBalKey k' tot fr _ => if String.eqb k' k then Some (tot, fr) else a
                        | _ => a end) ops a0.

Definition obal_eqb (a b : option (Q * Q)) : bool :=
  match a, b with
  | None, None => true
  | Some (x, y), Some (z, w) => Qeq_bool x z && Qeq_bool y w
  | _, _ => false
  end.

Fixpoint with_index {A} (n : nat) (l : list A) : list (nat * A) :=
  match l with [] => [] | x :: t => (n, x) :: with_index (S n) t end.

(** after the updates [done], every instrument's sheet is that of exactly its own positions and
    every asset shows its own last balance, keys in index order *)
Definition summary_ok (scp : Q) (insts : list string) (assets : list (string * option (Q * Q)))
           (done : list sop_in) (o : sum_obs) : bool :=
  list_match (fun ik kv => String.eqb (snd ik) (fst kv) &&
                           sheet_ok scp (addressed (fst ik) (snd ik) done) (snd kv))
             (with_index 0 insts) (uo_insts o) &&
  list_match (fun ika kv => String.eqb (fst (snd ika)) (fst kv) &&
                            obal_eqb (last_balance (fst ika) (fst (snd ika)) (snd (snd ika)) done)
                                     (snd kv))
             (with_index 0 assets) (uo_assets o).

Fixpoint prop_summary (scp : Q) insts assets (done rest : list sop_in) (steps : list (option sum_obs)) : bool :=
  match rest, steps with
  | [], [] => true
  | o :: rest', Some so :: steps' =>
      let done' := done ++ [o] in
      summary_ok scp insts assets done' so && prop_summary scp insts assets done' rest' steps'
  | _, _ => false
  end.

Fixpoint prop_b (c : case) : bool :=
  match c with
  | CSheet t0 ps g0 sh0 steps =>
      let rs := obs_rets ps in
      sheet_ok 0 [] sh0 && Qeq_bool (go_raw g0) 0 && C17.empty_ok_gen false 0 (go_total g0) &&
      C17.empty_ok_gen false 0 (go_losses g0) &&
      prop_sheet t0 (C17.scale1 rs) (C17.scale2 rs) [] ps steps
  | CSummary mode t0 insts assets ops s0 steps final =>
      let scp := pnl_scale (all_pos ops) in
      summary_ok scp insts assets [] s0 && prop_summary scp insts assets [] ops steps
  | CWinRate wins total r =>
      (* wins out of total positions, 0 <= wins <= total *)
      if Qle_bool 0 wins && Qle_bool wins total then
        if Qeq_bool total 0 then match r with None => true | _ => false end
        else match r with Some v => near 1 (wins / total) v | None => false end
      else true
  | CProfitFactor profits losses r =>
      (* gross profits >= 0, gross losses <= 0 *)
      if Qle_bool 0 profits && Qle_bool losses 0 then
        match r with
        | None => Qeq_bool profits 0 && Qeq_bool losses 0
        | Some OPFMax => Qeq_bool losses 0 && negb (Qeq_bool profits 0)
        | Some OPFMin => Qeq_bool profits 0 && negb (Qeq_bool losses 0)
        | Some (OPFVal v) => negb (Qeq_bool profits 0) && negb (Qeq_bool losses 0) &&
                             near (profits / - losses) (profits / - losses) v
        end
      else true
  | CReturn pnl price qty r => ret_close (mkPosIn pnl price qty 0 r)
  | CPersist _ changed c' => negb changed && prop_b c'   (* persist/restore must be the identity *)
  end.

(** input requirements: every position has a non-zero cost (price * quantity), keys are
    pairwise distinct and every update addresses an existing key *)
Definition addr_ok (ni na : nat) (insts : list string) (akeys : list string) (o : sop_in) : bool :=
  match o with
  | IPosIdx i _ => Nat.ltb (N.to_nat i) ni
  | IPosName k _ => existsb (String.eqb k) insts
  | IBalIdx i _ _ _ => Nat.ltb (N.to_nat i) na
  | IBalKey k _ _ _ => existsb (String.eqb k) akeys
  | ITime _ => true
  end.

Fixpoint wf_case (c : case) : bool :=
  match c with
  | CSheet _ ps _ _ _ => forallb pos_in_ok ps
  | CSummary _ _ insts assets ops _ _ _ =>
      forallb pos_in_ok (all_pos ops) && nodup_str insts && nodup_str (map fst assets) &&
      forallb (addr_ok (List.length insts) (List.length assets) insts (map fst assets)) ops
  | CReturn _ price qty _ => negb (Qeq_bool (price * qty) 0)
  | CPersist _ _ c' => wf_case c'
  | _ => true
  end.

(** A non-zero return smaller than 1e-6 in magnitude is outside the property's arithmetic domain:
    rust_decimal keeps 28 decimal places, so such a quotient has fewer than 22 significant digits
    and below 1e-28 it underflows to 0, which flips its win / break-even classification and the
    zero / non-zero conventions of the profit factor (eg/ a rounding residue pnl = 1.67e-22 on a
    cost of 6.25e6: exact return 2.7e-29, Decimal return 0).  "Up to decimal rounding" cannot be
    judged there; such cases (they arise from rounding residues of Position::update_from_trade
    after flips) are not judged at all. *)
Definition ret_min : Q := 1 # 1000000.
Definition ret_in_range (p : pos_in) : bool :=
  let r := uq (pnl_return (pos_of p)) in Qeq_bool r 0 || Qle_bool ret_min (Qabs' r).
Fixpoint in_range_case (c : case) : bool :=
  match c with
  | CSheet _ ps _ _ _ => forallb ret_in_range ps
  | CSummary _ _ _ _ ops _ _ _ => forallb ret_in_range (all_pos ops)
  | CPersist _ _ c' => in_range_case c'
  | _ => true
  end.

(** outside the input requirements only model agreement is judged (the panic is reproduced) *)
Definition judge (c : case) : N :=
  if in_range_case c then
    if wf_case c then judge_code (corr_b c) (prop_b c) 0
    else judge_code (corr_b c) true 0
  else 0%N.
