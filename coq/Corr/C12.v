(** C12 correspondence: case type, [corr_b] (the model run on the script reproduces exactly what
    was observed on the real combinators under virtual time; for [merge], whose interleaving at
    equal times is scheduler dependent, the observed output is in the model relation) and
    [prop_b] (the OBSERVED behaviour satisfies the property's executable oracle, written against
    the abstract spec: [conn_spec], the closed-form [wait], per-input order/completeness for
    merge; it never calls [run], [multiply_backoff] or [tm_check]). *)
From BV Require Export Base.Common Model.Reconnect.
Local Open Scope N_scope.

Inductive case :=
| CRec (pol : policy) (origin : N) (handler : bool) (f : fwd) (s : list conn) (obs : robs)
    (* init_reconnecting_stream(scripted init) .with_reconnect_backoff(pol)
       .with_termination_on_error(DataError::is_terminal) .with_reconnection_events(origin)
       [.with_error_handler] [.forward_to]; obs = everything observed, virtual ms stamps *)
| CMerge (l r : dstream) (out : list (N * side * N)) (e : option N)
         (post : list (N * side * N)) (panic : bool).
    (* merge(left, right): items delivered with stamps, time of the end (None: still pending at
       the horizon), items obtained by polling again after the end *)

(* ---- equality on observations ------------------------------------------------------------- *)

Definition tev_eqb (a b : tev) : bool :=
  match a, b with
  | TAttempt, TAttempt | TErrTerminal, TErrTerminal | THandledTerminal, THandledTerminal => true
  | TItem x, TItem y | TErr x, TErr y | THandled x, THandled y | TNotice x, TNotice y => x =? y
  | _, _ => false
  end.
Definition trace_eqb : trace -> trace -> bool := list_eqb (pair_eqb N.eqb tev_eqb).
Definition robs_eqb (a b : robs) : bool :=
  match a, b with
  | RInitErr x, RInitErr y => x =? y
  | RStream t1 d1, RStream t2 d2 => trace_eqb t1 t2 && onat_eqb d1 d2
  | _, _ => false
  end.

Definition corr_b (c : case) : bool :=
  match c with
  | CRec pol o h f s obs => robs_eqb (reconnecting pol o h f s) obs
  | CMerge l r out e post panic =>
      negb panic && is_nil post &&
      tm_check (abs_items 0 (ds_items l)) (abs_items 0 (ds_items r)) (abs_end l) (abs_end r) out e
  end.

(* ---- oracle: reconnecting stream ------------------------------------------------------------ *)

Definition ev_list_eqb := list_eqb tev_eqb.

(** expected output of the whole script, from the abstract spec *)
Definition spec_ev (handler : bool) (e : tev) : bool :=
  if handler then negb (is_err e) else true.
Definition spec_outputs (o : N) (handler : bool) (s : list conn) : list tev :=
  filter (spec_ev handler) (flat_map (conn_spec o) s).
Definition spec_handled (o : N) (handler : bool) (s : list conn) : list tev :=
  if handler then map handle_ev (filter is_err (flat_map (conn_spec o) s)) else [].

Fixpoint prefix_b (p l : list tev) : bool :=
  match p, l with
  | [], _ => true
  | x :: p', y :: l' => tev_eqb x y && prefix_b p' l'
  | _ :: _, [] => false
  end.

(** Timed walk of the observed trace along the script (no forward_to). [k] = number of
    consecutive failed attempts so far. Every attempt, item, error, notice must be there, once,
    in order, at its time:
    - a failed attempt is followed by nothing but the next attempt, exactly
      [lat + wait pol k] later (closed form of the backoff);
    - a connection delivers its items up to its first terminal error (non-terminal errors are
      passed through, or handed to the handler, and do not end it), each after its delay, then
      exactly one notice at the moment it ends; the next attempt is made at that moment. *)
Fixpoint walk_conn (o : N) (handler : bool) (now : N) (items : list (N * item)) (tail : N)
                   (tr : trace) : option (N * trace) :=
  match items with
  | [] =>
      match tr with
      | (t, TNotice o') :: tr' => if (t =? now + tail) && (o' =? o) then Some (t, tr') else None
      | _ => None
      end
  | (d, IErrTerminal) :: _ =>
      match tr with
      | (t, TNotice o') :: tr' => if (t =? now + d) && (o' =? o) then Some (t, tr') else None
      | _ => None
      end
  | (d, IOk v) :: items' =>
      match tr with
      | (t, TItem v') :: tr' =>
          if (t =? now + d) && (v' =? v) then walk_conn o handler t items' tail tr' else None
      | _ => None
      end
  | (d, IErrOther e) :: items' =>
      match tr with
      | (t, TErr e') :: tr' =>
          if negb handler && (t =? now + d) && (e' =? e)
          then walk_conn o handler t items' tail tr' else None
      | (t, THandled e') :: tr' =>
          if handler && (t =? now + d) && (e' =? e)
          then walk_conn o handler t items' tail tr' else None
      | _ => None
      end
  end.

Fixpoint walk (pol : policy) (o : N) (handler : bool) (k : nat) (s : list conn) (tr : trace)
  : bool :=
  match s with
  | [] => match tr with [(_, TAttempt)] => true | _ => false end
  | InitFail lat :: s' =>
      match tr with
      | (a, TAttempt) :: (((a', TAttempt) :: _) as tr') =>
          (a' =? a + lat + wait pol k) && walk pol o handler (S k) s' tr'
      | _ => false
      end
  | InitOk lat items tail :: s' =>
      match tr with
      | (a, TAttempt) :: tr' =>
          match walk_conn o handler (a + lat) items tail tr' with
          | Some (tend, ((a', TAttempt) :: _) as tr'') =>
              (a' =? tend) && walk pol o handler 0 s' tr''
          | _ => false
          end
      | _ => false
      end
  end.

Definition first_attempt_at_0 (tr : trace) : bool :=
  match tr with (0, TAttempt) :: _ => true | _ => false end.

(** time of the (k+1)-th expected output = moment the first send fails *)
Definition prop_rec (pol : policy) (o : N) (handler : bool) (f : fwd) (s : list conn)
                    (obs : robs) : bool :=
  match s, obs with
  | InitFail lat :: _, RInitErr t => t =? lat          (* no stream, nothing delivered *)
  | InitFail _ :: _, _ => false
  | _, RStream tr done =>
      match f with
      | FwdNone | FwdOpen =>
          (* the stream never ends by itself *)
          onat_eqb done None &&
          ev_list_eqb (outputs tr) (spec_outputs o handler s) &&
          ev_list_eqb (handled tr) (spec_handled o handler s) &&
          first_attempt_at_0 tr && walk pol o handler 0 s tr
      | FwdClose k =>
          (* exactly the first k events were forwarded, in order; the future completes iff a
             further event was produced *)
          ev_list_eqb (outputs tr) (firstn (N.to_nat k) (spec_outputs o handler s)) &&
          prefix_b (handled tr) (spec_handled o handler s) &&
          (match done with
           | None => Nat.leb (length (spec_outputs o handler s)) (N.to_nat k)
           | Some _ => Nat.ltb (N.to_nat k) (length (spec_outputs o handler s))
           end)
      | FwdTake n =>
          (* the consumer stopped polling after n events: exactly the first n were delivered,
             nothing ended *)
          onat_eqb done None &&
          ev_list_eqb (outputs tr) (firstn (N.to_nat n) (spec_outputs o handler s)) &&
          prefix_b (handled tr) (spec_handled o handler s)
      end
  | _, _ => false
  end.

(* ---- oracle: merge --------------------------------------------------------------------------- *)

Definition tv_eqb := pair_eqb N.eqb N.eqb.
Fixpoint tv_prefix_b (p l : list (N * N)) : bool :=
  match p, l with
  | [], _ => true
  | x :: p', y :: l' => tv_eqb x y && tv_prefix_b p' l'
  | _ :: _, [] => false
  end.
Fixpoint nondecreasing (lo : N) (l : list N) : bool :=
  match l with [] => true | t :: l' => (lo <=? t) && nondecreasing t l' end.

Definition count_before (t : N) (l : list (N * N)) : nat :=
  length (filter (fun x => fst x <? t) l).
Definition count_upto (t : N) (l : list (N * N)) : nat :=
  length (filter (fun x => fst x <=? t) l).

(** each input's items appear in order, once, at the time they became available (the part of
    the output coming from one input is a prefix of that input); nothing that became available
    before the first end of an input is missing, nothing after it is delivered; the merged
    stream ends exactly when the first input ends, and stays ended. *)
Definition prop_merge (l r : dstream) (out : list (N * side * N)) (e : option N)
                      (post : list (N * side * N)) (panic : bool) : bool :=
  let al := abs_items 0 (ds_items l) in
  let ar := abs_items 0 (ds_items r) in
  let ol := of_side SL out in
  let or_ := of_side SR out in
  negb panic && is_nil post &&
  tv_prefix_b ol al && tv_prefix_b or_ ar &&
  nondecreasing 0 (map (fun x => fst (fst x)) out) &&
  onat_eqb e (min_end (abs_end l) (abs_end r)) &&
  match e with
  | None => Nat.eqb (length ol) (length al) && Nat.eqb (length or_) (length ar)
  | Some t =>
      Nat.leb (count_before t al) (length ol) && Nat.leb (length ol) (count_upto t al) &&
      Nat.leb (count_before t ar) (length or_) && Nat.leb (length or_) (count_upto t ar)
  end.

Definition prop_b (c : case) : bool :=
  match c with
  | CRec pol o h f s obs => prop_rec pol o h f s obs
  | CMerge l r out e post panic => prop_merge l r out e post panic
  end.

Definition judge (c : case) : N := judge_code (corr_b c) (prop_b c) 0.
