(** C17 correspondence: case type, [corr_b] (the Gallina model of DataSetSummary / Dispersion /
    Range / welford_online reproduces what the implementation returned) and [prop_b] (the
    OBSERVED summaries equal the statistics of the whole dataset computed at once — two-pass
    textbook formulas, min/max by folding — never calling the model's update functions). *)
From BV Require Export Base.Common Model.Stats.
Local Open Scope Q_scope.

(** one observation of a [DataSetSummary] (all public fields + [Range::range()]) *)
Record obs := mkObs {
  o_count : Q; o_sum : Q; o_mean : Q;
  o_act : bool; o_high : Q; o_low : Q; o_span : Q;
  o_m : Q; o_var : Q; o_sd : Q }.

Inductive case :=
| CSeq (vals : list Q) (o0 : obs) (os : list obs)
    (* DataSetSummary::default() observed, then update(v) for each v, observed after each *)
| CPerms (base : list Q) (finals : list (list Q * obs))
    (* every permutation of [base] fed to a fresh summary; the final observation of each *)
| CStep (st : obs) (x : Q) (res : option obs)
    (* an arbitrary summary state (public fields set directly), one update; None = panic *)
| CRange (act : bool) (hi lo x : Q) (act' : bool) (hi' lo' : Q)     (* Range::update *)
| CRangeInit (x : Q) (act' : bool) (hi' lo' : Q)                    (* Range::init *)
| CMean (pm x c r : Q)                         (* welford_online::calculate_mean *)
| CRecM (m pm x nm r : Q)                      (* welford_online::calculate_recurrence_relation_m *)
| CPopVar (m c r : Q)                          (* welford_online::calculate_population_variance *)
| CPersist (points : list N) (changed : bool) (c : case).
    (* the history of [c] with persist/restore steps inserted after the listed step numbers: the
       summary is serialised with serde_json, deserialised and the history continues on the
       restored value.  The model treats such a step as a no-op (Model/Stats.v [ds_step]);
       [changed] = the harness saw a restored value different from the original *)

(* ---- tolerance ---------------------------------------------------------------------------------- *)

(** |a - b| <= 1e-24 + 1e-20 * scale.  Decimal keeps 28 significant digits per operation, so the
    accumulated error of a few hundred steps is below 1e-25 of the scale of the operands. *)
Definition tol_abs : Q := Qmake 1 (Z.to_pos (10 ^ 24)).
Definition tol_rel : Q := Qmake 1 (Z.to_pos (10 ^ 20)).
Definition near (scale a b : Q) : bool :=
  Qle_bool (Qabs' (a - b)) (tol_abs + tol_rel * Qabs' scale).

Definition qc (x : Q) : Qc := Q2Qc x.
Definition uq (x : Qc) : Q := this x.
Definition Qmaxq (a b : Q) : Q := if Qle_bool a b then b else a.
Definition maxabs (l : list Q) : Q := fold_left (fun a x => Qmaxq a (Qabs' x)) l 0.

Definition lmax (l : list Qc) : Qc :=
  match l with [] => 0%Qc | x :: t => fold_left (fun a y => if Qcleb a y then y else a) t x end.
Definition lmin (l : list Qc) : Qc :=
  match l with [] => 0%Qc | x :: t => fold_left (fun a y => if Qcleb y a then y else a) t x end.

(** scale of first-order quantities (mean) and of second-order ones (M, variance) *)
Definition scale1 (l : list Q) : Q := maxabs l.
Definition scale2 (l : list Q) : Q :=
  let ql := map qc l in let spread := uq (lmax ql - lmin ql)%Qc in
  spread * (maxabs l + spread).

(* ---- model vs implementation ------------------------------------------------------------------------- *)

Definition sd_ok (sc2 var sd : Q) : bool := Qle_bool 0 sd && near (Qabs' sc2 + Qabs' var) var (sd * sd).

(** twice the tolerance: two observations that are each [near] the same exact value *)
Definition near2 (scale a b : Q) : bool :=
  Qle_bool (Qabs' (a - b)) ((2 # 1) * (tol_abs + tol_rel * Qabs' scale)).

(** facts every summary of a dataset satisfies exactly (no tolerance): variance is not negative,
    std_dev is the root of the reported variance, the mean lies within the range.  The oracle
    [batch_ok_gen] demands them; [corr_b] demands them too, so that whatever [corr_b] accepts is
    accepted by [prop_b] (Proofs/CorrC17.v).  As [prop_b] fails without them anyway, the verdict
    of a case is the same with or without them in [corr_b]. *)
Definition obs_inv (o : obs) : bool :=
  Qle_bool 0 (o_var o) && sd_ok 0 (o_var o) (o_sd o) &&
  Qle_bool (o_low o) (o_mean o) && Qle_bool (o_mean o) (o_high o).

(** [exact = true]: the dataset values are short decimals (C17: at most 8 fractional digits), so
    Decimal sums and differences are exact and are compared exactly.  [exact = false] (used by
    C16, whose dataset values are themselves 28-digit quotients): sum and range width may round
    and are compared with the first-order tolerance. *)
Definition eq_or_near (exact : bool) (sc a b : Q) : bool := if exact then Qeq_bool a b else near sc a b.

Definition obs_matches_gen (exact : bool) (sc1 sc2 : Q) (s : ds) (o : obs) : bool :=
  let r := d_range (s_disp s) in
  Qeq_bool (uq (s_count s)) (o_count o) && eq_or_near exact sc1 (uq (s_sum s)) (o_sum o) &&
  near sc1 (uq (s_mean s)) (o_mean o) &&
  Bool.eqb (r_act r) (o_act o) && Qeq_bool (uq (r_high r)) (o_high o) &&
  Qeq_bool (uq (r_low r)) (o_low o) && eq_or_near exact sc1 (uq (range_span r)) (o_span o) &&
  near sc2 (uq (d_m (s_disp s))) (o_m o) && near sc2 (uq (d_var (s_disp s))) (o_var o) &&
  sd_ok sc2 (uq (d_var (s_disp s))) (o_sd o).

Definition obs_matches := obs_matches_gen true.

Fixpoint corr_run (sc1 sc2 : Q) (s : ds) (vals : list Q) (os : list obs) : bool :=
  match vals, os with
  | [], [] => true
  | v :: vals', o :: os' =>
      let s' := ds_update s (qc v) in
      obs_matches sc1 sc2 s' o && obs_inv o && corr_run sc1 sc2 s' vals' os'
  | _, _ => false
  end.

Definition ds_of_obs (o : obs) : ds :=
  mkDs (qc (o_count o)) (qc (o_sum o)) (qc (o_mean o))
       (mkDisp (mkRange (o_act o) (qc (o_high o)) (qc (o_low o))) (qc (o_m o)) (qc (o_var o))).

(** [l2] is a rearrangement of [l1]: strike the elements of [l1] out of [l2] one by one *)
Fixpoint remove_first (x : Q) (l : list Q) : option (list Q) :=
  match l with
  | [] => None
  | y :: t => if Qeq_bool x y then Some t else option_map (cons y) (remove_first x t)
  end.
Fixpoint is_perm_b (l1 l2 : list Q) : bool :=
  match l1 with
  | [] => match l2 with [] => true | _ => false end
  | x :: t => match remove_first x l2 with Some l2' => is_perm_b t l2' | None => false end
  end.

Definition range_matches (r : range) (act : bool) (hi lo : Q) : bool :=
  Bool.eqb (r_act r) act && Qeq_bool (uq (r_high r)) hi && Qeq_bool (uq (r_low r)) lo.

Fixpoint corr_b (c : case) : bool :=
  match c with
  | CSeq vals o0 os =>
      obs_matches 0 0 ds_default o0 && corr_run (scale1 vals) (scale2 vals) ds_default vals os
  | CPerms base finals =>
      forallb (fun po => is_perm_b base (fst po) &&
                         obs_matches (scale1 base) (scale2 base) (ds_run (map qc (fst po))) (snd po) &&
                         obs_inv (snd po))
              finals
  | CStep st x (Some o) =>
      let l := [o_sum st; o_mean st; o_high st; o_low st; x] in
      let sc1 := maxabs l in
      let sc2 := Qabs' (o_m st) + Qabs' (o_var st) + sc1 * sc1 in
      obs_matches sc1 sc2 (ds_update (ds_of_obs st) (qc x)) o
  | CStep _ _ None => false
  | CRange act hi lo x act' hi' lo' =>
      range_matches (range_update (mkRange act (qc hi) (qc lo)) (qc x)) act' hi' lo'
  | CRangeInit x act' hi' lo' => range_matches (range_init (qc x)) act' hi' lo'
  | CMean pm x c r => near (maxabs [pm; x]) (uq (calc_mean (qc pm) (qc x) (qc c))) r
  | CRecM m pm x nm r =>
      near (Qabs' m + maxabs [pm; x; nm] * maxabs [pm; x; nm])
           (uq (calc_m (qc m) (qc pm) (qc x) (qc nm))) r
  | CPopVar m c r => near m (uq (calc_pop_var (qc m) (qc c))) r
  | CPersist _ changed c' => negb changed && corr_b c'
  end.

(* ---- the oracle: statistics of the whole dataset at once ------------------------------------------------ *)

(** [o] is the summary of the (non-empty) dataset [l] *)
Definition batch_ok_gen (exact : bool) (sc1 sc2 : Q) (l : list Qc) (o : obs) : bool :=
  let n := nQc (length l) in
  let S := sumQc l in
  let mu := (S / n)%Qc in
  let M := sumQc (map (fun x => sq (x - mu)%Qc) l) in
  let V := (M / n)%Qc in
  let hi := lmax l in let lo := lmin l in
  Qeq_bool (o_count o) (uq n) && eq_or_near exact sc1 (uq S) (o_sum o) &&
  near sc1 (uq mu) (o_mean o) &&
  near sc2 (uq M) (o_m o) && near sc2 (uq V) (o_var o) &&
  Qle_bool 0 (o_var o) &&                                   (* variance is never negative *)
  sd_ok sc2 (uq V) (o_sd o) && sd_ok 0 (o_var o) (o_sd o) &&  (* std_dev = sqrt variance *)
  o_act o && Qeq_bool (o_high o) (uq hi) && Qeq_bool (o_low o) (uq lo) &&
  eq_or_near exact sc1 (uq (hi - lo)%Qc) (o_span o) &&
  Qle_bool (o_low o) (o_mean o) && Qle_bool (o_mean o) (o_high o).   (* mean within the range *)

Definition batch_ok := batch_ok_gen true.

(** the summary of the empty dataset ([exact], [sc]: as for [obs_matches_gen]) *)
Definition empty_ok_gen (exact : bool) (sc : Q) (o : obs) : bool :=
  Qeq_bool 0 (o_count o) && eq_or_near exact sc 0 (o_sum o) && negb (o_act o).
Definition empty_ok := empty_ok_gen true 0.

Fixpoint prop_run (sc1 sc2 : Q) (seen rest : list Qc) (os : list obs) : bool :=
  match rest, os with
  | [], [] => true
  | x :: rest', o :: os' =>
      let seen' := seen ++ [x] in batch_ok sc1 sc2 seen' o && prop_run sc1 sc2 seen' rest' os'
  | _, _ => false
  end.

(** exact fields identical, rounded fields within twice the tolerance (each of the two is within
    the tolerance of the exact value); std_dev compared through its square, [scv] = scale of the
    variance *)
Definition same_summary (sc1 sc2 scv : Q) (a b : obs) : bool :=
  Qeq_bool (o_count a) (o_count b) && Qeq_bool (o_sum a) (o_sum b) &&
  Bool.eqb (o_act a) (o_act b) && Qeq_bool (o_high a) (o_high b) && Qeq_bool (o_low a) (o_low b) &&
  near2 sc1 (o_mean a) (o_mean b) && near2 sc2 (o_m a) (o_m b) && near2 sc2 (o_var a) (o_var b) &&
  near2 scv (o_sd a * o_sd a) (o_sd b * o_sd b).

Fixpoint prop_b (c : case) : bool :=
  match c with
  | CSeq vals o0 os => empty_ok o0 && prop_run (scale1 vals) (scale2 vals) [] (map qc vals) os
  | CPerms base finals =>
      match base, finals with
      | [], _ => forallb (fun po => empty_ok (snd po)) finals
      | _, [] => true
      | _, (_, f0) :: _ =>
          (* every arrival order gives the statistics of the multiset, and the same summary *)
          forallb (fun po => batch_ok (scale1 base) (scale2 base) (map qc base) (snd po) &&
                             same_summary (scale1 base) (scale2 base)
                               (Qabs' (scale2 base) + Qabs' (uq (b_var (map qc base)))) f0 (snd po))
                  finals
      end
  | CRange act hi lo x act' hi' lo' =>
      if act then
        if Qle_bool lo hi then
          act' && Qeq_bool hi' (Qmaxq hi x) && Qeq_bool lo' (if Qle_bool lo x then lo else x)
        else true
      else act' && Qeq_bool hi' x && Qeq_bool lo' x
  | CRangeInit x act' hi' lo' => act' && Qeq_bool hi' x && Qeq_bool lo' x
  | CMean pm x c r =>
      (* the mean of c values whose first c-1 have mean pm and whose last is x *)
      if Qle_bool 1 c then near (maxabs [pm; x]) ((pm * (c - 1) + x) / c) r else true
  | CPopVar m c r => if Qle_bool 1 c then near m (m / c) r else true
  | CStep _ _ _ | CRecM _ _ _ _ _ => true     (* no independent statement: model agreement only *)
  | CPersist _ changed c' => negb changed && prop_b c'   (* persist/restore must be the identity *)
  end.

Definition judge (c : case) : N := judge_code (corr_b c) (prop_b c) 0.
