(** C07 correspondence: case type, [corr_b] (the operational model of the manager's bookkeeping
    reproduces the multiset of events observed on the real ExecutionManager::run under virtual
    time) and [prop_b] (the OBSERVED events are, as a multiset, exactly the per-request events
    the statement prescribes — [spec_events], which knows nothing about in-flight sets,
    handlers or flushing). *)
From BV Require Export Base.Common Model.ExecMgr.
Local Open Scope N_scope.

(** one item seen on the response channel: an order event (with the exchange index inside the
    order key, and whether side/price/quantity/kind/time-in-force/strategy/order-id are those of
    the request with that client order id), or anything else *)
Inductive oobs := OEv (e : event) (key_exchange : N) (echo : bool) | OOther (t : N).

(** how the manager task ended *)
Inductive end_obs := ObsReturned | ObsPanicked | ObsHang.

(** account-side items seen on the merged stream of ExecutionManager::init: the account snapshot
    of a (re-)connection, or a Reconnecting notice ([origin_ok]: it names the manager's exchange) *)
Inductive aobs := ASnap (t : N) | ARec (t : N) (origin_ok : bool).

(** a scripted run *)
Record scase := mkCase {
  c_mgr : mgr; c_stop : option N; c_script : list req; c_obs : list oobs; c_end : end_obs }.

(** [Script]: a scripted run, judged against the model and the per-request specification.
    [Flood]: a closed-loop load run — the request source hands the manager a fresh accepted
    request (client answers at once) every time it is polled, until it has seen the first
    answer on the response channel or has handed out [cap] requests; afterwards Shutdown is sent
    once everything had time to resolve.  [first] = requests handed out when the first answer
    was seen; [taken] = requests handed out in total; [events] = order events received;
    [once] = requests that got exactly one well-attributed event.  No model: this is the
    runtime part of the property (a starved select branch), observable only by running. *)
Inductive case :=
| Script (c : scase)
| Flood (cap first taken events once : N) (e : end_obs)
| Crash (c : scase)
| Acct (c : scase) (pol : policy) (sched : list (N * N)) (aobs : list aobs) (ended_early : bool).
(** [Acct c pol sched aobs ended_early]: a scripted run through ExecutionManager::init whose
    scripted client ENDS its account stream at the times in [sched] and fails the following
    re-initialisation the given number of times (backoff policy [pol]) while requests are in
    flight.  [aobs]: the account-side items seen, in order; [ended_early]: the merged stream
    ended although the manager was still running. *)
(** [Crash c]: a scripted run in which the client future of ONE request panicked at virtual time
    [p] = [c_stop c] (that request is listed with behaviour [Never]).  A panicking client is
    outside the statement's hypotheses and what the manager does then is not prescribed (today
    the panic unwinds run()); what is judged is that everything that was due BEFORE [p] was
    delivered exactly as specified. *)

Definition err_eqb (a b : err) : bool :=
  match a, b with
  | ERateLimit, ERateLimit | ERejected, ERejected | EAlreadyCancelled, EAlreadyCancelled
  | EAlreadyFilled, EAlreadyFilled | EOffline, EOffline | ESocket, ESocket | ETimeout, ETimeout => true
  | _, _ => false
  end.

Definition outcome_eqb (a b : outcome) : bool :=
  match a, b with
  | OutActive, OutActive | OutFullyFilled, OutFullyFilled | OutCancelled, OutCancelled => true
  | OutOpenFailed x, OutOpenFailed y | OutCancelFailed x, OutCancelFailed y => err_eqb x y
  | _, _ => false
  end.

Definition event_eqb (a b : event) : bool :=
  N.eqb (e_exchange a) (e_exchange b) && N.eqb (e_instr a) (e_instr b) && N.eqb (e_cid a) (e_cid b) &&
  outcome_eqb (e_out a) (e_out b) && N.eqb (e_time a) (e_time b).

Definition count_ev (e : event) (l : list event) : nat := length (filter (event_eqb e) l).

(** equality of event multisets *)
Definition mset_eqb (l1 l2 : list event) : bool :=
  Nat.eqb (length l1) (length l2) &&
  forallb (fun e => Nat.eqb (count_ev e l1) (count_ev e l2)) l1.

Definition mem_N (x : N) (l : list N) : bool := existsb (N.eqb x) l.

Definition obs_events (os : list oobs) : list event :=
  flat_map (fun o => match o with OEv e _ _ => [e] | OOther _ => [] end) os.

(** every observed item is an order event whose key names the same exchange as the event
    envelope and whose order fields echo the request *)
Definition obs_clean (os : list oobs) : bool :=
  forallb (fun o => match o with OEv e k echo => N.eqb k (e_exchange e) && echo | OOther _ => false end) os.

(* ---- ties: same-millisecond races the runtime may resolve either way -------------------------- *)

Definition delay_of (b : behaviour) : option N :=
  match b with Respond d _ | RespondBadKey d => Some d | Never => None end.

(** the client's answer and the timeout fall on the same millisecond *)
Definition delay_tie (tau : N) (r : req) : bool :=
  match delay_of (r_beh r) with Some d => N.eqb d tau | None => false end.

(** the request resolves on the very millisecond the manager stops (Shutdown / panic) *)
Definition stop_tie (tau : N) (eff : option N) (r : req) : bool :=
  match eff with
  | Some s => N.eqb (ctime tau r) s ||
              (delay_tie tau r && N.eqb (r_arrival r + tau) s)
  | None => false
  end.

Definition is_tie (m : mgr) (eff : option N) (r : req) : bool :=
  delay_tie (m_tau m) r || stop_tie (m_tau m) eff r.

(** what a delay-tie request may legitimately produce: the timeout ([spec_event], since its delay
    is not below the timeout), or the client's response taken as in time, delivered on that
    same millisecond *)
Definition response_alt (m : mgr) (r : req) : list event :=
  match r_beh r with
  | Respond _ rs => [mkEv (m_exchange m) (r_instr r) (r_cid r) (response_outcome (r_kind r) rs)
                          (r_arrival r + m_tau m)]
  | RespondBadKey _ => []
  | Never => spec_event m r
  end.
Definition alternatives (m : mgr) (r : req) : list (list event) :=
  if delay_tie (m_tau m) r then [spec_event m r; response_alt m r] else [spec_event m r].

Definition events_eqb (a b : list event) : bool := list_eqb event_eqb a b.

(** a tie request (whose client order id no other request shares) produced one of its
    alternatives — or nothing at all when it also races with the manager stopping *)
Definition tie_ok (m : mgr) (eff : option N) (script : list req) (evs : list event) (r : req) : bool :=
  if Nat.ltb 1 (length (filter (fun r' => N.eqb (r_cid r') (r_cid r)) script)) then true else
  let mine := filter (fun e => N.eqb (e_cid e) (r_cid r)) evs in
  existsb (events_eqb mine) (alternatives m r) ||
  (stop_tie (m_tau m) eff r && match mine with [] => true | _ => false end).

Definition strip (cids : list N) (l : list event) : list event :=
  filter (fun e => negb (mem_N (e_cid e) cids)) l.

Definition end_matches (e : endst) (o : end_obs) : bool :=
  match e, o with Shutdown, ObsReturned | Panicked, ObsPanicked => true | _, _ => false end.

(** input requirement: requests are sent in time order (a timeout of 0 ms is allowed) *)
Definition wf_case (c : scase) : bool := sorted_by_arrival (c_script c).

Definition corr_b (c : scase) : bool :=
  let m := c_mgr c in
  let st := run_manager m (c_stop c) (c_script c) in
  let eff := eff_stop m (c_stop c) (c_script c) in
  let ties := filter (is_tie m eff) (taken m (c_stop c) (c_script c)) in
  let tcids := map r_cid ties in
  let evs := obs_events (c_obs c) in
  obs_clean (c_obs c) &&
  mset_eqb (strip tcids (s_out st)) (strip tcids evs) &&
  forallb (tie_ok m eff (c_script c) evs) ties &&
  end_matches (s_end st) (c_end c).

(** The oracle.  For the requests the manager took in while running and that resolve before it
    stops, the observed events are exactly one [spec_event] each — no more, no fewer, nothing
    for anything else.  Requests whose client answered with an un-indexable key are outside the
    statement's hypotheses: events carrying their client order ids are not judged. *)
Definition prop_b (c : scase) : bool :=
  let m := c_mgr c in
  let eff := eff_stop m (c_stop c) (c_script c) in
  let tk := taken m (c_stop c) (c_script c) in
  let ties := filter (is_tie m eff) tk in
  let excluded := map r_cid ties ++ map r_cid (filter (fun r => negb (well_behaved r)) (c_script c)) in
  let evs := obs_events (c_obs c) in
  obs_clean (c_obs c) &&
  mset_eqb (strip excluded (spec_events m (c_stop c) (c_script c))) (strip excluded evs) &&
  forallb (tie_ok m eff (c_script c) evs) (filter well_behaved ties) &&
  (* the manager must not spin / dead-lock, and must not die unless it was handed a request for
     a key it is not configured for *)
  match c_end c with
  | ObsHang => false
  | ObsPanicked => match end_of m (c_stop c) (c_script c) with Panicked => true | _ => false end
  | ObsReturned => true
  end.

(** under sustained load the manager still answers: the first answer comes before the request
    source gives up, and in the end every request was answered exactly once *)
Definition flood_ok (cap first taken events once : N) (e : end_obs) : bool :=
  N.ltb first cap && N.eqb events taken && N.eqb once taken &&
  match e with ObsReturned => true | _ => false end.

Definition before (p : N) (os : list oobs) : list oobs :=
  filter (fun o => match o with OEv e _ _ => N.ltb (e_time e) p | OOther t => N.ltb t p end) os.

Definition crash_ok (c : scase) : bool :=
  match c_stop c with
  | Some p => prop_b (mkCase (c_mgr c) (c_stop c) (c_script c) (before p (c_obs c)) ObsReturned)
  | None => true
  end.

Definition aobs_eqb (a b : aobs) : bool :=
  match a, b with
  | ASnap x, ASnap y => N.eqb x y
  | ARec x ox, ARec y oy => N.eqb x y && Bool.eqb ox oy
  | _, _ => false
  end.

Definition aobs_of_model (l : list mevent) : list aobs :=
  flat_map (fun x => match x with MOrder _ => [] | MSnapshot t => [ASnap t] | MReconnecting t => [ARec t true] end) l.

Definition notices_obs (l : list aobs) : list N :=
  flat_map (fun x => match x with ARec t _ => [t] | ASnap _ => [] end) l.

(** model agreement: the answers as for a plain script, and the account side exactly the model's
    snapshots / notices at the model's (backoff) times; the merged stream lives as long as the
    manager *)
Definition corr_acct (c : scase) (pol : policy) (sched : list (N * N)) (ao : list aobs) (early : bool) : bool :=
  corr_b c && negb early &&
  list_eqb aobs_eqb (aobs_of_model (merged (c_mgr c) (c_stop c) (c_script c) pol sched)) ao.

(** the oracle: every request still gets exactly its one answer whatever the account stream
    does (the per-request specification knows nothing about it), the merged stream did not end
    under the manager, and there is one Reconnecting notice, naming this exchange, per
    disconnect, at the time of the disconnect *)
Definition prop_acct (c : scase) (sched : list (N * N)) (ao : list aobs) (early : bool) : bool :=
  prop_b c && negb early &&
  list_eqb N.eqb (map fst sched) (notices_obs ao) &&
  forallb (fun x => match x with ARec _ ok => ok | ASnap _ => true end) ao.

Definition judge (c : case) : N :=
  match c with
  | Script c => if wf_case c then judge_code (corr_b c) (prop_b c) 0 else 0%N
  | Flood cap first taken events once e => judge_code true (flood_ok cap first taken events once e) 0
  | Crash c => if wf_case c then judge_code true (crash_ok c) 0 else 0%N
  | Acct c pol sched ao early =>
      if wf_case c then judge_code (corr_acct c pol sched ao early) (prop_acct c sched ao early) 0 else 0%N
  end.
