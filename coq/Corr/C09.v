(** C09 correspondence: case type, [corr_b] (the model reproduces exactly the balances, market
    data and order maps observed on the implementation after every event) and [prop_b] (after
    every event the OBSERVED balance / last traded price / top of book / open-order details hold
    the greatest exchange timestamp delivered so far for that item, with a value delivered with
    that timestamp; evaluated from the list of deliveries, never by calling the model's step). *)
From BV Require Export Base.Common Model.Timed.
Local Open Scope Z_scope.

(* ---- what the harness observes (constructors with integer arguments only) ------------------ *)
Inductive obal := OBal (t total free : Z).                 (* Timed<Balance> *)
Inductive olvl := OLvl (price amount : Z).                 (* Level *)
Inductive otrade := OTr (t price : Z).                     (* Timed<Decimal> *)
Inductive oent := OE (c : Z) (o : order).                  (* entry of Orders.0, sorted by key *)
Record iobs := IO {                                        (* one instrument *)
  io_lut : Z; io_bid : option olvl; io_ask : option olvl;  (* data.l1 *)
  io_last : option otrade;                                 (* data.last_traded_price *)
  io_orders : list oent }.                                 (* orders *)
Record obs := OB { ob_bal : list (option obal); ob_inst : list iobs }.

(** a step of a case: an event of the model, or a persist / restore of the engine state: the
    harness serialises every component the property covers (each AssetState, each instrument's
    market data and Orders) to JSON, deserialises it back and continues with the restored
    values; [same] = every restored component == the original, as decided by the
    implementation's own PartialEq.  The model treats it as a no-op. *)
Inductive xev := XEv (x : ev) | XPersist (same : bool).

Inductive case :=
| C9 (xs : list xev) (observed : list obs)
    (* an EngineState built by the public builder; every event applied through
       EngineState::update_from_account / update_from_market (in-flight requests through
       InFlightRequestRecorder for EngineState); the state observed after each step *)
| C9Panic.

Definition xstep9 (e : engine) (x : xev) : engine :=
  match x with XEv y => estep9 e y | XPersist _ => e end.
Definition evs_of (xs : list xev) : list ev :=
  flat_map (fun x => match x with XEv y => [y] | XPersist _ => [] end) xs.

Definition reg_of_obal (x : option obal) : reg balance :=
  match x with Some (OBal t a b) => Some (t, (a, b)) | None => None end.
Definition lvl (x : option olvl) : option (Z * Z) :=
  match x with Some (OLvl p a) => Some (p, a) | None => None end.
Definition reg_of_otrade (x : option otrade) : reg Z :=
  match x with Some (OTr t p) => Some (t, p) | None => None end.
Definition mdata_of (i : iobs) : mdata :=
  MD (L1 (io_lut i) (lvl (io_bid i)) (lvl (io_ask i))) (reg_of_otrade (io_last i)).

Definition okey (e : oent) : Z := match e with OE c _ => c end.
Fixpoint olookup (l : list oent) (c : Z) : option order :=
  match l with
  | [] => None
  | OE c' o :: t => if Z.eqb c' c then Some o else olookup t c
  end.
Fixpoint osorted (l : list oent) : bool :=
  match l with
  | e1 :: ((e2 :: _) as t) => Z.ltb (okey e1) (okey e2) && osorted t
  | _ => true
  end.
Definition okeys_in (U : list Z) (l : list oent) : bool :=
  forallb (fun e => existsb (Z.eqb (okey e)) U) l.
Definition oview_eq (U : list Z) (s : orders) (l : list oent) : bool :=
  okeys_in U l && osorted l && forallb (fun c => oorder_eqb (s c) (olookup l c)) U.

Definition ev_cids (x : ev) : list Z :=
  match x with
  | AOrd o => [cid_of o]
  | ASnapshot _ insts =>
      flat_map (fun i => map (fun sn => k_cid (o_key sn)) (is_orders i)) insts
  | _ => []
  end.

(* ---- observations compared with each other (persist / restore steps) ----------------------------- *)
Definition obal_eqb (a b : option obal) : bool := regb_eqb (reg_of_obal a) (reg_of_obal b).
Definition oent_eqb (a b : oent) : bool :=
  match a, b with OE c o, OE c' o' => Z.eqb c c' && order_eqb o o' end.
Definition iobs_eqb (a b : iobs) : bool :=
  mdata_eqb (mdata_of a) (mdata_of b) && list_eqb oent_eqb (io_orders a) (io_orders b).
Definition obs_eqb (a b : obs) : bool :=
  list_eqb obal_eqb (ob_bal a) (ob_bal b) && list_eqb iobs_eqb (ob_inst a) (ob_inst b).

(** check the persist steps (the round trip reported no difference and the observed state is
    exactly the previous one; before the first observation only the report is checked) and drop
    them: what is left is judged as before.  [None] = a persist / restore changed the engine
    state (or the case is malformed). *)
Fixpoint strip9 (prev : option obs) (xs : list xev) (os : list obs) : option (list ev * list obs) :=
  match xs, os with
  | [], [] => Some ([], [])
  | XEv x :: xs', cur :: os' =>
      match strip9 (Some cur) xs' os' with
      | Some (evs, l) => Some (x :: evs, cur :: l)
      | None => None
      end
  | XPersist same :: xs', cur :: os' =>
      if same && match prev with Some p => obs_eqb p cur | None => true end
      then strip9 prev xs' os' else None
  | _, _ => None
  end.

(** every client order id mentioned in the case, once *)
Definition cids_of (xs : list ev) : list Z := nodup Z.eq_dec (flat_map ev_cids xs).

(* ---- model = implementation -------------------------------------------------------------------- *)

Fixpoint bals_eq (e : engine) (a : Z) (l : list (option obal)) : bool :=
  match l with
  | [] => true
  | x :: t => regb_eqb (e_bal e a) (reg_of_obal x) && bals_eq e (a + 1) t
  end.
Fixpoint insts_eq (U : list Z) (e : engine) (i : Z) (l : list iobs) : bool :=
  match l with
  | [] => true
  | x :: t =>
      mdata_eqb (e_md e i) (mdata_of x) && oview_eq U (e_ord e i) (io_orders x) &&
      insts_eq U e (i + 1) t
  end.
Definition obs_eq (U : list Z) (e : engine) (o : obs) : bool :=
  bals_eq e 0 (ob_bal o) && insts_eq U e 0 (ob_inst o).

Fixpoint corr_run (U : list Z) (nb ni : nat) (e : engine) (xs : list ev) (os : list obs) : bool :=
  match xs, os with
  | [], [] => true
  | x :: xs', o :: os' =>
      let e' := estep9 e x in
      Nat.eqb (length (ob_bal o)) nb && Nat.eqb (length (ob_inst o)) ni &&
      obs_eq U e' o && corr_run U nb ni e' xs' os'
  | _, _ => false
  end.

Definition corr_core (xs : list ev) (os : list obs) : bool :=
  match os with
  | [] => match xs with [] => true | _ => false end
  | o :: _ =>
      corr_run (cids_of xs) (length (ob_bal o)) (length (ob_inst o)) engine0 xs os
  end.

Definition corr_b (c : case) : bool :=
  match c with
  | C9 xs os =>
      match strip9 None xs os with
      | Some (evs, l) => corr_core evs l
      | None => false
      end
  | C9Panic => false
  end.

(* ---- the property oracle on the observed states ---------------------------------------------------- *)

(** [r] holds the greatest delivered time, with a value delivered with that time *)
Definition latest_b {V} (eqv : V -> V -> bool) (ds : list (Z * V)) (r : reg V) : bool :=
  match r with
  | None => match ds with [] => true | _ => false end
  | Some (t, v) =>
      existsb (fun d => Z.eqb (fst d) t && eqv (snd d) v) ds &&
      forallb (fun d => Z.leb (fst d) t) ds
  end.

(** L1 events must carry the book's own update time (input requirement of the property) *)
Definition l1_wf_b (xs : list ev) : bool :=
  forallb (fun x => match x with Market _ t (ML1 b) => Z.eqb (lut b) t | _ => true end) xs.

Definition open_only (ops : list op) : bool :=
  forallb (fun o => match open_report o with Some _ => true | None => false end) ops.

Fixpoint bals_ok (xs : list ev) (a : Z) (l : list (option obal)) : bool :=
  match l with
  | [] => true
  | x :: t => latest_b zz_eqb (bal_deliveries a xs) (reg_of_obal x) && bals_ok xs (a + 1) t
  end.

Definition inst_ok (U : list Z) (xs : list ev) (i : Z) (x : iobs) : bool :=
  let d := mdata_of x in
  latest_b Z.eqb (trade_deliveries i xs) (md_last d) &&
  (if l1_wf_b xs
   then latest_b l1_eqb ((0, l1_default) :: l1_deliveries i xs) (Some (lut (md_l1 d), md_l1 d))
   else true) &&
  forallb (fun c =>
    let ins := ord_inputs i c xs in
    if open_only ins
    then latest_b meta_eqb (open_deliveries ins) (oreg (olookup (io_orders x) c))
    else true) U.

Fixpoint insts_ok (U : list Z) (xs : list ev) (i : Z) (l : list iobs) : bool :=
  match l with
  | [] => true
  | x :: t => inst_ok U xs i x && insts_ok U xs (i + 1) t
  end.

(** [done] = the events delivered so far, most recent first *)
Fixpoint prop_run (U : list Z) (done : list ev) (xs : list ev) (os : list obs) : bool :=
  match xs, os with
  | [], [] => true
  | x :: xs', o :: os' =>
      let pre := rev (x :: done) in
      bals_ok pre 0 (ob_bal o) && insts_ok U pre 0 (ob_inst o) &&
      prop_run U (x :: done) xs' os'
  | _, _ => false
  end.

(* ---- open-order details along one tracking episode ------------------------------------------------
   For one client order id [c] of instrument [i], walking the delivered events and the observed
   order maps: an episode starts when the id becomes tracked and ends when it is observed
   untracked or a new open request for it is recorded.  Within an episode
     - an "open" report with a non-zero remaining quantity (something left, or OVER-FILLED:
       filled > quantity) leaves the id tracked, and once such a report with exchange time T has
       been delivered the id (while tracked) holds open data with an exchange time >= T ([need]);
     - the exchange time of the held open data (inside Open or CancelInFlight(Some)) never
       decreases and the data is never dropped                       ([hi]).
   In particular a failed cancel restores an Open state carrying at least the greatest
   open-report timestamp delivered so far in the episode.  Engine-side in-flight recordings and
   cancel responses between the reports deliver nothing and must not weaken this.
   Written against the delivered messages and the observations only. *)

Definition ht (s : option order) : option Z := option_map fst (oreg s).

Definition ge_opt (lo h : option Z) : bool :=
  match lo with
  | None => true
  | Some T => match h with Some t => Z.leb T t | None => false end
  end.

Definition max_opt (a : option Z) (l : list Z) : option Z :=
  fold_left (fun a t => match a with None => Some t | Some x => Some (Z.max x t) end) l a.

(** the event may end the episode of (i, c) unobserved: a new open request for the id, or a full
    account snapshot whose reports for the id are not all open reports with something left *)
Definition resets (i c : Z) (x : ev) : bool :=
  match x with
  | AOrd (RecOpen r) => Z.eqb (k_inst (o_key r)) i && Z.eqb (k_cid (o_key r)) c
  | ASnapshot _ _ => negb (open_only (ord_inputs i c [x]))
  | _ => false
  end.

Definition ord_track (i c : Z) (st : option Z * option Z) (x : ev) (cur : option order)
  : bool * (option Z * option Z) :=
  match cur with
  | None =>
      (* untracked: fine unless this very event delivered an open report with a non-zero
         remaining quantity for the id (such a report -- over-filled ones included -- always
         leaves the id tracked) *)
      (resets i c x || match open_deliveries (ord_inputs i c [x]) with [] => true | _ => false end,
       (None, None))
  | Some _ =>
      if resets i c x then (true, (None, ht cur))
      else
        let need := max_opt (fst st) (map fst (open_deliveries (ord_inputs i c [x]))) in
        (ge_opt need (ht cur) && ge_opt (snd st) (ht cur),
         (need, match ht cur with Some t => Some t | None => snd st end))
  end.

Definition iobs0 : iobs := IO 0 None None None [].
Definition obs_order (i c : Z) (o : obs) : option order :=
  olookup (io_orders (nth (Z.to_nat i) (ob_inst o) iobs0)) c.

Fixpoint ord_hist_ok (i c : Z) (st : option Z * option Z) (xs : list ev) (os : list obs) : bool :=
  match xs, os with
  | [], [] => true
  | x :: xs', o :: os' =>
      let r := ord_track i c st x (obs_order i c o) in
      fst r && ord_hist_ok i c (snd r) xs' os'
  | _, _ => false
  end.

Definition episodes_ok (U : list Z) (xs : list ev) (os : list obs) : bool :=
  match os with
  | [] => true
  | o :: _ =>
      forallb (fun k =>
        forallb (fun c => ord_hist_ok (Z.of_nat k) c (None, None) xs os) U)
        (seq 0 (length (ob_inst o)))
  end.

Definition prop_core (xs : list ev) (os : list obs) : bool :=
  prop_run (cids_of xs) [] xs os && episodes_ok (cids_of xs) xs os.

(** a persist / restore that changes what the engine holds (e.g. loses the sub-millisecond part
    of a held exchange timestamp, after which a late message could pass the guards) breaks the
    property outright *)
Definition prop_b (c : case) : bool :=
  match c with
  | C9 xs os =>
      match strip9 None xs os with
      | Some (evs, l) => prop_core evs l
      | None => false
      end
  | C9Panic => false
  end.

Definition known_b (c : case) : N := 0.

Definition judge (c : case) : N := judge_code (corr_b c) (prop_b c) (known_b c).
