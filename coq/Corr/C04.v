(** C04 correspondence: case type, [corr_b] (the model reproduces every observed lookup,
    request translation and event translation of every exchange's map) and [prop_b] (the
    OBSERVED results satisfy the translation laws, judged against the observed global tables:
    owner and exchange name of every index). *)
From BV Require Export Base.Common Model.Index Model.ExecMap.
From BV Require Import Corr.C11.

(** what was observed on generate_execution_instrument_map(indexed, e) *)
Record map_obs := mkMapObs {
  om_key : N * N;                                (* map.exchange *)
  om_assets : list N;                            (* exchange_assets() in order *)
  om_instruments : list N;                       (* exchange_instruments() in order *)
  om_asset_names : list (N * N);                 (* asset_names, sorted by name *)
  om_instrument_names : list (N * N);            (* instrument_names, sorted by name *)
  om_ex_id : list (N * option N);                (* find_exchange_id k *)
  om_ex_ix : list (N * option N);                (* find_exchange_index e *)
  om_as_name : list (N * option N);              (* find_asset_name_exchange k *)
  om_as_ix : list (N * option N);                (* find_asset_index name *)
  om_in_name : list (N * option N);              (* find_instrument_name_exchange k *)
  om_in_ix : list (N * option N);                (* find_instrument_index name *)
  om_requests : list ((N * N * N) * res kerr (N * N * N));   (* order_request (open and cancel) *)
  om_keys : list ((N * N * N) * res ierr (N * N * N));       (* order_key *)
  om_trades : list ((N * N) * res ierr (N * N));             (* trade *)
  om_balances : list ((N * N) * res ierr (N * N));           (* asset_balance *)
  om_events : list ((N * event_kind N N N) * res ierr (N * event_kind N N N)) }.  (* account_event *)

(** one order sent through the running execution system: (exchange index, instrument index,
    cid) -> what the exchange client received (its own ExchangeId, key.exchange, instrument
    name, cid) and the indexed response that came back (event.exchange, key.exchange,
    key.instrument, cid) *)
Notation e2e_obs := ((N * N * N) * option (N * N * N * N) * option (N * N * N * N))%type (only parsing).

Inductive case :=
| CMap (defs : list def) (x : option indexed) (maps : list (N * option map_obs))
       (snapshots : list (N * list N * list N))      (* name lists each client was asked for *)
       (e2e : list ((N * N * N) * option (N * N * N * N) * option (N * N * N * N))).

(* ---- equalities ------------------------------------------------------------------------- *)
Definition N3_eqb : N * N * N -> N * N * N -> bool := pair_eqb NN_eqb N.eqb.
Definition N4_eqb : N * N * N * N -> N * N * N * N -> bool := pair_eqb N3_eqb N.eqb.
Definition kerr_eqb (a b : kerr) : bool :=
  match a, b with
  | KExchangeId, KExchangeId | KAssetKey, KAssetKey | KInstrumentKey, KInstrumentKey => true
  | _, _ => false
  end.
Definition ierr_eqb (a b : ierr) : bool :=
  match a, b with
  | IExchangeIndex, IExchangeIndex | IAssetIndex, IAssetIndex | IInstrumentIndex, IInstrumentIndex => true
  | _, _ => false
  end.
Definition res_eqb {E A} (ee : E -> E -> bool) (ea : A -> A -> bool) (a b : res E A) : bool :=
  match a, b with
  | Ok x, Ok y => ea x y
  | Err x, Err y => ee x y
  | _, _ => false
  end.
Definition api_error_eqb (a b : api_error N N) : bool :=
  match a, b with
  | AERateLimit, AERateLimit => true
  | AEAssetInvalid x, AEAssetInvalid y | AEInstrumentInvalid x, AEInstrumentInvalid y
  | AEBalanceInsufficient x, AEBalanceInsufficient y | AEOther x, AEOther y => N.eqb x y
  | _, _ => false
  end.
Definition order_error_eqb (a b : order_error N N) : bool :=
  match a, b with
  | OEConnectivity, OEConnectivity => true
  | OERejected x, OERejected y => api_error_eqb x y
  | _, _ => false
  end.
Definition order_state_eqb (a b : order_state N N) : bool :=
  match a, b with
  | OSActive, OSActive | OSCancelled, OSCancelled | OSFullyFilled, OSFullyFilled
  | OSExpired, OSExpired => true
  | OSOpenFailed x, OSOpenFailed y => order_error_eqb x y
  | _, _ => false
  end.
Definition osnap_eqb := pair_eqb N3_eqb order_state_eqb.
Definition kind_ev_eqb (a b : event_kind N N N) : bool :=
  match a, b with
  | EKSnapshot e1 b1 i1, EKSnapshot e2 b2 i2 =>
      N.eqb e1 e2 && list_eqb NN_eqb b1 b2 && list_eqb (pair_eqb N.eqb (list_eqb osnap_eqb)) i1 i2
  | EKBalance x, EKBalance y => NN_eqb x y
  | EKOrder x, EKOrder y => osnap_eqb x y
  | EKCancelled k1 s1, EKCancelled k2 s2 => N3_eqb k1 k2 && option_eqb order_error_eqb s1 s2
  | EKTrade x, EKTrade y => NN_eqb x y
  | _, _ => false
  end.
Definition event_eqb := pair_eqb N.eqb kind_ev_eqb.
Definition unit_eqb (a b : unit) : bool := true.

Definition sort_names (l : list (N * N)) : list (N * N) := sort (fun nv : N * N => fst nv) N.ltb l.

(* ---- corr ------------------------------------------------------------------------------- *)
Definition probes_eq {A R} (f : A -> R) (eqr : R -> R -> bool) (l : list (A * R)) : bool :=
  forallb (fun q => eqr (f (fst q)) (snd q)) l.

Definition map_corr (m : emap) (o : map_obs) : bool :=
  NN_eqb (m_exchange m) (om_key o) &&
  list_eqb N.eqb (m_assets m) (om_assets o) && list_eqb N.eqb (m_instruments m) (om_instruments o) &&
  list_eqb NN_eqb (sort_names (m_asset_names m)) (om_asset_names o) &&
  list_eqb NN_eqb (sort_names (m_instrument_names m)) (om_instrument_names o) &&
  probes_eq (find_exchange_id m) oN_eqb (om_ex_id o) && probes_eq (find_exchange_ix m) oN_eqb (om_ex_ix o) &&
  probes_eq (find_asset_name m) oN_eqb (om_as_name o) && probes_eq (find_asset_ix m) oN_eqb (om_as_ix o) &&
  probes_eq (find_instrument_name m) oN_eqb (om_in_name o) &&
  probes_eq (find_instrument_ix m) oN_eqb (om_in_ix o) &&
  probes_eq (order_request m) (res_eqb kerr_eqb N3_eqb) (om_requests o) &&
  probes_eq (order_key m) (res_eqb ierr_eqb N3_eqb) (om_keys o) &&
  probes_eq (trade m) (res_eqb ierr_eqb NN_eqb) (om_trades o) &&
  probes_eq (asset_balance m) (res_eqb ierr_eqb NN_eqb) (om_balances o) &&
  probes_eq (account_event m) (res_eqb ierr_eqb event_eqb) (om_events o).

(** the running system: the transmitter at position [ek] belongs to the manager of the exchange
    with index [ek]; it translates with that exchange's map, the client answers with the key it
    received, the manager indexes the answer *)
Definition e2e_model (x : indexed) (rq : N * N * N) : option (N * N * N * N) * option (N * N * N * N) :=
  let '(ek, ik, cid) := rq in
  match find_exchange (x_exchanges x) ek with
  | None => (None, None)
  | Some e =>
      match gen_map x e with
      | None => (None, None)
      | Some m =>
          match order_request m rq with
          | Err _ => (None, None)      (* the manager panics: nothing reaches the client *)
          | Ok (e', n, cid') =>
              (Some (e, e', n, cid'),
               match order_key m (e', n, cid') with
               | Ok (ek', ik', cid'') => Some (ek', ek', ik', cid'')
               | Err _ => None
               end)
          end
      end
  end.

Definition oN4_eqb := option_eqb N4_eqb.

(** requests are sent one after the other; a manager that panicked on a request it cannot
    translate is gone: later requests on its link get nothing *)
Fixpoint e2e_corr (x : indexed) (dead : list N)
         (l : list ((N * N * N) * option (N * N * N * N) * option (N * N * N * N))) : bool :=
  match l with
  | [] => true
  | q :: t =>
      let ek := fst (fst (fst (fst q))) in
      let r := if memb N.eqb ek dead then (None, None) else e2e_model x (fst (fst q)) in
      let dies := match find_exchange (x_exchanges x) ek with
                  | Some _ => match fst r with None => true | Some _ => false end
                  | None => false
                  end in
      oN4_eqb (fst r) (snd (fst q)) && oN4_eqb (snd r) (snd q) &&
      e2e_corr x (if dies then ek :: dead else dead) t
  end.

Definition corr_b (c : case) : bool :=
  match c with
  | CMap defs xo maps snaps e2e =>
      option_eqb indexed_eqb (build defs) xo &&
      match build defs with
      | None => match maps, snaps, e2e with [], [], [] => true | _, _, _ => false end
      | Some x =>
          forallb (fun em : N * option map_obs =>
                     match gen_map x (fst em), snd em with
                     | None, None => true
                     | Some m, Some o => map_corr m o
                     | _, _ => false
                     end) maps &&
          forallb (fun s : N * list N * list N =>
                     match gen_map x (fst (fst s)) with
                     | Some m => list_eqb N.eqb (m_assets m) (snd (fst s)) &&
                                 list_eqb N.eqb (m_instruments m) (snd s)
                     | None => false
                     end) snaps &&
          e2e_corr x [] e2e
      end
  end.

(* ---- oracle ----------------------------------------------------------------------------- *)
(** owner and exchange name of an index, read from the observed global tables *)
Definition exchange_index_of (x : indexed) (e : N) : option N :=
  option_map fst (find (fun kv => N.eqb (snd kv) e) (x_exchanges x)).

(** [own_instruments], [own_assets], [name_of], [index_of], [names_ok] are shared with Corr/C11.v *)

Definition spec_exchange (x : indexed) (e : N) (e' : N) : res unit N :=
  if N.eqb e' e then of_opt tt (exchange_index_of x e) else Err tt.
Definition spec_ix (own : list (N * N)) (n : N) : res unit N := of_opt tt (index_of own n).

Definition request_ok (hyp : bool) (x : indexed) (e : N) (q : (N * N * N) * res kerr (N * N * N)) : bool :=
  let '(ek, ik, tag) := fst q in
  let own_ex := oN_eqb (exchange_index_of x e) (Some ek) in
  match snd q with
  | Ok (e', n, tag') =>
      N.eqb e' e && N.eqb tag' tag && own_ex && oN_eqb (name_of (own_instruments x e) ik) (Some n)
  | Err k =>
      if own_ex then
        match name_of (own_instruments x e) ik with
        | Some _ => negb hyp
        | None => kerr_eqb k KInstrumentKey
        end
      else kerr_eqb k KExchangeId
  end.

(** inbound: an accepted event read back through the global tables is the original event; with
    distinct names the result is exactly the event obtained by replacing every name by the own
    index carrying it (any error if some name is not an own name) *)
Definition inbound_ok {A} (hyp : bool) (eqa : A -> A -> bool)
           (back : A -> res unit A) (spec : A -> res unit A) (q : A * res ierr A) : bool :=
  match snd q with
  | Ok a' => res_eqb unit_eqb eqa (back a') (Ok (fst q)) &&
             (if hyp then res_eqb unit_eqb eqa (spec (fst q)) (Ok a') else true)
  | Err _ => if hyp then match spec (fst q) with Err _ => true | Ok _ => false end else true
  end.

Definition map_ok (x : indexed) (e : N) (o : map_obs) : bool :=
  let hyp := names_distinct_b x e in
  let oi := own_instruments x e in
  let oa := own_assets x e in
  let be := back_exchange x e in
  let ba := back_asset x e in
  let bi := back_instrument x e in
  let se := spec_exchange x e in
  let sa := spec_ix oa in
  let si := spec_ix oi in
  (* the exchange itself *)
  oN_eqb (exchange_index_of x e) (Some (fst (om_key o))) && N.eqb (snd (om_key o)) e &&
  forallb (fun q => match snd q with
                    | Some e' => N.eqb e' e && N.eqb (fst q) (fst (om_key o))
                    | None => negb (N.eqb (fst q) (fst (om_key o)))
                    end) (om_ex_id o) &&
  forallb (fun q => match snd q with
                    | Some k => N.eqb (fst q) e && N.eqb k (fst (om_key o))
                    | None => negb (N.eqb (fst q) e)
                    end) (om_ex_ix o) &&
  (* the name lists are exactly the own names; in index order when names are distinct *)
  forallb (fun n => memb N.eqb n (map snd oa)) (om_assets o) &&
  forallb (fun n => memb N.eqb n (om_assets o)) (map snd oa) && nodupb N.eqb (om_assets o) &&
  forallb (fun n => memb N.eqb n (map snd oi)) (om_instruments o) &&
  forallb (fun n => memb N.eqb n (om_instruments o)) (map snd oi) && nodupb N.eqb (om_instruments o) &&
  (if hyp then list_eqb N.eqb (om_assets o) (map snd oa) && list_eqb N.eqb (om_instruments o) (map snd oi)
   else true) &&
  (* the name -> index tables hold own (name, index) pairs only, one per name *)
  forallb (fun nv => memb NN_eqb (snd nv, fst nv) oa) (om_asset_names o) &&
  nodupb N.eqb (map fst (om_asset_names o)) &&
  forallb (fun n => memb N.eqb n (map fst (om_asset_names o))) (map snd oa) &&
  forallb (fun nv => memb NN_eqb (snd nv, fst nv) oi) (om_instrument_names o) &&
  nodupb N.eqb (map fst (om_instrument_names o)) &&
  forallb (fun n => memb N.eqb n (map fst (om_instrument_names o))) (map snd oi) &&
  (* translations *)
  names_ok hyp oa (om_as_name o) (om_as_ix o) &&
  names_ok hyp oi (om_in_name o) (om_in_ix o) &&
  forallb (request_ok hyp x e) (om_requests o) &&
  forallb (inbound_ok hyp N3_eqb (tr_order_key be bi) (tr_order_key se si)) (om_keys o) &&
  forallb (inbound_ok hyp NN_eqb (fun t => bind (bi (fst t)) (fun i => Ok (i, snd t)))
                                 (fun t => bind (si (fst t)) (fun i => Ok (i, snd t)))) (om_trades o) &&
  forallb (inbound_ok hyp NN_eqb (tr_balance ba) (tr_balance sa)) (om_balances o) &&
  forallb (inbound_ok hyp event_eqb (tr_event be ba bi) (tr_event se sa si)) (om_events o).

(** a request sent to the link of the exchange owning the instrument reaches that exchange's
    client addressed to the instrument's exchange name, and the answer comes back on that
    instrument and exchange *)
Definition e2e_ok (x : indexed) (q : (N * N * N) * option (N * N * N * N) * option (N * N * N * N)) : bool :=
  let '(ek, ik, cid) := fst (fst q) in
  match find_exchange (x_exchanges x) ek with
  | None => true
  | Some e =>
      match name_of (own_instruments x e) ik with
      | None => match snd (fst q) with None => true | Some _ => false end   (* never reaches a client *)
      | Some n =>
          if names_distinct_b x e then
            oN4_eqb (snd (fst q)) (Some (e, e, n, cid)) && oN4_eqb (snd q) (Some (ek, ek, ik, cid))
          else true
      end
  end.

Definition prop_b (c : case) : bool :=
  match c with
  | CMap defs xo maps snaps e2e =>
      match xo with
      | None => false
      | Some x =>
          forallb (fun em : N * option map_obs =>
                     match snd em with
                     | None => negb (memb N.eqb (fst em) (map snd (x_exchanges x)))
                     | Some o => memb N.eqb (fst em) (map snd (x_exchanges x)) && map_ok x (fst em) o
                     end) maps &&
          forallb (fun s : N * list N * list N =>
                     let e := fst (fst s) in
                     forallb (fun n => memb N.eqb n (map snd (own_assets x e))) (snd (fst s)) &&
                     forallb (fun n => memb N.eqb n (snd (fst s))) (map snd (own_assets x e)) &&
                     forallb (fun n => memb N.eqb n (map snd (own_instruments x e))) (snd s) &&
                     forallb (fun n => memb N.eqb n (snd s)) (map snd (own_instruments x e))) snaps &&
          forallb (e2e_ok x) e2e
      end
  end.

Definition judge (c : case) : N :=
  match c with
  | CMap defs _ _ _ _ => if faithful_b defs then judge_code (corr_b c) (prop_b c) 0 else 1%N
  end.
