(** C03 correspondence: [corr_b] (shared, Corr/EngineCase.v) and the property oracle [prop_b],
    evaluated on the OBSERVED behaviour of the real engine.

    The oracle never calls the model's step functions (process / generate / action /
    send_requests / record_in_flight). It is written against the abstract specification:
      - a request is accepted exactly when the link table says its exchange's link is open
        ([spec_sent] / [spec_errs], error class by link condition);
      - what the links received = what was reported sent, per exchange, in order;
      - orders afterwards = pointwise marks of the sent requests over the event's own update;
      - generation happens exactly when trading is enabled after the event (and the command was
        not fatal), with the strategy's requests split by the risk verdicts.
    For the event's own state update (order snapshots, cancel responses, fills, prices) it uses
    [update_state], which involves no requests.
    "Reported" is read from the value the call returned: the audit of [process], or the
    GenerateAlgoOrdersOutput / ActionOutput of the direct calls, or what a strategy hook's call of
    cancel_orders / close_positions returned (hook steps are judged like direct actions; the
    trading-disabled hook additionally leaves trading disabled). One asymmetry of the code is
    accepted, not flagged (DESIGN.md C03): when generation hits a fatal send error the audit
    carries the errors but not the GenerateAlgoOrdersOutput; then the deliveries and marks are
    checked against the specification of the approved requests instead of the (absent) report. *)
From BV Require Export Corr.EngineCase.
Local Open Scope N_scope.

(** oracle's view of the engine between steps: trading flag, link conditions, and the
    instrument states as last observed *)
Record oview := mkOView { ov_trading : bool; ov_stats : list lstat; ov_insts : list inst }.

Definition stat_at (ls : list lstat) (e : N) : lstat :=
  match nthN ls e with Some s => s | None => SNoIndex end.
Definition open_at (ls : list lstat) (e : N) : bool := match stat_at ls e with SOpen => true | _ => false end.

(** abstract specification of one batch, from the link conditions alone *)
Definition o_sent {R} (ex : R -> N) (ls : list lstat) (rs : list R) : list R := filter (fun r => open_at ls (ex r)) rs.
Definition o_errs {R} (ex : R -> N) (ls : list lstat) (rs : list R) : list (R * errk) :=
  map (fun r => (r, err_of_stat (stat_at ls (ex r)))) (filter (fun r => negb (open_at ls (ex r))) rs).

(** a reported batch result equals the specification for the given request list *)
Definition batch_is_spec {R} (eqb : R -> R -> bool) (ex : R -> N) (ls : list lstat) (rs : list R) (o : sendout R) : bool :=
  list_eqb eqb (so_sent o) (o_sent ex ls rs) && list_eqb (pair_eqb eqb errk_eqb) (so_errs o) (o_errs ex ls rs).

(** a reported batch result is consistent with the link table (request list unknown) *)
Definition batch_consistent {R} (ex : R -> N) (ls : list lstat) (o : sendout R) : bool :=
  forallb (fun r => open_at ls (ex r)) (so_sent o) &&
  forallb (fun p => negb (open_at ls (ex (fst p))) && errk_eqb (snd p) (err_of_stat (stat_at ls (ex (fst p))))) (so_errs o).

(** the ActionOutput a command must produce *)
Definition action_ok (ls : list lstat) (c : command) (cl : close_script) (a : action_out) : bool :=
  match c, a with
  | CSendCancels rs, AOCancel o => batch_is_spec creq_eqb cr_ex ls rs o
  | CSendOpens rs, AOOpen o => batch_is_spec oreq_eqb or_ex ls rs o
  | CClosePositions _, AOClose co oo =>
      match cl with
      | CloseScripted cs os => batch_is_spec creq_eqb cr_ex ls cs co && batch_is_spec oreq_eqb or_ex ls os oo
      | CloseDefault _ _ => batch_consistent cr_ex ls co && batch_consistent or_ex ls oo   (* scope: C19 *)
      end
  | CCancelOrders _, AOCancel o => batch_consistent cr_ex ls o                            (* scope: C19 *)
  | _, _ => false
  end.

Definition cancels_of (xs : list xreq) : list creq := filter_map (fun x => match x with XCancel c => Some c | _ => None end) xs.
Definition opens_of (xs : list xreq) : list oreq := filter_map (fun x => match x with XOpen o => Some o | _ => None end) xs.

Definition option_order_eqb := option_eqb order_eqb.

(** client order ids to compare for instrument [i] *)
Definition cids_of (i : N) (before after : list inst) (xs : list xreq) : list N :=
  match nthN before i with Some x => map fst (i_orders x) | None => [] end ++
  match nthN after i with Some x => map fst (i_orders x) | None => [] end ++
  map (fun x => match x with XCancel c => k_cid (cr_key c) | XOpen o => k_cid (or_key o) end) xs.

Definition obs_to_insts (static : list inst) (o : list (omap * option pos * mdata)) : list inst :=
  map (fun p => mkInst (i_ex (fst p)) (i_base (fst p)) (i_quote (fst p)) (fst (fst (snd p))) (snd (fst (snd p))) (snd (snd p)))
      (combine static o).

Definition find_commanded (outs : list output) : option action_out :=
  match outs with OutCommanded a :: _ => Some a | _ => None end.
Definition find_algo (outs : list output) : option algo_out :=
  fold_left (fun acc o => match o with OutAlgo a => Some a | _ => acc end) outs None.
Definition count_reports (outs : list output) : nat :=
  length (filter (fun o => match o with OutCommanded _ | OutAlgo _ => true | _ => false end) outs).
Definition other_outputs (outs : list output) : list output :=
  filter (fun o => match o with OutCommanded _ | OutAlgo _ => false | _ => true end) outs.

Definition lists_empty (g : gscript) : bool :=
  match gs_cancels g, gs_opens g with [], [] => true | _, _ => false end.

Definition oracle_step (v : oview) (st : step) : bool * oview :=
  let o := st_obs st in
  let ls := ov_stats v in
  match st_op st with
  | OpSetLink e stt =>
      let v' := mkOView (ov_trading v) (updN ls e (fun _ => stt)) (ov_insts v) in
      (Bool.eqb (ob_trading o) (ov_trading v) &&
       forallb (fun d => match d with [] => true | _ => false end) (ob_deliv o) &&
       list_eqb iobs_eqb (map (fun i => (i_orders i, i_pos i, i_data i)) (ov_insts v)) (ob_insts o) &&
       match ob_res o with RNone => true | _ => false end, v')
  | _ =>
      (* what the step is *)
      let cmd := match st_op st with
                 | OpProcess (EvCommand c) => Some c
                 | OpAction c => Some c
                 | OpHook h c => if hook_fires h (ov_trading v) then Some c else None
                 | _ => None
                 end in
      let is_process := match st_op st with OpProcess _ => true | _ => false end in
      let ev := match st_op st with OpProcess ev => ev | _ => EvShutdown end in
      (* the event's own update *)
      let '(su, upd_outs) :=
        if is_process then update_state (mkState (ov_trading v) [] (ov_insts v)) ev
        else (mkState (match st_op st with OpHook HTradingDisabled _ => false | _ => ov_trading v end) [] (ov_insts v), []) in
      let trading_after := trading su in
      (* reports present in the returned value *)
      let '(rep_cmd, rep_algo, errors, others, nrep, has_audit) :=
        match ob_res o with
        | RAudit a => (find_commanded (au_outputs a), find_algo (au_outputs a), au_errors a,
                       other_outputs (au_outputs a), count_reports (au_outputs a), true)
        | RAlgo a => (None, Some a, [], [], 1%nat, false)
        | RAction a => (Some a, None, [], [], 1%nat, false)
        | _ => (None, None, [], [], 0%nat, false)
        end in
      let shape_ok :=
        match st_op st, ob_res o with
        | OpProcess _, RAudit _ | OpGenerate, RAlgo _ | OpAction _, RAction _ => true
        | OpHook h _, RAction _ => hook_fires h (ov_trading v)
        | OpHook h _, RNone => negb (hook_fires h (ov_trading v))
        | _, _ => false
        end in
      (* command phase *)
      let cmd_ok :=
        match cmd, rep_cmd with
        | Some c, Some a => action_ok ls c (st_close st) a
        | None, None => true
        | _, _ => false
        end in
      let cmd_fatal := match rep_cmd with Some a => action_unrec a | None => [] end in
      let cmd_sent := match rep_cmd with Some a => action_sent a | None => [] end in
      (* generation phase *)
      let gen_expected :=
        match st_op st with
        | OpGenerate => true
        | OpProcess EvShutdown => false
        | OpProcess _ => trading_after && match cmd_fatal with [] => true | _ => false end
        | _ => false
        end in
      let '(ac, rc) := split_mask (gs_cmask (st_g st)) (gs_cancels (st_g st)) in
      let '(ao, ro) := split_mask (gs_omask (st_g st)) (gs_opens (st_g st)) in
      let exp_algo := mkAlgo (mkSendOut (o_sent cr_ex ls ac) (o_errs cr_ex ls ac))
                             (mkSendOut (o_sent or_ex ls ao) (o_errs or_ex ls ao)) rc ro in
      let exp_unrec := algo_unrec exp_algo in
      let algo_sent_x := if gen_expected then algo_sent exp_algo else [] in
      let gen_ok :=
        if gen_expected then
          match rep_algo with
          | Some a => algo_eqb a exp_algo     (* a report, wherever it appears, must be the truth *)
          | None =>
              (* no report: nothing was generated, or (audit only) generation was fatal *)
              has_audit && (algo_empty exp_algo || match exp_unrec with [] => false | _ => true end)
          end
        else match rep_algo with None => true | Some _ => false end in
      let errors_ok :=
        if has_audit then
          (* as multisets: the order in which the error list is assembled is not part of the property *)
          perm_eqb errk_eqb errors
            (cmd_fatal ++ (if gen_expected && negb (algo_empty exp_algo) then exp_unrec else []))
        else true in
      let outputs_ok :=
        if has_audit then
          list_eqb (output_eqb false) others upd_outs &&
          Nat.eqb nrep ((match rep_cmd with Some _ => 1 | None => 0 end) + (match rep_algo with Some _ => 1 | None => 0 end))%nat
        else true in
      (* deliveries: per link, exactly the reported-sent requests for that exchange, in order *)
      let all_sent := cmd_sent ++ algo_sent_x in
      let deliv_ok :=
        Nat.eqb (length (ob_deliv o)) (length ls) &&
        forallb (fun p => list_eqb xreq_eqb (snd p) (to_ex (fst p) all_sent)) (indexed (ob_deliv o)) &&
        forallb (fun x => open_at ls (xr_ex x)) all_sent in
      (* in-flight marks and frame *)
      let after := obs_to_insts (ov_insts v) (ob_insts o) in
      let base := ord (insts su) in
      let phase1 := marked base (cancels_of cmd_sent) (opens_of cmd_sent) in
      let phase2 := marked phase1 (cancels_of algo_sent_x) (opens_of algo_sent_x) in
      let n := length (ov_insts v) in
      let orders_ok :=
        Nat.eqb (length (ob_insts o)) n &&
        forallb (fun i =>
          forallb (fun c => option_order_eqb (ord after i c) (phase2 i c)) (cids_of i (insts su) after all_sent))
          (nat_seqN n) in
      let rest_ok :=
        list_eqb (fun a b => option_eqb pos_eqb (i_pos a) (i_pos b) &&
                             mdata_eqb (i_data a) (i_data b)) after (insts su) &&
        Bool.eqb (ob_trading o) trading_after in
      (shape_ok && cmd_ok && gen_ok && errors_ok && outputs_ok && deliv_ok && orders_ok && rest_ok,
       mkOView (ob_trading o) ls after)
  end.

Fixpoint oracle_run (v : oview) (steps : list step) : bool :=
  match steps with
  | [] => true
  | st :: rest => let '(ok, v') := oracle_step v st in ok && oracle_run v' rest
  end.

Definition stat_of_link (l : link) : lstat :=
  match l with LOpen _ => SOpen | LClosed => SClosed | LUnhealthy => SUnhealthy | LMissing => SMissing end.

Definition prop_b (c : case) : bool :=
  oracle_run (mkOView (trading (c_init c)) (map stat_of_link (links (c_init c))) (insts (c_init c))) (c_steps c).

(** cases outside the input requirements (a request naming an instrument that does not exist; a
    ill-formed initial state) are not judged *)
Definition judge (c : case) : N :=
  if valid_case c && negb (degenerate_b c) then judge_code (corr_b c) (prop_b c) 0 else 0%N.
