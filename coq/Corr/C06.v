(** C06 correspondence: case type, [corr_b] (model = implementation on this case) and [prop_b]
    (the OBSERVED behaviour satisfies the property's executable oracle: the venue's published
    rule and the simulated exchange recomputed here from the per-id changes, not the model's
    step function). *)
From BV Require Export Base.Common Model.Book Model.BinanceSeq.

(** compact level constructor for the case text: [L p a] *)
Definition L (p a : Z) : Z * Z := (p, a).

(* ---- what the harness observes ------------------------------------------------------------ *)

(** one element of [transform]'s output vector, or what replaced it.
    exch: 0 = ExchangeId::BinanceSpot, 1 = ExchangeId::BinanceFuturesUsd, 9 = anything else *)
Inductive oclass :=
| ONone
| OEvent (key exch : N) (is_update : bool) (t_exch : Z) (seq : N) (time : option Z)
| OErrSeq (prev first : N) (terminal : bool)       (* DataError::InvalidSequence + is_terminal() *)
| OErrSocket (terminal : bool)                     (* DataError::Socket(_) *)
| OErrOther (terminal : bool)
| OMany (n : N)                                    (* more than one output item *)
| OPanic.

(** after one delivered message: the output, every instrument's sequencer (in the order of the
    instrument list), and - when an event came out - the book it was applied to, afterwards *)
Record sobs := mkO { o_out : oclass; o_seqs : list seqst; o_book : option book }.

(** direct call of [Sequencer::validate_sequence] *)
Inductive sres :=
| RDrop
| ROk (same_update : bool)       (* Ok(Some(u)) and whether u is the update passed in *)
| RErrSeq (prev first : N) (terminal : bool)
| RErrOther
| RPanic.

(** one instrument on the connection: subscription id, instrument key, REST snapshot
    (id, engine time, levels), and the simulated exchange: the changes of update id
    [c_base + k] are the k-th element of [c_deltas] (no changes at any other id) *)
Record icfg := mkI {
  c_sid : N; c_key : N; c_base : N; c_L : N; c_stime : option Z;
  c_sbids : list (Z * Z); c_sasks : list (Z * Z);
  c_deltas : list (list (Z * Z) * list (Z * Z)) }.

(** one delivered message: ids, times, and whether the harness sent the changes of U..u
    concatenated or netted (one level per price); the level lists themselves are recomputed
    here from the instrument's per-id changes *)
Record dmsg := mkD { d_sid : N; d_U : N; d_u : N; d_pu : N; d_E : Z; d_T : Z; d_net : bool }.

Inductive init_obs := IOk | IMissing (sid : N) | IInvalid | IOther.

Inductive case :=
| CSeq (v : venue) (s : seqst) (U u pu : N) (r : sres) (s' : seqst)
| CStream (v : venue) (insts : list icfg) (ds : list dmsg) (obs : list sobs) (final : list book)
| CInit (v : venue) (imap : list (N * N)) (snaps : list (N * (bool * N))) (r : init_obs) (seqs : list seqst)
    (* init with the given (sid, key) map and (key, (is_snapshot, sequence)) events;
       on success the sequencers in imap order *)
| CCrash (what : N).
    (* the implementation panicked / could not be driven on this input outside the observed
       calls (1 stream, 2 sequencer, 3 init): always a failure *)

(* ---- helpers -------------------------------------------------------------------------------- *)

Definition delta_of (base : N) (l : list (list (Z * Z) * list (Z * Z))) (n : N)
  : list (Z * Z) * list (Z * Z) :=
  if N.ltb n base then ([], []) else nth (N.to_nat (n - base)) l ([], []).

Definition delta_i (i : icfg) : N -> list (Z * Z) * list (Z * Z) := delta_of (c_base i) (c_deltas i).

Fixpoint find_inst (sid : N) (l : list icfg) : option icfg :=
  match l with
  | [] => None
  | i :: tl => if N.eqb sid (c_sid i) then Some i else find_inst sid tl
  end.

Definition level_eqb := pair_eqb Z.eqb Z.eqb.
Definition levels_eqb := list_eqb level_eqb.
Definition book_eqb (a b : book) : bool :=
  N.eqb (bseq a) (bseq b) && option_eqb Z.eqb (btime a) (btime b) &&
  levels_eqb (bids a) (bids b) && levels_eqb (asks a) (asks b).

Definition seq_eqb (v : venue) (a b : seqst) : bool :=
  N.eqb (sq_ups a) (sq_ups b) && N.eqb (sq_last a) (sq_last b) &&
  match v with Spot => N.eqb (sq_prev a) (sq_prev b) | Fut => true end.
    (* the futures sequencer has no prev_last_update_id field *)

Definition exch_code (v : venue) : N := match v with Spot => 0 | Fut => 1 end.

(** the level lists the harness sent for [d] *)
Definition msg_of (insts : list icfg) (d : dmsg) : msg :=
  let form := fun l => if d_net d then net l else l in
  match find_inst (d_sid d) insts with
  | Some i =>
      mkMsg (d_U d) (d_u d) (d_pu d) (d_E d) (d_T d)
            (form (payload (delta_i i) Bid (d_U d) (d_u d)))
            (form (payload (delta_i i) Ask (d_U d) (d_u d)))
  | None => mkMsg (d_U d) (d_u d) (d_pu d) (d_E d) (d_T d) [] []
  end.

Definition snapshot_event (i : icfg) : event := Snapshot (c_L i) (c_stime i) (c_sbids i) (c_sasks i).

(* ---- corr_b : the model reproduces the observations ------------------------------------------ *)

Definition out_matches (v : venue) (o : tout) (c : oclass) : bool :=
  match o, c with
  | TNone, ONone => true
  | TErr (InvalidSequence a b), OErrSeq a' b' t =>
      N.eqb a a' && N.eqb b b' && Bool.eqb t (is_terminal (InvalidSequence a b))
  | TErr (SocketUnidentifiable s), OErrSocket t => Bool.eqb t (is_terminal (SocketUnidentifiable s))
  | TEvent key te (Update sq tm _ _), OEvent key' ex upd te' sq' tm' =>
      N.eqb key key' && N.eqb ex (exch_code v) && upd && Z.eqb te te' && N.eqb sq sq' &&
      option_eqb Z.eqb tm tm'
  | _, _ => false
  end.

Definition obs_matches (v : venue) (t : list (N * meta)) (bs : list (N * book)) (o : tout) (ob : sobs) : bool :=
  out_matches v o (o_out ob) &&
  list_eqb (seq_eqb v) (map (fun x => mt_seq (snd x)) t) (o_seqs ob) &&
  match o with
  | TEvent key _ _ =>
      match bfind key bs, o_book ob with
      | Some b, Some b' => book_eqb b b'
      | _, _ => false
      end
  | _ => match o_book ob with None => true | Some _ => false end
  end.

Fixpoint corr_stream (v : venue) (insts : list icfg) (st : list (N * meta) * list (N * book))
         (ds : list dmsg) (os : list sobs) : option (list (N * book)) :=
  match ds, os with
  | [], [] => Some (snd st)
  | d :: ds', o :: os' =>
      let '(st', out) := tstep v st (d_sid d, msg_of insts d) in
      if obs_matches v (fst st') (snd st') out o then corr_stream v insts st' ds' os' else None
  | _, _ => None
  end.

Definition seq_res_matches (s : seqst) (U : N) (r : vres) (o : sres) : bool :=
  match r, o with
  | VDrop, RDrop => true
  | VOk, ROk same => same
  | VErr (InvalidSequence a b), RErrSeq a' b' t => N.eqb a a' && N.eqb b b' && t
  | _, _ => false
  end.

Definition init_matches (v : venue) (r : init_result) (o : init_obs) (seqs : list seqst) : bool :=
  match r, o with
  | InitOk t, IOk => list_eqb (seq_eqb v) (map (fun x => mt_seq (snd x)) t) seqs
  | InitSnapshotMissing s, IMissing s' => N.eqb s s'
  | InitSnapshotInvalid, IInvalid => true
  | _, _ => false
  end.

Definition mk_event (x : bool * N) : event :=
  if fst x then Snapshot (snd x) None [] [] else Update (snd x) None [] [].

Definition corr_b (c : case) : bool :=
  match c with
  | CSeq v s U u pu r s' =>
      let '(s1, r1) := validate_sequence v s (mkMsg U u pu 0 0 [] []) in
      seq_res_matches s U r1 r && seq_eqb v s1 s'
  | CStream v insts ds os final =>
      match init (map (fun i => (c_sid i, c_key i)) insts)
                 (map (fun i => (c_key i, snapshot_event i)) insts) with
      | InitOk t0 =>
          let bs0 := map (fun i => (c_key i, update empty_book (snapshot_event i))) insts in
          match corr_stream v insts (t0, bs0) ds os with
          | Some bs => list_eqb book_eqb (map snd bs) final
          | None => false
          end
      | _ => false
      end
  | CInit v imap snaps r seqs =>
      init_matches v (init imap (map (fun x => (fst x, mk_event (snd x))) snaps)) r seqs
  | CCrash _ => false
  end.

(* ---- the oracle ------------------------------------------------------------------------------- *)

(** the venue's published rule (quoted in spot/l2.rs and futures/l2.rs) *)
Definition older_b (v : venue) (l u : N) : bool :=
  match v with Spot => N.leb u l | Fut => N.ltb u l end.
Definition first_rule_b (v : venue) (l U u : N) : bool :=
  match v with
  | Spot => N.leb U (l + 1) && N.leb (l + 1) u
  | Fut => N.leb U l && N.leb l u
  end.
Definition next_rule_b (v : venue) (prev_u U pu : N) : bool :=
  match v with Spot => N.eqb U (prev_u + 1) | Fut => N.eqb pu prev_u end.

(** single call: expected classification from the rule; state advances only on success *)
Definition prop_seq (v : venue) (s : seqst) (U u pu : N) (r : sres) (s' : seqst) : bool :=
  let unchanged := N.eqb (sq_ups s') (sq_ups s) && N.eqb (sq_last s') (sq_last s) in
  let rule := if N.eqb (sq_ups s) 0 then first_rule_b v (sq_last s) U u
              else next_rule_b v (sq_last s) U pu in
  if older_b v (sq_last s) u then (match r with RDrop => unchanged | _ => false end)
  else if rule then
    (match r with ROk same => same && N.eqb (sq_ups s') (sq_ups s + 1) && N.eqb (sq_last s') u | _ => false end)
  else
    (match r with RErrSeq _ _ t => t && unchanged | _ => false end).

(** observed side [l] represents map [m] on the price grid *)
Definition side_is_map (s : side) (grid : list Z) (m : pmap) (l : list (Z * Z)) : bool :=
  strict_sorted s l &&
  forallb (fun x => option_eqb Z.eqb (m (fst x)) (Some (snd x))) l &&
  forallb (fun p => option_eqb Z.eqb (m p) (lookup l p)) grid.

Fixpoint dedup (l : list Z) : list Z :=
  match l with
  | [] => []
  | x :: tl => if existsb (Z.eqb x) tl then dedup tl else x :: dedup tl
  end.

Definition grid_of (i : icfg) : list Z :=
  dedup (map fst (c_sbids i) ++ map fst (c_sasks i) ++
         flat_map (fun d => map fst (fst d) ++ map fst (snd d)) (c_deltas i)).

(** the exchange's book as of id [n], computed from the first id that changes anything and
    no further than the last one (ids may be as large as 2^64 - 2: never count from 0) *)
Definition Bcap (i : icfg) (sd : side) (n : N) : pmap :=
  spec_upsert pempty (payload (delta_i i) sd (c_base i)
                              (N.min n (c_base i + N.of_nat (length (c_deltas i))))).

(** the observed book equals the simulated exchange's book as of the sequence it reports *)
Definition obs_book_is (i : icfg) (b : book) : bool :=
  let g := grid_of i in
  side_is_map Bid g (Bcap i Bid (bseq b)) (bids b) && side_is_map Ask g (Bcap i Ask (bseq b)) (asks b).

(** is the delivered message truthful about the simulated exchange?  (levels are derived from
    the changes by construction; ids: U <= u, and for futures pu < U with no change in between) *)
Definition genuine_b (v : venue) (i : icfg) (d : dmsg) : bool :=
  N.leb (d_U d) (d_u d) &&
  match v with
  | Spot => true
  | Fut => N.ltb (d_pu d) (d_U d) && N.leb (d_U d - d_pu d) 4096 &&
           forallb (fun k => let n := (d_pu d + 1 + N.of_nat k)%N in
                             match delta_i i n with ([], []) => true | _ => false end)
                   (seq 0 (N.to_nat (d_U d - d_pu d - 1)))
  end.

Definition memN (x : N) (l : list N) : bool := existsb (N.eqb x) l.

(** walk the delivery; [stopped] = instruments no longer judged (an error told the consumer the
    book is invalid - the connection would be re-initialised - or a non-genuine message was
    delivered).  Returns None on an oracle failure. *)
Fixpoint prop_steps (v : venue) (insts : list icfg) (stopped : list N)
         (ds : list dmsg) (os : list sobs) : option (list N) :=
  match ds, os with
  | [], [] => Some stopped
  | d :: ds', o :: os' =>
      match find_inst (d_sid d) insts with
      | None =>
          (* nobody is subscribed under this id: no event may come out *)
          match o_out o with
          | OEvent _ _ _ _ _ _ => None
          | _ => prop_steps v insts stopped ds' os'
          end
      | Some i =>
          let sid := d_sid d in
          if memN sid stopped then prop_steps v insts stopped ds' os'
          else if negb (genuine_b v i d) then prop_steps v insts (sid :: stopped) ds' os'
          else
            match o_out o with
            | ONone => prop_steps v insts stopped ds' os'
            | OEvent key _ _ _ _ _ =>
                if N.eqb key (c_key i) &&
                   match o_book o with Some b => obs_book_is i b | None => false end
                then prop_steps v insts stopped ds' os' else None
            | OErrSeq _ _ t =>
                if t then prop_steps v insts (sid :: stopped) ds' os' else None
            | OErrSocket t | OErrOther t =>
                prop_steps v insts (if t then sid :: stopped else stopped) ds' os'
            | OMany _ | OPanic => prop_steps v insts (sid :: stopped) ds' os'
            end
      end
  | _, _ => None
  end.

(** the (message, output) pairs of one subscription id *)
Fixpoint of_sid (sid : N) (ds : list dmsg) (os : list sobs) : list (dmsg * oclass) :=
  match ds, os with
  | d :: ds', o :: os' =>
      if N.eqb (d_sid d) sid then (d, o_out o) :: of_sid sid ds' os' else of_sid sid ds' os'
  | _, _ => []
  end.

Fixpoint take_while {A} (f : A -> bool) (l : list A) : list A :=
  match l with [] => [] | x :: tl => if f x then x :: take_while f tl else [] end.
Fixpoint drop_while {A} (f : A -> bool) (l : list A) : list A :=
  match l with [] => [] | x :: tl => if f x then drop_while f tl else l end.

Fixpoint chain_from_b (v : venue) (prev_u : N) (l : list dmsg) : bool :=
  match l with
  | [] => true
  | d :: tl => next_rule_b v prev_u (d_U d) (d_pu d) && chain_from_b v (d_u d) tl
  end.
Definition chain_ok_b (v : venue) (l : N) (ms : list dmsg) : bool :=
  match ms with
  | [] => true
  | d :: tl => first_rule_b v l (d_U d) (d_u d) && chain_from_b v (d_u d) tl
  end.
Definition ids_wf_b (v : venue) (d : dmsg) : bool :=
  N.leb (d_U d) (d_u d) && match v with Spot => true | Fut => N.ltb (d_pu d) (d_U d) end.

Definition is_event (c : oclass) : bool := match c with OEvent _ _ _ _ _ _ => true | _ => false end.
Definition is_none (c : oclass) : bool := match c with ONone => true | _ => false end.

(** "a gap-free in-order delivery, preceded by any number of strictly older messages, never
    errors": when an instrument's delivery has that shape, the older ones are dropped and every
    message of the stream comes out as an event *)
Definition no_false_alarm_b (v : venue) (i : icfg) (ps : list (dmsg * oclass)) : bool :=
  let isold := fun p : dmsg * oclass => older_b v (c_L i) (d_u (fst p)) in
  let old := take_while isold ps in
  let suffix := drop_while isold ps in
  if forallb (fun p => ids_wf_b v (fst p)) suffix && chain_ok_b v (c_L i) (map fst suffix)
  then forallb (fun p => is_none (snd p)) old && forallb (fun p => is_event (snd p)) suffix
  else true.

(** the admitted messages (up to the first output that is neither nothing nor an event) form a
    chain under the venue's rule *)
Definition admitted_chain_b (v : venue) (i : icfg) (ps : list (dmsg * oclass)) : bool :=
  let upto := take_while (fun p : dmsg * oclass => is_none (snd p) || is_event (snd p)) ps in
  chain_ok_b v (c_L i) (map fst (filter (fun p => is_event (snd p)) upto)).

Fixpoint zip_final (insts : list icfg) (final : list book) : option (list (icfg * book)) :=
  match insts, final with
  | [], [] => Some []
  | i :: it, b :: bt => option_map (cons (i, b)) (zip_final it bt)
  | _, _ => None
  end.

Definition prop_b (c : case) : bool :=
  match c with
  | CSeq v s U u pu r s' => prop_seq v s U u pu r s'
  | CStream v insts ds os final =>
      match prop_steps v insts [] ds os, zip_final insts final with
      | Some stopped, Some fin =>
          forallb (fun ib => memN (c_sid (fst ib)) stopped || obs_book_is (fst ib) (snd ib)) fin &&
          forallb (fun i => let ps := of_sid (c_sid i) ds os in
                            no_false_alarm_b v i ps && admitted_chain_b v i ps) insts
      | _, _ => false
      end
  | CInit _ _ _ _ _ => true    (* initialisation is not part of the property statement *)
  | CCrash _ => false
  end.

(* ---- input requirements of a stream case (checked, not trusted) ------------------------------- *)

Fixpoint nodupN (l : list N) : bool :=
  match l with [] => true | x :: tl => negb (memN x tl) && nodupN tl end.

(** the REST snapshot is the simulated exchange's book as of its id; subscription ids and
    instrument keys are pairwise distinct *)
Definition wf_stream (insts : list icfg) : bool :=
  nodupN (map c_sid insts) && nodupN (map c_key insts) &&
  forallb (fun i => nodup_prices (c_sbids i) && nodup_prices (c_sasks i) &&
                    obs_book_is i (update empty_book (snapshot_event i))) insts.

Definition known_b (c : case) : N := 0.

(** the input requirements of a case (only stream cases have any) *)
Definition in_domain (c : case) : bool :=
  match c with
  | CStream _ insts _ _ _ => wf_stream insts
  | _ => true
  end.

(** a stream case whose inputs do not meet the requirements is a harness defect: reported as a
    disagreement (1), never silently skipped *)
Definition judge (c : case) : N :=
  if in_domain c then judge_code (corr_b c) (prop_b c) (known_b c) else 1%N.
