(** C20 correspondence: case type, [corr_b] (the model run over the feed the engine was observed to
    see reproduces what the engine processed), [prop_b] (the OBSERVED behaviour satisfies the
    property's executable oracle, written against the dataset and the alone runs — it does not
    call the model's [run]), [known_b] (class 1 = recorded finding, see below). *)
From BV Require Export Base.Common Model.Backtest.

(** what an engine processed, in order: a market-stream event (code = position-independent
    identity of the event content, assigned by the harness: equal content, equal code) or an
    account event (0 snapshot, 1 balance, 2 order filled, 3 order failed, 4 order other,
    5 cancel response, 6 trade) *)
Inductive lev := LM (code : Z) | LA (kind : N).

Record run_obs := mkRun {
  r_bt : N;            (* which backtest (strategy parameterisation) *)
  r_workers : N;       (* 0 = run alone (multi-thread runtime); 1000 = run alone on a current_thread
                          runtime; 99 = member of a batch on a current_thread runtime; else worker
                          threads of the multi-thread runtime of the concurrent batch it ran in *)
  r_pos_id : N;        (* this run is position [r_bt] of its batch: which backtest's id does the
                          summary found at that position of the returned Vec carry
                          (9999 = none of the batch's ids) *)
  r_outcome : N;       (* 0 Ok(summary), 1 Err, 2 panic, 3 timeout, 4 summary missing/duplicated *)
  r_log : list lev;    (* events processed by that backtest's engine *)
  r_fp : N;            (* fingerprint of fills, final positions, orders, balances, realised PnL,
                          win rate, profit factor, drawdown values (timestamps excluded) *)
  r_nfills : N;
  r_pnl : Z;           (* realised PnL over all instruments, 1e-12 units *)
  r_sum_ok : bool;     (* the summary found at this run's POSITION = the repo's generators applied
                          to THIS backtest's own engine's final instrument / asset state, with
                          this backtest's id and risk-free rate (distinct per backtest) *)
  r_clock_ok : bool;   (* every fill this engine processed is stamped (minute resolution) by this
                          backtest's own clock: the latest market time its engine had processed
                          (paced feed) / within [first dataset time, latest processed] (plain) *)
  r_fills_ok : bool;   (* paced feed: every order sent got its response, every order the mock
                          exchange accepted produced exactly one fill and one balance update that
                          reached this engine, and the account stream never re-synchronised
                          (plain feed: true — fills behind Shutdown are known finding class 1) *)
  r_clock_regressed : bool
                       (* observed: the mock exchange's clock went backwards between two orders it
                          accepted one after the other (sequence numbers i < j on one exchange,
                          exchange time of fill j earlier than that of fill i) *)
}.

Record case := mkCase {
  c_paced : bool;            (* paced feed (fills deterministic) or plain MarketDataInMemory *)
  c_fatal : option N;        (* dataset position of the market event whose tick is fatal *)
  c_fail : bool;             (* failing source: the market stream of ONE backtest of the case dies
                                (panics: corrupt record) after part of the dataset; the others
                                get healthy streams of the same shared source *)
  c_ds : list Z;             (* the dataset, as event codes *)
  c_intact : bool;           (* the one dataset Vec shared (Arc) by all backtests of the case is
                                byte-for-byte what it was before the runs *)
  c_nbt : N;                 (* number of backtests *)
  c_runs : list run_obs }.

(* ---- the model instance used for the correspondence -------------------------------------- *)

Notation mev := (ev Z N).

(** engine state = number of market-stream events processed; the tick of the market event at
    dataset position [f] is fatal *)
Definition cstep (fatal : option N) (s : N) (e : mev) : N * bool :=
  match e with
  | EMarket _ => ((s + 1)%N, match fatal with Some f => N.eqb f s | None => false end)
  | _ => (s, false)
  end.

Definition lev_ev (l : lev) : mev := match l with LM c => EMarket c | LA k => EAccount k end.
Definition is_lm (l : lev) : bool := match l with LM _ => true | LA _ => false end.
Definition acct_kinds (log : list lev) : list N :=
  flat_map (fun l => match l with LA k => [k] | LM _ => [] end) log.
Definition market_codes (log : list lev) : list Z :=
  flat_map (fun l => match l with LM c => [c] | LA _ => [] end) log.

Definition ev_eqb (a b : mev) : bool :=
  match a, b with
  | EMarket x, EMarket y => Z.eqb x y
  | EAccount x, EAccount y => N.eqb x y
  | EShutdown, EShutdown => true
  | _, _ => false
  end.

Definition stop_eqb (a b : stop) : bool :=
  match a, b with
  | FeedEnded, FeedEnded | StopShutdown, StopShutdown | StopFatal, StopFatal => true
  | _, _ => false
  end.

(** the feed the model runs on: dataset ++ [Shutdown] woven with the observed account events at
    the observed positions; whatever was not observed follows *)
Definition model_feed (ds : list Z) (log : list lev) : option (list mev) :=
  weave (map EMarket ds ++ [EShutdown]) (map EAccount (acct_kinds log)) (map is_lm log).

Definition corr_run (fatal : option N) (ds : list Z) (r : run_obs) : bool :=
  match model_feed ds (r_log r) with
  | None => false
  | Some feed =>
      let res := run (cstep fatal) 0%N feed in
      match fatal with
      | None =>
          N.eqb (r_outcome r) 0 &&
          stop_eqb (outcome res) StopShutdown &&
          list_eqb ev_eqb (processed res) (map lev_ev (r_log r) ++ [EShutdown])
      | Some _ =>
          (N.eqb (r_outcome r) 0 || N.eqb (r_outcome r) 2) &&
          stop_eqb (outcome res) StopFatal &&
          list_eqb ev_eqb (processed res) (map lev_ev (r_log r))
      end
  end.

(** batches: the model's [run_backtests] is a [map] over the argument sets, so the summary at
    output position i is the i-th backtest's (Proofs.Backtest.batch_positional); with the
    backtests numbered by argument position, the ids found at positions 0,1,2,… must be those
    of backtests 0,1,2,… *)
Definition model_batch_ids (nbt : N) : list N :=
  (* model backtest i is fed [EMarket i; Shutdown]; its engine remembers the last market code and
     its summary is that code: the model batch returns [0; 1; 2; …] *)
  run_backtests (fun (s : N) (e : mev) => (match e with EMarket c => Z.to_N c | _ => s end, false))
                (fun s : N => s) 0%N
                (map (fun i => [EMarket (Z.of_nat i); EShutdown]) (seq 0 (N.to_nat nbt))).

Definition corr_positions (c : case) : bool :=
  forallb (fun w =>
    list_eqb N.eqb
      (map r_pos_id (filter (fun r => N.eqb (r_workers r) w) (c_runs c)))
      (model_batch_ids (c_nbt c)))
    (fold_right (fun r acc => if existsb (N.eqb (r_workers r)) acc then acc else r_workers r :: acc)
                [] (c_runs c)).

(** failing source: a run that came back as Err saw the delivered prefix and no Shutdown — in the
    model the feed simply ends there ([FeedEnded]) *)
Definition corr_run_failed_source (ds : list Z) (r : run_obs) : bool :=
  let res := run (cstep None) 0%N (map lev_ev (r_log r)) in
  stop_eqb (outcome res) FeedEnded &&
  list_eqb ev_eqb (processed res) (map lev_ev (r_log r)) &&
  (fix pre (l1 l2 : list Z) : bool :=
     match l1, l2 with
     | [], _ => true
     | x :: t1, y :: t2 => Z.eqb x y && pre t1 t2
     | _, [] => false
     end) (market_codes (r_log r)) ds.

Definition corr_b (c : case) : bool :=
  c_intact c &&     (* the model's dataset is a value: no run can change it *)
  forallb (fun r => if c_fail c && N.eqb (r_outcome r) 1
                    then corr_run_failed_source (c_ds c) r
                    else corr_run (c_fatal c) (c_ds c) r) (c_runs c) &&
  (match c_runs c with [] => true | _ => corr_positions c end).

(* ---- oracle ---------------------------------------------------------------------------- *)

Fixpoint is_prefix (l1 l2 : list Z) : bool :=
  match l1, l2 with
  | [], _ => true
  | x :: t1, y :: t2 => Z.eqb x y && is_prefix t1 t2
  | _, [] => false
  end.

Fixpoint nseq (start : N) (len : nat) : list N :=
  match len with O => [] | S k => start :: nseq (start + 1)%N k end.

Definition workers_of (c : case) : list N :=
  fold_right (fun r acc => if existsb (N.eqb (r_workers r)) acc then acc else r_workers r :: acc)
             [] (c_runs c).

(** every batch (alone runs count as one batch) returned exactly one result per backtest *)
Definition batches_complete (c : case) : bool :=
  forallb (fun w =>
    list_eqb N.eqb
      (map r_bt (filter (fun r => N.eqb (r_workers r) w) (c_runs c)))
      (nseq 0 (N.to_nat (c_nbt c))))
    (workers_of c).

(** schedule independent part: each engine was fed its whole dataset, in order, each event once,
    and the summary returned for it was computed from that engine *)
Definition run_hard (c : case) (r : run_obs) : bool :=
  match c_fatal c with
  | None =>
      (* failing source: an Err is fine (and is what the unchanged code returns, for the whole
         batch too); an Ok summary is only acceptable from a fully fed engine, i.e. under the
         ordinary conditions below *)
      (c_fail c && N.eqb (r_outcome r) 1) ||
      N.eqb (r_outcome r) 0 && list_eqb Z.eqb (market_codes (r_log r)) (c_ds c) && r_sum_ok r &&
      N.eqb (r_pos_id r) (r_bt r) && r_clock_ok r && r_fills_ok r
  | Some _ =>
      (N.eqb (r_outcome r) 0 || N.eqb (r_outcome r) 2) &&
      is_prefix (market_codes (r_log r)) (c_ds c) &&
      (negb (N.eqb (r_outcome r) 0) || (r_sum_ok r && N.eqb (r_pos_id r) (r_bt r)))
  end.

Definition hard_b (c : case) : bool :=
  c_intact c && batches_complete c && forallb (run_hard c) (c_runs c).

(** isolation part: a backtest run inside a concurrent batch has the fills, final positions,
    balances and realised PnL it has when run alone *)
Definition same_as_alone (c : case) (r : run_obs) : bool :=
  N.eqb (r_workers r) 0 ||
  existsb (fun a => N.eqb (r_workers a) 0 && N.eqb (r_bt a) (r_bt r) &&
                    N.eqb (r_fp a) (r_fp r) && N.eqb (r_nfills a) (r_nfills r) &&
                    Z.eqb (r_pnl a) (r_pnl r))
          (c_runs c).

Definition isolated_b (c : case) : bool :=
  match c_fatal c with
  | Some _ => true     (* the property promises nothing once the engine stopped on a fatal error *)
  | None => c_fail c   (* nor about the state of a run that was aborted with an error *)
            || forallb (same_as_alone c) (c_runs c)
  end.

Definition prop_b (c : case) : bool := hard_b c && isolated_b c.

(** Known finding, class 1: under the plain in-memory feed the market forwarder enqueues the
    whole dataset at once and System::shutdown_after_backtest enqueues Shutdown right behind it,
    so execution responses (fills, balances) are queued after Shutdown and are processed or not
    depending on scheduling: fills / positions / PnL of one and the same backtest differ from
    run to run.  Only that difference is excused, only for the plain feed; the schedule
    independent part stays a hard failure, and so does any difference under the paced feed
    (except class 2 below). *)

(** Known finding, class 2: HistoricalClock::process re-bases the clock on every account event
    (time_exchange_last := event time, time_live_last_event := now), so HistoricalClock::time()
    steps backwards by the wall-clock age of that event; requests of one burst stamped around
    that moment get non-monotone times, the mock exchange stamps its balance snapshots with them
    and the engine's latest-wins guard drops the newest balance: the final balance is stale by a
    fill, depending on scheduling.  Excused only under the paced feed, only when all hard facts
    hold, and only if EVERY run that differs from its alone run shows (itself, or that alone
    run) an observed clock regression. *)
Definition regression_explains (c : case) (r : run_obs) : bool :=
  same_as_alone c r || r_clock_regressed r ||
  existsb (fun a => N.eqb (r_workers a) 0 && N.eqb (r_bt a) (r_bt r) && r_clock_regressed a)
          (c_runs c).

Definition known_b (c : case) : N :=
  if hard_b c && negb (isolated_b c) then
    if negb (c_paced c) then 1%N
    else if forallb (regression_explains c) (c_runs c) then 2%N else 0%N
  else 0%N.

Definition judge (c : case) : N := judge_code (corr_b c) (prop_b c) (known_b c).
